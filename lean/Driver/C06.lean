import Cherab.Drv.Proto
import Cherab.Model.Repository
import Cherab.Gen.RepoPaths
import Cherab.Model.RepoWrite
import Cherab.Gen.RepoWrites
open Cherab.Drv Cherab.Repository

/-!
C06 driver: replays a history of repository calls on the model (`Cherab.Repository` instantiated with the generated
tables `Cherab.Gen.RepoPaths.tables`).  Protocol (see harness/props/c06.py):

  upd <UpdFn> <root> <input>            -> ok | <Error>
  add <AddFn> <root> <n> {arg} <items>  -> ok | <Error>
  ins <InstallFn> <root> <n> {input}    -> ok | <Error>
  insfiles <root> <n> {<InstallFn> <m> {input}}            -> ok | <Error>     (install_files)
  populate <root> <n> {<InstallFn> <m> {input}} <input>    -> ok | <Error>     (repository.populate)
  get <GetFn> <root> <n> {arg}          -> ok <n> {k <n> {hex} v <rate>} | <Error>
  ls                                    -> files of the model file system, sorted
  cat <path>                            -> content of one file: ok <n> {k <n> {hex} v <rate>} | missing
  enc <level> <level>                   -> hex(encode_transition)
  wf                                    -> the five well-formedness flags of the generated tables
  reset                                 -> empty file system
-/

abbrev P := StateT (List String) (Except String)

def tok : P String := do
  match (← get) with
  | [] => throw "eof"
  | t :: ts => set ts; pure t

def rep {α : Type} (n : Nat) (p : P α) : P (List α) := (List.range n).mapM (fun _ => p)

def hexVal (c : Char) : Nat :=
  if c.isDigit then c.toNat - '0'.toNat
  else if 'a' ≤ c ∧ c ≤ 'f' then c.toNat - 'a'.toNat + 10
  else c.toNat - 'A'.toNat + 10

def unhexL : List Char → List Char
  | a :: b :: t => Char.ofNat (hexVal a * 16 + hexVal b) :: unhexL t
  | _ => []

def unhex (s : String) : String := if s == "-" then "" else String.ofList (unhexL s.toList)

def hexDigit (n : Nat) : Char := if n < 10 then Char.ofNat (n + '0'.toNat) else Char.ofNat (n - 10 + 'a'.toNat)

def hex (s : String) : String :=
  if s.isEmpty then "-" else String.ofList (s.toList.flatMap fun c => [hexDigit (c.toNat / 16), hexDigit (c.toNat % 16)])

def pStr : P String := do return unhex (← tok)
def pNat : P Nat := do return (← tok).toNat!
def pInt : P Int := do return (← tok).toInt!

def pLevel : P Level := do
  let t ← tok
  if t.startsWith "i" then return .int (t.drop 1).toString.toInt! else return .str (unhex (t.drop 1).toString)

def pArg : P Arg := do
  match ← tok with
  | "S" => do
    let e ← tok; let s ← pStr; let z ← pInt; let tag ← pInt
    return .sp ⟨e == "1", s, z, tag⟩
  | "I" => return .num (← pInt)
  | "C" => return .str (← pStr)
  | "T" => do let u ← pLevel; let l ← pLevel; return .tr u l
  | t => throw s!"bad arg {t}"

def pArgs : P (List Arg) := do rep (← pNat) pArg

def pArr : P Arr := do
  let nd ← pNat
  let shape ← rep nd pNat
  let n ← pNat
  let data ← rep n pNat
  return ⟨shape, data⟩

def pErr : P Err := do
  match ← tok with
  | "ValueError" => return .valueError
  | "KeyError" => return .keyError
  | "AttributeError" => return .attributeError
  | "RuntimeError" => return .runtimeError
  | _ => return .typeError

/-- one object of a rate dictionary: outcome of `np.array(x, float64)` (`A …` | `E <Error>`) and of `float(x)`
(`F <bits>` | `E <Error>`), computed by the harness with the real NumPy / float -/
def pRaw : P Raw := do
  let a ← (do match ← tok with
    | "A" => return .ok (← pArr)
    | _ => return .error (← pErr) : P (Except Err Arr))
  let f ← (do match ← tok with
    | "F" => return .ok ⟨[], [← pNat]⟩
    | _ => return .error (← pErr) : P (Except Err Arr))
  return ⟨a, f⟩

def pRate : P Rate := do
  rep (← pNat) (do let n ← pStr; let a ← pRaw; return (n, a))

def pItems : P (List (List Arg × Rate)) := do
  rep (← pNat) (do let a ← pArgs; let r ← pRate; return (a, r))

def pEntry : P FileEntry := do
  let a ← pArgs
  let i ← pItems
  return ⟨a, i⟩

def pInput : P UpdInput := do rep (← pNat) pEntry

def pRoot : P (Option Path) := do
  let t ← tok
  if t == "-" then return none else return some [unhex t]

def pUpd : P UpdFn := do
  match ← tok with
  | "ionisation" => return .ionisation | "recombination" => return .recombination
  | "thermalCx" => return .thermalCx | "linePower" => return .linePower
  | "continuumPower" => return .continuumPower | "cxPower" => return .cxPower | "pec" => return .pec
  | "pecThermalCx" => return .pecThermalCx | "wavelength" => return .wavelength | "beamCx" => return .beamCx
  | "beamStopping" => return .beamStopping | "beamPopulation" => return .beamPopulation
  | "beamEmission" => return .beamEmission
  | t => throw s!"bad update fn {t}"

def pAdd : P AddFn := do
  match ← tok with
  | "ionisation" => return .ionisation | "recombination" => return .recombination
  | "thermalCx" => return .thermalCx | "linePower" => return .linePower
  | "continuumPower" => return .continuumPower | "cxPower" => return .cxPower
  | "pecExcitation" => return .pecExcitation | "pecRecombination" => return .pecRecombination
  | "pecThermalCx" => return .pecThermalCx | "wavelength" => return .wavelength | "beamCx" => return .beamCx
  | "beamStopping" => return .beamStopping | "beamPopulation" => return .beamPopulation
  | "beamEmission" => return .beamEmission
  | t => throw s!"bad add fn {t}"

def pGet : P GetFn := do
  match ← tok with
  | "ionisation" => return .ionisation | "recombination" => return .recombination
  | "thermalCx" => return .thermalCx | "linePower" => return .linePower
  | "continuumPower" => return .continuumPower | "cxPower" => return .cxPower
  | "pecExcitation" => return .pecExcitation | "pecRecombination" => return .pecRecombination
  | "pecThermalCx" => return .pecThermalCx | "wavelength" => return .wavelength | "beamCx" => return .beamCx
  | "beamStopping" => return .beamStopping | "beamPopulation" => return .beamPopulation
  | "beamEmission" => return .beamEmission
  | t => throw s!"bad get fn {t}"

def pInstall : P InstallFn := do
  match ← tok with
  | "adf11scd" => return .adf11scd | "adf11acd" => return .adf11acd | "adf11ccd" => return .adf11ccd
  | "adf11plt" => return .adf11plt | "adf11prb" => return .adf11prb | "adf11prc" => return .adf11prc
  | "adf12" => return .adf12 | "adf15" => return .adf15 | "adf21" => return .adf21
  | "adf22bmp" => return .adf22bmp | "adf22bme" => return .adf22bme
  | t => throw s!"bad install fn {t}"

def fNats (l : List Nat) : String := " ".intercalate (l.map toString)

def fArr (a : Arr) : String :=
  s!"{a.shape.length} {fNats a.shape} {a.data.length} {fNats a.data}"

def fVal (v : Val) : String :=
  s!"{v.length} " ++ " ".intercalate (v.map fun (n, a) => s!"{hex n} {fArr a}")

def fRes (r : Res) : String :=
  match r.2 with
  | none => "ok"
  | some e => e.name

def T := Cherab.Gen.RepoPaths.tables

def strLe (a b : String) : Bool := a ≤ b

def step (fs : FS) (ts : List String) : FS × String :=
  let run : P (FS × String) := do
    match ← tok with
    | "upd" => do
      let u ← pUpd; let root ← pRoot; let inp ← pInput
      let r := update T u inp root fs
      return (r.1, fRes r)
    | "add" => do
      let a ← pAdd; let root ← pRoot; let args ← pArgs; let items ← pItems
      let r := add T a args items root fs
      return (r.1, fRes r)
    | "ins" => do
      let i ← pInstall; let root ← pRoot; let n ← pNat; let inps ← rep n pInput
      let r := install T i inps root fs
      return (r.1, fRes r)
    | "insfiles" => do
      let root ← pRoot; let n ← pNat
      let cfg ← rep n (do let i ← pInstall; let m ← pNat; let inps ← rep m pInput; return (i, inps))
      let r := installFiles T cfg root fs
      return (r.1, fRes r)
    | "populate" => do
      let root ← pRoot; let n ← pNat
      let cfg ← rep n (do let i ← pInstall; let m ← pNat; let inps ← rep m pInput; return (i, inps))
      let wl ← pInput
      let r := populate T cfg wl root fs
      return (r.1, fRes r)
    | "get" => do
      let g ← pGet; let root ← pRoot; let args ← pArgs
      match get T g args root fs with
      | .error e => return (fs, e.name)
      | .ok l =>
        let body := l.map fun (k, v) => s!"k {k.length} " ++ " ".intercalate (k.map hex) ++ " v " ++ fVal v
        return (fs, s!"ok {l.length} " ++ " ".intercalate body)
    | "ls" => do
      let ps := fs.map fun (p, _) => "/".intercalate p
      let ps := (ps.toArray.qsort strLe).toList
      return (fs, if ps.isEmpty then "-" else " ".intercalate (ps.map hex))
    | "cat" => do
      let p := (← pStr).splitOn "/"
      match fs.read p with
      | none => return (fs, "missing")
      | some l =>
        let body := l.map fun (k, v) => s!"k {k.length} " ++ " ".intercalate (k.map hex) ++ " v " ++ fVal v
        return (fs, s!"ok {l.length} " ++ " ".intercalate body)
    | "enc" => do
      let u ← pLevel; let l ← pLevel
      return (fs, hex (encodeTransition u l))
    | "wf" =>
      return (fs, " ".intercalate ([T.addMatches, T.getMatches, T.shapesOk, T.disjointOk, T.rootPassed].map fB))
    | "wseg" => do
      -- one file write of the named writer (table generated from the source) on a stored file, under an oracle that makes
      -- the first statement of the given kind raise: "validate" = a conversion/check, "json" = JSON rejects the object
      let name ← pStr; let kind ← tok
      match Cherab.Gen.RepoWrites.writeSegments.find? (fun e => e.1 == name) with
      | none => return (fs, "missing")
      | some (_, steps) =>
        let hits : Cherab.RepoWrite.WStep → Bool := fun st =>
          (kind == "validate" && st == .validate) || (kind == "json" && (st == .serialise || st == .dumpCaller))
        let first := (steps.findIdx? hits).getD steps.length
        let r := Cherab.RepoWrite.run steps (fun i => kind != "none" && i == first) (.valid (0 : Nat)) 1
        let d := match r.1 with
          | .valid 0 => "old" | .valid _ => "new" | .truncated => "truncated" | .absent => "absent"
        return (fs, s!"{if r.2 then "ok" else "err"} {d} {fB (Cherab.RepoWrite.safe steps)}")
    | "reset" => return ([], "ok")
    | t => throw s!"bad op {t}"
  match run.run ts with
  | .ok ((fs', out), _) => (fs', out)
  | .error e => (fs, "protocol-error " ++ e)

def main : IO UInt32 := do
  loop step (← IO.getStdin) (← IO.getStdout) ([] : FS)
  return 0
