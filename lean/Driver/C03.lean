import Cherab.Drv.Proto
import Cherab.Model.PassiveEmission
import Cherab.Model.BremsConfig
import Cherab.Gen.BremsFlags
import Cherab.Gen.Constants
import Cherab.Gen.PassiveFlags
open Cherab.Drv Cherab.Passive
open Cherab.Gen

/-!
C03 driver.  The atomic-data provider and the Gaunt factor are the *mock* functions of harness/props/c03.py, written
with the same operations in the same order (sums of dyadic multiples are exact, so both sides compute the same
doubles):

  rate(kind, e, c, de, dc, tr)(ne, te, td) = s0 * keyFactor * (1 + ne*a + te*b + td*d)
  gaunt(z, te, wvl) = g0 + g1*z + g2*te + g3*wvl
-/

def keyFactor (kind e c de dc tr : Nat) : Float :=
  1.0 + 1.0 * kind.toFloat + 0.0625 * e.toFloat + 0.001953125 * c.toFloat + 0.0001220703125 * de.toFloat
    + 0.000003814697265625 * dc.toFloat + 0.000000476837158203125 * tr.toFloat

def mockRate (s0 a b d : Float) (kf : Float) (ne te td : Float) : Float :=
  s0 * kf * (1.0 + ne * a + te * b + td * d)

def mockGaunt (g0 g1 g2 g3 : Float) (z te wvl : Float) : Float := g0 + g1 * z + g2 * te + g3 * wvl

/-- parse `n` species (elem z charge dens temp) -/
def parseSp : Nat → List String → List (Sp Float)
  | 0, _ => []
  | n + 1, e :: z :: c :: d :: t :: rest => ⟨pN e, pN z, pN c, pF d, pF t⟩ :: parseSp n rest
  | _, _ => []

def outCall (r : Option (Option Float)) : String :=
  match r with
  | none => "RuntimeError"
  | some none => "none"
  | some (some v) => fF v

def pairs : List Float → List (Float × Float)
  | a :: b :: t => (a, b) :: pairs t
  | _ => []

/-- split a flat list of (x, w) pairs into the rules of orders `lo … hi` -/
def splitRules : Nat → Nat → List (Float × Float) → List (List (Float × Float))
  | 0, _, _ => []
  | k + 1, order, l => l.take order :: splitRules k (order + 1) (l.drop order)

def bremsC (pi : Float) : Float :=
  bremsConst Float.sqrt pi Constants.ELEMENTARY_CHARGE Constants.VACUUM_PERMITTIVITY Constants.ELECTRON_REST_MASS
    Constants.SPEED_OF_LIGHT

def expF : Float := expFactor Constants.PLANCK_CONSTANT Constants.SPEED_OF_LIGHT Constants.ELEMENTARY_CHARGE

/-! round 6: `gsel p a g op…` — the Gaunt-factor selection machine (`Model/BremsConfig.lean`).
`p` 0/1, `a`/`g` 0 = None else identifier; ops `G<k>` `A<k>` `P` `C` `E`; the emission guard is the one read from the source (`Gen/BremsFlags.lean`); one token `out:gaunt:user:loaded` per op. -/
def optId (s : String) : Option Nat := if pN s == 0 then none else some (pN s)

def parseCfgOp (t : String) : Option BremsOp :=
  match t.toList with
  | 'G' :: r => some (.setGaunt (optId (String.mk r)))
  | 'A' :: r => some (.setAtomic (optId (String.mk r)))
  | ['P'] => some .setPlasma
  | ['C'] => some .change
  | ['E'] => some .eval
  | _ => none

def srcTok : Option GauntSrc → String
  | none => "-"
  | some (.user g) => s!"u{g}"
  | some (.provider a) => s!"p{a}"

def outTok : BremsOut → String
  | .silent => "ok"
  | .errNoPlasma => "np"
  | .errNoAtomic => "na"
  | .used g => srcTok (some g)
  | .nullDeref => "null"

def cfgTok (r : BremsCfg × BremsOut) : String :=
  s!"{outTok r.2}:{srcTok r.1.gaunt}:{if r.1.userProvided then 1 else 0}:{if r.1.loaded then 1 else 0}"

abbrev Rules := List (List (Float × Float))

def step (rules : Rules) (ts : List String) : Rules × String :=
  match ts with
  | "rules" :: lo :: hi :: rest =>
      let r := splitRules (pN hi + 1 - pN lo) (pN lo) (pairs (rest.map pF))
      (r, s!"ok {r.length}")
  | "line" :: kind :: le :: lc :: tr :: pi :: ne :: te :: s0 :: a :: b :: n :: rest =>
      let comp := parseSp (pN n) rest
      let k := if kind == "exc" then 0 else 1
      let prov : Nat → Nat → Float → Float → Float := fun e c x y =>
        mockRate (pF s0) (pF a) (pF b) 0.0 (keyFactor k e c 0 0 (pN tr)) x y 0.0
      let r := if kind == "exc" then excitationLine (pF pi) prov comp (pF ne) (pF te) (pN le) (pN lc)
               else recombinationLine (pF pi) prov comp (pF ne) (pF te) (pN le) (pN lc)
      (rules, outCall r)
  | "cx" :: le :: lc :: tr :: pi :: ne :: te :: s0 :: a :: b :: d :: n :: rest =>
      let comp := parseSp (pN n) rest
      -- thermal_cx_pec(donor element, donor charge, receiver element, receiver charge = lc+1, transition)
      let prov : Nat → Nat → Float → Float → Float → Float := fun de dc x y t =>
        mockRate (pF s0) (pF a) (pF b) (pF d) (keyFactor 2 (pN le) (pN lc + 1) de dc (pN tr)) x y t
      (rules, outCall (thermalCXLine PassiveFlags.thermalCXDonorDensityGuard PassiveFlags.thermalCXDonorTemperatureGuard
        (pF pi) prov comp (pF ne) (pF te) (pN le) (pN lc)))
  | "trp" :: e :: c :: pi :: ne :: te :: mn :: mx :: m0 :: m1 :: m2 :: s0 :: a :: b :: n :: rest =>
      let comp := parseSp (pN n) rest
      let has : Nat → Bool := fun k => if k == 0 then pB m0 else if k == 1 then pB m1 else pB m2
      let prov : Nat → Nat → Nat → Option (Float → Float → Float) := fun k el ch =>
        if has k then some (fun x y => mockRate (pF s0) (pF a) (pF b) 0.0 (keyFactor (3 + k) el ch 0 0 0) x y 0.0) else none
      (rules, outCall (totalRadiatedPower (pF pi) prov PassiveFlags.trpHydrogenIds comp (pF ne) (pF te) (pF mn) (pF mx)
        (pN e) (pN c)))
  | "bf" :: pi :: ne :: te :: wvl :: g0 :: g1 :: g2 :: g3 :: _n :: rest =>
      let zs := pairs (rest.map pF)
      (rules, fF (bremsFunction Float.sqrt Float.exp (bremsC (pF pi)) expF (mockGaunt (pF g0) (pF g1) (pF g2) (pF g3))
        (pF ne) (pF te) (zs.map (·.1)) (zs.map (·.2)) (pF wvl)))
  | "be" :: pi :: ne :: te :: mn :: delta :: bins :: rtol :: g0 :: g1 :: g2 :: g3 :: n :: rest =>
      let comp := parseSp (pN n) rest
      let r := bremsEmission Float.sqrt Float.exp (bremsC (pF pi)) expF (mockGaunt (pF g0) (pF g1) (pF g2) (pF g3))
        (gaussQuad rules (pF rtol)) comp (pF ne) (pF te) (pF mn) (pF delta) (pN bins)
      (rules, match r with
        | none => "none"
        | some [] => "empty"
        | some l => fFs l)
  | ["gq", rtol, a, b, k0, k1, k2, k3] =>
      let f : Float → Float := fun x => ((pF k3 * x + pF k2) * x + pF k1) * x + pF k0
      (rules, fF (gaussQuad rules (pF rtol) f (pF a) (pF b)))
  | ["gaunt", pi, z, te, wvl, umin, umax, g2min, g2max, i0, i1, i2] =>
      let ph : Float := expFactor Constants.PLANCK_CONSTANT Constants.SPEED_OF_LIGHT Constants.ELEMENTARY_CHARGE
      let br := gauntBranch Constants.RYDBERG_CONSTANT_EV ph (pF umin) (pF umax) (pF g2min) (pF g2max) (pF z) (pF te) (pF wvl)
      let v := gauntFactor Float.sqrt Float.log Float.log10 (fun x y => pF i0 + pF i1 * x + pF i2 * y) (pF pi)
        Constants.EULER_GAMMA Constants.RYDBERG_CONSTANT_EV ph (pF umin) (pF umax) (pF g2min) (pF g2max)
        (pF z) (pF te) (pF wvl)
      (rules, s!"{br} {fF v}")
  | "gsel" :: p :: a :: g :: ops =>
      (match ops.mapM parseCfgOp with
       | none => (rules, "bad-op")
       | some os => (rules, " ".intercalate ((cfgTrace BremsFlags.emissionGuardTestsGaunt (cfgInit (pN p == 1) (optId a) (optId g)) os).map cfgTok)))
  | ["radfn", pi, phi, mn, mx] => (rules, fF (radiationFunction (pF pi) (pF phi) (pF mn) (pF mx)))
  | ["consts", pi] => (rules, fFs [bremsC (pF pi), expF, recip4pi (pF pi)])
  | _ => (rules, "bad-op")

def main : IO UInt32 := do
  loop step (← IO.getStdin) (← IO.getStdout) []
  return 0
