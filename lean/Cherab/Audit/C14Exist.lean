import Cherab.Props.C14Exist
open Cherab.Props.C14
#print axioms system_solvable_2d
#print axioms system_solvable_3d
#print axioms ideal_solve_total_2d
#print axioms ideal_solve_total_3d
#print axioms inside_returns_value_2d
#print axioms inside_returns_value_3d
#print axioms node_value_returned_1d
#print axioms node_value_returned_2d
#print axioms node_value_returned_3d
#print axioms first_evaluation_fresh
#print axioms two_instances_independent
#print axioms two_instances_projection
