import Cherab.Model.Laser
import Cherab.Lemmas.Gaussian
import Mathlib.MeasureTheory.Group.Integral
import Mathlib.MeasureTheory.Integral.IntervalIntegral.Basic
import Mathlib.Tactic.NormNum.OfScientific

/-!
# C18 — the integral clauses, over ℝ

The model functions of `Model/Laser.lean` instantiated at `ℝ` with `exp := Real.exp`, `π := Real.pi`,
`sqrt := Real.sqrt`.  Uses the shared Gaussian lemma `Cherab.Lemmas.gauss1d/gauss2d`
(∫∫ exp(−x²/2σx²) exp(−y²/2σy²) = 2π σx σy).
-/
namespace Cherab.Props.C18Real
open Cherab.Laser Cherab.Lemmas Real MeasureTheory
set_option linter.unusedVariables false

/-- the real instance of the external functions; `erf`, `floorDiv`, `toNat` are irrelevant for the integrals -/
noncomputable def realExt (c : ℝ) (erf : ℝ → ℝ) : Ext ℝ :=
  { c := c, pi := π, sqrt := Real.sqrt, exp := Real.exp, erf := erf, floorDiv := fun _ _ => 0, toNat := fun _ => 0 }

theorem two_eq : (two : ℝ) = 2 := by simp [two]

/-- **transverse_integral_unit**: the bivariate Gaussian shape integrates to one over every cross-section -/
theorem transverse_integral_unit (sx sy : ℝ) (hx : 0 < sx) (hy : 0 < sy) :
    ∫ p : ℝ × ℝ, bivEval Real.exp (bivCache π sx sy) p.1 p.2 = 1 := by
  have h : ∀ p : ℝ × ℝ, bivEval Real.exp (bivCache π sx sy) p.1 p.2
      = (1 / (2 * π * sx * sy)) * (Real.exp (-(1 / (2 * sx ^ 2)) * p.1 ^ 2) * Real.exp (-(1 / (2 * sy ^ 2)) * p.2 ^ 2)) := by
    intro p
    simp only [bivEval, bivCache, Laser.sq, two_eq]
    rw [← Real.exp_add]
    congr 2
    ring
  simp_rw [h]
  rw [integral_const_mul, gauss2d sx sy hx hy]
  have : 2 * π * sx * sy ≠ 0 := by positivity
  field_simp

/-- ConstantBivariateGaussian: the energy density integrated over the cross-section is `E_p / (c τ)` at every z -/
theorem cbg_cross_section (c ep tau sx sy : ℝ) (erf : ℝ → ℝ) (hx : 0 < sx) (hy : 0 < sy) :
    ∫ p : ℝ × ℝ, cbgDensity (realExt c erf) ep tau sx sy p.1 p.2 = ep / (c * tau) := by
  simp only [cbgDensity, normalisation, realExt]
  rw [integral_const_mul, transverse_integral_unit sx sy hx hy, mul_one]

theorem gbmSigma2_pos (sw wl wz z : ℝ) (hsw : sw ≠ 0) : 0 < gbmSigma2 π sw wl wz z := by
  unfold gbmSigma2 Laser.sq
  have h1 : 0 < sw * sw := mul_self_pos.mpr hsw
  have h2 : 0 ≤ (z - wz) / rayleigh π sw wl * ((z - wz) / rayleigh π sw wl) := mul_self_nonneg _
  nlinarith

/-- the Gaussian-beam shape integrates to one over the cross-section at every axial position -/
theorem gbm_transverse_integral_unit (wl wz sw z : ℝ) (hsw : sw ≠ 0) :
    ∫ p : ℝ × ℝ, gbmEval π Real.exp wl wz sw p.1 p.2 z = 1 := by
  have hs2 := gbmSigma2_pos sw wl wz z hsw
  set s2 := gbmSigma2 π sw wl wz z with hs2def
  set s := Real.sqrt s2 with hsdef
  have hs : 0 < s := Real.sqrt_pos.mpr hs2
  have hss : s ^ 2 = s2 := Real.sq_sqrt hs2.le
  have h : ∀ p : ℝ × ℝ, gbmEval π Real.exp wl wz sw p.1 p.2 z
      = (1 / (2 * π * s2)) * (Real.exp (-(1 / (2 * s ^ 2)) * p.1 ^ 2) * Real.exp (-(1 / (2 * s ^ 2)) * p.2 ^ 2)) := by
    intro p
    simp only [gbmEval, Laser.sq, two_eq, ← hs2def]
    rw [← Real.exp_add, hss]
    congr 2
    field_simp
    ring
  simp_rw [h]
  rw [integral_const_mul, gauss2d s s hs hs]
  have : 2 * π * s2 ≠ 0 := by positivity
  rw [← hss]
  field_simp

/-- GaussianBeamAxisymmetric: cross-section integral `E_p / (c τ)` at every axial position -/
theorem gba_cross_section (c ep tau wl wz sw z : ℝ) (erf : ℝ → ℝ) (hsw : sw ≠ 0) :
    ∫ p : ℝ × ℝ, gbaDensity (realExt c erf) ep tau wl wz sw p.1 p.2 z = ep / (c * tau) := by
  simp only [gbaDensity, normalisation, realExt]
  rw [integral_const_mul, gbm_transverse_integral_unit wl wz sw z hsw, mul_one]

/-- 1-D Gaussian with a shifted centre -/
theorem gauss1d_shift (σ μ : ℝ) (hσ : 0 < σ) :
    ∫ z : ℝ, Real.exp (-(1 / (2 * σ ^ 2)) * (z - μ) ^ 2) = σ * Real.sqrt (2 * π) := by
  rw [integral_sub_right_eq_self (fun z : ℝ => Real.exp (-(1 / (2 * σ ^ 2)) * z ^ 2)) μ]
  exact gauss1d σ hσ

/-- **trivariate_volume_integral**: the trivariate shape integrates to one over ℝ³ -/
theorem trivariate_unit (mean sx sy sz : ℝ) (hx : 0 < sx) (hy : 0 < sy) (hz : 0 < sz) :
    ∫ p : ℝ × ℝ × ℝ, triEval Real.exp (triCache π Real.sqrt mean sx sy sz) p.1 p.2.1 p.2.2 = 1 := by
  have hsq : Real.sqrt (2 * π * (2 * π) * (2 * π)) = Real.sqrt (2 * π) * Real.sqrt (2 * π) * Real.sqrt (2 * π) := by
    rw [Real.sqrt_mul (by positivity), Real.sqrt_mul (by positivity)]
  have h : ∀ p : ℝ × ℝ × ℝ, triEval Real.exp (triCache π Real.sqrt mean sx sy sz) p.1 p.2.1 p.2.2
      = (1 / (Real.sqrt (2 * π * (2 * π) * (2 * π)) * sx * sy * sz)) *
        (Real.exp (-(1 / (2 * sx ^ 2)) * p.1 ^ 2) *
          ((fun q : ℝ × ℝ => Real.exp (-(1 / (2 * sy ^ 2)) * q.1 ^ 2) * Real.exp (-(1 / (2 * sz ^ 2)) * (q.2 - mean) ^ 2)) p.2)) := by
    intro p
    simp only [triEval, triCache, Laser.sq, two_eq]
    rw [← Real.exp_add, ← Real.exp_add]
    congr 2
    ring
  simp_rw [h]
  rw [integral_const_mul, Measure.volume_eq_prod,
    integral_prod_mul (f := fun x : ℝ => Real.exp (-(1 / (2 * sx ^ 2)) * x ^ 2))
      (g := fun q : ℝ × ℝ => Real.exp (-(1 / (2 * sy ^ 2)) * q.1 ^ 2) * Real.exp (-(1 / (2 * sz ^ 2)) * (q.2 - mean) ^ 2)),
    Measure.volume_eq_prod,
    integral_prod_mul (f := fun y : ℝ => Real.exp (-(1 / (2 * sy ^ 2)) * y ^ 2))
      (g := fun z : ℝ => Real.exp (-(1 / (2 * sz ^ 2)) * (z - mean) ^ 2)),
    gauss1d sx hx, gauss1d sy hy, gauss1d_shift sz mean hz, hsq]
  have : Real.sqrt (2 * π) ≠ 0 := by positivity
  field_simp

/-- TrivariateGaussian: the full volume integral of the energy density is the pulse energy -/
theorem trivariate_volume_integral (c ep mean sx sy sz : ℝ) (erf : ℝ → ℝ) (hx : 0 < sx) (hy : 0 < sy) (hz : 0 < sz) :
    ∫ p : ℝ × ℝ × ℝ, triDensity (realExt c erf) ep mean sx sy sz p.1 p.2.1 p.2.2 = ep := by
  simp only [triDensity, realExt]
  rw [integral_const_mul, trivariate_unit mean sx sy sz hx hy hz, mul_one]

/-! ## GaussianSpectrum: bin power = ∫ density over the bin -/

/-- the real error function, `erf x = 2/√π ∫₀ˣ e^{−t²} dt` (Mathlib has none) -/
noncomputable def erfR (x : ℝ) : ℝ := 2 / Real.sqrt π * ∫ t in (0 : ℝ)..x, Real.exp (-t ^ 2)

theorem intervalIntegrable_gauss (a b : ℝ) : IntervalIntegrable (fun t : ℝ => Real.exp (-t ^ 2)) volume a b :=
  (by fun_prop : Continuous fun t : ℝ => Real.exp (-t ^ 2)).intervalIntegrable a b

/-- the density `evaluate` with the constants cached by the `stddev` setter (`_normalisation = 1/(σ√(2π))`,
`_recip_stddev = 1/σ`) integrates over `[a, b]` to the erf difference used by `_get_bin_power_spectral_density`
(with `_norm_cdf = 1/(σ√2)`) -/
theorem gauss_density_integral (mean σ a b : ℝ) (hσ : 0 < σ) :
    ∫ x in a..b, gaussEval Real.exp (1 / (σ * Real.sqrt (two * π))) mean (1 / σ) x
      = 0.5 * (erfR ((b - mean) * (1 / (σ * Real.sqrt two))) - erfR ((a - mean) * (1 / (σ * Real.sqrt two)))) := by
  rw [two_eq]
  set k := 1 / (σ * Real.sqrt 2) with hk
  have hs2 : 0 < Real.sqrt 2 := by positivity
  have hkpos : 0 < k := by positivity
  have hk2 : k ^ 2 = 1 / (2 * σ ^ 2) := by
    rw [hk, div_pow, mul_pow, Real.sq_sqrt (by norm_num)]; ring
  have h : ∀ x : ℝ, gaussEval Real.exp (1 / (σ * Real.sqrt (2 * π))) mean (1 / σ) x
      = (1 / (σ * Real.sqrt (2 * π))) * (fun t : ℝ => Real.exp (-t ^ 2)) (k * x - k * mean) := by
    intro x
    simp only [gaussEval, Laser.sq]
    congr 2
    have : (k * x - k * mean) ^ 2 = k ^ 2 * (x - mean) ^ 2 := by ring
    rw [this, hk2]
    norm_num
    field_simp
  simp_rw [h]
  rw [intervalIntegral.integral_const_mul, intervalIntegral.integral_comp_mul_sub (fun t : ℝ => Real.exp (-t ^ 2)) hkpos.ne' (k * mean)]
  have hA : (b - mean) * k = k * b - k * mean := by ring
  have hB : (a - mean) * k = k * a - k * mean := by ring
  rw [hA, hB, erfR, erfR,
    ← intervalIntegral.integral_interval_sub_left (intervalIntegrable_gauss 0 _) (intervalIntegrable_gauss 0 _)]
  have hpi : Real.sqrt (2 * π) = Real.sqrt 2 * Real.sqrt π := Real.sqrt_mul (by norm_num) π
  have hsp : 0 < Real.sqrt π := by positivity
  rw [hpi, hk, smul_eq_mul]
  norm_num
  field_simp

/-- … and the density is a unit-power line: it integrates to one over the whole axis, so the bin powers sum to one
in the limit where the range spans the line -/
theorem gauss_density_total (mean σ : ℝ) (hσ : 0 < σ) :
    ∫ x : ℝ, gaussEval Real.exp (1 / (σ * Real.sqrt (two * π))) mean (1 / σ) x = 1 := by
  rw [two_eq]
  have h : ∀ x : ℝ, gaussEval Real.exp (1 / (σ * Real.sqrt (2 * π))) mean (1 / σ) x
      = (1 / (σ * Real.sqrt (2 * π))) * Real.exp (-(1 / (2 * σ ^ 2)) * (x - mean) ^ 2) := by
    intro x
    simp only [gaussEval, Laser.sq]
    congr 2
    norm_num
    field_simp
  simp_rw [h]
  rw [integral_const_mul, gauss1d_shift σ mean hσ]
  have : σ * Real.sqrt (2 * π) ≠ 0 := by positivity
  field_simp

end Cherab.Props.C18Real
