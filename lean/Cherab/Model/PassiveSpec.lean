/-
C03 — the *documented* wavelength-integrated emission of each passive model, written from the class docstrings and the
property text (properties.jsonl C03), not from the code: sums over the whole composition with indicator conditions.

  excitation      (1/4π) n_e n_i PEC(n_e,T_e)                     n_i  = density of (element, charge) of the line
  recombination   (1/4π) n_e n_{i+1} PEC(n_e,T_e)                 n_{i+1} = density of (element, charge+1)
  thermal CX      (1/4π) n_{i+1} Σ_d n_d PEC_d(n_e,T_e,T_d)       d over all species except the receiver and bare nuclei
  total radiated  (1/(4π Δλ)) (n_i n_e C_exc + n_{i+1} n_e C_rec + n_{i+1} n_hyd C_cx),  n_hyd = all hydrogen-isotope neutrals
  bremsstrahlung  Hutchinson (5.3.40) converted to wavelength (nm), Σ over all species of n_i g_ff(Z_i,T_e,λ) Z_i²

and the clause "zero whenever a density or temperature it depends on is non-positive": a factor of the whole expression
(n_e, T_e, the line's target density) switches the whole emission off; in a sum every term is switched off by its own
density / temperature.  Mathlib-free.
-/
import Cherab.Model.PassiveEmission

namespace Cherab.PassiveSpec
open Cherab.Passive

section
variable {α : Type} [Add α] [Sub α] [Mul α] [Div α] [Neg α] [Zero α] [One α] [OfScientific α] [NatCast α]
  [LT α] [LE α] [DecidableLT α] [DecidableLE α] [BEq α]

/-- Σ over the composition -/
def sumOver (comp : List (Sp α)) (f : Sp α → α) : α := (comp.map f).sum

/-- spectral line driven by electrons on the species `(e, c)` with rate coefficient `rate` -/
def line (pi : α) (rate : α → α → α) (comp : List (Sp α)) (ne te : α) (e c : Nat) : α :=
  if 0 < ne ∧ 0 < te then
    sumOver comp fun s =>
      if s.elem = e ∧ s.charge = c ∧ 0 < s.dens then 1 / (4.0 * pi) * ne * s.dens * rate ne te else 0
  else 0

/-- ExcitationLine docstring: ε = (1/4π) n_{Z_i} n_e PEC_excit(n_e, T_e) -/
def excitation (pi : α) (prov : Nat → Nat → α → α → α) (comp : List (Sp α)) (ne te : α) (le lc : Nat) : α :=
  line pi (prov le lc) comp ne te le lc

/-- RecombinationLine docstring: ε = (1/4π) n_{Z_i+1} n_e PEC_recomb(n_e, T_e), PEC of the line's ion `Z_i` -/
def recombination (pi : α) (prov : Nat → Nat → α → α → α) (comp : List (Sp α)) (ne te : α) (le lc : Nat) : α :=
  line pi (prov le lc) comp ne te le (lc + 1)

/-- eligible donor of receiver `(e, c)`: any other species that still has an electron -/
def donorOf (e c : Nat) (d : Sp α) : Prop := ¬(d.elem = e ∧ d.charge = c) ∧ d.charge < d.z

instance (e c : Nat) (d : Sp α) : Decidable (donorOf e c d) := by unfold donorOf; infer_instance

/-- Σ_d n_d PEC_d(n_e, T_e, T_d) over the eligible donors with positive density and temperature -/
def donorSum (prov : Nat → Nat → α → α → α → α) (comp : List (Sp α)) (ne te : α) (e c : Nat) : α :=
  sumOver comp fun d =>
    if donorOf e c d ∧ 0 < d.dens ∧ 0 < d.temp then d.dens * prov d.elem d.charge ne te d.temp else 0

/-- ThermalCXLine docstring: ε = (1/4π) n_{Z_i+1} Σ_j n_{Z_j} PEC_cx(n_e, T_e, T_{Z_j}) -/
def thermalCX (pi : α) (prov : Nat → Nat → α → α → α → α) (comp : List (Sp α)) (ne te : α) (le lc : Nat) : α :=
  if 0 < ne ∧ 0 < te then
    sumOver comp fun r =>
      if r.elem = le ∧ r.charge = lc + 1 ∧ 0 < r.dens then
        1 / (4.0 * pi) * r.dens * donorSum prov comp ne te le (lc + 1)
      else 0
  else 0

/-- density of species `(e, c)` -/
def densOf (comp : List (Sp α)) (e c : Nat) : α :=
  sumOver comp fun s => if s.elem = e ∧ s.charge = c then s.dens else 0

/-- n_hyd: "the total density of all hydrogen isotopes" — every neutral with atomic number 1 -/
def nHyd (comp : List (Sp α)) : α :=
  sumOver comp fun s => if s.z = 1 ∧ s.charge = 0 then s.dens else 0

def coeff (r : Option (α → α → α)) (ne te : α) : α :=
  match r with
  | none => 0
  | some f => f ne te

/-- n_i n_e C_exc + n_{i+1} n_e C_rec + n_{i+1} n_hyd C_cx, each term present only for positive densities -/
def trpPowerDensity (plt prb prc : Option (α → α → α)) (ne te ni niUp nhyd : α) : α :=
  (if 0 < ni then ni * ne * coeff plt ne te else 0)
  + (if 0 < niUp then niUp * ne * coeff prb ne te else 0)
  + (if 0 < niUp ∧ 0 < nhyd then niUp * nhyd * coeff prc ne te else 0)

/-- TotalRadiatedPower docstring, per unit wavelength over the window `[mn, mx]` -/
def totalRadiatedPower (pi : α) (prov : Nat → Nat → Nat → Option (α → α → α)) (comp : List (Sp α))
    (ne te mn mx : α) (e c : Nat) : α :=
  if 0 < ne ∧ 0 < te then
    1 / (4.0 * pi * (mx - mn)) *
      trpPowerDensity (prov 0 e c) (prov 1 e (c + 1)) (prov 2 e (c + 1)) ne te
        (densOf comp e c) (densOf comp e (c + 1)) (nHyd comp)
  else 0

/-- Hutchinson (5.3.40) in wavelength form, as in the Bremsstrahlung docstring but with Hutchinson's
`sqrt(2 m_e / (π e T_e))` (the docstring's `m_e^3` under the root is a misprint: the units only work with `m_e`):

  (e²/4πε₀)³ · 32π²/(3√3 m_e² c³) · √(2m_e/(π e T_e)) · 10⁹c/(4πλ²) · n_e Σ_i n_i g_ff(Z_i,T_e,λ) Z_i² · exp(−10⁹hc/(e T_e λ)) -/
def bremsstrahlung (sqrt exp : α → α) (pi e eps0 me c h : α) (gaunt : α → α → α → α) (comp : List (Sp α))
    (ne te wvl : α) : α :=
  (e * e / (4.0 * pi * eps0)) * (e * e / (4.0 * pi * eps0)) * (e * e / (4.0 * pi * eps0))
    * (32.0 * (pi * pi) / (3.0 * sqrt 3.0 * (me * me) * (c * c * c)))
    * sqrt (2.0 * me / (pi * e * te))
    * (1e9 * c / (4.0 * pi * (wvl * wvl)))
    * ne
    * (sumOver comp fun s => if 0 < s.dens then s.dens * gaunt (s.charge : α) te wvl * ((s.charge : α) * (s.charge : α)) else 0)
    * exp (-(1e9 * h * c / (e * te * wvl)))

end
end Cherab.PassiveSpec
