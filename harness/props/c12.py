"""C12 — equilibrium mapping and flux-surface basis (cherab/tools/equilibrium/efit.pyx).

T  lean/Cherab/Props/C12.lean over lean/Cherab/Model/Equilibrium.lean
K  (a) real EFITEquilibrium objects (bundled example, Generomak, synthetic Solov'ev grids with both signs of
       psi_lcfs - psi_axis): the Lean model (native driver, same definitions at Float) is fed the values of
       raysect's objects at the sample point -- the cubic interpolator of the grid *normalised by the model*,
       the polygon mask of the LCFS polygon, the derivative interpolators returned by the equilibrium's own
       `_calculate_differentials` -- and must reproduce psi_normalised, inside_lcfs, b_field, poloidal_vector,
       surface_normal, map2d, map_vector2d (stream `eq`), map3d, map_vector3d (stream `eq3`);
   (b) the cdef helper classes (EFITLCFSMask, MagneticField, PoloidalFieldVector, FluxSurfaceNormal,
       FluxCoordToCartesian) driven directly around recording Python callables with random and edge values
       (zeros, -0, exact 1.0, tiny, huge), arguments received by the callables checked.
S  direct oracles on the implementation (no model): psi_n >= 0 and = normalised psi of the point, LCFS mask =
   crossing-number(polygon) and psi_n <= 1, map2d/3d identities, axisymmetry, orthonormality, n = p x t,
   p along the in-plane field, B.n = 0, B against the analytic / finite-difference flux derivatives,
   velocity components in the (rotated) basis.
"""
import glob
import json
import math
import os

import numpy as np

from harness.vlib.util import f2b, b2f, fs, close, call, VERIF

NAN = float('nan')


# ------------------------------------------------------------------------------------------------ helpers
def quad(c):
    c0, c1, c2 = c
    return lambda x: c0 + x * (c1 + x * c2)


def crossing(px, py, vs):
    c = 0
    n = len(vs)
    for i in range(n):
        (x1, y1), (x2, y2) = vs[i], vs[(i + 1) % n]
        if (y1 > py) != (y2 > py):
            if px < (x2 - x1) * (py - y1) / (y2 - y1) + x1:
                c += 1
    return c % 2 == 1


def edge_distance(px, py, vs):
    d = 1e300
    n = len(vs)
    for i in range(n):
        (x1, y1), (x2, y2) = vs[i], vs[(i + 1) % n]
        dx, dy = x2 - x1, y2 - y1
        den = dx * dx + dy * dy
        t = 0.0 if den == 0 else max(0.0, min(1.0, ((px - x1) * dx + (py - y1) * dy) / den))
        d = min(d, math.hypot(px - x1 - t * dx, py - y1 - t * dy))
    return d


def vt(v):
    return (v.x, v.y, v.z)


def vdot(a, b):
    return a[0] * b[0] + a[1] * b[1] + a[2] * b[2]


def vcross(a, b):
    return (a[1] * b[2] - a[2] * b[1], a[2] * b[0] - a[0] * b[2], a[0] * b[1] - a[1] * b[0])


def vnorm(a):
    return math.sqrt(vdot(a, a))


def parse_vec(tokens):
    if tokens[0] == 'E':
        return 'E'
    return tuple(b2f(t) for t in tokens)


def vclose(a, b, rel=1e-12, floor=0.0):
    """vectors agree relative to the vector's scale (components can cancel)"""
    if a == 'E' or b == 'E':
        return a == b
    if any(math.isnan(x) for x in a) or any(math.isnan(x) for x in b):
        return all(math.isnan(x) == math.isnan(y) for x, y in zip(a, b)) and \
            all(close(x, y, rel, floor) for x, y in zip(a, b) if not math.isnan(x))
    if any(math.isinf(x) for x in a + tuple(b)):
        return all(close(x, y, rel, floor) for x, y in zip(a, b))
    s = max(max(abs(x) for x in a), max(abs(x) for x in b))
    return all(abs(x - y) <= rel * s + floor for x, y in zip(a, b))


# ------------------------------------------------------------------------------------------------ equilibria
class EqCase:
    """one equilibrium + what the harness knows about it"""

    def __init__(self, name, eq, desc, rvac, bvac, analytic=None, polygon_in=None):
        self.name = name
        self.eq_rvac = float(rvac)           # constructor inputs (not readable from the cdef object)
        self.eq_bvac = float(bvac)
        self.eq = eq
        self.desc = desc
        self.analytic = analytic            # (psi(R,Z), dpsi_dR, dpsi_dZ) callables for Solov'ev grids
        self.r = np.array(eq.r_data)
        self.z = np.array(eq.z_data)
        self.psi = np.array(eq.psi_data)
        # polygon handed to the constructor (2xN) for the independent mask oracle
        self.vs = [tuple(p) for p in (np.array(polygon_in).T if polygon_in is not None else np.array(eq.lcfs_polygon))]
        self.sign = 1 if eq.psi_lcfs > eq.psi_axis else -1


def solovev_params(rng, sign, idx):
    """all random choices of one synthetic equilibrium (the replay file carries this dict)"""
    R0 = rng.uniform(1.2, 3.0)
    return dict(kind='solovev', idx=idx, sign=sign, R0=R0, a=rng.uniform(0.25, 0.38) * R0, E=rng.uniform(0.8, 2.0), Z0=rng.uniform(-0.3, 0.3),
                nr=rng.randint(25, 49), nz=rng.randint(25, 49),
                stretched=rng.random() < 0.4,      # non-uniform grid: the chain rule d(psi)/d(index) * d(index)/dr is exercised
                axis=rng.uniform(-2, 2), delta=sign * rng.uniform(0.3, 3.0),
                polygon_scale=[1.07, 1.0, 0.95][(idx // 2) % 3],   # polygon outside / on / inside the psi_n = 1 contour, each with both signs
                polygon_n=rng.randint(40, 90), polygon_reversed=rng.random() < 0.5,
                n_profile=rng.randint(5, 12), F0=rng.choice([-1, 1]) * rng.uniform(0.5, 5),
                # the quoted axis value is a little off the grid minimum for some cases -> the raw normalised psi is
                # negative near the axis and the clamp is active
                axis_offset=rng.choice([0.0, 0.02, 0.05]), bvac=rng.uniform(-3, 3))


def solovev(rng, sign, idx):
    return solovev_build(solovev_params(rng, sign, idx))


def solovev_build(p):
    from raysect.core import Point2D
    from cherab.tools.equilibrium.efit import EFITEquilibrium
    R0, a, E, Z0, axis, delta = p['R0'], p['a'], p['E'], p['Z0'], p['axis'], p['delta']
    K = ((R0 + a) ** 2 - R0 ** 2) ** 2 / 4
    rin = math.sqrt(R0 * R0 - 2 * math.sqrt(K))
    zmax = E * math.sqrt(K) / rin
    nr, nz = p['nr'], p['nz']
    r = np.linspace(max(0.15, rin - 0.3 * a), R0 + 1.4 * a, nr)
    z = np.linspace(Z0 - 1.3 * zmax, Z0 + 1.3 * zmax, nz)
    if p['stretched']:
        ur = np.linspace(0, 1, nr)
        r = r[0] + (r[-1] - r[0]) * (ur + 0.15 * ur * (1 - ur))
    lcfs = axis + delta

    def psin(R, Z):
        return ((R * R - R0 * R0) ** 2 / 4 + R * R * (Z - Z0) ** 2 / (E * E)) / K

    def psi_f(R, Z):
        return axis + delta * psin(R, Z)

    def dR(R, Z):
        return delta * ((R * R - R0 * R0) * R + 2 * R * (Z - Z0) ** 2 / (E * E)) / K

    def dZ(R, Z):
        return delta * (2 * R * R * (Z - Z0) / (E * E)) / K

    RR, ZZ = np.meshgrid(r, z, indexing='ij')
    psi = psi_f(RR, ZZ)
    scale = p['polygon_scale']
    th = np.linspace(0, 2 * np.pi, p['polygon_n'], endpoint=False)
    if p['polygon_reversed']:
        th = th[::-1]
    Rb = np.sqrt(R0 * R0 + 2 * math.sqrt(K) * np.cos(th))
    Zb = Z0 + E * math.sqrt(K) * np.sin(th) / Rb
    Rb = R0 + scale * (Rb - R0)
    Zb = Z0 + scale * (Zb - Z0)
    pn = np.linspace(0, 1, p['n_profile'])
    F0 = p['F0']
    fprof = np.array([pn, F0 * (1 + 0.2 * (1 - pn) ** 2)])
    qprof = np.array([pn, 1 + 2 * pn ** 2])
    axis_eff = axis + p['axis_offset'] * delta
    poly = np.array([Rb, Zb])
    eq = EFITEquilibrium(r, z, psi, axis_eff, lcfs, Point2D(R0, Z0), [], [], fprof, qprof, R0, p['bvac'], poly, None, 0.0)
    desc = dict(p, psi_axis=axis_eff, psi_lcfs=lcfs)
    return EqCase('solovev%d%s' % (p['idx'], '+' if p['sign'] > 0 else '-'), eq, desc, R0, p['bvac'], analytic=(psi_f, dR, dZ), polygon_in=poly)


def bundled(kind):
    import cherab.tools.equilibrium as cte
    if kind == 'example':
        from cherab.tools.equilibrium import example_equilibrium
        d = json.load(open(os.path.join(os.path.dirname(cte.__file__), 'example.json')))
        return EqCase('example', example_equilibrium(), dict(kind='example'), d['b_vacuum_radius'], d['b_vacuum_magnitude'], polygon_in=d['lcfs_polygon'])
    import cherab.generomak.equilibrium as cge
    from cherab.generomak.equilibrium import load_equilibrium
    d = json.load(open(os.path.join(os.path.dirname(cge.__file__), 'data', 'generomak_equilibrium.json')))
    return EqCase('generomak', load_equilibrium(), dict(kind='generomak'), d['b_vacuum_radius'], d['b_vacuum_magnitude'], polygon_in=d['lcfs_polygon'])


def equilibria(ctx):
    out = [bundled('example')]
    try:
        out.append(bundled('generomak'))
    except Exception as e:  # noqa
        ctx.count('generomak-unavailable')
        ctx.log('generomak equilibrium unavailable: %r' % (e,))
    n = ctx.n(8, 100)
    for i in range(n):
        out.append(solovev(ctx.rng, 1 if i % 2 == 0 else -1, i))
    return out


# ------------------------------------------------------------------------------------------------ profiles
CONTAINERS = ['list', 'tuple', 'ndarray', 'int', 'view_T', 'strided', 'float32']


def make_array(xs, ys, container):
    """the 2xN profile (xs, ys) in one of the containers a caller may use"""
    n = len(xs)
    if container == 'list':
        return [list(xs), list(ys)]
    if container == 'tuple':
        return (tuple(xs), tuple(ys))
    if container == 'ndarray':
        return np.array([xs, ys])
    if container == 'int':
        return np.array([xs, ys], dtype=np.int64)
    if container == 'float32':
        return np.array([xs, ys], dtype=np.float32)
    if container == 'view_T':
        a = np.ascontiguousarray(np.array([xs, ys]).T)      # N x 2, C order
        return a.T                                          # 2 x N non-contiguous (transposed) view
    if container == 'strided':
        big = np.full((2, 2 * n), 777.0)
        big[:, ::2] = [xs, ys]
        return big[:, ::2]                                  # 2 x N non-contiguous slice
    raise ValueError(container)


def knots(rng, n, scale, container):
    """declared knots of a 2xN profile covering psi_n in [0, 1]; values exactly representable in the container's dtype"""
    if container == 'int':
        xs = [float(i) for i in range(n)]
        ys = [float(rng.randint(-200, 200)) for _ in xs]
    else:
        xs = sorted(set([0.0, 1.0] + [round(rng.uniform(0.02, 0.98), 3) for _ in range(n - 2)]))
        ys = [scale * rng.uniform(-2, 2) for _ in xs]
        if container == 'float32':
            xs = [float(np.float32(x)) for x in xs]
            ys = [float(np.float32(y)) for y in ys]
    return xs, ys


class Prof:
    """a 1-D profile given either as a Python callable (quadratic) or as a 2xN array (N >= 2, any container).
    sref: the declared interpolant (S oracle);  ref: the interpolant through the rows the *model* selects (K)"""

    def __init__(self, rng, scale=1.0, kind=None, n=None, container=None):
        from raysect.core.math.function.float import Interpolator1DArray
        self.kind = kind or rng.choice(['fn', 'array'])
        if self.kind == 'fn':
            self.c = (scale * rng.uniform(-2, 2), scale * rng.uniform(-2, 2), scale * rng.uniform(-2, 2))
            if rng.random() < 0.15:
                self.c = (self.c[0], 0.0, 0.0)
            self.arg = quad(self.c)
            self.ref = self.sref = self.fn_twin = self.arg
            self.desc = dict(kind='fn', c=self.c)
        else:
            container = container or rng.choice(CONTAINERS)
            n = n or rng.choice([2, 2, 3, 3, 4, 5, 6, 7, 8, 9])
            xs, ys = knots(rng, n, scale, container)
            self.xs, self.ys = xs, ys
            self.arg = make_array(xs, ys, container)
            self.sref = Interpolator1DArray(np.array(xs), np.array(ys), 'cubic', 'none', 0)
            self.fn_twin = self.sref          # the same profile handed over as a Function1D
            self.ref = None                   # bound by bind_model_rows
            self.desc = dict(kind='array', container=container, n=len(xs), x=xs, y=ys)

    def rows_line(self):
        a = np.array(self.arg, np.float64)
        return 'rows %d %d %d %s' % (a.ndim, a.shape[0], a.shape[1], fs(a.ravel()))

    def coeffs(self, psin_model, needed):
        """tokens for the driver: the quadratic itself, or (array) the value of the raysect interpolator -- built from the
        rows the model selected -- at the model's psi_n (external function supplied as a value)"""
        if self.kind == 'fn':
            return self.c
        if not needed:
            return (NAN, 0.0, 0.0)
        st, v = call(self.ref, psin_model) if self.ref is not None else ('E', None)
        return (v if st == 'ok' else NAN, 0.0, 0.0)

    def linear2(self, x):
        """N = 2: the declared interpolant is the straight line through the two knots"""
        (x0, x1), (y0, y1) = self.xs, self.ys
        return y0 + (y1 - y0) * (x - x0) / (x1 - x0)


def model_rows(o):
    """parse the driver's answer to a `rows` line: None (rejected) or (xrow, frow)"""
    t = o.split()
    if t[0] == 'E':
        return None
    nx, nf = int(t[0]), int(t[1])
    v = [b2f(q) for q in t[2:]]
    return v[:nx], v[nx:nx + nf]


def bind_model_rows(ctx, profs):
    from raysect.core.math.function.float import Interpolator1DArray
    profs = [p for p in profs if p.kind == 'array']
    outs = ctx.driver([p.rows_line() for p in profs]) if profs else []
    for p, o in zip(profs, outs):
        rows = model_rows(o)
        ctx.count('profile-array:N=%d:%s' % (p.desc['n'], p.desc['container']))
        if rows is None:
            continue
        st, f = call(Interpolator1DArray, np.array(rows[0]), np.array(rows[1]), 'cubic', 'none', 0)
        p.ref = f if st == 'ok' else None


class ProfSet:
    FORCED = {0: dict(kind='fn'),
              1: [dict(kind='array', n=2, container=c_) for c_ in ('list', 'tuple', 'int', 'view_T')],
              2: [dict(kind='array', n=3, container=c_) for c_ in ('ndarray', 'strided', 'float32', 'list')],
              3: [dict(kind='array', n=2, container=c_) for c_ in ('ndarray', 'float32', 'strided', 'tuple')]}

    def __init__(self, rng, ec, k=None, ctx=None):
        from raysect.core import Vector3D
        forced = self.FORCED.get(k)
        kw = [forced] * 4 if isinstance(forced, dict) else (forced or [{}] * 4)
        self.te = Prof(rng, 100.0, **kw[0])
        self.out = rng.choice([0.0, -1.0, 7.5, rng.uniform(-10, 10)])
        self.tor = Prof(rng, 1e4, **kw[1])
        self.pol = Prof(rng, 1e3, **kw[2])
        self.nrm = Prof(rng, 1e2, **kw[3])
        self.profs = [self.te, self.tor, self.pol, self.nrm]
        self.ov = rng.choice([(0.0, 0.0, 0.0), (1.0, -2.0, 3.0), (rng.uniform(-5, 5), rng.uniform(-5, 5), rng.uniform(-5, 5))])
        eq = ec.eq
        default_out = self.out == 0.0 and rng.random() < 0.5
        default_ov = self.ov == (0.0, 0.0, 0.0) and rng.random() < 0.5
        o2 = () if default_out else (self.out,)
        ovv = () if default_ov else (Vector3D(*self.ov),)
        self.has_array = any(p.kind == 'array' for p in self.profs)
        self.desc = dict(te=self.te.desc, outside=self.out, tor=self.tor.desc, pol=self.pol.desc, nrm=self.nrm.desc, outside_vector=self.ov)
        self.ok = True

        def build(name, *a):
            st, f = call(getattr(eq, name), *a)
            if st != 'ok':
                self.ok = False
                if ctx is not None:
                    ctx.fail('C12:%s:valid-profile-rejected' % name, '%s rejected valid profiles (%s: %s) on %s: %s'
                             % (name, st, f, ec.name, {k_: {q: w for q, w in v_.items() if q != 'c'} if isinstance(v_, dict) else v_ for k_, v_ in self.desc.items()}),
                             dict(equilibrium=ec.desc, profiles=self.desc, mapping=name))
                return None
            return f
        self.f2 = build('map2d', self.te.arg, *o2)
        self.f3 = build('map3d', self.te.arg, *o2)
        self.v2 = build('map_vector2d', self.tor.arg, self.pol.arg, self.nrm.arg, *ovv)
        self.v3 = build('map_vector3d', self.tor.arg, self.pol.arg, self.nrm.arg, *ovv)
        # the same profiles handed over as functions: must give identical mappings
        if self.has_array:
            self.f2_fn = build('map2d', self.te.fn_twin, *o2)
            self.f3_fn = build('map3d', self.te.fn_twin, *o2)
            self.v2_fn = build('map_vector2d', self.tor.fn_twin, self.pol.fn_twin, self.nrm.fn_twin, *ovv)
            self.v3_fn = build('map_vector3d', self.tor.fn_twin, self.pol.fn_twin, self.nrm.fn_twin, *ovv)


def twin_check(ctx, rc, name, f_arr, f_fn, args, got):
    """array profile == the same knots handed over as a function, for every mapping"""
    st, v = call(f_fn, *args)
    v = (vt(v) if hasattr(v, 'x') else v) if st == 'ok' else st
    same = (v == got) or (isinstance(v, float) and isinstance(got, float) and math.isnan(v) and math.isnan(got))
    if not same:
        ctx.fail('C12:%s:array-vs-function' % name, '%s%r: profile given as 2xN array -> %r, the same knots given as Interpolator1DArray -> %r on %s'
                 % (name, args, got, v, rc['ec'].name), where(rc))


# ------------------------------------------------------------------------------------------------ points
def sample_points(rng, ec, n):
    """(r, z) in the grid domain: uniform, near the axis, near the LCFS polygon, exact grid nodes, domain corners"""
    r0, r1 = float(ec.r[0]), float(ec.r[-1])
    z0, z1 = float(ec.z[0]), float(ec.z[-1])
    ax = ec.eq.magnetic_axis
    pts = []
    for i in range(n):
        k = rng.random()
        if k < 0.45:
            p = (rng.uniform(r0, r1), rng.uniform(z0, z1))
        elif k < 0.6:
            s = rng.choice([1e-3, 1e-2, 0.05, 0.2])
            p = (ax.x + rng.gauss(0, s), ax.y + rng.gauss(0, s))
        elif k < 0.85:
            v = rng.choice(ec.vs)
            f = rng.choice([0.9, 0.97, 0.995, 1.005, 1.03, 1.1])
            p = (ax.x + f * (v[0] - ax.x) + rng.gauss(0, 1e-3), ax.y + f * (v[1] - ax.y) + rng.gauss(0, 1e-3))
        elif k < 0.95:
            p = (float(rng.choice(list(ec.r))), float(rng.choice(list(ec.z))))
        else:
            p = (rng.choice([r0, r1, rng.uniform(r0, r1)]), rng.choice([z0, z1, rng.uniform(z0, z1)]))
        p = (min(max(p[0], r0), r1), min(max(p[1], z0), z1))
        pts.append(p)
    return pts


# ------------------------------------------------------------------------------------------------ stream (a)
def stream_equilibria(ctx):
    from raysect.core.math.function.float import Interpolator2DArray
    from cherab.core.math import PolygonMask2D
    rng = ctx.rng
    ecs = equilibria(ctx)
    npts = ctx.n(900, 3000)
    nsets = ctx.n(4, 6)

    # pass 0: the model normalises every grid node; raysect interpolates the model's grid
    lines0 = []
    for ec in ecs:
        ax, lc = ec.eq.psi_axis, ec.eq.psi_lcfs
        lines0 += ['norm %s %s %s' % (f2b(v), f2b(ax), f2b(lc)) for v in ec.psi.ravel()]
    outs0 = ctx.driver(lines0)
    k = 0
    recs = []
    for ec in ecs:
        eq = ec.eq
        m = ec.psi.size
        grid = np.array([b2f(t) for t in outs0[k:k + m]]).reshape(ec.psi.shape)
        k += m
        ec.interpN = Interpolator2DArray(ec.r, ec.z, grid, 'cubic', 'none', 0, 0)
        ec.normgrid = grid
        ec.poly = PolygonMask2D(eq.lcfs_polygon)
        ec.tri_edges = triangulation_edges(eq.lcfs_polygon)
        ec.dr, ec.dz = eq._calculate_differentials(eq.r_data, eq.z_data, eq.psi_data)
        ec.dscale = float(np.abs(ec.psi).max()) / min(float(np.diff(ec.r).min()), float(np.diff(ec.z).min())) * 1e-3
        ec.sets = [ps_ for ps_ in (ProfSet(rng, ec, k_, ctx) for k_ in range(nsets)) if ps_.ok]
        ec.bpol_max = 0.0
        pts = sample_points(rng, ec, npts)
        for (r, z) in pts:
            recs.append(dict(ec=ec, r=r, z=z, ps=rng.choice(ec.sets), three=False))
        # 3-D points: toroidal angles incl. the axes and the atan2 branch cut
        for (r, z) in sample_points(rng, ec, npts // 3):
            phi = rng.choice([0.0, math.pi / 2, math.pi, -math.pi / 2, rng.uniform(-math.pi, math.pi), rng.uniform(-math.pi, math.pi)])
            x, y = r * math.cos(phi), r * math.sin(phi)
            if phi == math.pi / 2 or phi == -math.pi / 2:
                x = 0.0
            if phi == math.pi:
                y = rng.choice([0.0, -0.0])
            rho = math.sqrt(x * x + y * y)
            if not (ec.r[0] <= rho <= ec.r[-1]):
                rho_ok = min(max(rho, float(ec.r[0])), float(ec.r[-1]))
                x, y = (x * rho_ok / rho, y * rho_ok / rho)
                rho = math.sqrt(x * x + y * y)
                if not (ec.r[0] <= rho <= ec.r[-1]):
                    ctx.count('3d-point-outside-domain-skipped')
                    continue
            recs.append(dict(ec=ec, r=rho, z=z, x=x, y=y, phi=phi, ps=rng.choice(ec.sets), three=True))

    # which rows of each array profile reach the interpolator is decided by the model (profileOfArray)
    bind_model_rows(ctx, [p for ec in ecs for st_ in ec.sets for p in st_.profs])

    # pass 1: raysect values at the points; the model's psi_n (needed to evaluate array profiles)
    for rc in recs:
        ec = rc['ec']
        r, z = rc['r'], rc['z']
        rc['raw'] = ec.interpN(r, z)
        rc['polyv'] = ec.poly(r, z)
        rc['drv'] = ec.dr(r, z)
        rc['dzv'] = ec.dz(r, z)
    outs1 = ctx.driver(['psin ' + f2b(rc['raw']) for rc in recs])
    lines = []
    for rc, o in zip(recs, outs1):
        ec, ps = rc['ec'], rc['ps']
        eq = ec.eq
        pm = b2f(o)
        rc['psin_model'] = pm
        inside = rc['polyv'] > 0.0 and pm <= 1.0
        st, fv = call(eq.f_profile, pm) if inside else ('ok', NAN)
        args = [rc['raw'], rc['polyv'], rc['drv'], rc['dzv'], fv if st == 'ok' else NAN, 0.0, 0.0,
                ec.eq_rvac, ec.eq_bvac, ps.out] + list(ps.te.coeffs(pm, inside)) + list(ps.ov) + \
            list(ps.tor.coeffs(pm, inside)) + list(ps.pol.coeffs(pm, inside)) + list(ps.nrm.coeffs(pm, inside))
        if rc['three']:
            lines.append('eq3 %s %s' % (fs([rc['x'], rc['y'], rc['z'], rc['r']]), fs(args)))
        else:
            lines.append('eq %s %s' % (fs([rc['r'], rc['z']]), fs(args)))
    outs = ctx.driver(lines)

    # implementation side + comparison + oracles
    for rc, line, o in zip(recs, lines, outs):
        ec, ps = rc['ec'], rc['ps']
        if rc['three']:
            compare_3d(ctx, rc, line, o.split())
        else:
            compare_2d(ctx, rc, line, o.split())
    for ec in ecs:
        crack_search(ctx, ec)
        grid_node_stream(ctx, ec)
        if ec.analytic:
            ctx.count('solovev sign%+d' % ec.sign)
    return ecs


def where(rc):
    d = dict(equilibrium=rc['ec'].desc, r=rc['r'], z=rc['z'], profiles=rc['ps'].desc)
    if rc['three']:
        d.update(x=rc['x'], y=rc['y'])
    return d


def compare_2d(ctx, rc, line, mt):
    ec, ps = rc['ec'], rc['ps']
    eq = ec.eq
    r, z = rc['r'], rc['z']
    name = ec.name
    # ---- implementation
    obs = {}
    for key, f in (('psin', eq.psi_normalised), ('inside', eq.inside_lcfs), ('b', eq.b_field), ('p', eq.poloidal_vector),
                   ('n', eq.surface_normal), ('t', eq.toroidal_vector), ('m2', ps.f2), ('v2', ps.v2), ('psi', eq.psi)):
        st, v = call(f, r, z)
        obs[key] = (vt(v) if hasattr(v, 'x') else v) if st == 'ok' else 'E'
        if st != 'ok':
            obs[key + '_exc'] = st
            ctx.fail('C12:%s:raised-in-domain' % key, '%s(%r, %r) raised %s (%s) on equilibrium %s' % (key, r, z, st, v, name), where(rc))
    # ---- K: model vs implementation
    model = dict(psin=b2f(mt[0]), inside=b2f(mt[1]), b=parse_vec(mt[2:5]), p=parse_vec(mt[5:8]), n=parse_vec(mt[8:11]),
                 m2=b2f(mt[11]), v2=parse_vec(mt[12:15]))
    agree = (obs['psin'] != 'E' and _eqf(model['psin'], obs['psin']) and obs['inside'] != 'E' and _eqf(model['inside'], obs['inside'])
             and vclose(model['b'], obs['b']) and vclose(model['p'], obs['p']) and vclose(model['n'], obs['n'])
             and obs['m2'] != 'E' and close(model['m2'], obs['m2'], 1e-12) and vclose(model['v2'], obs['v2'], 1e-12))
    ctx.traces += 1
    region = 'inside' if obs['inside'] == 1.0 else ('polygon-but-psin>1' if rc['polyv'] > 0 else 'outside')
    if rc['raw'] < 0:
        ctx.count('clamp-active')
    ctx.count('eq:%s:%s' % ('solovev%+d' % ec.sign if ec.analytic else name, region))
    ctx.case(key=('eq', name, f2b(r), f2b(z)), sample=dict(kind='eq', equilibrium=name, r=r, z=z, region=region, psin=obs['psin']) if ctx.rng.random() < 0.002 else None)
    if not agree:
        ctx.disagreements += 1
        ctx.broke('correspondence', 'C12 stream eq', dict(line=line, model={k: str(v) for k, v in model.items()},
                                                           implementation={k: str(v) for k, v in obs.items()}, input=where(rc)))
    # ---- S: property oracles on the implementation's outputs (no model); each runs when its inputs exist
    have = lambda *ks: all(obs[k_] != 'E' for k_ in ks)   # noqa
    if have('psin') and not obs['psin'] >= 0.0:
        ctx.fail('C12:psi_normalised:negative', 'psi_normalised(%r, %r) = %r < 0 on %s' % (r, z, obs['psin'], name), where(rc))
    if ps.has_array:
        if have('m2'):
            twin_check(ctx, rc, 'map2d', ps.f2, ps.f2_fn, (r, z), obs['m2'])
        if have('v2'):
            twin_check(ctx, rc, 'map_vector2d', ps.v2, ps.v2_fn, (r, z), obs['v2'])
    if have('psin', 'inside', 'psi'):
        oracle_scalar(ctx, rc, obs)
    if have('psin', 'inside', 'b', 'p', 'n', 't'):
        oracle_basis(ctx, rc, obs)
        if have('v2'):
            oracle_velocity(ctx, rc, obs, obs['v2'], None)


def _eqf(a, b):
    return a == b or (math.isnan(a) and math.isnan(b))


def oracle_scalar(ctx, rc, obs):
    ec, ps = rc['ec'], rc['ps']
    eq = ec.eq
    r, z = rc['r'], rc['z']
    psin, ins = obs['psin'], obs['inside']
    # normalised flux of the point (cubic interpolation commutes with the affine normalisation up to rounding)
    ref = (obs['psi'] - eq.psi_axis) / (eq.psi_lcfs - eq.psi_axis)
    scale = 1.0 + (abs(obs['psi']) + abs(eq.psi_axis)) / abs(eq.psi_lcfs - eq.psi_axis)
    if abs(psin - max(0.0, ref)) > 1e-9 * scale:
        ctx.fail('C12:psi_normalised:not-normalised-flux', 'psi_normalised(%r, %r) = %r but (psi - psi_axis)/(psi_lcfs - psi_axis) = %r on %s'
                 % (r, z, psin, ref, ec.name), where(rc))
    # LCFS mask: independent crossing-number test of the constructor's polygon, and psi_n <= 1
    if ins not in (0.0, 1.0):
        ctx.fail('C12:inside_lcfs:not-0-or-1', 'inside_lcfs(%r, %r) = %r on %s' % (r, z, ins, ec.name), where(rc))
    if edge_distance(r, z, ec.vs) > 1e-6 and abs(psin - 1.0) > 1e-9:
        want = 1.0 if (crossing(r, z, ec.vs) and psin <= 1.0) else 0.0
        if ins != want:
            if want == 1.0 and on_triangulation_edge(r, z, ec):
                report_crack(ctx, ec, r, z, psin, ins)
            else:
                ctx.fail('C12:inside_lcfs:mask', 'inside_lcfs(%r, %r) = %r, polygon(crossing number) = %r, psi_n = %r on %s'
                         % (r, z, ins, crossing(r, z, ec.vs), psin, ec.name), where(rc))
    else:
        ctx.count('mask-guard-band-skipped')
    # map2d: profile at the normalised flux of the point inside, outside value elsewhere
    if obs['m2'] == 'E':
        return
    if ins == 1.0:
        st, want = call(ps.te.sref, psin)
        if st != 'ok' or not (obs['m2'] == want or close(obs['m2'], want, 1e-13)):
            ctx.fail('C12:map2d:inside-value', 'map2d(%r, %r) = %r, profile(psi_n = %r) = %r (profile %s) on %s'
                     % (r, z, obs['m2'], psin, want, {k_: v_ for k_, v_ in ps.te.desc.items() if k_ != 'c'}, ec.name), where(rc))
        if ps.te.kind == 'array' and len(ps.te.xs) == 2 and not close(obs['m2'], ps.te.linear2(psin), 1e-12, 1e-12 * max(abs(y_) for y_ in ps.te.ys)):
            ctx.fail('C12:map2d:two-knot-profile-not-linear', 'map2d(%r, %r) = %r, straight line through the knots %r at psi_n = %r gives %r on %s'
                     % (r, z, obs['m2'], (ps.te.xs, ps.te.ys), psin, ps.te.linear2(psin), ec.name), where(rc))
    else:
        if obs['m2'] != ps.out:
            ctx.fail('C12:map2d:outside-value', 'map2d(%r, %r) = %r outside the LCFS, value_outside_lcfs = %r on %s'
                     % (r, z, obs['m2'], ps.out, ec.name), where(rc))


def oracle_basis(ctx, rc, obs):
    ec = rc['ec']
    eq = ec.eq
    r, z = rc['r'], rc['z']
    b, p, n, t = obs['b'], obs['p'], obs['n'], obs['t']
    psin, ins = obs['psin'], obs['inside']
    nm = ec.name
    if t != (0.0, 1.0, 0.0):
        ctx.fail('C12:toroidal_vector:not-unit-y', 'toroidal_vector(%r, %r) = %r on %s' % (r, z, t, nm), where(rc))
    bp = math.hypot(b[0], b[2])
    ec.bpol_max = max(ec.bpol_max, bp)
    # field components against the flux derivatives: toroidal exactly, poloidal against analytic / finite differences
    bt_want = call(eq.f_profile, psin)[1] / r if ins == 1.0 else eq_bvac(ec) * eq_rvac(ec) / r
    if not close(b[1], bt_want, 1e-12):
        ctx.fail('C12:b_field:toroidal', 'b_field(%r, %r).y = %r, want %r (%s) on %s' % (r, z, b[1], bt_want, 'F(psi_n)/r' if ins else 'vacuum', nm), where(rc))
    rc['b'] = b
    if bp == 0.0:
        ctx.count('degenerate-field-point')
        if p != (0.0, 0.0, 0.0) or n != (0.0, 0.0, 0.0):
            ctx.fail('C12:basis:degenerate-not-zero', 'zero in-plane field at (%r, %r) but p = %r n = %r on %s' % (r, z, p, n, nm), where(rc))
        return
    eps = 1e-12
    bad = []
    if abs(vdot(p, p) - 1) > eps or abs(vdot(n, n) - 1) > eps:
        bad.append('not unit: |p|^2 = %r |n|^2 = %r' % (vdot(p, p), vdot(n, n)))
    if abs(vdot(p, n)) > eps or abs(vdot(p, t)) > eps or abs(vdot(n, t)) > eps:
        bad.append('not orthogonal: p.n = %r p.t = %r n.t = %r' % (vdot(p, n), vdot(p, t), vdot(n, t)))
    if bad:
        ctx.fail('C12:basis:orthonormal', '%s at (%r, %r) on %s' % ('; '.join(bad), r, z, nm), where(rc))
    c = vcross(p, t)
    if max(abs(c[i] - n[i]) for i in range(3)) > eps:
        ctx.fail('C12:basis:normal-not-pol-cross-tor', 'n = %r but p x t = %r at (%r, %r) on %s' % (n, c, r, z, nm), where(rc))
    bin_ = (b[0], 0.0, b[2])
    cr = vcross(p, bin_)
    if vnorm(cr) > eps * bp or vdot(p, bin_) <= 0:
        ctx.fail('C12:poloidal_vector:not-along-field', 'p = %r, in-plane field = %r at (%r, %r) on %s' % (p, bin_, r, z, nm), where(rc))
    if abs(vdot(b, n)) > eps * vnorm(b):
        ctx.fail('C12:b_field:normal-component', 'B.n = %r (|B| = %r) at (%r, %r) on %s' % (vdot(b, n), vnorm(b), r, z, nm), where(rc))


def eq_bvac(ec):
    return ec.eq_bvac


def eq_rvac(ec):
    return ec.eq_rvac


def oracle_velocity(ctx, rc, obs, v, frame):
    """v: mapped velocity (2-D: in the (r, phi, z) frame; 3-D: cartesian with frame = (rhat, phihat))"""
    ec, ps = rc['ec'], rc['ps']
    r, z = rc['r'], rc['z']
    psin, ins = obs['psin'], obs['inside']
    p, n, t = obs['p'], obs['n'], obs['t']
    tag = 'map_vector3d' if frame else 'map_vector2d'
    if frame:
        rh, ph = frame
        to3 = lambda a: (a[0] * rh[0] + a[1] * ph[0], a[0] * rh[1] + a[1] * ph[1], a[2])   # noqa
        p, n, t = to3(p), to3(n), to3(t)
    if ins != 1.0:
        want = to3(ps.ov) if frame else ps.ov
        if not vclose(v, want, 1e-12 if frame else 0.0):
            ctx.fail('C12:%s:outside-value' % tag, '%s = %r outside the LCFS, value_outside_lcfs = %r at %r on %s'
                     % (tag, v, ps.ov, (rc.get('x'), rc.get('y'), r, z), ec.name), where(rc))
        return
    wt, wp, wn = call(ps.tor.sref, psin)[1], call(ps.pol.sref, psin)[1], call(ps.nrm.sref, psin)[1]
    scale = max(abs(wt), abs(wp), abs(wn), 1e-300)
    if math.hypot(rc['b'][0], rc['b'][2]) == 0.0:
        wp = wn = 0.0
    got = (vdot(v, t), vdot(v, p), vdot(v, n))
    if max(abs(got[0] - wt), abs(got[1] - wp), abs(got[2] - wn)) > 1e-11 * scale:
        ctx.fail('C12:%s:components' % tag, '%s components (tor, pol, nrm) = %r, prescribed %r at psi_n = %r, point %r on %s'
                 % (tag, got, (wt, wp, wn), psin, (rc.get('x'), rc.get('y'), r, z), ec.name), where(rc))


def compare_3d(ctx, rc, line, mt):
    ec, ps = rc['ec'], rc['ps']
    eq = ec.eq
    x, y, z, rho = rc['x'], rc['y'], rc['z'], rc['r']
    st3, m3 = call(ps.f3, x, y, z)
    stv, v3 = call(ps.v3, x, y, z)
    if st3 != 'ok' or stv != 'ok':
        ctx.fail('C12:map3d:raised-in-domain', 'map3d/map_vector3d(%r, %r, %r) raised %s/%s on %s' % (x, y, z, st3, stv, ec.name), where(rc))
        return
    v3 = vt(v3)
    model_m3, model_v3 = b2f(mt[0]), parse_vec(mt[1:4])
    ctx.traces += 1
    ctx.count('eq3:%s' % ('solovev%+d' % ec.sign if ec.analytic else ec.name))
    ctx.case(key=('eq3', ec.name, f2b(x), f2b(y), f2b(z)))
    if not (close(model_m3, m3, 1e-12) and vclose(model_v3, v3, 1e-12)):
        ctx.disagreements += 1
        ctx.broke('correspondence', 'C12 stream eq3', dict(line=line, model=[model_m3, model_v3], implementation=[m3, v3], input=where(rc)))
    # ---- S
    if ps.has_array:
        twin_check(ctx, rc, 'map3d', ps.f3, ps.f3_fn, (x, y, z), m3)
        twin_check(ctx, rc, 'map_vector3d', ps.v3, ps.v3_fn, (x, y, z), v3)
    obs = {}
    for key, f in (('psin', eq.psi_normalised), ('inside', eq.inside_lcfs), ('b', eq.b_field), ('p', eq.poloidal_vector),
                   ('n', eq.surface_normal), ('t', eq.toroidal_vector), ('m2', ps.f2), ('v2', ps.v2)):
        st, v = call(f, rho, z)
        if st != 'ok':
            return
        obs[key] = vt(v) if hasattr(v, 'x') else v
    rc['b'] = obs['b']
    # axisymmetry: exactly the 2-D function at the cylindrical radius
    if not _eqf(m3, obs['m2']):
        ctx.fail('C12:map3d:not-map2d-at-radius', 'map3d(%r, %r, %r) = %r but map2d(%r, %r) = %r on %s' % (x, y, z, m3, rho, z, obs['m2'], ec.name), where(rc))
    # ... hence invariant under rotation about z (guard band: a rotated point re-computes the radius to 1 ulp)
    a = ctx.rng.uniform(-math.pi, math.pi)
    x2, y2 = x * math.cos(a) - y * math.sin(a), x * math.sin(a) + y * math.cos(a)
    rho2 = math.sqrt(x2 * x2 + y2 * y2)
    if ec.r[0] <= rho2 <= ec.r[-1] and edge_distance(rho, z, ec.vs) > 1e-6 and abs(obs['psin'] - 1.0) > 1e-9:
        st, m3b = call(ps.f3, x2, y2, z)
        tol = 1e-9 * (abs(m3) + 600.0)      # profile values are O(100)
        if st != 'ok' or abs(m3b - m3) > tol:
            ctx.fail('C12:map3d:axisymmetry', 'map3d(%r, %r, %r) = %r but at the same radius, rotated by %r: %r on %s' % (x, y, z, m3, a, m3b, ec.name), where(rc))
    else:
        ctx.count('axisymmetry-guard-band-skipped')
    # mapped velocity: the 2-D vector rotated by the toroidal angle; components in the rotated basis
    rh = (x / rho, y / rho)
    ph = (-y / rho, x / rho)
    v2 = obs['v2']
    want = (v2[0] * rh[0] + v2[1] * ph[0], v2[0] * rh[1] + v2[1] * ph[1], v2[2])
    if not vclose(v3, want, 1e-12):
        ctx.fail('C12:map_vector3d:rotation', 'map_vector3d(%r, %r, %r) = %r, map_vector2d(%r, %r) = %r rotated to the toroidal angle = %r on %s'
                 % (x, y, z, v3, rho, z, v2, want, ec.name), where(rc))
    oracle_velocity(ctx, rc, obs, v3, (rh, ph))


def triangulation_edges(polygon):
    """internal edges (vertex index pairs) of raysect's triangulation of the polygon -- the same deterministic
    triangulation PolygonMask2D builds its mesh from"""
    from raysect.core.math.polygon import triangulate2d
    poly = np.ascontiguousarray(np.array(polygon, dtype=np.float64))
    n = len(poly)
    edges = set()
    for t in triangulate2d(poly):
        for a, b in ((t[0], t[1]), (t[1], t[2]), (t[2], t[0])):
            a, b = int(a), int(b)
            if abs(a - b) not in (1, n - 1):
                edges.add((min(a, b), max(a, b)))
    return [(tuple(poly[a]), tuple(poly[b])) for a, b in sorted(edges)]


def on_triangulation_edge(r, z, ec, tol=1e-9):
    return any(edge_distance(r, z, [a, b]) <= tol for a, b in ec.tri_edges)


def report_crack(ctx, ec, r, z, psin, ins):
    eq = ec.eq
    st, m = call(eq.map2d(lambda x: 1000.0 + x, -1.0), r, z)
    ctx.fail('C12:inside_lcfs:interior-point-on-triangulation-edge',
             'equilibrium %s: (r, z) = (%r, %r) is inside the LCFS polygon (crossing number; %.3g from its boundary) with psi_n = %r <= 1, '
             'but inside_lcfs = %r and map2d(lambda x: 1000 + x, -1.0)(r, z) = %r (the outside value): the point lies, to rounding, on an internal edge '
             'of the polygon triangulation and PolygonMask2D (Discrete2DMesh barycentric test) assigns it to neither triangle'
             % (ec.name, r, z, edge_distance(r, z, ec.vs), psin, ins, m if st == 'ok' else st),
             dict(equilibrium=ec.desc, r=r, z=z, psin=psin, inside_lcfs=ins, map2d=m if st == 'ok' else st))


def crack_search(ctx, ec):
    """S, seeded by the mechanism: floating-point points on the internal edges of the LCFS polygon triangulation
    (in particular axis-aligned chords, where a whole line segment is representable) must be inside the LCFS"""
    eq = ec.eq
    rng = ctx.rng
    fracs = [0.5, 0.25, 0.75, 0.1, 0.9, 1 / 3, 0.37, 0.61]
    nrand = ctx.n(2, 12)
    hits = []
    for (a, b) in ec.tri_edges:
        for f in fracs + [rng.random() for _ in range(nrand)]:
            x, y = a[0] + f * (b[0] - a[0]), a[1] + f * (b[1] - a[1])
            if not (ec.r[0] <= x <= ec.r[-1] and ec.z[0] <= y <= ec.z[-1]):
                continue
            if edge_distance(x, y, ec.vs) <= 1e-6 or not crossing(x, y, ec.vs):
                continue
            st, psin = call(eq.psi_normalised, x, y)
            if st != 'ok' or not psin <= 1.0 - 1e-9:
                continue
            st, ins = call(eq.inside_lcfs, x, y)
            ctx.case(key=('crack', ec.name, f2b(x), f2b(y)))
            ctx.count('crack-search-points')
            if st != 'ok' or ins != 1.0:
                ctx.count('crack-search-hits')
                hits.append((psin, x, y, ins if st == 'ok' else st))
    if hits:
        # report the hit deepest inside the plasma (smallest psi_n)
        psin, x, y, ins = min(hits)
        report_crack(ctx, ec, x, y, psin, ins)
        ctx.extra.setdefault('crack_hits', {})[ec.name] = len(hits)


def grid_node_stream(ctx, ec):
    """psi_normalised at grid nodes = clamp(model-normalised node value) (the interpolant passes through its knots);
    poloidal field against analytic (Solov'ev) / centred finite differences of eq.psi"""
    eq = ec.eq
    rng = ctx.rng
    nodes = [(rng.randrange(len(ec.r)), rng.randrange(len(ec.z))) for _ in range(ctx.n(60, 300))]
    for (i, j) in nodes:
        r, z = float(ec.r[i]), float(ec.z[j])
        st, v = call(eq.psi_normalised, r, z)
        want = max(0.0, float(ec.normgrid[i, j]))
        ctx.traces += 1
        ctx.case(key=('node', ec.name, i, j))
        if st != 'ok' or abs(v - want) > 1e-9 * (1 + abs(want)):
            ctx.disagreements += 1
            ctx.broke('correspondence', 'C12 stream node', dict(node=(i, j), r=r, z=z, model=want, implementation=v, equilibrium=ec.desc))
            ref = (float(ec.psi[i, j]) - eq.psi_axis) / (eq.psi_lcfs - eq.psi_axis)
            if st != 'ok' or abs(v - max(0.0, ref)) > 1e-9 * (1 + abs(ref)):
                ctx.fail('C12:psi_normalised:grid-node', 'psi_normalised at grid node (%r, %r) = %r, normalised grid value %r on %s' % (r, z, v, ref, ec.name),
                         dict(equilibrium=ec.desc, r=r, z=z))
    # derivative grids: the model's per-node formula (np.gradient in index space, edge_order=2, chain rule with the axis
    # gradient) against the equilibrium's own _calculate_differentials at grid nodes (interpolant passes through its knots)
    nr_, nz_ = len(ec.r), len(ec.z)
    dn = [(0, 0), (nr_ - 1, nz_ - 1), (0, nz_ - 1), (nr_ - 1, 0)] + [(rng.randrange(nr_), rng.randrange(nz_)) for _ in range(ctx.n(40, 200))]
    lines, wants = [], []
    for (i, j) in dn:
        for axis, n_, k_, arr, ax in ((0, nr_, i, ec.psi[:, j], ec.r), (1, nz_, j, ec.psi[i, :], ec.z)):
            kind = 0 if k_ == 0 else (2 if k_ == n_ - 1 else 1)
            lo = 0 if kind == 0 else (n_ - 3 if kind == 2 else k_ - 1)
            lines.append('dnode %d %s %s' % (kind, fs(arr[lo:lo + 3]), fs(ax[lo:lo + 3])))
            wants.append(((ec.dr, ec.dz)[axis], float(ec.r[i]), float(ec.z[j]), axis, i, j))
    for line, o, (f, r, z, axis, i, j) in zip(lines, ctx.driver(lines), wants):
        st, v = call(f, r, z)
        m = b2f(o)
        ctx.traces += 1
        ctx.count('dnode')
        ctx.case(key=('dnode', ec.name, axis, i, j))
        if st != 'ok' or abs(v - m) > 1e-9 * (abs(m) + ec.dscale):
            ctx.disagreements += 1
            ctx.broke('correspondence', 'C12 stream dnode', dict(line=line, axis='rz'[axis], node=(i, j), model=m, implementation=v if st == 'ok' else st, equilibrium=ec.desc))
    # poloidal field vs flux derivatives
    r0, r1, z0, z1 = float(ec.r[0]), float(ec.r[-1]), float(ec.z[0]), float(ec.z[-1])
    hr, hz = (r1 - r0) / (len(ec.r) - 1), (z1 - z0) / (len(ec.z) - 1)
    samples = []
    for _ in range(ctx.n(80, 400)):
        r, z = rng.uniform(r0 + 2 * hr, r1 - 2 * hr), rng.uniform(z0 + 2 * hz, z1 - 2 * hz)
        st, b = call(eq.b_field, r, z)
        if st != 'ok':
            continue
        if ec.analytic:
            dR, dZ = ec.analytic[1](r, z), ec.analytic[2](r, z)
        else:
            h = 1e-4
            dR = (eq.psi(r + h, z) - eq.psi(r - h, z)) / (2 * h)
            dZ = (eq.psi(r, z + h) - eq.psi(r, z - h)) / (2 * h)
        samples.append((r, z, (b.x, b.z), (-dZ / r, dR / r)))
    if samples:
        bmax = max(math.hypot(*s[3]) for s in samples)
        tol = (0.03 if ec.analytic else 0.3) * bmax     # measured: 0.1 % analytic, 12 % FD on the 33x33 example grid
        for (r, z, got, want) in samples:
            ctx.case(key=('bpol', ec.name, f2b(r), f2b(z)))
            if math.hypot(got[0] - want[0], got[1] - want[1]) > tol:
                ctx.fail('C12:b_field:poloidal-components', 'b_field(%r, %r) (b_r, b_z) = %r but (-psi_z/r, psi_r/r) = %r (%s, tolerance %.3g) on %s'
                         % (r, z, got, want, 'analytic' if ec.analytic else 'finite differences of eq.psi', tol, ec.name),
                         dict(equilibrium=ec.desc, r=r, z=z))
                break


# ------------------------------------------------------------------------------------------------ stream (b)
class Rec:
    def __init__(self, ret):
        self.ret = ret
        self.calls = []

    def __call__(self, *a):
        self.calls.append(tuple(float(x) for x in a))
        return self.ret


EDGE = [0.0, -0.0, 1.0, -1.0, 0.5, 2.0, 1e-20, -1e-20, 1e-150, 1e-170, -1e-170, 5e-324, 1e150, 1e170, -1e170, 3.0, -4.0]


def _num(t):
    """corpus numbers: JSON numbers or the strings 'nan', '-0.0', 'next_above_1', 'next_below_1'"""
    if isinstance(t, str):
        return {'next_above_1': math.nextafter(1.0, 2.0), 'next_below_1': math.nextafter(1.0, 0.0)}.get(t) or float(t)
    return float(t)


def rnd(rng, edge=0.35):
    k = rng.random()
    if k < edge:
        return rng.choice(EDGE)
    if k < 0.8:
        return rng.uniform(-3, 3)
    return rng.uniform(-1, 1) * 10 ** rng.randint(-8, 8)


def same_args(calls, want):
    return len(calls) >= 1 and all(c == want or (len(c) == len(want) and all(a == b or (math.isnan(a) and math.isnan(b)) for a, b in zip(c, want))) for c in calls)


def stream_helpers(ctx):
    from raysect.core import Vector3D
    from cherab.tools.equilibrium import efit
    from cherab.core.math import PolygonMask2D
    rng = ctx.rng
    cases = []

    def add(kind, line, obs, argok, argdesc, desc, oracle=None):
        cases.append(dict(kind=kind, line=line, obs=obs, argok=argok, argdesc=argdesc, desc=desc, oracle=oracle))

    square = np.array([[0.0, 0.0], [2.0, 0.0], [2.0, 2.0], [0.0, 2.0]])
    pm = PolygonMask2D(square)

    def do_mask(px, py, psv):
        ps_rec = Rec(psv)
        m = efit.EFITLCFSMask(square, ps_rec)
        st, got = call(m, px, py)
        polyv = pm(px, py)
        want = 1.0 if (0 < px < 2 and 0 < py < 2 and psv <= 1.0) else 0.0
        add('mask', 'mask %s %s' % (f2b(polyv), f2b(psv)), [got] if st == 'ok' else st,
            (not ps_rec.calls) or same_args(ps_rec.calls, (px, py)), 'psi_n called with %r, point %r' % (ps_rec.calls, (px, py)),
            dict(point=(px, py), psin=psv),
            oracle=(st == 'ok' and got == want, 'C12:EFITLCFSMask:value', 'EFITLCFSMask(square)(%r, %r) with psi_n = %r gave %r, want %r' % (px, py, psv, got, want)))

    def do_bfield(r, z, drv, dzv, fval, insv, psn, rvac, bvac):
        recs = dict(psin=Rec(psn), dr=Rec(drv), dz=Rec(dzv), f=Rec(fval), ins=Rec(insv))
        mf = efit.MagneticField(recs['psin'], recs['dr'], recs['dz'], recs['f'], rvac, bvac, recs['ins'])
        st, b = call(mf, r, z)
        inside_true = not (insv == 0.0)
        argok = same_args(recs['dr'].calls, (r, z)) and same_args(recs['dz'].calls, (r, z)) and same_args(recs['ins'].calls, (r, z)) and \
            ((same_args(recs['psin'].calls, (r, z)) and same_args(recs['f'].calls, (psn,))) if inside_true else not recs['f'].calls)
        want = (-dzv / r, (fval / r) if inside_true else bvac * rvac / r, drv / r)
        add('bfield', 'bf %s' % fs([drv, dzv, insv, psn, fval, rvac, bvac, r]), list(vt(b)) if st == 'ok' else st, argok,
            'calls: %r' % {k: v.calls for k, v in recs.items()}, dict(r=r, z=z, dpsi_dr=drv, dpsi_dz=dzv, f=fval, inside=insv, psin=psn, rvac=rvac, bvac=bvac),
            oracle=(st == 'ok' and vclose(vt(b), want, 1e-15), 'C12:MagneticField:components', 'MagneticField gave %r, want (-psi_z/r, F|vac, psi_r/r) = %r' % (vt(b) if st == 'ok' else st, want)))

    def do_basis(r, z, bv):
        frec = Rec(Vector3D(*bv))
        for cls, op in ((efit.PoloidalFieldVector, 'pol'), (efit.FluxSurfaceNormal, 'nrm')):
            frec.calls = []
            st, v = call(cls(frec), r, z)
            add(op, '%s %s' % (op, fs(bv)), list(vt(v)) if st == 'ok' else ('E' if st == 'ZeroDivisionError' else st), same_args(frec.calls, (r, z)),
                'field called with %r, point %r' % (frec.calls, (r, z)), dict(field=bv, r=r, z=z),
                oracle=basis_oracle(op, bv, vt(v) if st == 'ok' else st))

    def do_vel(r, z, bv, psn, tv, pv, nv):
        frec = Rec(Vector3D(*bv))
        rr = dict(psin=Rec(psn), t=Rec(tv), p=Rec(pv), n=Rec(nv))
        fc = efit.FluxCoordToCartesian(frec, rr['psin'], rr['t'], rr['p'], rr['n'])
        st, v = call(fc, r, z)
        deg = bv[0] == 0 and bv[2] == 0
        argok = same_args(frec.calls, (r, z)) and same_args(rr['psin'].calls, (r, z)) and same_args(rr['t'].calls, (psn,)) and \
            (deg or st != 'ok' or (same_args(rr['p'].calls, (psn,)) and same_args(rr['n'].calls, (psn,))))
        add('vel', 'vel %s' % fs(list(bv) + [psn, tv, pv, nv]), list(vt(v)) if st == 'ok' else ('E' if st == 'ZeroDivisionError' else st), argok,
            'calls: field %r psin %r tor %r pol %r nrm %r' % (frec.calls, rr['psin'].calls, rr['t'].calls, rr['p'].calls, rr['n'].calls),
            dict(field=bv, psin=psn, tor=tv, pol=pv, nrm=nv, r=r, z=z),
            oracle=velocity_oracle(bv, (tv, pv, nv), vt(v) if st == 'ok' else st))

    # corpus first: boundary cases of every discrete decision in the helper classes
    for path in sorted(glob.glob(os.path.join(VERIF, 'corpus', 'C12', '*.json'))):
        for e in json.load(open(path)).get('cases', []):
            ctx.count('corpus')
            if e['kind'] == 'mask':
                do_mask(e['point'][0], e['point'][1], _num(e['psin']))
            elif e['kind'] == 'bfield':
                do_bfield(e['r'], e['z'], _num(e['dpsi_dr']), _num(e['dpsi_dz']), _num(e['f']), _num(e['inside']), e['psin'], e['rvac'], e['bvac'])
            elif e['kind'] == 'basis':
                do_basis(e['r'], e['z'], tuple(_num(t) for t in e['field']))
            elif e['kind'] == 'vel':
                do_vel(e['r'], e['z'], tuple(_num(t) for t in e['field']), e['psin'], _num(e['tor']), _num(e['pol']), _num(e['nrm']))

    n = ctx.n(2500, 60000)
    for it in range(n):
        r, z = rng.uniform(0.2, 3.0), rng.uniform(-2, 2)
        px, py = rng.choice([(1.0, 1.0), (0.3, 1.7), (3.0, 1.0), (-0.5, 0.5), (1.0, 2.5), (rng.uniform(0.1, 1.9), rng.uniform(0.1, 1.9)), (rng.uniform(2.1, 4), rng.uniform(-1, 3))])
        psv = rng.choice([0.0, 0.5, 1.0, math.nextafter(1.0, 2.0), math.nextafter(1.0, 0.0), 1.5, -0.5, rng.uniform(0, 2), NAN])
        do_mask(px, py, psv)
        insv = rng.choice([0.0, 1.0, 1.0, -0.0, 0.5, NAN] if rng.random() < 0.2 else [0.0, 1.0])
        do_bfield(r, z, rnd(rng), rnd(rng), rnd(rng, 0.1), insv, rng.uniform(0, 1.2), rng.uniform(0.5, 3), rng.uniform(-3, 3))
        k = rng.random()
        if k < 0.12:
            bv = (rng.choice([0.0, -0.0]), rnd(rng), rng.choice([0.0, -0.0]))
        elif k < 0.3:
            bv = (rng.choice([0.0, rnd(rng)]), rnd(rng), rng.choice([0.0, rnd(rng)]))
        else:
            bv = (rnd(rng, 0.15), rnd(rng, 0.15), rnd(rng, 0.15))
        do_basis(r, z, bv)
        do_vel(r, z, bv, rng.uniform(0, 1), rnd(rng, 0.2), rnd(rng, 0.2), rnd(rng, 0.2))
        # ---- raysect blend as used by map2d (mask values 0/1 only in real use)
        if it % 10 == 0:
            from raysect.core.math.function.float import Blend2D
            tmask, f1, f2 = rng.choice([0.0, 1.0, -0.0, 0.25, 2.0, -1.0]), rnd(rng), rnd(rng)
            st, got = call(Blend2D(f1, f2, Rec(tmask)), r, z)
            add('blend', 'blend %s' % fs([tmask, f1, f2]), [got] if st == 'ok' else st, True, '', dict(mask=tmask, f1=f1, f2=f2))

    outs = ctx.driver([c['line'] for c in cases])
    for c, o in zip(cases, outs):
        ctx.traces += 1
        ctx.count('helper:' + c['kind'])
        ctx.case(key=('helper', c['line']), sample=dict(kind=c['kind'], input=c['desc']) if rng.random() < 0.001 else None)
        obs = c['obs']
        toks = o.split()
        if isinstance(obs, list):
            mod = 'E' if toks[0] == 'E' else [b2f(t) for t in toks]
            agree = mod != 'E' and (vclose(tuple(mod), tuple(obs), 1e-13) if len(obs) == 3 else (_eqf(mod[0], obs[0]) or close(mod[0], obs[0], 1e-13)))
        else:
            agree = (obs == 'E' and toks[0] == 'E')
        if not agree or not c['argok']:
            ctx.disagreements += 1
            ctx.broke('correspondence', 'C12 stream helper:' + c['kind'],
                      dict(line=c['line'], model=o, implementation=str(obs), arguments_ok=c['argok'], arguments=c['argdesc'], input=c['desc']))
        if c['oracle'] is not None:
            ok, sig, why = c['oracle']
            if ok is None:
                ctx.count('float-gap:' + sig)
            elif not ok:
                ctx.fail(sig, why, c['desc'])
        if not c['argok']:
            ctx.fail('C12:%s:evaluated-at-wrong-point' % c['kind'], c['argdesc'], c['desc'])


def well_scaled(bv):
    bp = math.hypot(bv[0], bv[2])
    return 1e-140 <= bp <= 1e140


def basis_oracle(op, bv, got):
    """unit, orthogonal to toroidal; poloidal along (bx,0,bz) same sense; normal = p x t with B.n = 0.
    Outside 1e-140 <= |b_pol| <= 1e140 squares under/overflow in double precision: counted as float gap, not asserted."""
    sig = 'C12:%s:direct' % ('PoloidalFieldVector' if op == 'pol' else 'FluxSurfaceNormal')
    if bv[0] == 0 and bv[2] == 0:
        return (got == (0.0, 0.0, 0.0), sig + ':degenerate', 'zero in-plane field must give the zero vector (documented), got %r' % (got,))
    if not well_scaled(bv):
        return (None, 'under/overflow |b_pol| outside [1e-140, 1e140]', '')
    if isinstance(got, str):
        return (False, sig + ':raised', 'field %r: raised %s' % (bv, got))
    bp = math.hypot(bv[0], bv[2])
    want = (bv[0] / bp, 0.0, bv[2] / bp) if op == 'pol' else (-bv[2] / bp, 0.0, bv[0] / bp)
    ok = all(abs(g - w) <= 1e-12 for g, w in zip(got, want))
    return (ok, sig, 'field %r: got %r want %r' % (bv, got, want))


def velocity_oracle(bv, comps, got):
    tv, pv, nv = comps
    sig = 'C12:FluxCoordToCartesian:components'
    if bv[0] == 0 and bv[2] == 0:
        return (got == (0.0, tv, 0.0), sig + ':degenerate', 'zero in-plane field: got %r want %r' % (got, (0.0, tv, 0.0)))
    if not well_scaled(bv) or max(abs(pv), abs(nv)) > 1e140:
        return (None, 'under/overflow |b_pol| outside [1e-140, 1e140]', '')
    if isinstance(got, str):
        return (False, sig + ':raised', 'field %r: raised %s' % (bv, got))
    bp = math.hypot(bv[0], bv[2])
    p = (bv[0] / bp, 0.0, bv[2] / bp)
    n = (-bv[2] / bp, 0.0, bv[0] / bp)
    have = (got[1], vdot(got, p), vdot(got, n))
    scale = max(abs(tv), abs(pv), abs(nv), 1e-300)
    ok = abs(have[0] - tv) <= 1e-12 * scale and abs(have[1] - pv) <= 1e-12 * scale and abs(have[2] - nv) <= 1e-12 * scale
    return (ok, sig, 'field %r: components (tor, pol, nrm) = %r prescribed %r' % (bv, have, comps))


# ------------------------------------------------------------------------------------------------ stream (c)
def gen_shapes(rng):
    """(label, object handed to the mapping, declared knots (xs, ys) if it is a valid 2xN profile else None)"""
    out = []
    for n in (2, 3, 4, 6):
        for c in CONTAINERS:
            xs, ys = knots(rng, n, 100.0, c)
            out.append(('2x%d:%s' % (n, c), make_array(xs, ys, c), (xs, ys)))
    out += [
        ('1xN', [[0.0, 0.5, 1.0]], None),
        ('1xN:ndarray', np.array([[0.0, 0.5, 1.0]]), None),
        ('Nx2:N=3', [[0.0, 5.0], [0.5, 7.0], [1.0, 9.0]], None),
        ('Nx2:N=5', np.array([[0.0, 0.25, 0.5, 0.75, 1.0], [5.0, 6.0, 7.0, 8.0, 9.0]]).T, None),
        ('Nx2:N=3:first-row-decreasing', [[1.0, 0.5], [0.5, 7.0], [0.0, 9.0]], None),
        ('3xN', [[0.0, 0.5, 1.0], [5.0, 7.0, 9.0], [1.0, 1.0, 1.0]], None),
        ('3x2', [[0.0, 1.0], [5.0, 9.0], [1.0, 1.0]], None),
        ('1-D', [0.0, 0.5, 1.0], None),
        ('0-D', 3.0, None),
        ('3-D', np.zeros((2, 3, 2)), None),
        ('ragged', [[0.0, 0.5, 1.0], [5.0, 7.0]], None),
        ('2x0', [[], []], None),
        ('2x1', [[0.0], [1.0]], None),
        ('2xN:repeated-abscissa', [[0.0, 0.5, 0.5, 1.0], [1.0, 2.0, 3.0, 4.0]], None),
        ('2xN:decreasing-abscissa', [[1.0, 0.5, 0.0], [1.0, 2.0, 3.0]], None),
        ('2xN:range-misses-psin', [[0.9, 0.95, 1.0], [1.0, 2.0, 3.0]], None),
    ]
    return out


def stream_shapes(ctx, ecs):
    """boundary and invalid profile shapes through every mapping: accepted / rejected identically by model and code;
    valid 2xN shapes give the declared interpolant at psi_n (N = 2: the straight line)"""
    from raysect.core.math.function.float import Interpolator1DArray
    rng = ctx.rng
    targets = ecs[:1] + ecs[2:2 + ctx.n(1, 4)]
    zero = lambda x: 0.0   # noqa
    jobs = []
    for ec in targets:
        eq = ec.eq
        ax = eq.magnetic_axis
        r, z = ax.x + 0.04, ax.y + 0.03
        for dr_, dz_ in ((0.04, 0.03), (0.1, 0.05), (0.2, 0.0), (-0.1, 0.05), (0.02, 0.01), (0.3, 0.1)):
            r, z = ax.x + dr_, ax.y + dz_
            if ec.r[0] < r < ec.r[-1] and eq.inside_lcfs(r, z) == 1.0 and 0.02 < eq.psi_normalised(r, z) < 0.85:
                break
        phi = rng.uniform(-math.pi, math.pi)
        x, y = r * math.cos(phi), r * math.sin(phi)
        rho = math.sqrt(x * x + y * y)
        pt2, pt3 = (r, z), (x, y, z)
        info = {}
        for key, (rr, zz) in (('2', (r, z)), ('3', (rho, z))):
            psin, ins = eq.psi_normalised(rr, zz), eq.inside_lcfs(rr, zz)
            p, n = vt(eq.poloidal_vector(rr, zz)), vt(eq.surface_normal(rr, zz))
            info[key] = (psin, ins, p, n)
        if info['2'][1] != 1.0 or info['3'][1] != 1.0 or not (0.0 < info['2'][0] < 0.85):
            ctx.count('shape-stream-point-not-inside-skipped')
            continue
        rh, ph = (x / rho, y / rho), (-y / rho, x / rho)
        to3 = lambda a: (a[0] * rh[0] + a[1] * ph[0], a[0] * rh[1] + a[1] * ph[1], a[2])   # noqa
        basis2 = ((0.0, 1.0, 0.0), info['2'][2], info['2'][3])
        basis3 = tuple(to3(b_) for b_ in ((0.0, 1.0, 0.0), info['3'][2], info['3'][3]))
        for label, obj, decl in gen_shapes(rng):
            for mapping in ('map2d', 'map3d', 'map_vector2d:0', 'map_vector2d:1', 'map_vector2d:2',
                            'map_vector3d:%d' % rng.randrange(3)):
                name, _, pos = mapping.partition(':')
                three = name.endswith('3d')
                psin = info['3' if three else '2'][0]
                pt = pt3 if three else pt2
                if pos == '':
                    st, f = call(getattr(eq, name), obj, -1.0)
                    proj = lambda v: v   # noqa
                else:
                    a = [zero, zero, zero]
                    a[int(pos)] = obj
                    st, f = call(getattr(eq, name), *a)
                    bvec = (basis3 if three else basis2)[int(pos)]
                    proj = lambda v, bvec=bvec: vdot(vt(v), bvec)   # noqa
                if st == 'ok':
                    st, v = call(f, *pt)
                    got = proj(v) if st == 'ok' else st
                else:
                    got = st
                jobs.append(dict(ec=ec, label=label, obj=obj, decl=decl, mapping=mapping, name=name, psin=psin, got=got, pt=pt))
    # model: which rows reach the interpolator
    lines = []
    for j in jobs:
        st, a = call(np.array, j['obj'], np.float64)
        j['arr'] = a if st == 'ok' else None
        if st != 'ok':
            lines.append('rows 0 0 0')          # numpy itself refuses (ragged): placeholder, not used
        elif a.ndim == 2:
            lines.append('rows 2 %d %d %s' % (a.shape[0], a.shape[1], fs(a.ravel())))
        else:
            lines.append('rows %d 0 0' % a.ndim)
    outs = ctx.driver(lines) if lines else []
    for j, o in zip(jobs, outs):
        ctx.traces += 1
        ctx.count('shape:' + j['label'].split(':')[0])
        ctx.case(key=('shape', j['ec'].name, j['label'], j['mapping']))
        got, psin = j['got'], j['psin']
        if j['arr'] is None:
            want = 'ValueError'                  # numpy conversion error, before any cherab logic
        else:
            rows = model_rows(o)
            if rows is None:
                want = 'IndexError' if j['arr'].ndim < 3 else 'rejected'
            else:
                st, itp = call(Interpolator1DArray, np.array(rows[0]), np.array(rows[1]), 'cubic', 'none', 0)
                if st != 'ok':
                    want = st
                else:
                    st, v = call(itp, psin)
                    want = v if st == 'ok' else st
        if isinstance(want, str):
            agree = (isinstance(got, str) and (want == 'rejected' or got == want))
        else:
            agree = (not isinstance(got, str)) and abs(got - want) <= 1e-11 * max(1.0, abs(want), 200.0)
        desc = dict(equilibrium=j['ec'].desc, shape=j['label'], mapping=j['mapping'], point=j['pt'], psin=psin,
                    profile=np.array(j['arr']).tolist() if j['arr'] is not None else repr(j['obj']))
        if not agree:
            ctx.disagreements += 1
            ctx.broke('correspondence', 'C12 stream shape', dict(model=str(want), implementation=str(got), input=desc))
        if j['decl'] is not None:
            # S: a valid 2xN profile must be accepted and give the declared interpolant at psi_n
            xs, ys = j['decl']
            ref = Interpolator1DArray(np.array(xs), np.array(ys), 'cubic', 'none', 0)(psin)
            lin = (ys[0] + (ys[1] - ys[0]) * (psin - xs[0]) / (xs[1] - xs[0])) if len(xs) == 2 else ref
            if isinstance(got, str) or abs(got - ref) > 1e-11 * 200.0 or abs(got - lin) > 1e-9 * 200.0:
                ctx.fail('C12:%s:array-profile-value' % j['name'],
                         '%s with a %s profile x = %r y = %r at %r (psi_n = %r): %s component = %r, declared interpolant gives %r on %s'
                         % (j['mapping'], j['label'], xs, ys, j['pt'], psin, 'mapped' if j['name'].startswith('map2') or j['name'] == 'map3d' else 'prescribed',
                            got, ref, j['ec'].name), desc)


# ------------------------------------------------------------------------------------------------ stream (e)
def stream_polymask(ctx, ecs):
    """K (round 6): PolygonMask2D.evaluate (mask.pyx: mesh value, then the winding-number fallback over the closed vertex
    list) and raysect's point_inside_polygon against the model (`pmask`: windingNumber / pointInsidePolygon / polygonMask on the
    2xN polygon as efit.pyx receives it).  The mesh value is the harness's own Discrete2DMesh built like the constructor does.
    S: the start vertex never matters (exact, theorem windingNumber_rotate); orientation does not matter away from the boundary
    (theorem pointInsidePolygon_reverse; in floats `side` of the reversed edge rounds differently within ~1 ulp of an edge)."""
    from cherab.core.math import PolygonMask2D
    from cherab.core.math.function import Discrete2DMesh
    from raysect.core.math.polygon import triangulate2d
    from raysect.core.math.cython.utility import _point_inside_polygon
    rng = ctx.rng
    polys = [('unit-square', [(0.0, 0.0), (1.0, 0.0), (1.0, 1.0), (0.0, 1.0)], None),
             ('rectangle-cw', [(0.5, -1.0), (0.5, 2.0), (3.0, 2.0), (3.0, -1.0)], None),
             ('L-shape', [(0.0, 0.0), (2.0, 0.0), (2.0, 1.0), (1.0, 1.0), (1.0, 2.0), (0.0, 2.0)], None),
             ('comb', [(0.0, 0.0), (5.0, 0.0), (5.0, 2.0), (4.0, 2.0), (4.0, 1.0), (3.0, 1.0), (3.0, 2.0), (2.0, 2.0), (2.0, 1.0),
                       (1.0, 1.0), (1.0, 2.0), (0.0, 2.0)], None)]
    use = ecs if ctx.n(0, 1) else ecs[:4]
    polys += [('lcfs:' + ec.name, [(float(a), float(b)) for a, b in ec.vs], ec) for ec in use]
    npts = ctx.n(60, 300)
    for name, vs, ec in polys:
        n = len(vs)
        k = rng.randrange(1, n)
        variants = [('as-given', vs), ('start+%d' % k, vs[k:] + vs[:k]), ('reversed', vs[::-1])]
        xs_, ys_ = [v[0] for v in vs], [v[1] for v in vs]
        x0, x1, y0, y1 = min(xs_), max(xs_), min(ys_), max(ys_)
        wx, wy = 0.1 * (x1 - x0), 0.1 * (y1 - y0)
        pts = [(rng.uniform(x0 - wx, x1 + wx), rng.uniform(y0 - wy, y1 + wy)) for _ in range(npts)]
        # degenerate rows of the winding loop: y exactly a vertex ordinate; the vertices themselves; edge midpoints
        for _ in range(npts // 3):
            pts.append((rng.uniform(x0 - wx, x1 + wx), rng.choice(ys_)))
        for i in rng.sample(range(n), min(n, 12)):
            a, b = vs[i], vs[(i + 1) % n]
            pts += [a, (0.5 * (a[0] + b[0]), 0.5 * (a[1] + b[1]))]
        # points on the internal edges of the triangulation (where the mesh can miss: finding C12-1)
        for (a, b) in triangulation_edges(vs)[:40]:
            for f in (0.5, 0.25, rng.random()):
                pts.append((a[0] + f * (b[0] - a[0]), a[1] + f * (b[1] - a[1])))
        ref = {}
        for vname, vv in variants:
            arr = np.ascontiguousarray(np.array(vv, dtype=np.float64))
            st, mask = call(PolygonMask2D, arr)
            if st != 'ok':
                ctx.count('polymask:constructor-rejected:%s' % vname)
                continue
            mesh = Discrete2DMesh(arr, triangulate2d(arr), np.ones(len(arr) - 2), False, 0.0)
            closed = np.ascontiguousarray(np.vstack((arr, arr[:1, :])))
            tail = '%d %s %s' % (n, fs([v[0] for v in vv]), fs([v[1] for v in vv]))
            mv = [float(mesh(x, y)) for x, y in pts]
            lines = ['pmask %s %s %s %s' % (f2b(m), f2b(x), f2b(y), tail) for m, (x, y) in zip(mv, pts)]
            outs = ctx.driver(lines)
            follow = []
            for (x, y), m, line, o in zip(pts, mv, lines, outs):
                t = o.split()
                got_pip = bool(_point_inside_polygon(closed, x, y))
                got = float(mask(x, y))
                ctx.traces += 1
                ctx.count('polymask')
                if m == 0.0 and got == 1.0:
                    ctx.count('polymask:recovered-by-winding-number')
                ctx.case(key=('polymask', name, vname, f2b(x), f2b(y)))
                if len(t) != 3 or (t[1] == '1') != got_pip or b2f(t[2]) != got:
                    ctx.disagreements += 1
                    ctx.broke('correspondence', 'C12 stream polymask', dict(polygon=name, variant=vname, point=(x, y), mesh=m, model=o,
                                                                             implementation=dict(point_inside_polygon=got_pip, mask=got)))
                    continue
                wn = int(t[0])
                if vname == 'as-given':
                    ref[(x, y)] = (wn, got_pip)
                elif (x, y) in ref:
                    w0, p0 = ref[(x, y)]
                    if vname.startswith('start') and (wn != w0 or got_pip != p0):
                        ctx.fail('C12:PolygonMask2D:start-vertex-dependence', 'polygon %s listed from vertex %s on: point_inside_polygon(%r, %r) = %r '
                                 '(winding number %d), from vertex 0: %r (%d)' % (name, vname[6:], x, y, got_pip, wn, p0, w0), dict(polygon=name, point=(x, y)))
                    if vname == 'reversed':
                        if edge_distance(x, y, vs) <= 1e-9:
                            ctx.count('polymask:reversal-guard-band')
                        elif got_pip != p0 or wn != -w0:
                            ctx.fail('C12:PolygonMask2D:orientation-dependence', 'polygon %s reversed: point_inside_polygon(%r, %r) = %r (winding number %d), '
                                     'as given: %r (%d)' % (name, x, y, got_pip, wn, p0, w0), dict(polygon=name, point=(x, y)))
                if ec is not None and vname == 'as-given' and ec.r[0] <= x <= ec.r[-1] and ec.z[0] <= y <= ec.z[-1]:
                    st2, psn = call(ec.eq.psi_normalised, x, y)
                    st3, ins = call(ec.eq.inside_lcfs, x, y)
                    if st2 == 'ok' and st3 == 'ok':
                        follow.append(('mask %s %s' % (t[2], f2b(psn)), ins, (x, y)))
            # the equilibrium's own inside_lcfs = insideLcfs(model mask, psi_n)
            if follow:
                for (line, ins, pt), o in zip(follow, ctx.driver([f[0] for f in follow])):
                    ctx.traces += 1
                    ctx.count('polymask:inside_lcfs')
                    if b2f(o) != ins:
                        ctx.disagreements += 1
                        ctx.broke('correspondence', 'C12 stream polymask:inside_lcfs', dict(polygon=name, point=pt, line=line, model=o, implementation=ins))


# ------------------------------------------------------------------------------------------------ stream (f)
def stream_history(ctx, ecs):
    """S (round 6, seeded change "map2d caches mappings by id(profile)"): SEVERAL mappings on ONE equilibrium object with
    ndarray profiles -- a loop of temporaries (freed arrays whose id is re-used), the same array updated in place and mapped
    again, the same array with a different value_outside_lcfs, the same array on two equilibria; map2d, map3d, map_vector2d,
    map_vector3d.  Model-free oracle: at grid nodes (psi_n known from the input grid: the interpolant passes through its knots;
    inside / outside by the crossing number of the input polygon, guard band) every mapped function must equal raysect's own
    interpolation of the profile passed in THAT call (resp. the outside value of THAT call) -- when it is created and again
    at the end of the history, after all the other mappings."""
    import gc
    from raysect.core.math.function.float import Interpolator1DArray
    rng = ctx.rng
    X = np.linspace(0.0, 1.0, 11)

    def vals(k):
        return (100.0 * (k + 1)) * (1.0 - X ** (k % 5 + 1)) + 5.0 * k + 1.0

    for ec in [e for e in ecs if e.name in ('example', 'generomak')] + [e for e in ecs if e.analytic][:ctx.n(1, 4)]:
        eq = ec.eq
        ins, outs = [], []
        nodes = [(i, j) for i in range(1, len(ec.r) - 1) for j in range(1, len(ec.z) - 1)]
        rng.shuffle(nodes)
        for (i, j) in nodes:
            r, z = float(ec.r[i]), float(ec.z[j])
            pn = max(0.0, float(ec.normgrid[i, j]))
            d = edge_distance(r, z, ec.vs)
            if d <= 1e-3:
                continue
            if crossing(r, z, ec.vs):
                if pn <= 0.98 and len(ins) < 4:
                    ins.append((r, z, pn))
            elif len(outs) < 2:
                outs.append((r, z))
            if len(ins) == 4 and len(outs) == 2:
                break
        if len(ins) < 2 or not outs:
            ctx.count('history:equilibrium-skipped')
            continue
        phi = 0.7
        made = []          # (label, kind, mapped function, expected profile values (per component), outside value)

        def expect(v, pn):
            return float(Interpolator1DArray(X, v, 'cubic', 'none', 0)(pn))

        def verify(label, kind, f, v, outv, when):
            for (r, z, pn) in ins:
                ctx.count('history:evaluations')
                ctx.case(key=('history', ec.name, label, kind, when, f2b(r), f2b(z)))
                args = (r, z) if kind.endswith('2d') else (r * math.cos(phi), r * math.sin(phi), z)
                st, got = call(f, *args)
                if kind.startswith('map_vector'):
                    want = expect(v[0], pn)
                    mag2 = expect(v[1], pn) ** 2 + expect(v[2], pn) ** 2
                    if st == 'ok':
                        g = vt(got)
                        # toroidal component and in-plane magnitude are basis independent
                        tor = g[1] if kind.endswith('2d') else -g[0] * math.sin(phi) + g[1] * math.cos(phi)
                        pol2 = g[0] ** 2 + g[2] ** 2 if kind.endswith('2d') else (g[0] * math.cos(phi) + g[1] * math.sin(phi)) ** 2 + g[2] ** 2
                        ok = abs(tor - want) <= 1e-6 * (1 + abs(want)) and abs(pol2 - mag2) <= 1e-6 * (1 + mag2)
                    else:
                        ok = False
                    shown = (want, mag2)
                else:
                    want = expect(v, pn)
                    ok = st == 'ok' and abs(got - want) <= 1e-6 * (1 + abs(want))
                    shown = want
                if not ok:
                    ctx.fail('C12:history:%s:not-the-profile-of-this-call' % kind,
                             'equilibrium %s, %s (%s): %s(...)%r = %r but the profile passed in that call interpolated at psi_n = %r gives %r'
                             % (ec.name, label, when, kind, args, got if st == 'ok' else st, pn, shown),
                             dict(equilibrium=ec.desc, step=label, kind=kind, when=when, point=args, psin=pn))
                    return False
            for (r, z) in outs:
                args = (r, z) if kind.endswith('2d') else (r * math.cos(phi), r * math.sin(phi), z)
                st, got = call(f, *args)
                if kind.startswith('map_vector'):
                    w = outv if kind.endswith('2d') else (outv[0] * math.cos(phi) - outv[1] * math.sin(phi), outv[0] * math.sin(phi) + outv[1] * math.cos(phi), outv[2])
                    ok = st == 'ok' and vclose(vt(got), w, 1e-12)
                else:
                    w = outv
                    ok = st == 'ok' and got == outv
                if not ok:
                    ctx.fail('C12:history:%s:not-the-outside-value-of-this-call' % kind,
                             'equilibrium %s, %s (%s): %s(...)%r = %r outside the LCFS, the outside value of that call is %r'
                             % (ec.name, label, when, kind, args, got if st == 'ok' else st, w),
                             dict(equilibrium=ec.desc, step=label, kind=kind, when=when, point=args))
                    return False
            return True

        def vec_out(k):
            from raysect.core import Vector3D
            return Vector3D(0.5 + k, -1.0, 0.25 * k)

        def build(kind, profs, outv):
            if kind == 'map2d':
                return call(eq.map2d, profs[0], outv)
            if kind == 'map3d':
                return call(eq.map3d, profs[0], outv)
            return call(getattr(eq, kind), profs[0], profs[1], profs[2], vec_out(outv))

        def step(label, kind, profs, v, outv):
            st, f = build(kind, profs, outv)
            if st != 'ok':
                ctx.fail('C12:history:%s:valid-profile-rejected' % kind, 'equilibrium %s, %s: %s raised %s for a valid 2xN ndarray profile' % (ec.name, label, kind, st),
                         dict(equilibrium=ec.desc, step=label, kind=kind))
                return
            ov = outv if not kind.startswith('map_vector') else vt(vec_out(outv))
            vv = v[0] if not kind.startswith('map_vector') else v
            if verify(label, kind, f, vv, ov, 'when created'):
                made.append((label, kind, f, vv, ov))

        kinds = ['map2d', 'map3d', 'map_vector2d', 'map_vector3d']
        # (1) loop of temporaries: nothing but the mapping survives an iteration
        seen_ids, reused = set(), 0
        for k in range(ctx.n(8, 24)):
            for kind in kinds:
                nprof = 1 if not kind.startswith('map_vector') else 3
                v = [vals(3 * k + c) for c in range(nprof)]
                profs = [np.array([X, v[c]]) for c in range(nprof)]
                for q in profs:
                    if id(q) in seen_ids:
                        reused += 1
                    seen_ids.add(id(q))
                step('temporary ndarray profile #%d' % k, kind, profs, v, -1.0)
                del profs
                gc.collect()
        ctx.count('history:temporaries-with-a-reused-id', reused)
        # (1b) forced: free an array, allocate until the id comes back (bounded), map the newcomer
        for kind in ('map2d', 'map3d'):
            a = np.array([X, vals(40)])
            step('array A', kind, [a], [vals(40)], -1.0)
            ida = id(a)
            del a
            gc.collect()
            keep = []
            for _ in range(200):
                b = np.array([X, vals(41)])
                if id(b) == ida:
                    ctx.count('history:forced-id-reuse')
                    step('array B allocated at the id of the freed array A', kind, [b], [vals(41)], -1.0)
                    break
                keep.append(b)
            del keep
        # (2) in-place update, then re-map
        for kind in kinds:
            nprof = 1 if not kind.startswith('map_vector') else 3
            profs = [np.array([X, vals(50 + c)]) for c in range(nprof)]
            step('persistent ndarray profile, first mapping', kind, profs, [vals(50 + c) for c in range(nprof)], -2.0)
            for c in range(nprof):
                profs[c][1, :] = vals(60 + c)
            step('the same ndarray after an in-place update, mapped again', kind, profs, [vals(60 + c) for c in range(nprof)], -2.0)
            # (3) the same array, other outside value
            step('the same ndarray with another value_outside_lcfs', kind, profs, [vals(60 + c) for c in range(nprof)], 7.5)
            step('the same ndarray, first outside value again', kind, profs, [vals(60 + c) for c in range(nprof)], -2.0)
            # list / tuple / callable of the same data in between
            if nprof == 1:
                step('the same data as a nested list', kind, [profs[0].tolist()], [vals(60)], -2.0)
                step('the same data as an Interpolator1DArray', kind, [Interpolator1DArray(X, vals(60), 'cubic', 'none', 0)], [vals(60)], -2.0)
        # every mapping made during the history still is its own profile
        for (label, kind, f, vv, ov) in made:
            verify(label, kind, f, vv, ov, 'at the end of the history')
        ctx.count('history:mappings', len(made))
    # (4) one ndarray, two equilibrium objects: each maps it with its own psi_n
    pair = [e for e in ecs if e.name in ('example', 'generomak')]
    if len(pair) == 2:
        prof = np.array([X, vals(70)])
        fs_ = [call(e.eq.map2d, prof, -3.0) for e in pair]
        for e, (st, f) in zip(pair, fs_):
            for i in range(len(e.r) // 3, 2 * len(e.r) // 3, 2):
                j = len(e.z) // 2
                r, z, pn = float(e.r[i]), float(e.z[j]), max(0.0, float(e.normgrid[i, j]))
                if crossing(r, z, e.vs) and pn <= 0.98 and edge_distance(r, z, e.vs) > 1e-3:
                    want = float(Interpolator1DArray(X, vals(70), 'cubic', 'none', 0)(pn))
                    st2, got = call(f, r, z) if st == 'ok' else (st, None)
                    ctx.count('history:evaluations')
                    if st2 != 'ok' or abs(got - want) > 1e-6 * (1 + abs(want)):
                        ctx.fail('C12:history:map2d:shared-between-equilibria', 'one ndarray profile mapped on the example and the Generomak equilibrium: on %s map2d(%r, %r) = %r, '
                                 'profile(psi_n = %r) = %r' % (e.name, r, z, got if st2 == 'ok' else st2, pn, want), dict(equilibrium=e.desc, point=(r, z)))
                        break


# ------------------------------------------------------------------------------------------------ stream (d)
ARRAY_KEYS = ('r', 'z', 'psi', 'f', 'q', 'lcfs', 'lim')


def alias_sources(rng):
    """constructor inputs as plain float64 C arrays: the bundled example data, a Solov'ev grid, an integer-valued grid"""
    import cherab.tools.equilibrium as cte
    d = json.load(open(os.path.join(os.path.dirname(cte.__file__), 'example.json')))
    out = [dict(name='example', r=np.array(d['r']), z=np.array(d['z']), psi=np.array(d['psi']), f=np.array(d['f_profile']),
                q=np.array(d['q_profile']), lcfs=np.array(d['lcfs_polygon']), lim=np.array(d['limiter_polygon']),
                axis=d['psi_axis'], lcfsv=d['psi_lcfs'], ax=tuple(d['axis_coord']), rvac=d['b_vacuum_radius'], bvac=d['b_vacuum_magnitude'], intable=False)]
    # integer-valued: circular flux surfaces psi = (R-15)^2 + Z^2 on an integer grid, LCFS radius 10
    r = np.arange(1.0, 31.0)
    z = np.arange(-15.0, 16.0)
    RR, ZZ = np.meshgrid(r, z, indexing='ij')
    oct_ = [(24, 0), (21, 6), (15, 9), (9, 6), (6, 0), (9, -6), (15, -9), (21, -6)]
    out.append(dict(name='intgrid', r=r, z=z, psi=(RR - 15.0) ** 2 + ZZ ** 2, f=np.array([[0.0, 1.0, 2.0], [30.0, 32.0, 31.0]]),
                    q=np.array([[0.0, 1.0], [1.0, 3.0]]), lcfs=np.array(oct_, dtype=float).T.copy(),
                    lim=np.array([[3.0, 28.0, 28.0, 3.0], [-13.0, -13.0, 13.0, 13.0]]),
                    axis=0.0, lcfsv=100.0, ax=(15.0, 0.0), rvac=15.0, bvac=2.0, intable=True))
    return out


def alias_build(src, arrays):
    from raysect.core import Point2D
    from cherab.tools.equilibrium.efit import EFITEquilibrium
    a = arrays
    return EFITEquilibrium(a['r'], a['z'], a['psi'], src['axis'], src['lcfsv'], Point2D(*src['ax']), [], [], a['f'], a['q'],
                           src['rvac'], src['bvac'], a['lcfs'], a['lim'], 0.0)


def alias_points(src):
    r, z = src['r'], src['z']
    ax = src['ax']
    fr = [(0.0, 0.0), (0.03, 0.02), (0.12, -0.05), (0.2, 0.1), (-0.15, 0.12), (0.33, 0.3), (-0.3, -0.35), (0.42, -0.4)]
    span = (float(r[-1] - r[0]), float(z[-1] - z[0]))
    pts = [(ax[0] + a * span[0], ax[1] + b * span[1]) for a, b in fr]
    return [(x, y) for x, y in pts if r[0] <= x <= r[-1] and z[0] <= y <= z[-1]]


ALIAS_PROFILE_X = [-0.1, 0.3, 0.7, 1.2]      # abscissa deliberately wider than [0, 1]


def alias_profiles():
    x = ALIAS_PROFILE_X
    return dict(te=np.array([x, [10.0, 40.0, 20.0, 5.0]]), tor=np.array([x, [1e4, 3e4, 2e4, 1e3]]),
                pol=np.array([x, [4e3, 1e3, -2e3, 0.0]]), nrm=np.array([x, [10.0, -20.0, 5.0, 1.0]]))


def alias_maps(eq, P):
    return dict(map2d=eq.map2d(P['te'], -1.0), map3d=eq.map3d(P['te'], -1.0),
                map_vector2d=eq.map_vector2d(P['tor'], P['pol'], P['nrm']), map_vector3d=eq.map_vector3d(P['tor'], P['pol'], P['nrm']))


def bits(v):
    if v is None:
        return 'None'
    if hasattr(v, 'x') and hasattr(v, 'z'):
        return fs(vt(v))
    if isinstance(v, np.ndarray):
        return '%s:%s' % (v.shape, np.ascontiguousarray(v, dtype=np.float64).tobytes().hex())
    if isinstance(v, (tuple, list)):
        return '(' + ','.join(bits(t) for t in v) + ')'
    return f2b(v)


ATTRS = ('r_data', 'z_data', 'psi_data', 'lcfs_polygon', 'limiter_polygon', 'r_range', 'z_range', 'psi_axis', 'psi_lcfs')


def alias_probe(eq, maps, pts, attrs=True):
    """every observable of the property as bit patterns: {name: string}"""
    out = {}
    for i, (r, z) in enumerate(pts):
        for nm, f in (('psi', eq.psi), ('psi_normalised', eq.psi_normalised), ('b_field', eq.b_field), ('poloidal_vector', eq.poloidal_vector),
                      ('surface_normal', eq.surface_normal), ('inside_lcfs', eq.inside_lcfs), ('inside_limiter', eq.inside_limiter)):
            st, v = call(f, r, z) if f is not None else ('ok', None)
            out['%s@%d' % (nm, i)] = bits(v) if st == 'ok' else st
        for nm in ('map2d', 'map_vector2d'):
            st, v = call(maps[nm], r, z)
            out['%s@%d' % (nm, i)] = bits(v) if st == 'ok' else st
        x, y = r * 0.6, r * 0.8
        for nm in ('map3d', 'map_vector3d'):
            st, v = call(maps[nm], x, y, z)
            out['%s@%d' % (nm, i)] = bits(v) if st == 'ok' else st
    for nm, f, a in (('f_profile', eq.f_profile, 0.3), ('q', eq.q, 0.3), ('psin_to_r', eq.psin_to_r, 0.5)):
        st, v = call(f, a) if f is not None else ('ok', None)
        out[nm] = bits(v) if st == 'ok' else st
    if attrs:
        for nm in ATTRS:
            out['attr:' + nm] = bits(getattr(eq, nm))
    return out


def alias_diff(a, b, skip=()):
    return sorted(k for k in a if k not in skip and a[k] != b.get(k))


def conv_fortran(x):
    return np.asfortranarray(x)


def conv_strided(x):
    if x.ndim == 1:
        big = np.full(2 * len(x) + 1, 777.0)
        big[1::2] = x
        return big[1::2]
    big = np.full((2 * x.shape[0], 3 * x.shape[1]), 777.0)
    big[::2, ::3] = x
    return big[::2, ::3]


def conv_tview(x):
    return x if x.ndim == 1 else np.ascontiguousarray(x.T).T


def conv_neg_stride(x):
    return x[::-1].copy()[::-1] if x.ndim == 1 else x[::-1, ::-1].copy()[::-1, ::-1]


def conv_list(x):
    return x.tolist()


def conv_tuple(x):
    return tuple(x.tolist()) if x.ndim == 1 else tuple(tuple(row) for row in x.tolist())


def conv_int(x):
    return x.astype(np.int64)


def conv_int32(x):
    return x.astype(np.int32)


def stream_aliasing(ctx):
    """S (metamorphic, no model: a pure model has no notion of aliasing): caller-data aliasing, dtype / layout independence,
    rejected constructions leave existing objects untouched"""
    rng = ctx.rng
    for src in alias_sources(rng):
        nm = src['name']
        pts = alias_points(src)
        A = {k: np.array(src[k], dtype=np.float64, order='C') for k in ARRAY_KEYS}
        keepA = {k: v.copy() for k, v in A.items()}
        P = alias_profiles()
        keepP = {k: v.copy() for k, v in P.items()}

        def fail(sig, why, **extra):
            ctx.fail('C12:aliasing:' + sig, '%s [equilibrium built from the %s data]' % (why, nm), dict(source=nm, **extra))

        st, eq1 = call(alias_build, src, A)
        if st != 'ok':
            fail('construction-raised', 'EFITEquilibrium raised %s: %s' % (st, eq1))
            continue
        maps1 = alias_maps(eq1, P)
        base = alias_probe(eq1, maps1, pts)
        ctx.case(key=('alias', nm, 'base'))
        # the constructor and the map functions must not modify the caller's arrays
        for k in ARRAY_KEYS:
            if bits(A[k]) != bits(keepA[k]):
                fail('constructor-modified-caller-array:' + k, 'EFITEquilibrium(...) modified the caller\'s %s array in place' % k, array=k)
        for k in P:
            if bits(P[k]) != bits(keepP[k]):
                fail('map-modified-caller-profile:' + k, 'map2d/map3d/map_vector2d/map_vector3d modified the caller\'s %s profile array in place: %r -> %r'
                     % (k, keepP[k].tolist(), P[k].tolist()), profile=k)
        # private copies give the same object
        eq_p = alias_build(src, {k: v.copy() for k, v in keepA.items()})
        d = alias_diff(base, alias_probe(eq_p, alias_maps(eq_p, {k: v.copy() for k, v in keepP.items()}), pts))
        if d:
            fail('not-deterministic', 'two constructions from equal data differ in %s' % d[:6])
        # exposed attributes reproduce the inputs and own their memory
        for attr, key, tr in (('r_data', 'r', False), ('z_data', 'z', False), ('psi_data', 'psi', False), ('lcfs_polygon', 'lcfs', True), ('limiter_polygon', 'lim', True)):
            arr = getattr(eq1, attr)
            want = keepA[key].T if tr else keepA[key]
            if arr.shape != want.shape or bits(arr) != bits(np.ascontiguousarray(want)):
                fail('attribute-value:' + attr, 'attribute %s does not reproduce the constructor input' % attr, attribute=attr)
            if any(np.shares_memory(arr, A[k]) for k in ARRAY_KEYS):
                fail('attribute-shares-caller-memory:' + attr, 'attribute %s shares memory with an array owned by the caller' % attr, attribute=attr)
        # (a) the caller overwrites its arrays in place, one at a time
        for k in ARRAY_KEYS:
            for mode in ('garbage', 'nan', 'reversed'):
                if mode == 'garbage':
                    A[k][...] = 0.123
                elif mode == 'nan':
                    A[k][...] = NAN
                else:
                    A[k][...] = keepA[k][::-1] if A[k].ndim == 1 else keepA[k][::-1, ::-1]
                d = alias_diff(base, alias_probe(eq1, maps1, pts))
                ctx.case(key=('alias', nm, 'caller', k, mode))
                ctx.count('alias:caller-overwrites')
                if d:
                    fail('caller-array-aliased:' + k, 'after the caller overwrote its own %s array in place (%s) these observables changed: %s' % (k, mode, d[:8]), array=k, mode=mode, changed=d)
                A[k][...] = keepA[k]
        for k in P:
            P[k][...] = 9.75
            d = alias_diff(base, alias_probe(eq1, maps1, pts))
            ctx.case(key=('alias', nm, 'profile', k))
            if d:
                fail('caller-profile-aliased:' + k, 'after the caller overwrote the %s profile array it had passed to the mapping these observables changed: %s' % (k, d[:8]), profile=k, changed=d)
            P[k][...] = keepP[k]
        # arrays the object hands out, edited by the caller, must not change later evaluations (nor maps created afterwards)
        for attr in ('r_data', 'z_data', 'psi_data', 'lcfs_polygon', 'limiter_polygon'):
            arr = getattr(eq1, attr)
            if not arr.flags.writeable:
                ctx.count('alias:attribute-readonly')
                continue
            saved = arr.copy()
            arr[...] = 0.5
            skip = ('attr:' + attr,)
            d = alias_diff(base, alias_probe(eq1, maps1, pts), skip) + alias_diff(base, alias_probe(eq1, alias_maps(eq1, keepP), pts), skip)
            ctx.case(key=('alias', nm, 'attribute', attr))
            ctx.count('alias:attribute-edited')
            if d:
                fail('attribute-edit-changes-evaluation:' + attr, 'after editing the array returned by .%s in place these observables changed: %s' % (attr, sorted(set(d))[:8]), attribute=attr)
            arr[...] = saved
        # (b) representation independence (bit-identical: every conversion to float64 is exact)
        convs = [('fortran', conv_fortran), ('strided', conv_strided), ('transposed-view', conv_tview), ('negative-stride', conv_neg_stride),
                 ('list', conv_list), ('tuple', conv_tuple)]
        if src['intable']:
            convs += [('int64', conv_int), ('int32', conv_int32)]
        for label, cv in convs:
            for which in ('all',) + ARRAY_KEYS:
                arrays = {k: (cv(keepA[k].copy()) if which in ('all', k) else keepA[k].copy()) for k in ARRAY_KEYS}
                st, eq2 = call(alias_build, src, arrays)
                ctx.case(key=('alias', nm, 'repr', label, which))
                ctx.count('alias:representation:' + label)
                if st != 'ok':
                    fail('representation-rejected:%s:%s' % (label, which), 'construction with %s given as %s raised %s: %s' % (which, label, st, eq2), conversion=label, array=which)
                    continue
                Pc = {k: (v.copy() if label.startswith('int') else cv(v.copy())) for k, v in keepP.items()}   # profile values are not integers
                d = alias_diff(base, alias_probe(eq2, alias_maps(eq2, Pc), pts))
                if d:
                    fail('representation-dependent:%s:%s' % (label, which), 'with %s given as %s (same values) these observables differ: %s' % (which, label, d[:8]), conversion=label, array=which, changed=d)
        # float32: identical to the equilibrium built from the float32-rounded values
        A32 = {k: keepA[k].astype(np.float32) for k in ARRAY_KEYS}
        P32 = {k: v.astype(np.float32) for k, v in keepP.items()}
        st, e32 = call(alias_build, src, A32)
        st2, e64 = call(alias_build, src, {k: v.astype(np.float64) for k, v in A32.items()})
        ctx.case(key=('alias', nm, 'repr', 'float32'))
        if st != 'ok' or st2 != 'ok':
            if st != st2:
                fail('representation-rejected:float32', 'float32 inputs raised %s, their float64 values %s' % (st, st2))
        else:
            d = alias_diff(alias_probe(e64, alias_maps(e64, {k: v.astype(np.float64) for k, v in P32.items()}), pts), alias_probe(e32, alias_maps(e32, P32), pts))
            if d:
                fail('representation-dependent:float32', 'float32 inputs differ from the same values given as float64 in %s' % d[:8], changed=d)
        # (c) rejected constructions / calls leave existing objects untouched
        bad = [('r-decreasing', dict(r=keepA['r'][::-1].copy())), ('r-repeated', dict(r=np.concatenate([keepA['r'][:1], keepA['r'][:-1]]))),
               ('z-decreasing', dict(z=keepA['z'][::-1].copy())), ('psi-shape', dict(psi=keepA['psi'][:, :-1].copy())), ('psi-1d', dict(psi=keepA['psi'].ravel())),
               ('r-2d', dict(r=keepA['psi'].copy())), ('f-1xN', dict(f=keepA['f'][:1].copy())), ('f-1d', dict(f=keepA['f'][0].copy())),
               ('q-decreasing-abscissa', dict(q=keepA['q'][:, ::-1].copy())), ('lcfs-Nx2', dict(lcfs=keepA['lcfs'].T.copy())),
               ('lcfs-1d', dict(lcfs=keepA['lcfs'][0].copy())), ('lcfs-3xN', dict(lcfs=np.vstack([keepA['lcfs'], keepA['lcfs'][:1]]))),
               ('limiter-Nx2', dict(lim=keepA['lim'].T.copy())), ('lcfs-closed', dict(lcfs=np.hstack([keepA['lcfs'], keepA['lcfs'][:, :1]]))),
               ('r-ragged', dict(r=[[1.0, 2.0], [3.0]])), ('psi-nan-axis', None)]
        for label, over in bad:
            if over is None:
                continue
            arrays = {k: v.copy() for k, v in keepA.items()}
            arrays.update(over)
            st, res = call(alias_build, src, arrays)
            ctx.case(key=('alias', nm, 'rejected', label))
            ctx.count('alias:invalid-construction:%s' % ('rejected' if st != 'ok' else 'ACCEPTED:' + label))
            d = alias_diff(base, alias_probe(eq1, maps1, pts))
            if d:
                fail('failed-construction-disturbed-existing:' + label, 'after the attempted construction with %s (%s) an existing equilibrium changed in %s' % (label, st, d[:8]), attempt=label)
        for label, prof in (('1xN', [[0.0, 0.5, 1.0]]), ('0-D', 3.0), ('ragged', [[0.0, 1.0], [1.0]]), ('decreasing', [[1.0, 0.0], [1.0, 2.0]]), ('text', 'abc')):
            for mp in ('map2d', 'map3d', 'map_vector2d', 'map_vector3d'):
                args = (prof,) if mp in ('map2d', 'map3d') else (keepP['tor'], prof, keepP['nrm'])
                st, res = call(getattr(eq1, mp), *args)
                ctx.count('alias:invalid-profile:%s' % ('rejected' if st != 'ok' else 'ACCEPTED:' + label))
            d = alias_diff(base, alias_probe(eq1, maps1, pts))
            ctx.case(key=('alias', nm, 'rejected-profile', label))
            if d:
                fail('failed-map-call-disturbed-existing:' + label, 'after map calls with an invalid profile (%s) the equilibrium / earlier maps changed in %s' % (label, d[:8]), attempt=label)
    degenerate_polygon_probe(ctx)


def degenerate_polygon_probe(ctx):
    """an LCFS polygon with fewer than 3 vertices, in a subprocess (raysect's triangulate2d reads out of bounds for it);
    outside the property (not an equilibrium): recorded, not reported as a failure"""
    import subprocess
    import sys
    code = ("import numpy as np\nfrom raysect.core import Point2D\nfrom cherab.tools.equilibrium.efit import EFITEquilibrium\n"
            "r = np.linspace(1.0, 3.0, 9); z = np.linspace(-1.0, 1.0, 9); R, Z = np.meshgrid(r, z, indexing='ij')\n"
            "p = np.array([[0.0, 1.0], [1.0, 1.0]])\n"
            "try:\n    EFITEquilibrium(r, z, (R - 2) ** 2 + Z ** 2, 0.0, 0.5, Point2D(2, 0), [], [], p, p, 2.0, 1.0, np.array([[1.5, 2.5], [0.0, 0.0]]), None, 0.0)\n"
            "    print('accepted')\nexcept Exception as e:\n    print('raised', type(e).__name__)\n")
    try:
        r = subprocess.run([sys.executable, '-c', code], stdout=subprocess.PIPE, stderr=subprocess.DEVNULL, text=True, timeout=120)
        res = r.stdout.strip() if r.returncode == 0 else 'process died (exit %d)' % r.returncode
    except Exception as e:  # noqa
        res = 'probe failed: %r' % (e,)
    ctx.extra['two_vertex_polygon'] = res
    ctx.count('alias:two-vertex-polygon:' + res.split()[0])


# ------------------------------------------------------------------------------------------------ run
def run(ctx):
    ctx.rule = ('equilibria: bundled example (psi_lcfs > psi_axis), Generomak (psi_lcfs < psi_axis), synthetic Solov\'ev grids with both signs, '
                'uniform and stretched grids, polygon inside/on/outside the psi_n = 1 contour, axis value on/off the grid minimum; points: uniform '
                'in the grid domain, near the axis, near the LCFS, grid nodes, domain boundary, toroidal angles incl. axes and the atan2 cut; profiles as '
                'Python callables and 2xN arrays (lists and ndarrays); helper classes around recording callables with edge values. A case is distinct '
                'by (stream, equilibrium, point bits) resp. the protocol line; non-trivial = the real object was evaluated and compared')
    ctx.trusted += ['raysect Interpolator2DArray/1DArray (cubic), PolygonMask2D triangulation, Blend2D, Vector3D.normalise/set_length/transform, '
                    'rotate_z are parameters of the model: their values at the sample points are handed to the driver',
                    'numpy.gradient finite differences inside _calculate_differentials (checked against analytic/FD flux derivatives in S only)',
                    'libm sqrt/atan2/cos/sin (SqrtSpec, cos^2+sin^2=1, pi != 0 are hypotheses of Props/C12.lean; SqrtSpec discharged for Real.sqrt)']
    ctx.assumptions += ['points inside the (r, z) grid domain, r > 0; finite inputs',
                        'independent mask oracle keeps 1e-6 from polygon edges and 1e-9 from psi_n = 1 (guard band, counted)',
                        'direct helper-class oracles assert only for 1e-140 <= |b_pol| <= 1e140 (squares under/overflow outside; K still compares)']
    ctx.lean_check(['Cherab.Props.C12', 'Cherab.Props.C12Mask'], 'Cherab/Audit/C12.lean')

    # driver sanity: pi and the model's op table
    o = ctx.driver(['pi', 'psin ' + f2b(-0.25), 'psin ' + f2b(0.25)])
    if o[0] != f2b(math.pi) or b2f(o[1]) != 0.0 or b2f(o[2]) != 0.25:
        raise RuntimeError('driver sanity failed: %r' % (o,))

    # corpus: past failing points, replayed first
    for path in sorted(glob.glob(os.path.join(VERIF, 'corpus', 'C12', '*.json'))):
        for rp in json.load(open(path)).get('points', []):
            ctx.count('corpus')
            replay_point(ctx, rp, quiet=True)

    ecs = stream_equilibria(ctx)
    stream_shapes(ctx, ecs)
    stream_aliasing(ctx)
    stream_helpers(ctx)
    stream_polymask(ctx, ecs)
    stream_history(ctx, ecs)
    ctx.extra['equilibria'] = [dict(name=ec.name, sign=ec.sign, grid=list(ec.psi.shape), bpol_max=ec.bpol_max) for ec in ecs]
    ctx.extra['float_gap_note'] = ('PoloidalFieldVector/FluxSurfaceNormal/FluxCoordToCartesian raise ZeroDivisionError when b_x^2+b_z^2 underflows '
                                   '(|b_pol| < 1.5e-162, non-zero) and return the zero vector when it overflows; no in-domain point of any equilibrium reaches this')


def replay_point(ctx, rp, quiet=False):
    """re-execute one failing point of a replay file against the real code (mask / map2d / basis oracles)"""
    d = rp['equilibrium']
    ec = solovev_build(d) if d.get('kind') == 'solovev' else bundled(d['kind'])
    eq = ec.eq
    ec.tri_edges = triangulation_edges(eq.lcfs_polygon)
    ec.bpol_max = 0.0
    r, z = rp['r'], rp['z']
    ps = ProfSet(ctx.rng, ec, 0)
    rc = dict(ec=ec, r=r, z=z, ps=ps, three=False)
    obs = {}
    for key, f in (('psin', eq.psi_normalised), ('inside', eq.inside_lcfs), ('b', eq.b_field), ('p', eq.poloidal_vector),
                   ('n', eq.surface_normal), ('t', eq.toroidal_vector), ('m2', ps.f2), ('v2', ps.v2), ('psi', eq.psi)):
        st, v = call(f, r, z)
        obs[key] = (vt(v) if hasattr(v, 'x') else v) if st == 'ok' else 'E'
    if not quiet:
        print('replay at (%r, %r) on %s: %r' % (r, z, ec.name, obs))
    ctx.case(key=('replay', f2b(r), f2b(z)))
    if 'E' in obs.values():
        ctx.fail('C12:replay:raised-in-domain', 'replayed point raised: %r' % (obs,), rp)
        return
    if not obs['psin'] >= 0.0:
        ctx.fail('C12:psi_normalised:negative', 'psi_normalised(%r, %r) = %r' % (r, z, obs['psin']), rp)
    oracle_scalar(ctx, rc, obs)
    oracle_basis(ctx, rc, obs)
    oracle_velocity(ctx, rc, obs, obs['v2'], None)
    if not quiet:
        print('replayed point: %s' % ('still failing: ' + ', '.join(f['signature'] for f in ctx.failing) if ctx.failing else 'passes now'))


def replay(ctx, path):
    r = json.load(open(path))
    print(json.dumps({k: v for k, v in r.items() if k != 'broken'}, indent=1)[:3000])
    rp = r.get('replay') or {}
    if isinstance(rp, dict) and 'equilibrium' in rp and 'r' in rp and 'z' in rp:
        replay_point(ctx, rp)
    run(ctx)
    return ctx.finish()
