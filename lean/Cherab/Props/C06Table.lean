import Cherab.Model.Repository
import Cherab.Gen.RepoPaths

/-!
# C06 — obligations on the tables generated from /repo's current source (`Cherab/Gen/RepoPaths.lean`)

Structural facts, by `decide` over the complete tables: every getter reads where its family writes, every path template
has the components its family's key demands, no two families can produce the same path.
(`add_matches_update` and `all_paths_under_root` live in `C06TableAdd.lean` / `C06TableRoot.lean`, the conjunction
`tables_wellformed` — the hypothesis of every theorem of `Props/C06.lean` — in `C06TableAll.lean`, so that a table that
violates one of them does not hide the others.)
-/
namespace Cherab.Props.C06Table
open Cherab.Repository Cherab.Gen.RepoPaths

/-- every `get_z` reads the path template the family it is named after writes with, with the class it is named after -/
theorem get_matches_update : tables.getMatches = true := by decide

/-- every path template has exactly the components the family's key demands, and the extension `.json` -/
theorem templates_shaped : tables.shapesOk = true := by decide

/-- no two families can produce the same path -/
theorem templates_disjoint : tables.disjointOk = true := by decide

end Cherab.Props.C06Table
