/-
C15 — observer groups (cherab/tools/observers/group/{base,sightline,fibreoptic,pixel,targettedpixel,
spectroscopic}.py, cherab/tools/observers/bolometry.py: BolometerCamera).  Mathlib-free.

The ≈30 hand-written property pairs of the group classes are *data* here: a `Descriptor` per (class, public
attribute name) says which function got bound where and which member attribute each branch touches; the table of
descriptors is generated from the Python `ast` of the seven files (`Cherab/Gen/GroupTable.lean`, written by
`harness/translators/groups.py`) **after simulating class-body execution and the MRO**, i.e. it records the
property objects Python really builds (a `@a.setter def b` creates a property named `b` made of `a`'s getter and the
new setter, and leaves `a` without a setter).  `setAttr`/`getAttr` interpret a descriptor exactly like the
corresponding Python statements, including the order of checks and the partial updates left behind by an exception
raised half-way through a loop.

The observers themselves (raysect) are parameters: an `Obj` carries what the *member's own* attribute setter does
with it (`rej` = the exception it raises, `stored` = the content the member reports afterwards).  The harness
obtains both by assigning the same Python value to a scratch observer of the member type.

State: one group (`members` = `self._observers` / `self._foil_detectors`, a list of object ids) and a heap of
observers, so that aliasing (the same observer added twice) is represented as in Python.
-/
namespace Cherab.Groups

abbrev Attr := String

inductive Err | valueError | typeError | attributeError | indexError | other
  deriving DecidableEq, Repr, Inhabited

inductive SeqKind | list | tuple | ndarray
  deriving DecidableEq, Repr, Inhabited

/-- A Python object as far as the group code can tell. -/
structure Obj where
  /-- content id the member reports after `member.attr = obj` succeeded (raysect's normalisation included) -/
  stored : Nat
  /-- the member's own setter rejects the object with this exception -/
  rej : Option Err := none
  /-- `isinstance(obj, list | tuple | ndarray)` -/
  kind : Option SeqKind := none
  /-- `isinstance(obj, RenderEngine)` -/
  engine : Bool := false
  deriving DecidableEq, Repr, Inhabited

/-- right-hand side of `group.attr = value`; `items` is the iteration order of a sequence value -/
structure Val where
  obj : Obj
  items : List Obj := []
  deriving DecidableEq, Repr, Inhabited

/-- an observer (or any other object that somebody tries to put into a group) -/
structure Obs where
  attrs : Attr → Nat
  parent : Option Nat := none
  /-- names of the classes in `type(o).__mro__` -/
  types : List String := []

abbrev Heap := Nat → Obs

def Obs.set (o : Obs) (a : Attr) (x : Nat) : Obs :=
  { o with attrs := fun b => if b = a then x else o.attrs b }

def Heap.setAttr (h : Heap) (u : Nat) (a : Attr) (x : Nat) : Heap :=
  fun w => if w = u then (h u).set a x else h w

def Heap.setParent (h : Heap) (u : Nat) (p : Option Nat) : Heap :=
  fun w => if w = u then { h u with parent := p } else h w

structure World where
  /-- the group node itself -/
  gid : Nat
  heap : Heap
  /-- `self._observers` (tuple) / `self._foil_detectors` (list) -/
  members : List Nat

/-! ## descriptors (generated) -/

/-- the test that selects the element-wise branch -/
inductive Test
  /-- `isinstance(value, (list, tuple[, ndarray]))` -/
  | isinst (kinds : List SeqKind)
  /-- no test at all: `len(value)` is taken directly (`pipelines`) -/
  | sized
  /-- `all(isinstance(v, (list, tuple)) for v in value)` (`targets`) -/
  | allItems (kinds : List SeqKind)
  deriving DecidableEq, Repr, Inhabited

/-- what happens when the test fails -/
inductive Else
  /-- `for o in self._observers: o.attr = value`, optionally after `if not isinstance(value, RenderEngine): raise err` -/
  | broadcast (attr : Attr) (engineCheck : Bool) (err : Err)
  | raise (e : Err)
  /-- no else branch (shape `sized`) -/
  | absent
  deriving DecidableEq, Repr, Inhabited

structure Setter where
  /-- name of the `def` (the class attribute the resulting property object is bound to) -/
  fnName : String
  /-- `X` of the decorator `@X.setter` (whose getter the property object inherits) -/
  decTarget : String
  test : Test
  /-- `if len(value) == len(self._observers)` present -/
  lenCheck : Bool
  /-- exception of the `else` of the length test -/
  lenErr : Err
  /-- member attribute written by the `zip` loop -/
  seqAttr : Attr
  /-- `if isinstance(v, RenderEngine)` around the element assignment, raising `elemErr` otherwise -/
  elemEngineCheck : Bool
  elemErr : Err
  orelse : Else
  deriving DecidableEq, Repr, Inhabited

/-- `observers` / `foil_detectors` setters -/
structure MemberSetter where
  fnName : String
  decTarget : String
  /-- accepted container kinds, `kindErr` otherwise -/
  kinds : List SeqKind
  kindErr : Err
  /-- exception for an element of the wrong type -/
  elemErr : Err
  /-- all elements are type-checked before the first re-parenting (`all(...)`); otherwise the check sits in the loop -/
  atomic : Bool
  deriving DecidableEq, Repr, Inhabited

inductive Getter
  /-- `return [o.attr for o in self._observers]` -/
  | each (attr : Attr)
  /-- `return self._observers` / `return self._foil_detectors.copy()` -/
  | memberList
  | unrecognised (hash : Nat)
  deriving DecidableEq, Repr, Inhabited

inductive SetterD
  | broadcast (s : Setter)
  | members (m : MemberSetter)
  /-- `self.<target> = value` -/
  | alias (fnName decTarget target : String)
  | unrecognised (fnName decTarget : String) (hash : Nat)
  deriving DecidableEq, Repr, Inhabited

/-- the property object reachable as `cls.name` (after class-body execution and MRO lookup) -/
structure Descriptor where
  cls : String
  name : String
  /-- class whose body created this property object -/
  definedIn : String
  /-- name of the `def` that is the getter -/
  getterFn : String
  getter : Getter
  /-- `none`: the property object has no `fset` (assignment raises AttributeError) -/
  setter : Option SetterD
  deriving DecidableEq, Repr, Inhabited

inductive Family | observer0D | bolometer
  deriving DecidableEq, Repr, Inhabited

structure ClassInfo where
  name : String
  family : Family
  /-- `_OBSERVER_TYPE` after MRO lookup / the isinstance tuple of `add_foil_detector` -/
  accepted : List String
  /-- exception of `add_observer` / `add_foil_detector` for a wrong type -/
  addErr : Err
  /-- `__getitem__` hands slice keys to the member container (`self._observers[item]` in a `try`, or
  `isinstance(item, (int, slice))` in front of `self._foil_detectors[item]`); generated from the source -/
  sliceKeys : Bool := true
  deriving DecidableEq, Repr, Inhabited

/-! ## interpreter -/

def kindIn (k : Option SeqKind) (ks : List SeqKind) : Bool :=
  match k with
  | some k => ks.contains k
  | none => false

/-- `for o, v in zip(self._observers, value): [if isinstance(v, RenderEngine):] o.attr = v [else: raise]` -/
def assignZip (a : Attr) (chk : Bool) (chkErr : Err) : List Nat → List Obj → Heap → Heap × Option Err
  | u :: us, o :: os, h =>
    if chk && !o.engine then (h, some chkErr)
    else match o.rej with
      | some e => (h, some e)
      | none => assignZip a chk chkErr us os (h.setAttr u a o.stored)
  | _, _, h => (h, none)

/-- `for o in self._observers: o.attr = value` -/
def assignAll (a : Attr) (o : Obj) : List Nat → Heap → Heap × Option Err
  | [], h => (h, none)
  | u :: us, h =>
    match o.rej with
    | some e => (h, some e)
    | none => assignAll a o us (h.setAttr u a o.stored)

def World.withHeap (w : World) (r : Heap × Option Err) : World × Option Err := ({ w with heap := r.1 }, r.2)

def seqBranch (s : Setter) (w : World) (v : Val) : World × Option Err :=
  if s.lenCheck && v.items.length != w.members.length then (w, some s.lenErr)
  else w.withHeap (assignZip s.seqAttr s.elemEngineCheck s.elemErr w.members v.items w.heap)

def elseBranch (s : Setter) (w : World) (v : Val) : World × Option Err :=
  match s.orelse with
  | .broadcast a chk err =>
    if chk && !v.obj.engine then (w, some err)
    else w.withHeap (assignAll a v.obj w.members w.heap)
  | .raise e => (w, some e)
  | .absent => (w, none)

/-- body of a broadcast-family setter -/
def Setter.run (s : Setter) (w : World) (v : Val) : World × Option Err :=
  match s.test with
  | .isinst ks => if kindIn v.obj.kind ks then seqBranch s w v else elseBranch s w v
  | .sized =>
    match v.obj.kind with
    | none => (w, some .typeError)            -- `len()` of an unsized object
    | some _ => seqBranch s w v
  | .allItems ks =>
    match v.obj.kind with
    | none => (w, some .typeError)            -- iterating a non-iterable
    | some _ => if v.items.all (fun o => kindIn o.kind ks) then seqBranch s w v else elseBranch s w v

def typeOk (h : Heap) (accepted : List String) (u : Nat) : Bool :=
  accepted.any fun t => (h u).types.contains t

def reparentAll (g : Nat) : List Nat → Heap → Heap
  | [], h => h
  | u :: us, h => reparentAll g us (h.setParent u (some g))

/-- the bolometer loop: `for d in value: if not isinstance(d, T): raise; …; d.parent = self` -/
def reparentChecked (g : Nat) (accepted : List String) (e : Err) : List Nat → Heap → Heap × Option Err
  | [], h => (h, none)
  | u :: us, h =>
    if typeOk h accepted u then reparentChecked g accepted e us (h.setParent u (some g))
    else (h, some e)

/-- `group.observers = value` / `camera.foil_detectors = value`; `us` are the elements of `value` -/
def MemberSetter.run (m : MemberSetter) (ci : ClassInfo) (w : World) (kind : Option SeqKind) (us : List Nat) :
    World × Option Err :=
  if !kindIn kind m.kinds then (w, some m.kindErr)
  else if m.atomic then
    if us.all (typeOk w.heap ci.accepted) then
      ({ w with heap := reparentAll w.gid us w.heap, members := us }, none)
    else (w, some m.elemErr)
  else
    match reparentChecked w.gid ci.accepted m.elemErr us w.heap with
    | (h, none) => ({ w with heap := h, members := us }, none)
    | (h, some e) => ({ w with heap := h }, some e)

def findDesc (tbl : List Descriptor) (cls name : String) : Option Descriptor :=
  tbl.find? fun d => d.cls == cls && d.name == name

/-- `group.<name> = value` for a broadcast-family attribute -/
def setAttr (d : Descriptor) (w : World) (v : Val) : World × Option Err :=
  match d.setter with
  | none => (w, some .attributeError)
  | some (.broadcast s) => s.run w v
  | some _ => (w, some .other)

/-- `group.<name> = [observers…]` for the member-list attributes (through at most one alias) -/
def setMembers (tbl : List Descriptor) (ci : ClassInfo) (d : Descriptor) (w : World) (kind : Option SeqKind)
    (us : List Nat) : World × Option Err :=
  match d.setter with
  | none => (w, some .attributeError)
  | some (.members m) => m.run ci w kind us
  | some (.alias _ _ target) =>
    match findDesc tbl d.cls target with
    | some d' =>
      match d'.setter with
      | some (.members m) => m.run ci w kind us
      | none => (w, some .attributeError)
      | _ => (w, some .other)
    | none => (w, none)     -- plain instance attribute: nothing happens to the group
  | some _ => (w, some .other)

inductive Out
  | vals (xs : List Nat)     -- content ids
  | objs (us : List Nat)     -- object identities
  | err (e : Err)
  deriving DecidableEq, Repr, Inhabited

def readEach (w : World) (a : Attr) : List Nat := w.members.map fun u => (w.heap u).attrs a

/-- `group.<name>` -/
def getAttr (d : Descriptor) (w : World) : Out :=
  match d.getter with
  | .each a => .vals (readEach w a)
  | .memberList => .objs w.members
  | .unrecognised _ => .err .other

/-! ## membership (transcribed by hand: `add_observer`, `add_foil_detector`, `__getitem__`, `__len__`, `observe`) -/

def addObserver (ci : ClassInfo) (w : World) (u : Nat) : World × Option Err :=
  if typeOk w.heap ci.accepted u then
    ({ w with heap := w.heap.setParent u (some w.gid), members := w.members ++ [u] }, none)
  else (w, some ci.addErr)

/-- the constructor's loop `for observer in observers: self.add_observer(observer)` (`base.py:58-59`); an exception
raised by `add_observer` ends the loop and leaves the adoptions made so far in place -/
def addLoop (ci : ClassInfo) (w : World) : List Nat → World × Option Err
  | [] => (w, none)
  | u :: us =>
    match addObserver ci w u with
    | (w', none) => addLoop ci w' us
    | (w', some e) => (w', some e)

/-- `Cls(observers=us)` of the `Observer0DGroup` family (`base.py:54-59`, inherited through `super().__init__` by every
subclass): `self._observers = tuple()` on the new node `g`, then the loop of `add_observer`.  `us = []` is also
`observers=None`. -/
def construct (ci : ClassInfo) (g : Nat) (h : Heap) (us : List Nat) : World × Option Err :=
  addLoop ci ⟨g, h, []⟩ us

inductive Key
  | int (i : Int)
  | slice (start stop step : Option Int)
  | str (nameId : Nat)
  | other
  deriving DecidableEq, Repr, Inhabited

/-- Python sequence indexing with negative wrap-around -/
def pyIndex (xs : List Nat) (i : Int) : Option Nat :=
  let n : Int := xs.length
  if 0 ≤ i ∧ i < n then xs[i.toNat]?
  else if -n ≤ i ∧ i < 0 then xs[(i + n).toNat]?
  else none

/-- CPython `PySlice_AdjustIndices` for one bound -/
def adjustBound (n : Int) (step : Int) (b : Option Int) (dflt : Int) : Int :=
  match b with
  | none => dflt
  | some s =>
    if s < 0 then
      let s' := s + n
      if s' < 0 then (if step < 0 then -1 else 0) else s'
    else if s ≥ n then (if step < 0 then n - 1 else n) else s

/-- indices visited by `range(start, stop, step)`; `fuel` bounds the recursion by the sequence length -/
def sliceIdx (step stop : Int) : Nat → Int → List Int
  | 0, _ => []
  | fuel + 1, i =>
    if (0 < step ∧ i < stop) ∨ (step < 0 ∧ i > stop) then i :: sliceIdx step stop fuel (i + step) else []

/-- `tuple[slice]` -/
def pySlice (xs : List Nat) (start stop step : Option Int) : Option (List Nat) :=
  let n : Int := xs.length
  let st := step.getD 1
  if st = 0 then none
  else
    let a := adjustBound n st start (if st < 0 then n - 1 else 0)
    let b := adjustBound n st stop (if st < 0 then -1 else n)
    some ((sliceIdx st b xs.length a).filterMap fun i => xs[i.toNat]?)

def nameOf (h : Heap) (u : Nat) : Nat := (h u).attrs "name"

/-- `group[item]` -/
def getItem (ci : ClassInfo) (w : World) (k : Key) : Out :=
  match ci.family with
  | .observer0D =>
    match k with
    | .int i => match pyIndex w.members i with
      | some u => .objs [u]
      | none => .err .indexError
    | .slice a b c =>
      if ci.sliceKeys then
        match pySlice w.members a b c with
        | some us => .objs us
        | none => .err .valueError          -- slice step cannot be zero (raised by tuple.__getitem__, not caught)
      else .err .typeError
    | .str x =>
      match w.members.filter fun u => nameOf w.heap u == x with
      | [u] => .objs [u]
      | _ => .err .valueError               -- not found, or found more than once
    | .other => .err .typeError
  | .bolometer =>
    match k with
    | .int i => match pyIndex w.members i with
      | some u => .objs [u]
      | none => .err .indexError
    | .str x =>
      match w.members.find? fun u => nameOf w.heap u == x with
      | some u => .objs [u]
      | none => .err .valueError
    | .slice a b c =>
      -- accepted only when the source says `isinstance(item, (int, slice))`
      if ci.sliceKeys then
        match pySlice w.members a b c with
        | some us => .objs us
        | none => .err .valueError          -- list.__getitem__: slice step cannot be zero (only IndexError is caught)
      else .err .typeError
    | .other => .err .typeError

def groupLen (w : World) : Nat := w.members.length

/-- `group.observe()`: the members whose `observe()` is called, in call order -/
def observe (w : World) : List Nat := w.members

/-! ## histories -/

inductive Op
  | add (u : Nat)
  | assign (name : String) (v : Val)
  | setMembers (name : String) (kind : Option SeqKind) (us : List Nat)
  /-- a member attribute changed directly on the observer (e.g. `observer.name = …`) -/
  | poke (u : Nat) (a : Attr) (x : Nat)

def step (tbl : List Descriptor) (ci : ClassInfo) (w : World) : Op → World × Option Err
  | .add u => addObserver ci w u
  | .assign name v =>
    match findDesc tbl ci.name name with
    | some d => setAttr d w v
    | none => (w, none)
  | .setMembers name kind us =>
    match findDesc tbl ci.name name with
    | some d => setMembers tbl ci d w kind us
    | none => (w, none)
  | .poke u a x => ({ w with heap := w.heap.setAttr u a x }, none)

/-- run a history; exceptions are caught by the caller (the state left behind is kept), as in a Python session -/
def run (tbl : List Descriptor) (ci : ClassInfo) (w : World) : List Op → World
  | [] => w
  | op :: ops => run tbl ci (step tbl ci w op).1 ops

/-! ## well-formedness of descriptors (the decidable side condition of the broadcast laws) -/

/-- the member attribute a public group attribute stands for -/
def expectedMember (name : String) : Attr := if name == "names" then "name" else name

def hasListTuple (ks : List SeqKind) : Bool := ks.contains .list && ks.contains .tuple

/-- the standard broadcast skeleton, correctly wired -/
def Descriptor.wfBroadcast (d : Descriptor) : Bool :=
  match d.getter, d.setter with
  | .each a, some (.broadcast s) =>
    a == expectedMember d.name && d.getterFn == d.name && s.fnName == d.name && s.decTarget == d.name &&
    s.lenCheck && s.lenErr == .valueError && s.seqAttr == a &&
    (match s.test with
     | .isinst ks => hasListTuple ks
     | _ => false) &&
    (match s.orelse with
     | .broadcast a' _ _ => a' == a
     | _ => false)
  | _, _ => false

/-- `names`: element-wise only, anything else is a TypeError (documented) -/
def Descriptor.wfSeqOnly (d : Descriptor) : Bool :=
  match d.getter, d.setter with
  | .each a, some (.broadcast s) =>
    a == expectedMember d.name && d.getterFn == d.name && s.fnName == d.name && s.decTarget == d.name &&
    s.lenCheck && s.lenErr == .valueError && s.seqAttr == a && !s.elemEngineCheck &&
    (match s.test with
     | .isinst ks => hasListTuple ks
     | _ => false) &&
    s.orelse == .raise .typeError
  | _, _ => false

/-- `pipelines`: element-wise only, no type test (documented) -/
def Descriptor.wfLenOnly (d : Descriptor) : Bool :=
  match d.getter, d.setter with
  | .each a, some (.broadcast s) =>
    a == expectedMember d.name && d.getterFn == d.name && s.fnName == d.name && s.decTarget == d.name &&
    s.lenCheck && s.lenErr == .valueError && s.seqAttr == a && !s.elemEngineCheck && s.test == .sized
  | _, _ => false

/-- `targets`: a list of lists is element-wise, a flat list is shared (documented) -/
def Descriptor.wfAllSeq (d : Descriptor) : Bool :=
  match d.getter, d.setter with
  | .each a, some (.broadcast s) =>
    a == expectedMember d.name && d.getterFn == d.name && s.fnName == d.name && s.decTarget == d.name &&
    s.lenCheck && s.lenErr == .valueError && s.seqAttr == a && !s.elemEngineCheck &&
    (match s.test with
     | .allItems ks => hasListTuple ks
     | _ => false) &&
    (match s.orelse with
     | .broadcast a' chk _ => a' == a && !chk
     | _ => false)
  | _, _ => false

/-- member-list attributes (`observers`, `foil_detectors`) and their alias (`sight_lines`).  `atomic`: every element is
type-checked before the first re-parenting, so a refused assignment changes nothing (`set_members_atomic`); a setter that
checks inside the loop leaves the earlier elements re-parented — which, for an element that is a member of *another*
group, breaks "every member's scene-graph parent is the group" over there. -/
def Descriptor.wfMembers (tbl : List Descriptor) (d : Descriptor) : Bool :=
  d.getter == .memberList && d.getterFn == d.name &&
  match d.setter with
  | some (.members m) => m.fnName == d.name && m.decTarget == d.name && m.kinds.contains .list && m.atomic
  | some (.alias f t target) =>
    f == d.name && t == d.name &&
    (match findDesc tbl d.cls target with
     | some d' => d'.getter == .memberList &&
        (match d'.setter with
         | some (.members m) => m.fnName == target && m.decTarget == target && m.kinds.contains .list && m.atomic
         | _ => false)
     | none => false)
  | _ => false

/-- every group-level attribute is either a correctly wired broadcast attribute or one of the documented
special shapes under its documented name -/
def Descriptor.admissible (tbl : List Descriptor) (d : Descriptor) : Bool :=
  if d.name == "names" then d.wfSeqOnly
  else if d.name == "pipelines" then d.wfLenOnly
  else if d.name == "targets" then d.wfAllSeq
  else if d.name == "observers" || d.name == "sight_lines" || d.name == "foil_detectors" then d.wfMembers tbl
  else d.wfBroadcast

end Cherab.Groups
