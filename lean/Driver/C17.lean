import Cherab.Drv.Proto
import Cherab.Model.Voxels
open Cherab.Drv Cherab.Voxels

def pairs : List Float → List (Float × Float)
  | a :: b :: t => (a, b) :: pairs t
  | _ => []

def triples : List Nat → List (Nat × Nat × Nat)
  | a :: b :: c :: t => (a, b, c) :: triples t
  | _ => []

def fSamples (ss : List (Nat × (Float × Float))) : String :=
  " ".intercalate (ss.map fun s => s!"{s.1} {fF s.2.1} {fF s.2.2}")

/-- ragged rows: each row is `<len> c…` -/
def rowsOfFuel : Nat → List String → List (List Float)
  | 0, _ => []
  | _, [] => []
  | fuel + 1, k :: t => (t.take (pN k)).map pF :: rowsOfFuel fuel (t.drop (pN k))

def rowsOf (ts : List String) : List (List Float) := rowsOfFuel ts.length ts

/-- `nvox` voxels, each `<nv> verts… <nt> tris…`; returns the voxels and the remaining tokens -/
def voxelsOf : Nat → List String → List (List (Float × Float) × List (Nat × Nat × Nat)) × List String
  | 0, ts => ([], ts)
  | k + 1, nv :: rest =>
    let nv := pN nv
    let verts := pairs ((rest.take (2 * nv)).map pF)
    match rest.drop (2 * nv) with
    | nt :: rest =>
      let nt := pN nt
      let tris := triples ((rest.take (3 * nt)).map pN)
      let r := voxelsOf k (rest.drop (3 * nt))
      ((verts, tris) :: r.1, r.2)
    | [] => ([], [])
  | _ + 1, [] => ([], [])

/-- protocol:
  geom pi x0 y0 x1 y1 …            → ok cw area (c cx cy | z) volume  | TypeError | ValueError
  norm x0 y0 …                     → normalised vertex list
  tot v0 v1 …                      → total volume
  find v x0 x1 …                   → find_index
  pick total u c0 c1 …             → pickTriangle
  cum nv verts… nt tris…           → total_area cum…
  emis nv verts… nt tris… N c0 c1 c2 c3 nu us…  → ok est (tri px pz)* | err msg k (tri px pz)*
  rows k0 c… k1 c… …               → ok x0 y0 … (stored list) | TypeError | ValueError      (mkVoxelRows)
  emiss N c0 c1 c2 c3 nvox (nv verts… nt tris…)* nu us…  → ok e0 e1 … | err msg     (emissivities)
-/
def step (ts : List String) : String :=
  match ts with
  | "geom" :: pi :: rest =>
    match mkVoxel (pairs (rest.map pF)) with
    | .error e => e
    | .ok l =>
      let c := match centroid l with
        | none => "z"
        | some c => s!"c {fF c.1} {fF c.2}"
      s!"ok {fB (clockwise (pairs (rest.map pF)))} {fF (area l)} {c} {fF (volume (pF pi) l)}"
  | "norm" :: rest =>
    fFs ((normalise (pairs (rest.map pF))).flatMap fun p => [p.1, p.2])
  | "tot" :: rest => fF (totalVolume (rest.map pF))
  | "find" :: v :: rest => toString (findIndex (rest.map pF) (pF v))
  | "pick" :: total :: u :: rest => toString (pickTriangle (rest.map pF) (pF total) (pF u))
  | "cum" :: nv :: rest =>
    let nv := pN nv
    let verts := pairs ((rest.take (2 * nv)).map pF)
    let rest := rest.drop (2 * nv)
    match rest with
    | nt :: rest =>
      let tris := triples ((rest.take (3 * pN nt)).map pN)
      fFs (area verts :: cumulativeAreas (triAreas verts tris))
    | _ => "bad-op"
  | "emis" :: nv :: rest =>
    let nv := pN nv
    let verts := pairs ((rest.take (2 * nv)).map pF)
    let rest := rest.drop (2 * nv)
    match rest with
    | nt :: rest =>
      let nt := pN nt
      let tris := triples ((rest.take (3 * nt)).map pN)
      let rest := rest.drop (3 * nt)
      match rest with
      | n :: c0 :: c1 :: c2 :: c3 :: _nu :: us =>
        let (c0, c1, c2, c3) := (pF c0, pF c1, pF c2, pF c3)
        let f : Float → Float → Float := fun x z => c0 + c1 * x + c2 * z + c3 * x * z
        let us := us.map pF
        match emissivity Float.sqrt f verts tris (pN n) us with
        | .ok (est, ss) => s!"ok {fF est} {fSamples ss}"
        | .error e =>
          let cum := cumulativeAreas (triAreas verts tris)
          let ss := (drawN Float.sqrt verts tris cum (area verts) (pN n) us).1
          s!"err {e} {ss.length} {fSamples ss}"
      | _ => "bad-op"
    | _ => "bad-op"
  | "rows" :: rest =>
    match mkVoxelRows (rowsOf rest) with
    | .error e => e
    | .ok l => "ok " ++ fFs (l.flatMap fun p => [p.1, p.2])
  | "emiss" :: n :: c0 :: c1 :: c2 :: c3 :: nvox :: rest =>
    let (c0, c1, c2, c3) := (pF c0, pF c1, pF c2, pF c3)
    let f : Float → Float → Float := fun x z => c0 + c1 * x + c2 * z + c3 * x * z
    let (vox, rest) := voxelsOf (pN nvox) rest
    match emissivities Float.sqrt f vox (pN n) ((rest.drop 1).map pF) with
    | .ok es => "ok " ++ fFs es
    | .error e => s!"err {e}"
  | "hist" :: act :: nv :: rest =>
    -- hist <active: -1 = all | i> <nv> v0 … <ops…>   ops: A | S i | U | P | X i b
    let nv := pN nv
    let vols := (rest.take nv).map pF
    let rec ops : List String → List GridOp
      | "A" :: t => .activeAll :: ops t
      | "S" :: i :: t => .active (pN i) :: ops t
      | "U" :: t => .unparentAll :: ops t
      | "P" :: t => .parentAll :: ops t
      | "X" :: i :: b :: t => .setParent (pN i) (b == "1") :: ops t
      | _ => []
    let g : Grid Float := Grid.mk' vols (if act == "-1" then none else some (pN act))
    fFs (g.total :: g.trace (ops (rest.drop nv)))
  | _ => "bad-op"

def main : IO UInt32 := do
  loop (stateless step) (← IO.getStdin) (← IO.getStdout) ()
  return 0
