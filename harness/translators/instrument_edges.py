"""C16 translator: cherab/tools/spectroscopy/{instrument,spectrometer,polychromator}.py  ->  lean/Cherab/Gen/InstrumentEdges.lean

Purely syntactic (Python `ast`).  For every concrete class deriving from `SpectroscopicInstrument` the methods that are
reachable from `__init__`, the property getters/setters and the public methods are flattened along the (single
inheritance) MRO and each body is abstracted to a list of statements of the little language interpreted by
`Cherab.Instruments.exec` (lean/Cherab/Model/Instruments.lean):

    setNone a            self._a = None
    assign a fromArg rs ms
                         self._a = <expr>; `fromArg`: the expression depends on an argument of the enclosing function
                         (local-variable taint, flow-insensitive), rs / ms: instance attributes / self-methods the
                         expression depends on (directly or through locals) -- used for the `deps` table only
    read a               load of self._a            (AttributeError when the attribute was never assigned)
    call m               self.m(...), super().m(...), Base.m(self, ...), load of a property (getter), assignment to a
                         property (setter)
    ifNone a k           `if self._a is None:` followed by the k statements of its body
    ret                  return
    abort                raise NotImplementedError at statement level (abstract method)
    unknown tag          anything this scanner does not understand (the table obligations then fail)

`if <test>: raise ...` guards are argument validation: the test's loads are kept, the raising branch is dropped (the
model describes calls that return).  Loops are unrolled once.  What is recognised is deliberately narrow; a construct
outside it becomes `unknown` and breaks `wf_<class>` rather than being guessed at.
"""
import ast
import json
import os

from harness.vlib import lean
from harness.vlib.util import REPO, LEAN, VERIF

FILES = ['cherab/tools/spectroscopy/instrument.py',
         'cherab/tools/spectroscopy/spectrometer.py',
         'cherab/tools/spectroscopy/polychromator.py']
ROOT = 'SpectroscopicInstrument'
OUT = os.path.join(LEAN, 'Cherab', 'Gen', 'InstrumentEdges.lean')
KNOWN_PREFIX = 'C16:%s:uninitialised:%s'          # signature of an open known finding that excuses an init gap

# --- reference flow (aliasing of caller-owned containers) ---------------------------------------------------------------
# An argument of a setter / __init__ that the function iterates over or indexes is a *container* handed over by the caller.
# The taint item ('raw', arg) marks values that may still be (or contain) the caller's own mutable object.  Calls in
# DEEP_COPY produce a fresh object (raw is dropped); arithmetic / comparisons produce fresh values; everything else
# (tuple(), list(), np.asarray(), slicing, attribute access, unknown functions, list.append) keeps the mark.  An instance
# attribute assigned a raw value is listed in the table's `aliased`; the obligation `no_alias_*` demands
# aliased ⊆ DOCUMENTED_ALIASING (behaviour of the tree as first read, kept as an observation, notes/C16.md).
DEEP_COPY = {'np.array', 'numpy.array', 'np.copy', 'numpy.copy', 'copy.deepcopy', 'deepcopy', 'str', 'int', 'float', 'bool',
             'complex', 'len', 'np.deg2rad', 'np.rad2deg', 'np.zeros', 'np.ones', 'np.empty', 'np.diff', 'np.any', 'np.all',
             'np.sort', 'np.argsort', 'np.float64', 'isinstance', 'abs', 'sum'}
DOCUMENTED_ALIASING = {('Polychromator', '_filters'), ('CzernyTurnerSpectrometer', '_accommodated_spectra')}


def _dotted(f):
    if isinstance(f, ast.Name):
        return f.id
    if isinstance(f, ast.Attribute):
        b = _dotted(f.value)
        return b + '.' + f.attr if b else None
    return None


def _container_args(fn):
    """arguments the function iterates over / indexes / takes the length of"""
    names = {a.arg for a in fn.args.args[1:]}
    out = set()
    for n in ast.walk(fn):
        if isinstance(n, (ast.For, ast.comprehension)) and isinstance(n.iter, ast.Name) and n.iter.id in names:
            out.add(n.iter.id)
        elif isinstance(n, ast.Subscript) and isinstance(n.value, ast.Name) and n.value.id in names:
            out.add(n.value.id)
        elif isinstance(n, ast.Starred) and isinstance(n.value, ast.Name) and n.value.id in names:
            out.add(n.value.id)
    return out


# ------------------------------------------------------------------------------------------------ source model
class Cls:
    def __init__(self, node, file):
        self.name = node.name
        self.file = file
        self.bases = [b.id for b in node.bases if isinstance(b, ast.Name)]
        self.methods = {}        # name -> FunctionDef
        self.props = {}          # name -> dict(get=FunctionDef|None, set=FunctionDef|None)
        for st in node.body:
            if not isinstance(st, ast.FunctionDef):
                continue
            kind = None
            for d in st.decorator_list:
                if isinstance(d, ast.Name) and d.id == 'property':
                    kind = ('get', st.name)
                elif isinstance(d, ast.Attribute) and d.attr == 'setter' and isinstance(d.value, ast.Name):
                    # python semantics: `@X.setter def Y` binds a property (getter of X, this setter) to the name Y
                    kind = ('set', st.name, d.value.id)
                else:
                    kind = ('other-decorator',)
            if kind is None:
                self.methods[st.name] = st
            elif kind[0] == 'get':
                self.props[st.name] = dict(get=st, set=None)
            elif kind[0] == 'set':
                src = self.props.get(kind[2], dict(get=None, set=None))
                self.props[kind[1]] = dict(get=src['get'], set=st)
            else:
                self.methods[st.name] = st     # unknown decorator: keep as a method, flagged later
                st._verif_unknown_decorator = True


def load_classes(repo=REPO):
    classes = {}
    for f in FILES:
        tree = ast.parse(open(os.path.join(repo, f)).read())
        for node in tree.body:
            if isinstance(node, ast.ClassDef):
                classes[node.name] = Cls(node, f)
    return classes


def chain(classes, name):
    out = []
    while name in classes:
        out.append(classes[name])
        bs = classes[name].bases
        name = bs[0] if bs else None
    return out


def derives(classes, name):
    return any(c.name == ROOT for c in chain(classes, name))


# ------------------------------------------------------------------------------------------------ one class
class Flat:
    """flattened table of one concrete class"""

    def __init__(self, classes, cname):
        self.cname = cname
        self.chain = chain(classes, cname)
        self.attrs = []          # instance attribute names in first-seen order
        self.mids = {}           # qualified method name -> id
        self.mnames = []
        self.bodies = {}         # id -> list of stmt tuples
        self.todo = []
        self.setters = []        # (property name, method id)
        self.getters = []        # (public name, method id)
        self.abstract = False
        self.aliased = {}        # attr name -> sorted list of 'method:arg' through which a caller-owned container reaches it

    # -- resolution along the MRO
    def find_method(self, name, start=0):
        for i, c in enumerate(self.chain[start:], start):
            if name in c.methods:
                return i, c.methods[name]
            if name in c.props:
                return None
        return None

    def find_prop(self, name, start=0):
        for i, c in enumerate(self.chain[start:], start):
            if name in c.props:
                return i, c.props[name]
            if name in c.methods:
                return None
        return None

    def attr_id(self, a):
        if a not in self.attrs:
            self.attrs.append(a)
        return self.attrs.index(a)

    def method_id(self, ci, fn, role):
        q = '%s.%s%s' % (self.chain[ci].name, fn.name, {'get': '.get', 'set': '.set'}.get(role, ''))
        if q not in self.mids:
            self.mids[q] = len(self.mnames)
            self.mnames.append(q)
            self.todo.append((self.mids[q], ci, fn, role))
        return self.mids[q]

    def build(self):
        r = self.find_method('__init__')
        self.init = self.method_id(r[0], r[1], 'init')
        seen = set()
        for c in self.chain:
            for pname in c.props:
                if pname in seen:
                    continue
                seen.add(pname)
                ci, p = self.find_prop(pname)
                if p['get'] is not None:
                    self.getters.append((pname, self.method_id(ci, p['get'], 'get')))
                if p['set'] is not None:
                    self.setters.append((pname, self.method_id(ci, p['set'], 'set')))
            for mname in c.methods:
                if mname in seen or mname.startswith('_'):
                    continue
                seen.add(mname)
                r = self.find_method(mname)
                if r:
                    self.getters.append((mname, self.method_id(r[0], r[1], 'method')))
        while self.todo:
            mid, ci, fn, role = self.todo.pop(0)
            self.bodies[mid] = FnScan(self, ci, fn, role).run()
        return self


class FnScan:
    """abstracts one function body"""

    def __init__(self, flat, ci, fn, role):
        self.flat, self.ci, self.fn, self.role = flat, ci, fn, role
        args = [a.arg for a in fn.args.args]
        self.selfname = args[0] if args else 'self'
        self.args = set(args[1:]) | ({fn.args.vararg.arg} if fn.args.vararg else set()) | \
            ({fn.args.kwarg.arg} if fn.args.kwarg else set()) | {a.arg for a in fn.args.kwonlyargs}
        self.env = {}            # local name -> set of taint items ('arg',n) | ('attr',a) | ('meth',mid) | ('raw',n)
        self.containers = _container_args(fn) if role in ('set', 'init') else set()
        self.out = None

    # -- taint helpers
    def taint(self, names):
        t = set()
        for n in names:
            if n in self.args:
                t.add(('arg', n))
            t |= self.env.get(n, set())
            t |= self.rawenv.get(n, set())
        return t

    def add_env(self, name, t, strong=False):
        # reference marks are tracked in statement order (a rebinding `x = np.array(x)` clears them: strong update);
        # all other taint is flow-insensitive
        raw = {x for x in t if x[0] == 'raw'}
        t = t - raw
        self.rawenv[name] = raw if strong else (self.rawenv.get(name, set()) | raw)
        if name in self.args:
            return
        old = self.env.get(name, set())
        if not t <= old:
            self.env[name] = old | t
            self.changed = True

    def is_self(self, e):
        return isinstance(e, ast.Name) and e.id == self.selfname

    # -- expressions: emits read/call statements in visiting order, returns the taint of the value
    def expr(self, e, emit, bound=None):
        bound = bound or {}
        if e is None:
            return set()
        if isinstance(e, ast.Name):
            if e.id in bound:
                return set(bound[e.id])
            return self.taint([e.id])
        if isinstance(e, ast.Constant):
            return set()
        if isinstance(e, ast.Attribute) and self.is_self(e.value):
            p = self.flat.find_prop(e.attr)
            if p is not None:
                ci, prop = p
                if prop['get'] is None:
                    emit(('unknown', 'load of write-only property ' + e.attr))
                    return set()
                mid = self.flat.method_id(ci, prop['get'], 'get')
                emit(('call', mid))
                return {('meth', mid)}
            m = self.flat.find_method(e.attr)
            if m is not None:           # bound method used as a value
                mid = self.flat.method_id(m[0], m[1], 'method')
                return {('meth', mid)}
            emit(('read', self.flat.attr_id(e.attr)))
            return {('attr', self.flat.attr_id(e.attr))}
        if isinstance(e, ast.Call):
            t = set()
            f = e.func
            target = None
            if isinstance(f, ast.Attribute) and self.is_self(f.value):
                m = self.flat.find_method(f.attr)
                if m is not None:
                    target = self.flat.method_id(m[0], m[1], 'method')
                else:
                    t |= self.expr(f, emit, bound)
            elif isinstance(f, ast.Attribute) and isinstance(f.value, ast.Call) and isinstance(f.value.func, ast.Name) \
                    and f.value.func.id == 'super' and not f.value.args:
                m = self.flat.find_method(f.attr, self.ci + 1)
                if m is None:
                    if f.attr != '__init__':       # object.__init__ is a no-op
                        emit(('unknown', 'super().%s unresolved' % f.attr))
                else:
                    target = self.flat.method_id(m[0], m[1], 'init' if f.attr == '__init__' else 'method')
            elif isinstance(f, ast.Attribute) and isinstance(f.value, ast.Name) and e.args and self.is_self(e.args[0]) \
                    and f.value.id in [c.name for c in self.flat.chain]:
                # explicit base-class call  Base.m(self, ...)
                start = [c.name for c in self.flat.chain].index(f.value.id)
                m = self.flat.find_method(f.attr, start)
                if m is None:
                    emit(('unknown', '%s.%s unresolved' % (f.value.id, f.attr)))
                else:
                    target = self.flat.method_id(m[0], m[1], 'init' if f.attr == '__init__' else 'method')
            else:
                t |= self.expr(f, emit, bound)
            for a in e.args:
                t |= self.expr(a.value if isinstance(a, ast.Starred) else a, emit, bound)
            for k in e.keywords:
                t |= self.expr(k.value, emit, bound)
            if target is not None:
                emit(('call', target))
                t.add(('meth', target))
            copies = _dotted(f) in DEEP_COPY and not any(k.arg == 'copy' for k in e.keywords)
            if copies or target is not None:
                t = {x for x in t if x[0] != 'raw'}
            return t
        if isinstance(e, (ast.ListComp, ast.SetComp, ast.GeneratorExp, ast.DictComp)):
            b = dict(bound)
            t = set()
            for g in e.generators:
                ti = self.expr(g.iter, emit, b)
                for n in ast.walk(g.target):
                    if isinstance(n, ast.Name):
                        b[n.id] = ti
                for c in g.ifs:
                    t |= self.expr(c, emit, b)
                t |= ti
            if isinstance(e, ast.DictComp):
                t |= self.expr(e.key, emit, b) | self.expr(e.value, emit, b)
            else:
                t |= self.expr(e.elt, emit, b)
            return t
        if isinstance(e, ast.Lambda):
            emit(('unknown', 'lambda'))
            return set()
        t = set()
        for child in ast.iter_child_nodes(e):
            if isinstance(child, ast.expr):
                t |= self.expr(child, emit, bound)
        if isinstance(e, (ast.BinOp, ast.UnaryOp, ast.Compare, ast.JoinedStr)):
            t = {x for x in t if x[0] != 'raw'}      # fresh value
        return t

    # -- assignment targets
    def assign_target(self, tgt, t, value_is_none, emit):
        if isinstance(tgt, (ast.Tuple, ast.List)):
            for el in tgt.elts:
                self.assign_target(el, t, False, emit)
        elif isinstance(tgt, ast.Name):
            self.add_env(tgt.id, t, strong=not getattr(self, '_weak', False))
        elif isinstance(tgt, ast.Attribute) and self.is_self(tgt.value):
            p = self.flat.find_prop(tgt.attr)
            if p is not None:
                ci, prop = p
                if prop['set'] is None:
                    emit(('unknown', 'assignment to read-only property ' + tgt.attr))
                else:
                    emit(('call', self.flat.method_id(ci, prop['set'], 'set')))
                return
            a = self.flat.attr_id(tgt.attr)
            if value_is_none:
                emit(('setNone', a))
            else:
                for k, x in t:
                    if k == 'raw':
                        self.flat.aliased.setdefault(tgt.attr, set()).add('%s:%s' % (self.fn.name, x))
                emit(('assign', a, any(k == 'arg' for k, _ in t),
                      sorted(x for k, x in t if k == 'attr' and x != a), sorted(x for k, x in t if k == 'meth')))
        else:
            # local.attr = v, local[i] = v, local.attr.attr = v : the base local is tainted by the value
            base = tgt
            t2 = set(t)
            while isinstance(base, (ast.Attribute, ast.Subscript)):
                if isinstance(base, ast.Subscript):
                    t2 |= self.expr(base.slice, emit)
                base = base.value
            if isinstance(base, ast.Name) and not self.is_self(base):
                self.add_env(base.id, t2)
            else:
                emit(('unknown', 'assignment target ' + ast.dump(tgt)[:60]))

    @staticmethod
    def only_raises(stmts):
        return all(isinstance(s, ast.Raise) or (isinstance(s, ast.If) and FnScan.only_raises(s.body) and FnScan.only_raises(s.orelse))
                   for s in stmts) and len(stmts) > 0

    def none_test(self, test):
        """`self._a is None` -> attribute name"""
        if isinstance(test, ast.Compare) and len(test.ops) == 1 and isinstance(test.ops[0], ast.Is) \
                and isinstance(test.comparators[0], ast.Constant) and test.comparators[0].value is None \
                and isinstance(test.left, ast.Attribute) and self.is_self(test.left.value) \
                and self.flat.find_prop(test.left.attr) is None and self.flat.find_method(test.left.attr) is None:
            return test.left.attr
        return None

    def block(self, stmts, emit):
        for s in stmts:
            self.stmt(s, emit)

    def stmt(self, s, emit):
        if isinstance(s, ast.Expr):
            if isinstance(s.value, ast.Constant):
                return
            t = self.expr(s.value, emit)
            # local.method(args): the local is tainted by the arguments (list.append etc.)
            v = s.value
            if isinstance(v, ast.Call) and isinstance(v.func, ast.Attribute) and isinstance(v.func.value, ast.Name) \
                    and not self.is_self(v.func.value):
                self.add_env(v.func.value.id, t)
            return
        if isinstance(s, ast.Pass):
            return
        if isinstance(s, ast.Assign):
            t = self.expr(s.value, emit)
            isnone = isinstance(s.value, ast.Constant) and s.value.value is None
            for tgt in s.targets:
                self.assign_target(tgt, t, isnone, emit)
            return
        if isinstance(s, ast.AnnAssign) and s.value is not None:
            t = self.expr(s.value, emit)
            self.assign_target(s.target, t, isinstance(s.value, ast.Constant) and s.value.value is None, emit)
            return
        if isinstance(s, ast.AugAssign):
            t = self.expr(s.value, emit)
            if isinstance(s.target, ast.Attribute) and self.is_self(s.target.value):
                t |= self.expr(ast.Attribute(value=s.target.value, attr=s.target.attr, ctx=ast.Load()), emit)
            elif isinstance(s.target, ast.Name):
                t |= self.taint([s.target.id])
            self.assign_target(s.target, t, False, emit)
            return
        if isinstance(s, ast.Return):
            self.expr(s.value, emit)
            emit(('ret',))
            return
        if isinstance(s, ast.Raise):
            if s.exc is not None and 'NotImplementedError' in ast.dump(s.exc):
                emit(('abort',))
            else:
                emit(('unknown', 'unconditional raise'))
            return
        if isinstance(s, ast.If):
            a = self.none_test(s.test)
            if a is not None and not s.orelse:
                body = []
                weak, self._weak = getattr(self, '_weak', False), True      # conditional rebinding: weak update
                self.block(s.body, body.append)
                self._weak = weak
                emit(('ifNone', self.flat.attr_id(a), len(body)))
                for b in body:
                    emit(b)
                return
            self.expr(s.test, emit)
            if self.only_raises(s.body) and not s.orelse:
                return
            emit(('unknown', 'if-statement at line-independent position: ' + ast.dump(s.test)[:80]))
            return
        if isinstance(s, ast.For):
            t = self.expr(s.iter, emit)
            for rnd in (0, 1):                   # twice: reference marks may travel along the back edge
                for n in ast.walk(s.target):
                    if isinstance(n, ast.Name):
                        self.add_env(n.id, t, strong=True)
                self.block(s.body, (lambda st: None) if rnd == 0 else emit)
            if s.orelse:
                emit(('unknown', 'for-else'))
            return
        emit(('unknown', type(s).__name__))

    def run(self):
        if getattr(self.fn, '_verif_unknown_decorator', False):
            return [('unknown', 'decorator on ' + self.fn.name)]
        for _ in range(8):                      # taint fixpoint (flow-insensitive; reference marks in statement order)
            self.changed = False
            self.rawenv = {n: {('raw', n)} for n in self.containers}
            out = []
            self.block(self.fn.body, out.append)
            if not self.changed:
                break
        return out


# ------------------------------------------------------------------------------------------------ emission
def _lname(cname):
    return cname[0].lower() + cname[1:]


def _stmt(s):
    k = s[0]
    if k == 'setNone':
        return '.setNone %d' % s[1]
    if k == 'assign':
        return '.assign %d %s %s %s' % (s[1], 'true' if s[2] else 'false', _nats(s[3]), _nats(s[4]))
    if k == 'read':
        return '.read %d' % s[1]
    if k == 'call':
        return '.call %d' % s[1]
    if k == 'ifNone':
        return '.ifNone %d %d' % (s[1], s[2])
    if k == 'ret':
        return '.ret'
    if k == 'abort':
        return '.abort'
    return '.unknown "%s"' % s[1].replace('\\', '/').replace('"', "'")


def _nats(xs):
    return '[' + ', '.join(str(x) for x in xs) + ']'


def _strs(xs):
    return '[' + ', '.join('"%s"' % x for x in xs) + ']'


def known_uninit(cname):
    """attributes of `cname` whose missing initialisation is an *open* entry of known_findings.json"""
    path = os.path.join(VERIF, 'known_findings.json')
    out = []
    if os.path.exists(path):
        for e in json.load(open(path)).get('findings', []):
            sig = e.get('signature', '')
            if e.get('property') == 'C16' and e.get('status') == 'open' and sig.startswith('C16:%s:uninitialised:' % cname):
                out.append(sig.split(':')[3])
    return out


def scan(repo=REPO):
    classes = load_classes(repo)
    flats = []
    abstract = []
    for cname in classes:
        if not derives(classes, cname):
            continue
        fl = Flat(classes, cname).build()
        # abstract: some reachable body is a bare `raise NotImplementedError`
        if any(st[0] == 'abort' for b in fl.bodies.values() for st in b):
            abstract.append(cname)
            continue
        flats.append(fl)
    return flats, abstract


def table_dict(fl):
    """python mirror of the generated table (used by the harness to address setters/getters by name)"""
    return dict(name=fl.cname, attrs=list(fl.attrs), methods=list(fl.mnames),
                bodies=[fl.bodies[i] for i in range(len(fl.mnames))], init=fl.init,
                setters=list(fl.setters), getters=list(fl.getters), known=known_uninit(fl.cname),
                aliased={a: sorted(v) for a, v in fl.aliased.items()},
                documented_aliasing=sorted(a for c, a in DOCUMENTED_ALIASING if c == fl.cname))


def render(flats, abstract):
    L = ['/- GENERATED by harness/translators/instrument_edges.py from',
         '   ' + ', '.join(FILES),
         '   -- do not edit; regenerated on every run of `./check C16`. -/',
         'import Cherab.Model.Instruments',
         'namespace Cherab.Gen.InstrumentEdges',
         'open Cherab.Instruments', '']
    for fl in flats:
        L.append('def %s : ClassTable where' % _lname(fl.cname))
        L.append('  name := "%s"' % fl.cname)
        L.append('  attrs := %s' % _strs(fl.attrs))
        L.append('  methods := [')
        for i, q in enumerate(fl.mnames):
            body = ', '.join(_stmt(s) for s in fl.bodies[i])
            L.append('    /- %2d -/ ⟨"%s", [%s]⟩%s' % (i, q, body, ',' if i + 1 < len(fl.mnames) else ''))
        L.append('  ]')
        L.append('  init := %d' % fl.init)
        L.append('  setters := %s   -- %s' % (_nats([m for _, m in fl.setters]), ', '.join(n for n, _ in fl.setters)))
        L.append('  getters := %s   -- %s' % (_nats([m for _, m in fl.getters]), ', '.join(n for n, _ in fl.getters)))
        kn = [fl.attrs.index(a) for a in known_uninit(fl.cname) if a in fl.attrs]
        L.append('  knownUninit := %s   -- open C16 entries of known_findings.json' % _nats(kn))
        al = sorted(fl.attrs.index(a) for a in fl.aliased if a in fl.attrs)
        L.append('  aliased := %s   -- %s' % (_nats(al), '; '.join('%s <- %s' % (a, ','.join(sorted(v))) for a, v in sorted(fl.aliased.items())) or 'none'))
        doc = sorted(fl.attrs.index(a) for c, a in DOCUMENTED_ALIASING if c == fl.cname and a in fl.attrs)
        L.append('  knownAliased := %s   -- documented: the caller\'s list is kept by reference' % _nats(doc))
        L.append('')
    L.append('def allTables : List ClassTable := [%s]' % ', '.join(_lname(f.cname) for f in flats))
    L.append('-- abstract classes (a reachable method is `raise NotImplementedError`), no table: %s' % ', '.join(abstract))
    L.append('')
    L.append('end Cherab.Gen.InstrumentEdges')
    return '\n'.join(L) + '\n'


def generate(repo=REPO, out=OUT):
    flats, abstract = scan(repo)
    text = render(flats, abstract)
    changed = lean.write_if_changed(out, text)
    return dict(changed=changed, classes=[f.cname for f in flats], abstract=abstract,
                tables=[table_dict(f) for f in flats])


if __name__ == '__main__':
    r = generate()
    print('written' if r['changed'] else 'unchanged', OUT, r['classes'], 'abstract:', r['abstract'])
