import Cherab.Gen.InstrumentEdges
import Cherab.Props.C16

/-!
# C16 — `init_total` on the tables generated from the current source

`init_total_*`: `__init__` runs to completion and every public getter / method can be called on the fresh instance
without meeting an attribute that was never assigned (dynamic form, `initTotalB`), and `__init__` assigns every
attribute any method of the class touches (static form, `initStaticB`) — in both forms except for attributes listed
in the table's `knownUninit`, which the translator fills from the *open* C16 entries of `known_findings.json`
(empty unless the main author lists one).  With an empty list this is the full statement, and `never_attr_error`
extends it to all histories.
-/
namespace Cherab.Props.C16
open Cherab.Instruments Cherab.Gen.InstrumentEdges

theorem init_total_spectrometer : initTotalB spectrometer = true ∧ initStaticB spectrometer = true := by decide +kernel
theorem init_total_ct : initTotalB czernyTurnerSpectrometer = true ∧ initStaticB czernyTurnerSpectrometer = true := by
  decide +kernel
theorem init_total_polychromator : initTotalB polychromator = true ∧ initStaticB polychromator = true := by decide +kernel

theorem init_total_all : ∀ t ∈ allTables, initTotalB t = true ∧ initStaticB t = true := by decide +kernel

/-- for all histories of calls, on every class (given no excused attribute) -/
theorem no_attr_error_all : ∀ t ∈ allTables, t.knownUninit = [] → ∀ calls : List Nat,
    ∀ r ∈ runCalls t (initState t) calls, ∀ a s, r ≠ .attrErr a s :=
  fun t ht hk calls => never_attr_error t (init_total_all t ht).2 hk calls

end Cherab.Props.C16
