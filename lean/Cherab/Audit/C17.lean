import Cherab.Props.C17
open Cherab.Props.C17
#print axioms total_volume_nil
