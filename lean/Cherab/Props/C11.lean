import Cherab.Model.Inversion
import Cherab.Lemmas.Inversion
import Cherab.Gen.Inversion
import Mathlib.Tactic.Ring
import Mathlib.Tactic.Linarith
import Mathlib.Tactic.FieldSimp
import Mathlib.Tactic.Positivity
import Mathlib.Algebra.Order.Field.Basic
import Mathlib.Algebra.Order.Ring.Rat

/-!
# C11 — inversion solvers: SART follows its update rule, NNLS/LSQ return true minimisers

Property theorems only (helper algebra is in `Cherab/Lemmas/Inversion.lean`).  All statements are about the
executable definitions of `Cherab/Model/Inversion.lean`, for arbitrary matrix shapes and an arbitrary ordered
field.  The external solvers (`scipy.optimize.nnls`, `numpy.linalg.lstsq`) are parameters: the wrapper theorems
assume that the point they return satisfies the certificate (KKT / normal equations) *of the system they were
handed*, and conclude optimality for the caller's regularised problem.
-/
namespace Cherab.Props.C11
set_option linter.unusedSectionVars false
set_option linter.unusedVariables false
open Cherab.Inversion

variable {α : Type} [Field α] [LinearOrder α] [IsStrictOrderedRing α]

/-! ## Part 1 — regularised least squares -/

/-- ‖[W; αL] x − [b; 0]‖² = ‖Wx − b‖² + α²‖Lx‖² : the stacked system handed to the solver has the regularised
objective as its residual. -/
theorem stack_norm (n : Nat) (W L : List (List α)) (a : α) (b x : List α)
    (hb : b.length = W.length) (hL : L.length = n) :
    normSq (vsub (matVec (stackC n W a (some L)) x) (stackD n b)) = objective W L a b x := by
  unfold stackC stackD objective
  simp only [Option.getD_some]
  rw [matVec_append, vsub_append _ _ _ _ (by simp [hb]), normSq_append, matVec_scaleMat,
    vsub_replicate_zero _ _ (by simp [hL]), normSq_smul]

/-- default Tikhonov matrix: the stacked system uses `np.identity(n)` -/
theorem stack_norm_default (n : Nat) (W : List (List α)) (a : α) (b x : List α) (hb : b.length = W.length) :
    normSq (vsub (matVec (stackC n W a none) x) (stackD n b)) = objective W (identity n) a b x := by
  have : stackC n W a none = stackC n W a (some (identity n)) := by simp [stackC]
  rw [this]
  exact stack_norm n W (identity n) a b x hb (by simp [identity])

/-- dividing matrix and right-hand side by `v` divides the squared residual by `v²` … -/
theorem scale_invariant (v : α) (C : List (List α)) (d x : List α) :
    normSq (vsub (matVec (divMat v C) x) (divVec v d)) = normSq (vsub (matVec C x) d) / (v * v) := by
  rw [matVec_divMat, vsub_divVec, normSq_divVec]

/-- … so for `v > 0` the normalised and the original system order all candidates identically (same minimisers) … -/
theorem scale_invariant_min (v : α) (hv : 0 < v) (C : List (List α)) (d x y : List α) :
    normSq (vsub (matVec (divMat v C) x) (divVec v d)) ≤ normSq (vsub (matVec (divMat v C) y) (divVec v d)) ↔
      normSq (vsub (matVec C x) d) ≤ normSq (vsub (matVec C y) d) := by
  rw [scale_invariant, scale_invariant]
  exact div_le_div_iff_of_pos_right (mul_pos hv hv)

/-- … and `rnorm * v` is the residual norm of the original system when `rnorm` is that of the normalised one. -/
theorem scale_invariant_norm (v : α) (hv : 0 < v) (C : List (List α)) (d x : List α) (r : α) (hr : 0 ≤ r)
    (h : r * r = normSq (vsub (matVec (divMat v C) x) (divVec v d))) :
    0 ≤ r * v ∧ (r * v) * (r * v) = normSq (vsub (matVec C x) d) := by
  refine ⟨by positivity, ?_⟩
  rw [scale_invariant] at h
  have hv2 : v * v ≠ 0 := (mul_pos hv hv).ne'
  field_simp at h
  linarith

/-- normal equations `Cᵀ(Cx − d) = 0` ⇒ `x` minimises `|Cy − d|²` over all `y` -/
theorem normal_eq_sufficient (n : Nat) (C : List (List α)) (d x : List α)
    (hC : ∀ row ∈ C, row.length = n) (hd : d.length = C.length) (hx : x.length = n)
    (hne : ∀ g ∈ normalEqResidual n C d x, g = 0) :
    ∀ y : List α, y.length = n → normSq (vsub (matVec C x) d) ≤ normSq (vsub (matVec C y) d) := by
  intro y hy
  rw [normSq_gap n C d x y hC (by rw [hx, hy]) hd, dot_zero_right y _ hne, dot_zero_right x _ hne]
  have := normSq_nonneg (matVec C (vsub y x))
  linarith

/-- KKT conditions `x ≥ 0`, `g = Cᵀ(Cx − d) ≥ 0`, `x·g = 0` ⇒ `x` minimises `|Cy − d|²` over the orthant `y ≥ 0` -/
theorem kkt_sufficient (n : Nat) (C : List (List α)) (d x : List α)
    (hC : ∀ row ∈ C, row.length = n) (hd : d.length = C.length) (hx : x.length = n)
    (hg : ∀ g ∈ (kktResidual n C d x).1, 0 ≤ g) (hcomp : (kktResidual n C d x).2 = 0) :
    ∀ y : List α, y.length = n → (∀ v ∈ y, 0 ≤ v) →
      normSq (vsub (matVec C x) d) ≤ normSq (vsub (matVec C y) d) := by
  intro y hy hy0
  simp only [kktResidual] at hg hcomp
  rw [normSq_gap n C d x y hC (by rw [hx, hy]) hd, hcomp]
  have h1 := normSq_nonneg (matVec C (vsub y x))
  have h2 := dot_nonneg y _ hy0 hg
  linarith

/-! ### `vmax = d_vector.max()` -/

/-- the normaliser of nnls.py is positive exactly when some measurement is positive -/
theorem vmax_pos_iff (n : Nat) (b : List α) : 0 < maxOf (stackD n b) ↔ ∃ v ∈ b, 0 < v := by
  constructor
  · intro h
    have hne : stackD n b ≠ [] := by
      intro h0; rw [h0] at h; simp [maxOf] at h
    have hm := maxOf_mem _ hne
    simp only [stackD, List.mem_append, List.mem_replicate] at hm
    rcases hm with hm | ⟨_, hm⟩
    · exact ⟨_, hm, h⟩
    · simp only [stackD] at h; rw [hm] at h; exact absurd h (lt_irrefl _)
  · rintro ⟨v, hv, hpos⟩
    exact lt_of_lt_of_le hpos (maxOf_ge _ v (by simp [stackD, hv]))

/-- **as-is defect class** (nnls.py:68-70): when no measurement is positive the normaliser is exactly `0`, and the
wrapper divides the whole system by it (`nan`/`inf` at `Float`; scipy then raises).  `nnls_wrapper_correct` below
therefore needs `0 < vmax`. -/
theorem nnls_norm_degenerate (n : Nat) (hn : 0 < n) (b : List α) (hb : ∀ v ∈ b, v ≤ 0) :
    maxOf (stackD n b) = 0 := by
  apply le_antisymm
  · by_contra hlt
    obtain ⟨v, hv, hpos⟩ := (vmax_pos_iff n b).mp (not_le.mp hlt)
    exact absurd (hb v hv) (not_le.mpr hpos)
  · apply maxOf_ge
    simp only [stackD, List.mem_append, List.mem_replicate]
    right; simp; omega

/-! ### the wrappers -/

/-- the normaliser is positive when some measurement is positive, or — once the guard is in the source — always -/
theorem normaliser_pos (guarded : Bool) (n : Nat) (b : List α) (h : guarded = true ∨ ∃ v ∈ b, 0 < v) :
    0 < normaliser guarded (stackD n b) := by
  unfold normaliser
  simp only
  cases guarded with
  | true =>
    simp only [if_true]
    split_ifs with hv
    · exact hv
    · exact one_pos
  | false =>
    simp only [Bool.false_eq_true, if_false]
    rcases h with h | h
    · exact absurd h (by simp)
    · exact (vmax_pos_iff n b).mpr h

/-- `invert_regularised_nnls` : if the point returned by the external solver satisfies the KKT conditions of the
(normalised, stacked) system it was handed and `rnorm` is that system's residual norm, then — provided some
measurement is positive, or the source guards the normaliser (`guarded`) — the wrapper returns a non-negative
minimiser of `|Wy−b|² + α²|Ly|²` over `y ≥ 0`, and the reported norm is consistent with it. -/
theorem nnls_wrapper_correct (guarded : Bool) (n : Nat) (W L : List (List α)) (a : α) (b : List α)
    (solver : List (List α) → List α → List α × α)
    (hW : ∀ row ∈ W, row.length = n) (hLr : ∀ row ∈ L, row.length = n) (hL : L.length = n)
    (hb : b.length = W.length) (hpos : guarded = true ∨ ∃ v ∈ b, 0 < v) :
    let v := normaliser guarded (stackD n b)
    let C' := divMat v (stackC n W a (some L))
    let d' := divVec v (stackD n b)
    let s := solver C' d'
    s.1.length = n → (∀ t ∈ s.1, 0 ≤ t) →
    (∀ g ∈ (kktResidual n C' d' s.1).1, 0 ≤ g) → (kktResidual n C' d' s.1).2 = 0 →
    0 ≤ s.2 → s.2 * s.2 = normSq (vsub (matVec C' s.1) d') →
    let out := nnlsWrap guarded solver n W b a (some L)
    (∀ t ∈ out.1, 0 ≤ t) ∧
    (∀ y : List α, y.length = n → (∀ t ∈ y, 0 ≤ t) → objective W L a b out.1 ≤ objective W L a b y) ∧
    0 ≤ out.2 ∧ out.2 * out.2 = objective W L a b out.1 := by
  intro v C' d' s hlen hx0 hg hcomp hr hrr out
  have hv : 0 < v := normaliser_pos guarded n b hpos
  have hout1 : out.1 = s.1 := rfl
  have hout2 : out.2 = s.2 * v := rfl
  have hC' : ∀ row ∈ C', row.length = n := by
    intro row hrow
    simp only [C', divMat, stackC, Option.getD_some, scaleMat, List.map_append, List.map_map, List.mem_append,
      List.mem_map] at hrow
    rcases hrow with ⟨r, hr1, rfl⟩ | ⟨r, hr1, rfl⟩
    · simp [hW r hr1]
    · simp [hLr r hr1]
  have hd' : d'.length = C'.length := by
    simp [C', d', divMat, divVec, stackC, stackD, scaleMat, hb, hL]
  have hmin := kkt_sufficient n C' d' s.1 hC' hd' hlen hg hcomp
  refine ⟨by rw [hout1]; exact hx0, ?_, ?_, ?_⟩
  · intro y hy hy0
    have := hmin y hy hy0
    rw [scale_invariant_min v hv, stack_norm n W L a b _ hb hL, stack_norm n W L a b _ hb hL] at this
    rw [hout1]; exact this
  · rw [hout2]; positivity
  · have := (scale_invariant_norm v hv _ _ _ s.2 hr hrr).2
    rw [stack_norm n W L a b _ hb hL] at this
    rw [hout1, hout2]; exact this

/-- the same for the source as it is *now* (flag regenerated from nnls.py on every run): with the as-is code this needs a
positive measurement — `nnls_norm_degenerate` is the excluded class, on which the real code fails (finding
`C11:invert_regularised_nnls:max(b)<=0:…`); once the guard lands the left disjunct holds by `rfl` for every `b`. -/
theorem nnls_wrapper_current (n : Nat) (W L : List (List α)) (a : α) (b : List α)
    (solver : List (List α) → List α → List α × α)
    (hW : ∀ row ∈ W, row.length = n) (hLr : ∀ row ∈ L, row.length = n) (hL : L.length = n)
    (hb : b.length = W.length) (hpos : Cherab.Gen.Inversion.nnlsVmaxGuarded = true ∨ ∃ v ∈ b, 0 < v) :
    let v := normaliser Cherab.Gen.Inversion.nnlsVmaxGuarded (stackD n b)
    let C' := divMat v (stackC n W a (some L))
    let d' := divVec v (stackD n b)
    let s := solver C' d'
    s.1.length = n → (∀ t ∈ s.1, 0 ≤ t) →
    (∀ g ∈ (kktResidual n C' d' s.1).1, 0 ≤ g) → (kktResidual n C' d' s.1).2 = 0 →
    0 ≤ s.2 → s.2 * s.2 = normSq (vsub (matVec C' s.1) d') →
    let out := nnlsWrap Cherab.Gen.Inversion.nnlsVmaxGuarded solver n W b a (some L)
    (∀ t ∈ out.1, 0 ≤ t) ∧
    (∀ y : List α, y.length = n → (∀ t ∈ y, 0 ≤ t) → objective W L a b out.1 ≤ objective W L a b y) ∧
    0 ≤ out.2 ∧ out.2 * out.2 = objective W L a b out.1 :=
  nnls_wrapper_correct Cherab.Gen.Inversion.nnlsVmaxGuarded n W L a b solver hW hLr hL hb hpos

/-- `invert_regularised_lstsq` : if the point returned by the external solver satisfies the normal equations of the
stacked system it was handed, the wrapper returns a minimiser of `|Wy−b|² + α²|Ly|²`; and a reported
sum-of-squares `ρ = |Cx − d|²` is the regularised objective at the solution. -/
theorem lstsq_wrapper_correct (n : Nat) (W L : List (List α)) (a : α) (b : List α)
    (solver : List (List α) → List α → List α × α)
    (hW : ∀ row ∈ W, row.length = n) (hLr : ∀ row ∈ L, row.length = n) (hL : L.length = n)
    (hb : b.length = W.length) :
    let C := stackC n W a (some L)
    let d := stackD n b
    let s := solver C d
    s.1.length = n → (∀ g ∈ normalEqResidual n C d s.1, g = 0) →
    let out := lstsqWrap solver n W b a (some L)
    (∀ y : List α, y.length = n → objective W L a b out.1 ≤ objective W L a b y) ∧
    (s.2 = normSq (vsub (matVec C s.1) d) → out.2 = objective W L a b out.1) := by
  intro C d s hlen hne out
  have hout : out = s := rfl
  have hC : ∀ row ∈ C, row.length = n := by
    intro row hrow
    simp only [C, stackC, Option.getD_some, scaleMat, List.mem_append, List.mem_map] at hrow
    rcases hrow with hr1 | ⟨r, hr1, rfl⟩
    · exact hW row hr1
    · simp [hLr r hr1]
  have hd : d.length = C.length := by simp [C, d, stackC, stackD, scaleMat, hb, hL]
  have hmin := normal_eq_sufficient n C d s.1 hC hd hlen hne
  refine ⟨?_, ?_⟩
  · intro y hy
    have := hmin y hy
    rw [stack_norm n W L a b _ hb hL, stack_norm n W L a b _ hb hL] at this
    rw [hout]; exact this
  · intro h
    rw [hout, h, stack_norm n W L a b _ hb hL]

/-! ### default Tikhonov matrix -/

/-- `np.identity(n) · x = x` : with the default Tikhonov matrix the penalty is `α²|x|²` -/
theorem identity_matVec (n : Nat) (x : List α) (hx : x.length = n) : matVec (identity n) x = x := by
  subst hx
  apply List.ext_getElem
  · simp [identity]
  · intro i h1 h2
    have := dot_delta i x 0
    simp only [List.range'_eq_map_range, Nat.zero_add, Nat.zero_le, if_true, Nat.sub_zero] at this
    simp only [matVec, identity, List.getElem_map, List.getElem_range]
    rw [List.getD_eq_getElem?_getD, List.getElem?_eq_getElem h2, Option.getD_some] at this
    rw [← this]
    simp

theorem objective_default (n : Nat) (W : List (List α)) (a : α) (b x : List α) (hx : x.length = n) :
    objective W (identity n) a b x = normSq (vsub (matVec W x) b) + a * a * normSq x := by
  rw [objective, identity_matVec n x hx]

/-! ## Part 2 — SART -/

section sart
variable (n : Nat) (W : List (List α)) (b : List α) (ω : α) (lap : Option (List (List α) × α))

/-- **loop nest = matrix expression** : cell `j` of one sweep is the guarded documented rule, minus the Laplacian
penalty, clipped at zero — for every matrix (no sign assumption). -/
theorem sart_formula (x : List α) (j : Nat) (hj : j < n) (hb : b.length = W.length) :
    (sweepFull n W b ω lap x).getD j 0 =
      max 0 ((if 0 < (W.map (fun r => r.getD j 0)).sum then
          x.getD j 0 + ω / (W.map (fun r => r.getD j 0)).sum *
            (List.zipWith (fun r bk => if r.sum = 0 then 0 else r.getD j 0 / r.sum * (bk - dot r x)) W b).sum
        else x.getD j 0) - penaltyAt lap x j) := by
  unfold sweepFull
  have hlen : j < (sweep n W b (colSums W n) (rowSums W) ((rowSums W).map (fun l => 1 / l)) ω (gradPenalty lap x) x
      (matVec W x)).length := by simp [hj]
  rw [List.getD_eq_getElem?_getD, List.getElem?_eq_getElem hlen, Option.getD_some]
  rw [sweep_getElem, obsDiff_eq W b x j hb, colSums_getD W n j hj]
  unfold cellUpdate penaltyAt
  rw [← clip_eq_max]
  cases gradPenalty lap x with
  | none => simp only [Option.map_none, sub_zero]
  | some g => simp only [Option.map_some]; split_ifs <;> rfl

/-- for non-negative weights the guards are exactly the `x/0 = 0` convention: one sweep is the documented formula -/
theorem sart_formula_doc (x : List α) (j : Nat) (hj : j < n) (hb : b.length = W.length)
    (hW : ∀ r ∈ W, ∀ v ∈ r, 0 ≤ v) :
    (sweepFull n W b ω lap x).getD j 0 = max 0 (sartRule W b ω x j - penaltyAt lap x j) := by
  rw [sart_formula n W b ω lap x j hj hb, sartRule]
  have hguard : (fun (r : List α) (bk : α) => if r.sum = 0 then 0 else r.getD j 0 / r.sum * (bk - dot r x)) =
      (fun r bk => r.getD j 0 / r.sum * (bk - dot r x)) := by
    funext r bk
    split_ifs with h0
    · rw [h0]; simp
    · rfl
  rw [hguard]
  have hcol : 0 ≤ (W.map (fun r => r.getD j 0)).sum := by
    apply List.sum_nonneg
    intro v hv
    obtain ⟨r, hr, rfl⟩ := List.mem_map.mp hv
    rw [List.getD_eq_getElem?_getD]
    cases hjr : r[j]? with
    | none => simp
    | some w => simp only [Option.getD_some]; exact hW r hr w (List.mem_of_getElem? hjr)
  split_ifs with hpos
  · rfl
  · have h0 : (W.map (fun r => r.getD j 0)).sum = 0 := le_antisymm (not_lt.mp hpos) hcol
    rw [h0]; simp

/-- every sweep is clipped at zero -/
theorem sweep_nonneg_full (x : List α) : ∀ v ∈ sweepFull n W b ω lap x, 0 ≤ v :=
  sweep_nonneg _ _ _ _ _ _ _ _ _ _

/-- an exact non-negative solution is a fixed point of the sweep; for the constrained variant the penalty must
vanish there (`β (L x)_j = 0` for all cells) -/
theorem sart_fixed_point (x : List α) (hx : x.length = n) (hsol : matVec W x = b) (hx0 : ∀ v ∈ x, 0 ≤ v)
    (hpen : ∀ j, j < n → penaltyAt lap x j = 0) :
    sweepFull n W b ω lap x = x := by
  apply List.ext_getElem
  · simp [sweepFull, hx]
  · intro j h1 h2
    have hj : j < n := by simpa [sweepFull] using h1
    have hb : b.length = W.length := by rw [← hsol]; simp
    have h := sart_formula n W b ω lap x j hj hb
    rw [List.getD_eq_getElem?_getD, List.getElem?_eq_getElem h1, Option.getD_some] at h
    rw [h, hpen j hj, sub_zero]
    have hxj : x.getD j 0 = x[j] := by
      rw [List.getD_eq_getElem?_getD, List.getElem?_eq_getElem h2, Option.getD_some]
    have hzero : (List.zipWith (fun r bk => if r.sum = 0 then 0 else r.getD j 0 / r.sum * (bk - dot r x)) W b).sum = 0 := by
      rw [← hsol]
      unfold matVec
      rw [List.zipWith_map_right, List.zipWith_self]
      apply List.sum_eq_zero
      intro v hv
      obtain ⟨r, _, rfl⟩ := List.mem_map.mp hv
      simp
    rw [hzero, hxj]
    have : 0 ≤ x[j] := hx0 _ (List.getElem_mem h2)
    split_ifs <;> simp [this]

variable (tol : α)

/-- as-is: an all-zero measurement vector makes the convergence measure `0/0`; the C-double division raises -/
theorem sart_zero_measurement (expm1 : α) (guess : Guess α) (maxIt : Nat) (hbb : dot b b = 0) (hit : 0 < maxIt)
    (hlen : (initSolution expm1 n guess).length = n) :
    sartRun expm1 n W lap b guess maxIt ω tol = .error .zeroDivision := by
  obtain ⟨m, rfl⟩ := Nat.exists_eq_succ_of_ne_zero hit.ne'
  simp [sartRun, hlen, sartLoop, hbb]

/-- **stopping rule** : the solver returns iterate `N` of the update rule and the first `N` convergence values, where
`N` is `max_iterations` or one more than the first loop index at which the documented stop condition holds —
whichever comes first. -/
theorem sart_stops (expm1 : α) (guess : Guess α) (maxIt : Nat) (hbb : dot b b ≠ 0) (xs cs : List α)
    (h : sartRun expm1 n W lap b guess maxIt ω tol = .ok (xs, cs)) :
    ∃ N, N ≤ maxIt ∧ xs = iter n W b ω lap (initSolution expm1 n guess) N ∧
      cs = (List.range N).map (convAt n W b ω lap (initSolution expm1 n guess)) ∧
      (N = maxIt ∨ (0 < N ∧ stopAt n W b ω lap (initSolution expm1 n guess) tol (N - 1))) ∧
      ∀ i, i + 1 < N → ¬ stopAt n W b ω lap (initSolution expm1 n guess) tol i := by
  unfold sartRun at h
  simp only at h
  split_ifs at h with hlen
  obtain ⟨N, _, h2, h3, h4, h5, h6⟩ :=
    sartLoop_spec n W b ω lap (initSolution expm1 n guess) tol hbb maxIt 0 xs cs (by simpa [iter] using h)
  refine ⟨N, by omega, h3, h4, ?_, fun i hi => h6 i (by omega) hi⟩
  rcases h5 with h5 | h5
  · left; omega
  · right; exact h5

/-- **never negative** : whenever at least one iteration is allowed, every entry of the returned solution is `≥ 0` -/
theorem sart_nonneg (expm1 : α) (guess : Guess α) (maxIt : Nat) (hit : 0 < maxIt) (xs cs : List α)
    (h : sartRun expm1 n W lap b guess maxIt ω tol = .ok (xs, cs)) : ∀ v ∈ xs, 0 ≤ v := by
  by_cases hbb : dot b b = 0
  · have hlen : (initSolution expm1 n guess).length = n := by
      by_contra hne
      simp [sartRun, hne] at h
    rw [sart_zero_measurement n W b ω lap tol expm1 guess maxIt hbb hit hlen] at h
    cases h
  · obtain ⟨N, _, h3, _, h5, _⟩ := sart_stops n W b ω lap tol expm1 guess maxIt hbb xs cs h
    have hN : 0 < N := by rcases h5 with h5 | h5 <;> omega
    obtain ⟨N', rfl⟩ := Nat.exists_eq_succ_of_ne_zero hN.ne'
    rw [h3]
    exact sweep_nonneg_full n W b ω lap _

/-- with a non-negative initial guess the result is non-negative for every iteration limit, `0` included -/
theorem sart_nonneg_of_guess (expm1 : α) (guess : Guess α) (maxIt : Nat) (xs cs : List α)
    (hg : ∀ v ∈ initSolution expm1 n guess, 0 ≤ v)
    (h : sartRun expm1 n W lap b guess maxIt ω tol = .ok (xs, cs)) : ∀ v ∈ xs, 0 ≤ v := by
  rcases Nat.eq_zero_or_pos maxIt with h0 | hpos
  · subst h0
    unfold sartRun at h
    simp only at h
    split_ifs at h
    simp only [sartLoop, Except.ok.injEq, Prod.mk.injEq] at h
    rw [← h.1]; exact hg
  · exact sart_nonneg n W b ω lap tol expm1 guess maxIt hpos xs cs h

/-- **fixed point of the whole solver** : started at an exact non-negative solution (penalty vanishing there), the
solver returns that solution, whatever the relaxation, tolerance and iteration limit -/
theorem sart_fixed_point_run (expm1 : α) (x : List α) (maxIt : Nat) (hbb : dot b b ≠ 0)
    (hx : x.length = n) (hsol : matVec W x = b) (hx0 : ∀ v ∈ x, 0 ≤ v)
    (hpen : ∀ j, j < n → penaltyAt lap x j = 0) (xs cs : List α)
    (h : sartRun expm1 n W lap b (.array x) maxIt ω tol = .ok (xs, cs)) : xs = x := by
  have hfix : ∀ N, iter n W b ω lap x N = x := by
    intro N
    induction N with
    | zero => rfl
    | succ k ih => rw [iter, ih]; exact sart_fixed_point n W b ω lap x hx hsol hx0 hpen
  obtain ⟨N, _, h3, _⟩ := sart_stops n W b ω lap tol expm1 (.array x) maxIt hbb xs cs h
  rw [h3]
  exact hfix N

/-- the solver does return (no error) whenever the measurement is non-zero and the guess has the right length -/
theorem sart_returns (expm1 : α) (guess : Guess α) (maxIt : Nat) (hbb : dot b b ≠ 0)
    (hlen : (initSolution expm1 n guess).length = n) :
    ∃ xs cs, sartRun expm1 n W lap b guess maxIt ω tol = .ok (xs, cs) := by
  unfold sartRun
  simp only [hlen, ne_eq, not_true_eq_false, if_false]
  have key : ∀ fuel k, ∃ xs cs,
      sartLoop n W b (colSums W n) (rowSums W) ((rowSums W).map (fun l => 1 / l)) ω lap tol (dot b b) fuel
        (iter n W b ω lap (initSolution expm1 n guess) k) (matVec W (iter n W b ω lap (initSolution expm1 n guess) k))
        (((List.range k).map (convAt n W b ω lap (initSolution expm1 n guess))).reverse) = .ok (xs, cs) := by
    intro fuel
    induction fuel with
    | zero => intro k; exact ⟨_, _, rfl⟩
    | succ fuel ih =>
      intro k
      rw [sartLoop_step n W b ω lap _ tol hbb]
      split_ifs
      · exact ⟨_, _, rfl⟩
      · exact ih (k + 1)
  simpa [iter] using key maxIt 0

end sart

/-! ## Part 3 — argument representations -/

/-- every writable float64 ndarray layout (C, Fortran, strided view) of W, b and an array guess, and every documented
scalar guess, is accepted by the SART entry points -/
theorem sart_accepts_float64 :
    ∀ rW ∈ [Rep.f64, .fortran, .strided], ∀ rb ∈ [Rep.f64, .fortran, .strided],
      ∀ rg ∈ [GRep.none, .pyfloat, .pyint, .npf64, .arr .f64, .arr .fortran, .arr .strided],
        sartAccept rW rb rg = .ok := by decide

/-- the least-squares wrappers accept an ndarray W of any dtype / layout / writability with an ndarray (or default)
Tikhonov matrix and a 1-D measurement in any representation; `invert_svd` accepts any W and any ndarray b -/
theorem lsq_accepts_ndarray (m : Nat) :
    (∀ rW ∈ [Rep.f64, .f32, .i32, .i64, .bool, .fortran, .strided, .readonly],
      ∀ ra ∈ [ARep.pyfloat, .pyint, .npf64, .npf32, .zerod],
      ∀ rL ∈ [none, some Rep.f64, some .f32, some .i32, some .i64, some .bool, some .fortran, some .strided, some .readonly],
      ∀ rb ∈ [Rep.f64, .f32, .i32, .i64, .bool, .list, .tuple, .fortran, .strided, .readonly],
        lsqAccept m rW ra rL rb = .ok) ∧
    (∀ rW ∈ [Rep.f64, .f32, .i32, .i64, .bool, .list, .tuple, .fortran, .strided, .readonly],
      ∀ rb ∈ [Rep.f64, .f32, .i32, .i64, .bool, .fortran, .strided, .readonly, .col], svdAccept rW rb = .ok) := by
  constructor
  · intro rW hW ra ha rL hL rb hb
    have hcol : rb ≠ Rep.col := by
      intro h; subst h; simp at hb
    rw [lsqAccept_col_only m rW ra rL rb hcol]
    revert rW ra rL rb
    decide
  · decide

/-! ## Non-vacuity: the hypotheses are satisfiable by concrete non-trivial instances (over ℚ) -/

/-- the model run on a 3×2 system, two iterations — the values `/repo`'s `invert_sart` returns for the same input
(0.84375, 1.078125; convergence 0.0057043…, 0.0102887…) -/
example : (sartRun (1/3 : ℚ) 2 [[1,2],[0,1],[1,1]] none [1,2,3] (.scalar 1) 2 1 (1/10000)).toOption
    = some ([27/32, 69/64], [23/4032, 295/28672]) := by decide +kernel

/-- constrained variant, same system, Laplacian `[[1,-1],[-1,1]]`, β = 1/10 -/
example : (sartRun (1/3 : ℚ) 2 [[1,2],[0,1],[1,1]] (some ([[1,-1],[-1,1]], 1/10)) [1,2,3] (.scalar 1) 2 1 (1/10000)).toOption
    = some ([137/160, 341/320], [23/4032, 1797/102400]) := by decide +kernel

/-- `sart_fixed_point` applies to a matrix with a row of zeros -/
example : sweepFull (α := ℚ) 2 [[1,1],[0,2],[0,0]] [2,2,0] 1 none [1,1] = [1,1] :=
  sart_fixed_point 2 _ _ 1 none [1,1] rfl (by decide +kernel) (by decide +kernel) (fun _ _ => rfl)

/-- … and to the constrained variant when `L x = 0` -/
example : sweepFull (α := ℚ) 2 [[1,1],[0,2]] [2,2] (1/2) (some ([[1,-1],[-1,1]], 1/10)) [1,1] = [1,1] :=
  sart_fixed_point 2 _ _ _ _ [1,1] rfl (by decide +kernel) (by decide +kernel) (by decide +kernel)

/-- the stop rule does fire before `max_iterations` on a concrete run (2 of 50 iterations) -/
example : ((sartRun (1/3 : ℚ) 2 [[1,2],[0,1],[1,1]] none [1,2,3] (.scalar 1) 50 1 (1/100)).toOption.map
    (fun r => r.2.length)) = some 2 := by decide +kernel

/-- `sart_zero_measurement` is not vacuous -/
example : sartRun (1/3 : ℚ) 2 [[1,2],[0,1]] none [0,0] .none 5 1 (1/100) = .error .zeroDivision :=
  sart_zero_measurement 2 _ _ _ _ _ _ _ 5 (by decide +kernel) (by decide) (by decide +kernel)

/-- KKT certificate at a vertex of the orthant: `x = (1,0)` minimises `|y − (1,−1)|²` over `y ≥ 0` -/
example : ∀ y : List ℚ, y.length = 2 → (∀ v ∈ y, 0 ≤ v) →
    normSq (vsub (matVec [[1,0],[0,1]] [1,0]) [1,-1]) ≤ normSq (vsub (matVec [[1,0],[0,1]] y) [1,-1]) :=
  kkt_sufficient 2 [[1,0],[0,1]] [1,-1] [1,0] (by decide +kernel) rfl rfl (by decide +kernel) (by decide +kernel)

/-- normal equations certificate on an over-determined system -/
example : ∀ y : List ℚ, y.length = 1 →
    normSq (vsub (matVec [[1],[1]] [1]) [0,2]) ≤ normSq (vsub (matVec [[1],[1]] y) [0,2]) :=
  normal_eq_sufficient 1 [[1],[1]] [0,2] [1] (by decide +kernel) rfl rfl (by decide +kernel)

/-- all hypotheses of `nnls_wrapper_correct` hold for `W = [3]`, `L = [4]`, `α = 1`, `b = [5]` and a solver returning
the true answer of the normalised system (`x = 3/5`, `rnorm = 4/5`); the wrapper then reports `rnorm·vmax = 4`,
and indeed `(3·3/5 − 5)² + (4·3/5)² = 16`. -/
example : (nnlsWrap (α := ℚ) false (fun _ _ => ([3/5], 4/5)) 1 [[3]] [5] 1 (some [[4]])).2 = 4 ∧
    objective (α := ℚ) [[3]] [[4]] 1 [5] [3/5] = 16 := by
  have h := nnls_wrapper_correct (α := ℚ) false 1 [[3]] [[4]] 1 [5] (fun _ _ => ([3/5], 4/5))
    (by decide +kernel) (by decide +kernel) rfl rfl (Or.inr ⟨5, by simp, by norm_num⟩)
    rfl (by decide +kernel) (by decide +kernel) (by decide +kernel) (by decide +kernel) (by decide +kernel)
  constructor
  · decide +kernel
  · have h4 := h.2.2.2
    have e : (nnlsWrap (α := ℚ) false (fun _ _ => ([3/5], 4/5)) 1 [[3]] [5] 1 (some [[4]])) = ([3/5], 4) := by
      decide +kernel
    rw [e] at h4
    rw [← h4]; norm_num

/-- with the guard, an all-zero measurement is handled: the solver sees the unnormalised system and `x = 0`, `rnorm = 0`
is reported as norm `0` -/
example : nnlsWrap (α := ℚ) true (fun _ _ => ([0], 0)) 1 [[3]] [0] 1 (some [[4]]) = ([0], 0) ∧
    normaliser (α := ℚ) true (stackD 1 [0]) = 1 ∧ normaliser (α := ℚ) false (stackD 1 [0]) = 0 := by
  refine ⟨?_, ?_, ?_⟩ <;> decide +kernel

/-- the degenerate normaliser: an all-zero (or all non-positive) measurement gives `vmax = 0` -/
example : maxOf (stackD (α := ℚ) 2 [0, -1, 0]) = 0 := nnls_norm_degenerate 2 (by decide) _ (by decide +kernel)

/-! ## Part 4 — proof-deepening pass -/

section deepen
variable (n : Nat) (W : List (List α)) (b : List α) (ω : α) (lap : Option (List (List α) × α)) (tol : α)

/-- **fixed points of `invert_sart`, exactly** : for `ω > 0` a non-negative `x` is left unchanged by a sweep iff, in every
cell that is seen by a ray, the back-projected weighted residual vanishes where `x_j > 0` and is `≤ 0` where `x_j = 0` —
the KKT conditions of `min ½ Σ_k (b_k − (Wx)_k)² / W_{k⊕}` over `x ≥ 0`.  (Consistency `W x = b` is sufficient —
`sart_fixed_point` — but *not* necessary: see the example below; "fixed point ⇔ consistency" is false for the model and
for the code.) -/
theorem sart_fixed_point_iff (x : List α) (hx : x.length = n) (hb : b.length = W.length)
    (hx0 : ∀ v ∈ x, 0 ≤ v) (hω : 0 < ω) :
    sweepFull n W b ω none x = x ↔
      ∀ j, j < n → 0 < colSum W j →
        (0 < x.getD j 0 → backProj W b x j = 0) ∧ (x.getD j 0 = 0 → backProj W b x j ≤ 0) := by
  rw [list_eq_iff_getD n _ _ (by simp [sweepFull]) hx]
  apply forall_congr'; intro j
  apply imp_congr_right; intro hj
  rw [sart_formula n W b ω none x j hj hb, penaltyAt_none, sub_zero]
  have hv := getD_nonneg x hx0 j
  show _ ↔ (0 < colSum W j → _)
  unfold colSum backProj
  by_cases hc : 0 < (W.map (fun r => r.getD j 0)).sum
  · simp only [hc, if_true, forall_const]
    exact clip_fixed_iff _ _ _ hv (div_pos hω hc)
  · simp only [hc, if_false, IsEmpty.forall_iff, iff_true]
    exact max_eq_right hv

/-- consistency implies the fixed-point conditions (the direction the property text states), now as a corollary -/
theorem sart_consistent_is_kkt (x : List α) (hx : x.length = n) (hsol : matVec W x = b) (hx0 : ∀ v ∈ x, 0 ≤ v) (hω : 0 < ω) :
    ∀ j, j < n → 0 < colSum W j →
      (0 < x.getD j 0 → backProj W b x j = 0) ∧ (x.getD j 0 = 0 → backProj W b x j ≤ 0) :=
  (sart_fixed_point_iff n W b ω x hx (by rw [← hsol]; simp) hx0 hω).mp
    (sart_fixed_point n W b ω none x hx hsol hx0 (fun _ _ => rfl))

/-- the last entry of the returned convergence list is the documented measure of the *returned* solution -/
theorem sart_conv_last (expm1 : α) (guess : Guess α) (maxIt : Nat) (hit : 0 < maxIt) (hbb : dot b b ≠ 0) (xs cs : List α)
    (h : sartRun expm1 n W lap b guess maxIt ω tol = .ok (xs, cs)) :
    cs.getLast? = some ((dot b b - normSq (matVec W xs)) / dot b b) := by
  obtain ⟨N, _, h3, h4, h5, _⟩ := sart_stops n W b ω lap tol expm1 guess maxIt hbb xs cs h
  have hN : 0 < N := by rcases h5 with h5 | h5 <;> omega
  obtain ⟨N', rfl⟩ := Nat.exists_eq_succ_of_ne_zero hN.ne'
  rw [h4, h3, List.range_succ, List.map_append]
  simp [convAt]

/-! ### argument normalisation of `initial_guess` (sart.pyx:81-86) -/

/-- a scalar guess — the exact zero included — seeds every cell with that value (it is *not* replaced by the default) -/
theorem initSolution_scalar (expm1 v : α) : initSolution expm1 n (.scalar v) = List.replicate n v := by
  simp [initSolution]

theorem initSolution_none (expm1 : α) : initSolution expm1 n (Guess.none : Guess α) = List.replicate n expm1 := by
  simp [initSolution]

/-- `initial_guess=0.0` and `initial_guess=None` seed different vectors (whenever there is a cell) -/
theorem initSolution_zero_ne_default (expm1 : α) (he : expm1 ≠ 0) (hn : 0 < n) :
    initSolution expm1 n (.scalar 0) ≠ initSolution expm1 n (Guess.none : Guess α) := by
  rw [initSolution_scalar, initSolution_none]
  obtain ⟨k, rfl⟩ := Nat.exists_eq_succ_of_ne_zero hn.ne'
  intro h
  rw [List.replicate_succ, List.replicate_succ, List.cons.injEq] at h
  exact he h.1.symm

/-- representation independence of the guess: a scalar is the constant array, `None` is the scalar `exp(−1)` -/
theorem sart_scalar_guess (expm1 v : α) (maxIt : Nat) :
    sartRun expm1 n W lap b (.scalar v) maxIt ω tol = sartRun expm1 n W lap b (.array (List.replicate n v)) maxIt ω tol := by
  simp [sartRun, initSolution]

theorem sart_default_guess (expm1 : α) (maxIt : Nat) :
    sartRun expm1 n W lap b .none maxIt ω tol = sartRun expm1 n W lap b (.scalar expm1) maxIt ω tol := by
  simp [sartRun, initSolution]

/-- with `max_iterations = 0` the solver returns the seed itself and an empty convergence list -/
theorem sart_zero_iterations (expm1 : α) (guess : Guess α) (hlen : (initSolution expm1 n guess).length = n) :
    sartRun expm1 n W lap b guess 0 ω tol = .ok (initSolution expm1 n guess, []) := by
  simp [sartRun, hlen, sartLoop]

/-! ### aliasing of an array `initial_guess` (as-is; outside the property text, recorded) -/

theorem iter_add (x0 : List α) (N M : Nat) :
    iter n W b ω lap x0 (N + M) = iter n W b ω lap (iter n W b ω lap x0 N) M := by
  induction M with
  | zero => rfl
  | succ k ih =>
    show sweepFull n W b ω lap (iter n W b ω lap x0 (N + k)) = sweepFull n W b ω lap (iter n W b ω lap (iter n W b ω lap x0 N) k)
    rw [ih]

/-- only an array guess is ever written to, and it then holds exactly the returned solution -/
theorem guessAfter_spec (g : Guess α) (r : Except Err (List α × List α)) :
    (∀ xs cs, (∃ x0, g = .array x0) → r = .ok (xs, cs) → guessAfter g r = .array xs) ∧
    ((∀ x0, g ≠ .array x0) → guessAfter g r = g) ∧
    (∀ e, r = .error e → guessAfter g r = g) := by
  refine ⟨?_, ?_, ?_⟩
  · rintro xs cs ⟨x0, rfl⟩ rfl; rfl
  · intro h
    cases g with
    | array x0 => exact absurd rfl (h x0)
    | none => cases r <;> rfl
    | scalar v => cases r <;> rfl
  · rintro e rfl
    cases g <;> rfl

/-- consequence of the aliasing: calling the solver again with the (overwritten) array resumes the iteration — the second
result is a later iterate of the *original* guess, not a repetition of the first call -/
theorem sart_resume (expm1 : α) (x0 : List α) (it1 it2 : Nat) (hbb : dot b b ≠ 0) (xs cs ys ds : List α)
    (h1 : sartRun expm1 n W lap b (.array x0) it1 ω tol = .ok (xs, cs))
    (h2 : sartRun expm1 n W lap b (guessAfter (.array x0) (.ok (xs, cs))) it2 ω tol = .ok (ys, ds)) :
    ∃ N M, N ≤ it1 ∧ M ≤ it2 ∧ xs = iter n W b ω lap x0 N ∧ ys = iter n W b ω lap x0 (N + M) := by
  obtain ⟨N, hN, hx, _⟩ := sart_stops n W b ω lap tol expm1 (.array x0) it1 hbb xs cs h1
  obtain ⟨M, hM, hy, _⟩ := sart_stops n W b ω lap tol expm1 _ it2 hbb ys ds h2
  refine ⟨N, M, hN, hM, hx, ?_⟩
  rw [iter_add, ← (show xs = iter n W b ω lap x0 N from hx)]
  exact hy

end deepen

/-- a fixed point that is not a solution: `W = [1;1]`, `b = (0,2)`, `x = 1` — the residuals cancel in the back-projection -/
example : sweepFull (α := ℚ) 1 [[1],[1]] [0,2] 1 none [1] = [1] ∧ matVec (α := ℚ) [[1],[1]] [1] ≠ [0,2] := by
  constructor <;> decide +kernel

/-- the hypotheses of `sart_fixed_point_iff` are satisfiable and its right-hand side holds on that instance -/
example : ∀ j, j < 1 → 0 < colSum (α := ℚ) [[1],[1]] j →
    (0 < ([1] : List ℚ).getD j 0 → backProj (α := ℚ) [[1],[1]] [0,2] [1] j = 0) ∧
      (([1] : List ℚ).getD j 0 = 0 → backProj (α := ℚ) [[1],[1]] [0,2] [1] j ≤ 0) :=
  (sart_fixed_point_iff (α := ℚ) 1 [[1],[1]] [0,2] 1 [1] rfl rfl (by decide +kernel) one_pos).mp (by decide +kernel)

/-- … and a non-fixed point is detected by it: at `x = 0` the residual is positive -/
example : sweepFull (α := ℚ) 1 [[1],[1]] [0,2] 1 none [0] ≠ [0] := by decide +kernel

/-- the exact-zero scalar guess runs as the zero array … -/
example : sartRun (1/3 : ℚ) 2 [[1,2],[0,1],[1,1]] none [1,2,3] (.scalar 0) 1 1 (1/10000)
    = sartRun (1/3 : ℚ) 2 [[1,2],[0,1],[1,1]] none [1,2,3] (.array [0,0]) 1 1 (1/10000) :=
  sart_scalar_guess 2 _ _ _ _ _ _ 0 1

/-- … and is not the default seed -/
example : initSolution (1/3 : ℚ) 2 (.scalar 0) ≠ initSolution (1/3 : ℚ) 2 Guess.none :=
  initSolution_zero_ne_default 2 (1/3) (by norm_num) (by decide)

/-- two calls of one iteration each on the aliased array give the two-iteration result of the first example -/
example : (sartRun (1/3 : ℚ) 2 [[1,2],[0,1],[1,1]] none [1,2,3]
      (guessAfter (.array [1,1]) (sartRun (1/3 : ℚ) 2 [[1,2],[0,1],[1,1]] none [1,2,3] (.array [1,1]) 1 1 (1/10000))) 1 1 (1/10000)).toOption.map
    (fun r => r.1) = some [27/32, 69/64] := by decide +kernel

example : ((sartRun (1/3 : ℚ) 2 [[1,2],[0,1],[1,1]] none [1,2,3] (.scalar 1) 2 1 (1/10000)).toOption.map
    (fun r => r.2.getLast?)) = some (some ((14 - normSq (matVec [[1,2],[0,1],[1,1]] [27/32, 69/64])) / 14)) := by decide +kernel

/-! ## Part 5 — round 6: `invert_svd` (svd.py), the pseudo-inverse contract -/

section svd

/-- a vector whose squared norm vanishes is zero -/
theorem normSq_eq_zero (g : List α) (h : normSq g = 0) : ∀ v ∈ g, v = 0 := by
  induction g with
  | nil => simp
  | cons a t ih =>
    simp only [normSq, dot_cons] at h
    have ht := normSq_nonneg t
    simp only [normSq] at ht ih
    have ha : a * a = 0 := by nlinarith [mul_self_nonneg a]
    have ht0 : dot t t = 0 := by nlinarith [mul_self_nonneg a]
    intro v hv
    rcases List.mem_cons.1 hv with rfl | hv
    · exact mul_self_eq_zero.1 ha
    · exact ih ht0 v hv

/-- svd.py returns `pinv(W)·b`.  `scipy.linalg.pinv` is a parameter; its contract is stated as the two Moore–Penrose
conditions that matter for least squares, in operator form: (1) `W P W = W`, (3) `W P` is symmetric.  Under that
contract the returned vector satisfies the normal equations `Wᵀ(Wx − b) = 0` of the caller's system. -/
theorem svd_normal_equations (n : Nat) (pinv : List (List α) → List (List α)) (W : List (List α)) (b : List α)
    (hW : ∀ row ∈ W, row.length = n) (hb : b.length = W.length)
    (hP1 : ∀ z : List α, z.length = n → matVec W (matVec (pinv W) (matVec W z)) = matVec W z)
    (hP3 : ∀ u v : List α, u.length = W.length → v.length = W.length →
      dot (matVec W (matVec (pinv W) u)) v = dot u (matVec W (matVec (pinv W) v))) :
    ∀ g ∈ normalEqResidual n W b (svdWrap pinv W b), g = 0 := by
  set x := svdWrap pinv W b with hx
  have hlenWx : ∀ z : List α, (matVec W z).length = W.length := fun z => by simp [matVec]
  -- weak form: (W z)·(W x − b) = 0 for every z
  have weak : ∀ z : List α, z.length = n → dot (matVec W z) (vsub (matVec W x) b) = 0 := by
    intro z hz
    rw [dot_vsub_right _ _ _ (by rw [hlenWx, hb])]
    have h3 := hP3 b (matVec W z) hb (hlenWx z)
    rw [hP1 z hz] at h3
    have : dot (matVec W z) (matVec W x) = dot b (matVec W z) := by
      rw [dot_comm]; exact h3
    rw [this, dot_comm b]; ring
  apply normSq_eq_zero
  have hg := tMatVec_length n W (vsub (matVec W x) b) hW
  show dot (normalEqResidual n W b x) (normalEqResidual n W b x) = 0
  unfold normalEqResidual
  rw [dot_tMatVec n W _ _ hW]
  exact weak _ hg

/-- … hence `invert_svd` returns a minimiser of `|Wy − b|²` over all `y` (given the pseudo-inverse contract) -/
theorem svd_wrapper_correct (n : Nat) (pinv : List (List α) → List (List α)) (W : List (List α)) (b : List α)
    (hW : ∀ row ∈ W, row.length = n) (hb : b.length = W.length) (hPn : (pinv W).length = n)
    (hP1 : ∀ z : List α, z.length = n → matVec W (matVec (pinv W) (matVec W z)) = matVec W z)
    (hP3 : ∀ u v : List α, u.length = W.length → v.length = W.length →
      dot (matVec W (matVec (pinv W) u)) v = dot u (matVec W (matVec (pinv W) v))) :
    ∀ y : List α, y.length = n →
      normSq (vsub (matVec W (svdWrap pinv W b)) b) ≤ normSq (vsub (matVec W y) b) :=
  normal_eq_sufficient n W b _ hW hb (by simp [svdWrap, matVec, hPn])
    (svd_normal_equations n pinv W b hW hb hP1 hP3)

end svd

/-- non-vacuity: a rank-deficient over-determined system, `W = [1;1]`, `pinv W = [½ ½]` satisfies the contract; the
returned `x = 1` for `b = (0,2)` leaves the residual `(1,−1)` — a least-squares solution, not an exact one -/
example : ∀ y : List ℚ, y.length = 1 →
    normSq (vsub (matVec [[1],[1]] (svdWrap (fun _ => [[1/2, 1/2]]) [[1],[1]] [0,2])) [0,2])
      ≤ normSq (vsub (matVec [[1],[1]] y) [0,2]) := by
  refine svd_wrapper_correct 1 _ _ _ (by decide) rfl rfl ?_ ?_
  · intro z hz
    match z, hz with
    | [a], _ => simp [matVec, dot, vsum]; ring
  · intro u v hu hv
    match u, hu, v, hv with
    | [a, b], _, [c, d], _ => simp [matVec, dot, vsum]; ring

example : svdWrap (α := ℚ) (fun _ => [[1/2, 1/2]]) [[1],[1]] [0,2] = [1] := by decide +kernel

/-! ### two entry points agree: `invert_constrained_sart` with `beta_laplace = 0` is `invert_sart` -/

section agree

theorem sweep_beta_zero (n : Nat) (W L : List (List α)) (b dens len inv : List α) (ω : α) (x yh : List α) :
    sweep n W b dens len inv ω (gradPenalty (some (L, 0)) x) x yh = sweep n W b dens len inv ω none x yh := by
  have h1 : ∀ (k j : Nat), ((List.replicate k (0 : α))[j]?).getD 0 = 0 := by
    intro k j
    by_cases h : j < k <;> simp [h]
  unfold sweep gradPenalty
  apply List.map_congr_left
  intro j _
  simp [cellUpdate, h1]

/-- for every geometry matrix, measurement, guess, relaxation, tolerance and iteration limit — and every Laplacian, of any
shape — the constrained solver with `beta_laplace = 0` returns what the unconstrained solver returns (solution, convergence
list, or the same exception) -/
theorem csart_beta_zero (expm1 : α) (n : Nat) (W L : List (List α)) (b : List α) (guess : Guess α) (maxIt : Nat) (ω tol : α) :
    sartRun expm1 n W (some (L, 0)) b guess maxIt ω tol = sartRun expm1 n W none b guess maxIt ω tol := by
  have loop : ∀ (fuel : Nat) (dens len inv x yh convRev : List α) (bb : α),
      sartLoop n W b dens len inv ω (some (L, 0)) tol bb fuel x yh convRev
        = sartLoop n W b dens len inv ω none tol bb fuel x yh convRev := by
    intro fuel
    induction fuel with
    | zero => intros; rfl
    | succ k ih =>
      intro dens len inv x yh convRev bb
      simp only [sartLoop, sweep_beta_zero, ih]
      rfl
  simp only [sartRun, loop]

end agree

example : (sartRun (1/3 : ℚ) 2 [[1,2],[0,1],[1,1]] (some ([[1,-1],[-1,1]], 0)) [1,2,3] (.scalar 1) 2 1 (1/10000)).toOption.map
    (fun r => r.1) = some [27/32, 69/64] := by decide +kernel

end Cherab.Props.C11
