"""C01 scene machinery: configuration (pure data) <-> live cherab scene, mutators, observations.

A *configuration* is a nested dict of plain values.  `build(cfg)` constructs a scene from scratch in one fixed
canonical order; `apply(live, cfg, op)` performs one public mutator on the live scene and updates `cfg` in parallel;
`observe(live)` evaluates spectra along fixed sight lines and beam densities.  C01 says: observe(history scene) ==
observe(build(final cfg)).
"""
import math

from raysect.core import Point3D, Vector3D, translate, rotate_x, rotate_y, rotate_z, AffineMatrix3D, Node
from raysect.optical import World, Ray
from raysect.primitive import Box, Cylinder, Sphere
from raysect.optical.material.emitter.inhomogeneous import NumericalIntegrator

from cherab.core import Plasma, Beam, Species, Maxwellian
from cherab.core.laser import Laser
from cherab.core.atomic import (AtomicData, Line, deuterium, hydrogen, carbon, helium, neon,
                                ImpactExcitationPEC, RecombinationPEC, ThermalCXPEC, BeamCXPEC, BeamStoppingRate,
                                BeamPopulationRate, BeamEmissionPEC, TotalRadiatedPower as TRPRate,
                                LineRadiationPower, ContinuumPower, CXRadiationPower)
from cherab.core.atomic.gaunt import MaxwellianFreeFreeGauntFactor
from cherab.core.atomic import FreeFreeGauntFactor
from cherab.core.model import (ExcitationLine, RecombinationLine, ThermalCXLine, Bremsstrahlung, TotalRadiatedPower,
                               BeamCXLine, BeamEmissionLine, SingleRayAttenuator)
from cherab.core.model.laser import (SeldenMatobaThomsonSpectrum, UniformEnergyDensity, ConstantBivariateGaussian,
                                     ConstantSpectrum, GaussianSpectrum)
from scipy.constants import electron_mass as ELECTRON_REST_MASS, atomic_mass as ATOMIC_MASS

ELEMS = dict(D=deuterium, H=hydrogen, C=carbon, He=helium, Ne=neon)


def _val(*key):
    """deterministic pseudo-random positive number in [0.5, 1.5) from a key"""
    h = 1469598103934665603
    for ch in repr(key):
        h = ((h ^ ord(ch)) * 1099511628211) % (1 << 64)
    return 0.5 + (h % 100000) / 100000.0


# ---- mock atomic data --------------------------------------------------------------------------------------------
class _CPEC(ImpactExcitationPEC):
    def __init__(self, v): self.v = v
    def evaluate(self, ne, te): return self.v


class _CRec(RecombinationPEC):
    def __init__(self, v): self.v = v
    def evaluate(self, ne, te): return self.v


class _CTcx(ThermalCXPEC):
    def __init__(self, v): self.v = v
    def evaluate(self, ne, te, td): return self.v


class _CBcx(BeamCXPEC):
    def __init__(self, m, v):
        super().__init__(m); self.v = v
    def evaluate(self, e, t, n, z, b): return self.v


class _CStop(BeamStoppingRate):
    def __init__(self, v): self.v = v
    def evaluate(self, e, n, t): return self.v


class _CPop(BeamPopulationRate):
    def __init__(self, v): self.v = v
    def evaluate(self, e, n, t): return self.v


class _CBem(BeamEmissionPEC):
    def __init__(self, v): self.v = v
    def evaluate(self, e, n, t): return self.v


class _CLrp(LineRadiationPower):
    def __init__(self, v): self.v = v
    def evaluate(self, ne, te): return self.v


class _CCont(ContinuumPower):
    def __init__(self, v): self.v = v
    def evaluate(self, ne, te): return self.v


class _CCxr(CXRadiationPower):
    def __init__(self, v): self.v = v
    def evaluate(self, ne, te): return self.v


class _ScaledGaunt(FreeFreeGauntFactor):
    """provider-specific Gaunt factor, so that a stale one is visible in the spectrum"""

    def __init__(self, scale):
        self.base = MaxwellianFreeFreeGauntFactor()
        self.scale = scale

    def evaluate(self, z, temperature, wavelength):
        return self.scale * self.base.evaluate(z, temperature, wavelength)


class MockData(AtomicData):
    """constant rates whose values depend on (provider tag, accessor, arguments): using data of the wrong provider,
    species or transition changes every number.  Counts accessor calls (cache refills are visible without hooks)."""

    def __init__(self, tag):
        super().__init__()
        self.tag = tag
        self.calls = []

    def _k(self, name, *a):
        key = (self.tag, name) + tuple(getattr(x, 'symbol', x) for x in a)
        self.calls.append(key[1:])
        return key

    def wavelength(self, ion, charge, transition):
        return 500.0 + 20.0 * _val(self._k('wavelength', ion, charge, transition))

    def impact_excitation_pec(self, ion, charge, transition):
        return _CPEC(1e-35 * _val(self._k('exc', ion, charge, transition)))

    def recombination_pec(self, ion, charge, transition):
        return _CRec(1e-36 * _val(self._k('rec', ion, charge, transition)))

    def thermal_cx_pec(self, donor, dcharge, recv, rcharge, transition):
        return _CTcx(1e-35 * _val(self._k('tcx', donor, dcharge, recv, rcharge, transition)))

    def beam_cx_pec(self, donor, recv, rcharge, transition):
        k = self._k('bcx', donor, recv, rcharge, transition)
        return [_CBcx(1, 1e-34 * _val(k, 1)), _CBcx(2, 2e-34 * _val(k, 2))]

    def beam_stopping_rate(self, beam_ion, plasma_ion, charge):
        return _CStop(2e-14 * _val(self._k('stop', beam_ion, plasma_ion, charge)))

    def beam_population_rate(self, beam_ion, metastable, plasma_ion, charge):
        return _CPop(0.1 * _val(self._k('pop', beam_ion, metastable, plasma_ion, charge)))

    def beam_emission_pec(self, beam_ion, plasma_ion, charge, transition):
        return _CBem(1e-35 * _val(self._k('bem', beam_ion, plasma_ion, charge, transition)))

    def line_radiated_power_rate(self, element, charge):
        return _CLrp(1e-33 * _val(self._k('lrp', element, charge)))

    def continuum_radiated_power_rate(self, element, charge):
        return _CCont(1e-34 * _val(self._k('cont', element, charge)))

    def cx_radiated_power_rate(self, element, charge):
        return _CCxr(1e-34 * _val(self._k('cxr', element, charge)))

    def free_free_gaunt_factor(self):
        self._k('gaunt')
        return _ScaledGaunt(1.0 if self.tag == 'A' else 1.3)


# ---- plain-data helpers -------------------------------------------------------------------------------------------
def mat(t):
    """('t', x, y, z) / ('rx'|'ry'|'rz', deg) / ('c', a, b) compositions -> AffineMatrix3D"""
    if t is None:
        return AffineMatrix3D()
    k = t[0]
    if k == 't':
        return translate(t[1], t[2], t[3])
    if k == 'rx':
        return rotate_x(t[1])
    if k == 'ry':
        return rotate_y(t[1])
    if k == 'rz':
        return rotate_z(t[1])
    if k == 'c':
        return mat(t[1]) * mat(t[2])
    raise ValueError(t)


class Profile:
    """smooth positive spatially varying profile a*(1 + gx*x + gy*y + gz*z) clipped at 5% of a"""

    def __init__(self, a, g):
        self.a, self.g = a, g

    def __call__(self, x, y, z):
        if len(self.g) > 3 and self.g[3] == 'hole' and x > 0.15:
            return 0.0                       # compact support: the species is absent (exactly 0) for x > 0.15
        return self.a * max(0.05, 1.0 + self.g[0] * x + self.g[1] * y + self.g[2] * z)


def distribution(d, mass):
    vel = Vector3D(*d['v'])
    return Maxwellian(Profile(d['n'], d['gn']), Profile(d['t'], d['gt']), vel, mass)


def species_list(comp):
    out = []
    for s in comp:
        el = ELEMS[s['el']]
        out.append(Species(el, s['q'], distribution(s, el.atomic_weight * ATOMIC_MASS)))
    return out


def geometry(g):
    if g[0] == 'box':
        return Box(Point3D(-g[1], -g[2], -g[3]), Point3D(g[1], g[2], g[3]))
    if g[0] == 'sphere':
        return Sphere(g[1])
    if g[0] == 'cyl':
        return Cylinder(g[1], g[2], transform=translate(0, 0, -g[2] / 2))
    raise ValueError(g)


def line_of(l):
    return Line(ELEMS[l[0]], l[1], tuple(l[2]))


def plasma_model(m):
    k = m[0]
    if k == 'exc':
        return ExcitationLine(line_of(m[1]))
    if k == 'rec':
        return RecombinationLine(line_of(m[1]))
    if k == 'tcx':
        return ThermalCXLine(line_of(m[1]))
    if k == 'brems':
        return Bremsstrahlung()
    if k == 'trp':
        return TotalRadiatedPower(ELEMS[m[1]], m[2])
    raise ValueError(m)


def beam_model(m):
    k = m[0]
    if k == 'bcx':
        return BeamCXLine(line_of(m[1]))
    if k == 'bem':
        return BeamEmissionLine(line_of(m[1]), sigma_to_pi=0.56, sigma1_to_sigma0=0.7060001671878492,
                                pi2_to_pi3=0.3140003593919741, pi4_to_pi3=0.7279994935840365)
    raise ValueError(m)


def attenuator(a):
    return SingleRayAttenuator(step=a['step'], clamp_to_zero=a['clamp_to_zero'], clamp_sigma=a['clamp_sigma'])


def laser_profile(p):
    if p[0] == 'uniform':
        return UniformEnergyDensity(energy_density=p[1], laser_length=p[2], laser_radius=p[3])
    if p[0] == 'cbg':
        return ConstantBivariateGaussian(pulse_energy=p[1], pulse_length=p[2], laser_radius=p[3], laser_length=p[4],
                                         stddev_x=p[5], stddev_y=p[6])
    raise ValueError(p)


def laser_spectrum(s):
    if s[0] == 'const':
        return ConstantSpectrum(s[1], s[2], s[3])
    if s[0] == 'gauss':
        return GaussianSpectrum(s[1], s[2], s[3], s[4], s[5])
    raise ValueError(s)


# ---- live scene ----------------------------------------------------------------------------------------------------
class Live:
    pass


def parent_of(L, name):
    """scene-graph parents a beam / laser may be given: the two plain nodes, the plasma node itself, the beam node"""
    return {'mid': L.mid, 'alt': L.alt, 'plasma': L.plasma, 'beam': getattr(L, 'beam', None)}[name]


def build(cfg):
    """construct the scene from scratch in one fixed canonical order"""
    L = Live()
    L.world = World()
    L.data = {t: MockData(t) for t in ('A', 'B')}
    L.mid = Node(parent=L.world, transform=mat(cfg['mid_transform']))          # an ancestor of plasma, beam, laser
    L.alt = Node(parent=L.world, transform=mat(cfg['alt_transform']))          # alternative parent
    pc = cfg['plasma']
    L.plasma = p = Plasma(parent=L.mid if pc['parent'] == 'mid' else L.alt, transform=mat(pc['transform']))
    p.b_field = Vector3D(*pc['b_field'])
    p.electron_distribution = distribution(pc['electrons'], ELECTRON_REST_MASS)
    p.composition = species_list(pc['composition'])
    p.atomic_data = L.data[pc['atomic_data']]
    p.geometry = geometry(pc['geometry'])
    p.geometry_transform = mat(pc['geometry_transform']) if pc['geometry_transform'] not in (None, 'none') else None
    p.integrator = NumericalIntegrator(step=pc['integrator_step'])
    p.models = [plasma_model(m) for m in pc['models']]
    qc = cfg.get('plasma2')
    L.plasma2 = None
    if qc:                                                                      # a second plasma, clear of the first one
        L.plasma2 = q = Plasma(parent=L.mid, transform=mat(qc['transform']))
        q.b_field = Vector3D(*qc['b_field'])
        q.electron_distribution = distribution(qc['electrons'], ELECTRON_REST_MASS)
        q.composition = species_list(qc['composition'])
        q.atomic_data = L.data[qc['atomic_data']]
        q.geometry = geometry(qc['geometry'])
        q.integrator = NumericalIntegrator(step=qc['integrator_step'])
        q.models = [plasma_model(m) for m in qc['models']]
    bc = cfg.get('beam')
    L.beam = None
    if bc:
        L.beam = b = Beam(parent=parent_of(L, bc['parent']), transform=mat(bc['transform']))
        b.plasma = L.plasma2 if bc.get('plasma') == 'q' else p
        b.atomic_data = L.data[bc['atomic_data']]
        b.energy = bc['energy']
        b.power = bc['power']
        b.temperature = bc['temperature']
        b.element = ELEMS[bc['element']]
        b.sigma = bc['sigma']
        b.divergence_x = bc['divergence_x']
        b.divergence_y = bc['divergence_y']
        b.length = bc['length']
        b.attenuator = attenuator(bc['attenuator'])
        b.integrator = NumericalIntegrator(step=bc['integrator_step'])
        b.models = [beam_model(m) for m in bc['models']]
    # persistent objects a history can detach and later re-attach (the SAME object comes back)
    L.pm_pool = [plasma_model(m) for m in cfg.get('pm_pool', [])]
    L.bm_pool = [beam_model(m) for m in cfg.get('bm_pool', [])]
    L.att_pool = [attenuator(a) for a in (bc or {}).get('att_pool', [])]
    if bc and bc.get('att_ref') is not None:
        L.beam.attenuator = L.att_pool[bc['att_ref']]
    lc = cfg.get('laser')
    L.laser = None
    if lc:
        L.laser = l = Laser(parent=parent_of(L, lc['parent']), transform=mat(lc['transform']))
        l.integrator = NumericalIntegrator(step=lc['integrator_step'])
        l.plasma = L.plasma2 if lc.get('plasma') == 'q' else p
        l.importance = lc['importance']
        l.laser_spectrum = laser_spectrum(lc['spectrum'])
        l.laser_profile = laser_profile(lc['profile'])
        l.models = [SeldenMatobaThomsonSpectrum() for _ in range(lc['models'])]
    return L


SIGHTS = [((-3.0, 0.02, 0.11), (1.0, 0.0, 0.0)), ((0.13, -3.0, 0.3), (0.0, 1.0, 0.02)), ((0.4, 0.35, 3.0), (-0.05, -0.04, -1.0)),
          ((-2.0, -2.0, 0.6), (1.0, 1.0, -0.1)),
          ((-3.0, 0.2, -0.3), (1.0, 0.0, 0.0))]          # crosses the laser axis (Thomson scattering is observed on it)
DENS_PTS = [(0.0, 0.0, 0.3), (0.02, -0.01, 0.9), (0.05, 0.04, 1.7), (0.0, 0.0, 2.6), (-0.03, 0.02, 3.4), (0.3, 0.0, 1.0)]


def observe(L, wl=(480.0, 560.0, 16), order=None):
    """('ok', [floats]) or (exception kind, message) -- everything the property calls observable.
    `order` permutes the order in which the sight lines are traced (the result is reported in canonical order):
    per-sight-line spectra must not depend on what was evaluated before."""
    from harness.vlib.util import exc_kind
    out = []
    try:
        spectra = {}
        for i in (order or range(len(SIGHTS))):
            o, d = SIGHTS[i]
            ray = Ray(origin=Point3D(*o), direction=Vector3D(*d).normalise(), min_wavelength=wl[0], max_wavelength=wl[1],
                      bins=wl[2])
            spectra[i] = [float(v) for v in ray.trace(L.world).samples]
        for i in range(len(SIGHTS)):
            out.extend(spectra[i])
        if L.beam is not None:
            for pt in DENS_PTS:
                out.append(float(L.beam.density(*pt)))
            d = L.beam.direction(0.05, -0.03, 1.3)
            out.extend([d.x, d.y, d.z])
            g = [c for c in L.beam.children if hasattr(c, 'bounding_box')]     # (a laser may be parented to the beam)
            out.append(float(len(g)))
            for c in g:
                bb = c.bounding_box()
                out.extend([bb.lower.x, bb.lower.y, bb.lower.z, bb.upper.x, bb.upper.y, bb.upper.z])
        out.append(float(L.plasma.ion_density(0.1, 0.2, 0.3)))
        if getattr(L, 'plasma2', None) is not None:
            out.append(float(L.plasma2.ion_density(0.1, 0.2, 0.3)))
            out.append(float(L.plasma2.electron_distribution.density(0.1, 0.2, 0.3)))
        try:
            out.append(float(L.plasma.z_effective(0.1, 0.2, 0.3)))
        except ValueError:
            out.append(-1.0)
    except Exception as e:  # noqa
        return exc_kind(e), str(e)[:200]
    return 'ok', out
