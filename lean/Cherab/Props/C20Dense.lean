import Cherab.Props.C20
import Cherab.Lemmas.AdmtDense

/-!
# C20, round 6 — the dense assembly of the operators, and other orderings of the same grid

* `Model/AdmtDense.lean: denseRun` is what the loop body of `generate_derivative_operators` does to the `np.zeros`
  rows: every `D[ith_cell, n_p] = coef` stores into column `n_p`, a later store into the same column wins, a store
  through a failed lookup is `IndexError`.  All theorems of `Props/C20.lean` are about `rawEntry`/`opEntry`, which read
  the entry off a *position*-keyed table as a sum.  `dense_assembly_last_write_wins` closes that gap for **every**
  assignment program, every pair of mutually inverse index maps (any subset of the mesh in any order — masked,
  row-major, shuffled) and every cell: the two executions raise together and give the same row.
* `operator_relabel`: describing the same cells in another 1-D order (`σ` = the renumbering) gives the operator with
  rows and columns renumbered, `D'[σ i, σ j] = D[i, j]` (and 0 outside the image), i.e. `P·D·Pᵀ`.
-/
namespace Cherab.Props.C20
set_option linter.unusedSectionVars false
set_option linter.unusedVariables false
open Cherab.Admt Cherab.Gen.Admt

variable {α : Type} [Field α]

/-- **last write wins = sum over the positions of a column.**  For every assignment program `prog` (in particular the
generated one), every list of cells, and the cell `c` stored at 1-D index `i` (`grid_index_2d_to_1d_map[c] = i`): the
dense execution raises `IndexError` iff the position-keyed one does, and otherwise every entry of the five dense rows is
the `rawEntry` of the table. -/
theorem dense_assembly_last_write_wins (prog : List Asg) (cells : List (Int × Int)) (c : Int × Int) (i : Nat)
    (hi : lookup cells c.1 c.2 = some i) :
    (denseRun prog cells c i).isSome = (runProgram prog (hasOf cells c)).isSome ∧
    ∀ d t, denseRun prog cells c i = some d → runProgram prog (hasOf cells c) = some t →
      ∀ (op : Op5) (j : Nat), (d.val op j : α) = rawEntry cells c t op j := by
  have h0 : DenseInv cells c DenseRows.empty Table.empty :=
    ⟨fun _ _ _ _ => rfl, fun _ _ _ => rfl⟩
  have h := foldlM_rel cells c i hi prog _ _ h0
  unfold denseRun runProgram
  cases h1 : prog.foldlM (stepDense cells c i) DenseRows.empty with
  | none =>
    cases h2 : prog.foldlM (stepAsg (hasOf cells c)) Table.empty with
    | none => exact ⟨rfl, fun d t hd => by cases hd⟩
    | some t => rw [h1, h2] at h; exact h.elim
  | some d =>
    cases h2 : prog.foldlM (stepAsg (hasOf cells c)) Table.empty with
    | none => rw [h1, h2] at h; exact h.elim
    | some t =>
      rw [h1, h2] at h
      refine ⟨rfl, ?_⟩
      intro d' t' hd ht op j
      cases hd; cases ht
      by_cases hex : ∃ p, neighbour cells c p = some j
      · obtain ⟨p, hp⟩ := hex
        rw [rawEntry_of_col cells c t op j p hp]
        unfold DenseRows.val Table.val
        rw [h.1 op p j hp]
        rfl
      · have hall : ∀ p, neighbour cells c p ≠ some j := fun p hp => hex ⟨p, hp⟩
        rw [rawEntry_of_no_col cells c t op j hall]
        unfold DenseRows.val
        rw [h.2 op j hall]

/-- the generated program, after the post-loop scaling: the dense operator entry is `opEntry` -/
theorem dense_operator_eq_opEntry (cells : List (Int × Int)) (c : Int × Int) (i : Nat)
    (hi : lookup cells c.1 c.2 = some i) :
    (denseRun program cells c i).isSome = (rowTable cells c).isSome ∧
    ∀ d t, denseRun program cells c i = some d → rowTable cells c = some t →
      ∀ (op : Op5) (dx dy : α) (j : Nat), denseEntry dx dy d op j = opEntry cells dx dy c t op j := by
  obtain ⟨h1, h2⟩ := dense_assembly_last_write_wins (α := α) program cells c i hi
  refine ⟨h1, ?_⟩
  intro d t hd ht op dx dy j
  unfold denseEntry opEntry
  rw [h2 d t hd ht op j]

theorem lookup_full_self (nx ny k : Nat) (hk : k < nx * ny) :
    lookup (fullCells nx ny) (cellOf ny k).1 (cellOf ny k).2 = some k := by
  obtain ⟨hx, hy⟩ := cell_bounds hk
  rw [lookup_full]
  unfold cellOf
  have hc : (0 : Int) ≤ ((k / ny : Nat) : Int) ∧ ((k / ny : Nat) : Int) < nx ∧
      (0 : Int) ≤ ((k % ny : Nat) : Int) ∧ ((k % ny : Nat) : Int) < ny :=
    ⟨by positivity, by exact_mod_cast hx, by positivity, by exact_mod_cast hy⟩
  rw [if_pos hc]
  simp only [Int.toNat_natCast]
  congr 1
  rw [Nat.mul_comm]
  exact Nat.div_add_mod k ny

/-- **every generated grid `n_x, n_y ≥ 2`**: the dense assembly of row `k` never raises, and `D[op] @ v` computed from
the dense row is the `opTimes` all exactness theorems are about. -/
theorem dense_full_grid [LinearOrder α] [IsStrictOrderedRing α] (nx ny k : Nat) (h2x : 2 ≤ nx) (h2y : 2 ≤ ny) (hk : k < nx * ny) :
    ∃ d, denseRun program (fullCells nx ny) (cellOf ny k) k = some d ∧
      ∀ (op : Op5) (dx dy : α) (v : Nat → α),
        opTimes nx ny dx dy op v k = some (dotN (nx * ny) (denseEntry dx dy d op) v) := by
  have hi := lookup_full_self nx ny k hk
  obtain ⟨h1, h2⟩ := dense_operator_eq_opEntry (α := α) (fullCells nx ny) (cellOf ny k) k hi
  have htot := ops_total (α := α) nx ny k h2x h2y hk .Dx 1 1 (fun _ => 0)
  unfold opTimes at htot
  cases ht : rowTable (fullCells nx ny) (cellOf ny k) with
  | none => rw [ht] at htot; simp at htot
  | some t =>
    rw [ht] at h1
    cases hd : denseRun program (fullCells nx ny) (cellOf ny k) k with
    | none => rw [hd] at h1; simp at h1
    | some d =>
      refine ⟨d, rfl, ?_⟩
      intro op dx dy v
      unfold opTimes
      rw [ht, Option.map_some]
      congr 2
      funext j
      exact (h2 d t hd ht op dx dy j).symm

/-- non-vacuity / the difference is real: a program that writes the same column twice keeps the last value in the dense
form (here 2 and then 5 into the diagonal: 5), and `rawEntry` agrees because the table, too, was overwritten -/
example : (denseRun [⟨[], .Dx, .self, 2, 1, 0⟩, ⟨[], .Dx, .self, 5, 1, 0⟩] [(0, 0)] (0, 0) 0).map
    (fun d => d .Dx 0) = some (some ⟨5, 1⟩) := by decide

/-- a masked, shuffled three-cell mesh: the hypothesis holds for each of its cells, and the corner cell raises in
both forms (it has no vertical neighbour) -/
example : lookup [(1, 0), (0, 0), (2, 0)] 0 0 = some 1 ∧
    (denseRun program [(1, 0), (0, 0), (2, 0)] (0, 0) 1).isSome = false ∧
    (rowTable [(1, 0), (0, 0), (2, 0)] (0, 0)).isSome = false := by decide

/-! ### another 1-D order of the same cells -/

/-- **`P·D·Pᵀ`.**  Let `cells'` describe the same cells as `cells` with the 1-D indices renumbered by an injective `σ`
(`grid_index_2d_to_1d_map' = σ ∘ grid_index_2d_to_1d_map`).  Then every cell has the same row table (so it raises or
not alike), `D'[·, σ j] = D[·, j]` in the row of that cell, and the columns outside the image of `σ` are zero. -/
theorem operator_relabel (cells cells' : List (Int × Int)) (σ : Nat → Nat) (hσ : Function.Injective σ)
    (hmap : ∀ jx jy, lookup cells' jx jy = (lookup cells jx jy).map σ) (c : Int × Int) :
    rowTable cells' c = rowTable cells c ∧
    ∀ (t : Table) (op : Op5) (dx dy : α),
      (∀ j, opEntry cells' dx dy c t op (σ j) = opEntry cells dx dy c t op j) ∧
      (∀ j', (∀ j, j' ≠ σ j) → opEntry cells' dx dy c t op j' = 0) := by
  have hn : ∀ p, neighbour cells' c p = (neighbour cells c p).map σ := fun p => hmap _ _
  refine ⟨?_, ?_⟩
  · unfold rowTable
    congr 1
    funext p
    simp [hasOf, hn p]
  · intro t op dx dy
    refine ⟨?_, ?_⟩
    · intro j
      unfold opEntry rawEntry
      congr 2
      funext s p
      rw [hn p]
      cases h : neighbour cells c p with
      | none => simp
      | some m =>
        by_cases e : m = j
        · subst e; simp
        · have : σ m ≠ σ j := fun x => e (hσ x)
          simp [e, this]
    · intro j' hj'
      unfold opEntry
      rw [rawEntry_of_no_col, zero_div]
      intro p hp
      rw [hn p] at hp
      cases h : neighbour cells c p with
      | none => rw [h] at hp; simp at hp
      | some m => rw [h] at hp; simp at hp; exact hj' m hp.symm

/-- non-vacuity: the row-major listing of the 2 × 2 grid is the column-major one renumbered by the swap of 1 and 2 -/
example : ∀ jx ∈ [(-1 : Int), 0, 1, 2], ∀ jy ∈ [(-1 : Int), 0, 1, 2],
    lookup [(0, 0), (1, 0), (0, 1), (1, 1)] jx jy =
      (lookup (fullCells 2 2) jx jy).map (fun k => if k = 1 then 2 else if k = 2 then 1 else k) := by decide

end Cherab.Props.C20
