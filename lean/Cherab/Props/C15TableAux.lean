import Cherab.Model.Groups
import Cherab.Gen.GroupTable

/-!
# C15 — table obligations that tolerate an explicit list of open findings

`table_wf_partial`: every descriptor is admissible except those listed in `openExceptions`.  The list is written by
hand and mirrors the *open* C15 entries of `known_findings.json`; it is **empty** since finding #10 (DESIGN §6,
`@sensitivity.setter def names` in `SpectroscopicSightLineGroup`) was fixed in /repo (1f71919), so this module now
states the same as `Cherab.Props.C15Table.table_wf`, plus key uniqueness and class declarations.  Should a mis-wired
property be accepted as a known finding in the future, list its (class, attribute) pairs here: a *new* slip still breaks
the proof.
-/
namespace Cherab.Props.C15TableAux
open Cherab.Groups Cherab.Gen.GroupTable

/-- (class, attribute) pairs known to be mis-wired and accepted as open findings — none at present -/
def openExceptions : List (String × String) := []

theorem table_partial_all :
    table.all (fun d => d.admissible table || openExceptions.contains (d.cls, d.name)) = true := by decide +kernel

theorem table_wf_partial : ∀ d ∈ table, d.admissible table = true ∨ (d.cls, d.name) ∈ openExceptions := by
  intro d hd
  have h := List.all_eq_true.mp table_partial_all d hd
  rcases Bool.or_eq_true _ _ |>.mp h with h | h
  · exact Or.inl h
  · exact Or.inr (List.contains_iff_mem.mp h)

/-- all broadcast attributes outside the open exceptions satisfy the hypothesis of the generic laws -/
theorem table_broadcast_wf_partial : ∀ d ∈ table, (d.cls, d.name) ∉ openExceptions →
    d.name ∉ ["names", "pipelines", "targets", "observers", "sight_lines", "foil_detectors"] → d.wfBroadcast = true := by
  intro d hd hex hn
  rcases table_wf_partial d hd with h | h
  · simp only [List.mem_cons, List.not_mem_nil, or_false, not_or] at hn
    obtain ⟨h1, h2, h3, h4, h5, h6⟩ := hn
    simpa [Descriptor.admissible, h1, h2, h3, h4, h5, h6] using h
  · exact absurd h hex

/-- (class, attribute) keys are unique, so `findDesc` returns *the* descriptor -/
theorem table_lookup_total : table.all (fun d => findDesc table d.cls d.name == some d) = true := by decide +kernel

theorem table_lookup : ∀ d ∈ table, findDesc table d.cls d.name = some d := by
  intro d hd
  exact eq_of_beq (List.all_eq_true.mp table_lookup_total d hd)

/-- every descriptor belongs to a declared class; every class declares its member type and the error of its `add` method -/
theorem classes_declared :
    (table.all fun d => classes.any fun c => c.name == d.cls) = true ∧
    (classes.all fun c => !c.accepted.isEmpty && c.addErr != .other) = true := by decide

end Cherab.Props.C15TableAux
