import Cherab.Lemmas.CachingInterp

/-! C14 helper, part 5: a function affine in each of three coordinates satisfies all 64 constraint rows (split per knot to keep each proof small). -/
namespace Cherab.Caching
set_option linter.unusedSectionVars false
set_option linter.unusedSimpArgs false
variable {α : Type} [Field α] [LinearOrder α] [IsStrictOrderedRing α]

def ml3 (m : Nat → Nat → Nat → α) (x y z : α) : α :=
  m 0 0 0 + m 0 0 1 * z + m 0 1 0 * y + m 0 1 1 * y * z + m 1 0 0 * x + m 1 0 1 * x * z + m 1 1 0 * x * y
    + m 1 1 1 * x * y * z
def embed3 (m : Nat → Nat → Nat → α) (n : Nat) : α :=
  if n / 16 < 2 ∧ n / 4 % 4 < 2 ∧ n % 4 < 2 then m (n / 16) (n / 4 % 4) (n % 4) else 0

theorem ml3_knot0 (ax ay az : Axis α) (i' j' k' : Nat) (m : Nat → Nat → Nat → α)
    (hx0 : ax.xn (i' + 2) ≠ ax.xn i') (hx1 : ax.xn (i' + 3) ≠ ax.xn (i' + 1))
    (hy0 : ay.xn (j' + 2) ≠ ay.xn j') (hy1 : ay.xn (j' + 3) ≠ ay.xn (j' + 1))
    (hz0 : az.xn (k' + 2) ≠ az.xn k') (hz1 : az.xn (k' + 3) ≠ az.xn (k' + 1)) (l : Nat) (h1 : 0 ≤ l) (h2 : l < 8) :
    dot (row3 ax ay az (i' + 1, j' + 1, k' + 1) (fun a b c => ml3 m (ax.xn (i' + a)) (ay.xn (j' + b)) (az.xn (k' + c))) l).1 (embed3 m) =
      (row3 ax ay az (i' + 1, j' + 1, k' + 1) (fun a b c => ml3 m (ax.xn (i' + a)) (ay.xn (j' + b)) (az.xn (k' + c))) l).2 := by
  have e0 : ax.xn (i' + 2) - ax.xn i' ≠ 0 := sub_ne_zero.mpr hx0
  have e1 : ax.xn (i' + 3) - ax.xn (i' + 1) ≠ 0 := sub_ne_zero.mpr hx1
  have e2 : ay.xn (j' + 2) - ay.xn j' ≠ 0 := sub_ne_zero.mpr hy0
  have e3 : ay.xn (j' + 3) - ay.xn (j' + 1) ≠ 0 := sub_ne_zero.mpr hy1
  have e4 : az.xn (k' + 2) - az.xn k' ≠ 0 := sub_ne_zero.mpr hz0
  have e5 : az.xn (k' + 3) - az.xn (k' + 1) ≠ 0 := sub_ne_zero.mpr hz1
  interval_cases l <;> simp [row3, dot_constraints3d, sum4, comps, Nat.add_assoc, embed3, ml3] <;> field_simp <;> ring

theorem ml3_knot1 (ax ay az : Axis α) (i' j' k' : Nat) (m : Nat → Nat → Nat → α)
    (hx0 : ax.xn (i' + 2) ≠ ax.xn i') (hx1 : ax.xn (i' + 3) ≠ ax.xn (i' + 1))
    (hy0 : ay.xn (j' + 2) ≠ ay.xn j') (hy1 : ay.xn (j' + 3) ≠ ay.xn (j' + 1))
    (hz0 : az.xn (k' + 2) ≠ az.xn k') (hz1 : az.xn (k' + 3) ≠ az.xn (k' + 1)) (l : Nat) (h1 : 8 ≤ l) (h2 : l < 16) :
    dot (row3 ax ay az (i' + 1, j' + 1, k' + 1) (fun a b c => ml3 m (ax.xn (i' + a)) (ay.xn (j' + b)) (az.xn (k' + c))) l).1 (embed3 m) =
      (row3 ax ay az (i' + 1, j' + 1, k' + 1) (fun a b c => ml3 m (ax.xn (i' + a)) (ay.xn (j' + b)) (az.xn (k' + c))) l).2 := by
  have e0 : ax.xn (i' + 2) - ax.xn i' ≠ 0 := sub_ne_zero.mpr hx0
  have e1 : ax.xn (i' + 3) - ax.xn (i' + 1) ≠ 0 := sub_ne_zero.mpr hx1
  have e2 : ay.xn (j' + 2) - ay.xn j' ≠ 0 := sub_ne_zero.mpr hy0
  have e3 : ay.xn (j' + 3) - ay.xn (j' + 1) ≠ 0 := sub_ne_zero.mpr hy1
  have e4 : az.xn (k' + 2) - az.xn k' ≠ 0 := sub_ne_zero.mpr hz0
  have e5 : az.xn (k' + 3) - az.xn (k' + 1) ≠ 0 := sub_ne_zero.mpr hz1
  interval_cases l <;> simp [row3, dot_constraints3d, sum4, comps, Nat.add_assoc, embed3, ml3] <;> field_simp <;> ring

theorem ml3_knot2 (ax ay az : Axis α) (i' j' k' : Nat) (m : Nat → Nat → Nat → α)
    (hx0 : ax.xn (i' + 2) ≠ ax.xn i') (hx1 : ax.xn (i' + 3) ≠ ax.xn (i' + 1))
    (hy0 : ay.xn (j' + 2) ≠ ay.xn j') (hy1 : ay.xn (j' + 3) ≠ ay.xn (j' + 1))
    (hz0 : az.xn (k' + 2) ≠ az.xn k') (hz1 : az.xn (k' + 3) ≠ az.xn (k' + 1)) (l : Nat) (h1 : 16 ≤ l) (h2 : l < 24) :
    dot (row3 ax ay az (i' + 1, j' + 1, k' + 1) (fun a b c => ml3 m (ax.xn (i' + a)) (ay.xn (j' + b)) (az.xn (k' + c))) l).1 (embed3 m) =
      (row3 ax ay az (i' + 1, j' + 1, k' + 1) (fun a b c => ml3 m (ax.xn (i' + a)) (ay.xn (j' + b)) (az.xn (k' + c))) l).2 := by
  have e0 : ax.xn (i' + 2) - ax.xn i' ≠ 0 := sub_ne_zero.mpr hx0
  have e1 : ax.xn (i' + 3) - ax.xn (i' + 1) ≠ 0 := sub_ne_zero.mpr hx1
  have e2 : ay.xn (j' + 2) - ay.xn j' ≠ 0 := sub_ne_zero.mpr hy0
  have e3 : ay.xn (j' + 3) - ay.xn (j' + 1) ≠ 0 := sub_ne_zero.mpr hy1
  have e4 : az.xn (k' + 2) - az.xn k' ≠ 0 := sub_ne_zero.mpr hz0
  have e5 : az.xn (k' + 3) - az.xn (k' + 1) ≠ 0 := sub_ne_zero.mpr hz1
  interval_cases l <;> simp [row3, dot_constraints3d, sum4, comps, Nat.add_assoc, embed3, ml3] <;> field_simp <;> ring

theorem ml3_knot3 (ax ay az : Axis α) (i' j' k' : Nat) (m : Nat → Nat → Nat → α)
    (hx0 : ax.xn (i' + 2) ≠ ax.xn i') (hx1 : ax.xn (i' + 3) ≠ ax.xn (i' + 1))
    (hy0 : ay.xn (j' + 2) ≠ ay.xn j') (hy1 : ay.xn (j' + 3) ≠ ay.xn (j' + 1))
    (hz0 : az.xn (k' + 2) ≠ az.xn k') (hz1 : az.xn (k' + 3) ≠ az.xn (k' + 1)) (l : Nat) (h1 : 24 ≤ l) (h2 : l < 32) :
    dot (row3 ax ay az (i' + 1, j' + 1, k' + 1) (fun a b c => ml3 m (ax.xn (i' + a)) (ay.xn (j' + b)) (az.xn (k' + c))) l).1 (embed3 m) =
      (row3 ax ay az (i' + 1, j' + 1, k' + 1) (fun a b c => ml3 m (ax.xn (i' + a)) (ay.xn (j' + b)) (az.xn (k' + c))) l).2 := by
  have e0 : ax.xn (i' + 2) - ax.xn i' ≠ 0 := sub_ne_zero.mpr hx0
  have e1 : ax.xn (i' + 3) - ax.xn (i' + 1) ≠ 0 := sub_ne_zero.mpr hx1
  have e2 : ay.xn (j' + 2) - ay.xn j' ≠ 0 := sub_ne_zero.mpr hy0
  have e3 : ay.xn (j' + 3) - ay.xn (j' + 1) ≠ 0 := sub_ne_zero.mpr hy1
  have e4 : az.xn (k' + 2) - az.xn k' ≠ 0 := sub_ne_zero.mpr hz0
  have e5 : az.xn (k' + 3) - az.xn (k' + 1) ≠ 0 := sub_ne_zero.mpr hz1
  interval_cases l <;> simp [row3, dot_constraints3d, sum4, comps, Nat.add_assoc, embed3, ml3] <;> field_simp <;> ring

theorem ml3_knot4 (ax ay az : Axis α) (i' j' k' : Nat) (m : Nat → Nat → Nat → α)
    (hx0 : ax.xn (i' + 2) ≠ ax.xn i') (hx1 : ax.xn (i' + 3) ≠ ax.xn (i' + 1))
    (hy0 : ay.xn (j' + 2) ≠ ay.xn j') (hy1 : ay.xn (j' + 3) ≠ ay.xn (j' + 1))
    (hz0 : az.xn (k' + 2) ≠ az.xn k') (hz1 : az.xn (k' + 3) ≠ az.xn (k' + 1)) (l : Nat) (h1 : 32 ≤ l) (h2 : l < 40) :
    dot (row3 ax ay az (i' + 1, j' + 1, k' + 1) (fun a b c => ml3 m (ax.xn (i' + a)) (ay.xn (j' + b)) (az.xn (k' + c))) l).1 (embed3 m) =
      (row3 ax ay az (i' + 1, j' + 1, k' + 1) (fun a b c => ml3 m (ax.xn (i' + a)) (ay.xn (j' + b)) (az.xn (k' + c))) l).2 := by
  have e0 : ax.xn (i' + 2) - ax.xn i' ≠ 0 := sub_ne_zero.mpr hx0
  have e1 : ax.xn (i' + 3) - ax.xn (i' + 1) ≠ 0 := sub_ne_zero.mpr hx1
  have e2 : ay.xn (j' + 2) - ay.xn j' ≠ 0 := sub_ne_zero.mpr hy0
  have e3 : ay.xn (j' + 3) - ay.xn (j' + 1) ≠ 0 := sub_ne_zero.mpr hy1
  have e4 : az.xn (k' + 2) - az.xn k' ≠ 0 := sub_ne_zero.mpr hz0
  have e5 : az.xn (k' + 3) - az.xn (k' + 1) ≠ 0 := sub_ne_zero.mpr hz1
  interval_cases l <;> simp [row3, dot_constraints3d, sum4, comps, Nat.add_assoc, embed3, ml3] <;> field_simp <;> ring

theorem ml3_knot5 (ax ay az : Axis α) (i' j' k' : Nat) (m : Nat → Nat → Nat → α)
    (hx0 : ax.xn (i' + 2) ≠ ax.xn i') (hx1 : ax.xn (i' + 3) ≠ ax.xn (i' + 1))
    (hy0 : ay.xn (j' + 2) ≠ ay.xn j') (hy1 : ay.xn (j' + 3) ≠ ay.xn (j' + 1))
    (hz0 : az.xn (k' + 2) ≠ az.xn k') (hz1 : az.xn (k' + 3) ≠ az.xn (k' + 1)) (l : Nat) (h1 : 40 ≤ l) (h2 : l < 48) :
    dot (row3 ax ay az (i' + 1, j' + 1, k' + 1) (fun a b c => ml3 m (ax.xn (i' + a)) (ay.xn (j' + b)) (az.xn (k' + c))) l).1 (embed3 m) =
      (row3 ax ay az (i' + 1, j' + 1, k' + 1) (fun a b c => ml3 m (ax.xn (i' + a)) (ay.xn (j' + b)) (az.xn (k' + c))) l).2 := by
  have e0 : ax.xn (i' + 2) - ax.xn i' ≠ 0 := sub_ne_zero.mpr hx0
  have e1 : ax.xn (i' + 3) - ax.xn (i' + 1) ≠ 0 := sub_ne_zero.mpr hx1
  have e2 : ay.xn (j' + 2) - ay.xn j' ≠ 0 := sub_ne_zero.mpr hy0
  have e3 : ay.xn (j' + 3) - ay.xn (j' + 1) ≠ 0 := sub_ne_zero.mpr hy1
  have e4 : az.xn (k' + 2) - az.xn k' ≠ 0 := sub_ne_zero.mpr hz0
  have e5 : az.xn (k' + 3) - az.xn (k' + 1) ≠ 0 := sub_ne_zero.mpr hz1
  interval_cases l <;> simp [row3, dot_constraints3d, sum4, comps, Nat.add_assoc, embed3, ml3] <;> field_simp <;> ring

theorem ml3_knot6 (ax ay az : Axis α) (i' j' k' : Nat) (m : Nat → Nat → Nat → α)
    (hx0 : ax.xn (i' + 2) ≠ ax.xn i') (hx1 : ax.xn (i' + 3) ≠ ax.xn (i' + 1))
    (hy0 : ay.xn (j' + 2) ≠ ay.xn j') (hy1 : ay.xn (j' + 3) ≠ ay.xn (j' + 1))
    (hz0 : az.xn (k' + 2) ≠ az.xn k') (hz1 : az.xn (k' + 3) ≠ az.xn (k' + 1)) (l : Nat) (h1 : 48 ≤ l) (h2 : l < 56) :
    dot (row3 ax ay az (i' + 1, j' + 1, k' + 1) (fun a b c => ml3 m (ax.xn (i' + a)) (ay.xn (j' + b)) (az.xn (k' + c))) l).1 (embed3 m) =
      (row3 ax ay az (i' + 1, j' + 1, k' + 1) (fun a b c => ml3 m (ax.xn (i' + a)) (ay.xn (j' + b)) (az.xn (k' + c))) l).2 := by
  have e0 : ax.xn (i' + 2) - ax.xn i' ≠ 0 := sub_ne_zero.mpr hx0
  have e1 : ax.xn (i' + 3) - ax.xn (i' + 1) ≠ 0 := sub_ne_zero.mpr hx1
  have e2 : ay.xn (j' + 2) - ay.xn j' ≠ 0 := sub_ne_zero.mpr hy0
  have e3 : ay.xn (j' + 3) - ay.xn (j' + 1) ≠ 0 := sub_ne_zero.mpr hy1
  have e4 : az.xn (k' + 2) - az.xn k' ≠ 0 := sub_ne_zero.mpr hz0
  have e5 : az.xn (k' + 3) - az.xn (k' + 1) ≠ 0 := sub_ne_zero.mpr hz1
  interval_cases l <;> simp [row3, dot_constraints3d, sum4, comps, Nat.add_assoc, embed3, ml3] <;> field_simp <;> ring

theorem ml3_knot7 (ax ay az : Axis α) (i' j' k' : Nat) (m : Nat → Nat → Nat → α)
    (hx0 : ax.xn (i' + 2) ≠ ax.xn i') (hx1 : ax.xn (i' + 3) ≠ ax.xn (i' + 1))
    (hy0 : ay.xn (j' + 2) ≠ ay.xn j') (hy1 : ay.xn (j' + 3) ≠ ay.xn (j' + 1))
    (hz0 : az.xn (k' + 2) ≠ az.xn k') (hz1 : az.xn (k' + 3) ≠ az.xn (k' + 1)) (l : Nat) (h1 : 56 ≤ l) (h2 : l < 64) :
    dot (row3 ax ay az (i' + 1, j' + 1, k' + 1) (fun a b c => ml3 m (ax.xn (i' + a)) (ay.xn (j' + b)) (az.xn (k' + c))) l).1 (embed3 m) =
      (row3 ax ay az (i' + 1, j' + 1, k' + 1) (fun a b c => ml3 m (ax.xn (i' + a)) (ay.xn (j' + b)) (az.xn (k' + c))) l).2 := by
  have e0 : ax.xn (i' + 2) - ax.xn i' ≠ 0 := sub_ne_zero.mpr hx0
  have e1 : ax.xn (i' + 3) - ax.xn (i' + 1) ≠ 0 := sub_ne_zero.mpr hx1
  have e2 : ay.xn (j' + 2) - ay.xn j' ≠ 0 := sub_ne_zero.mpr hy0
  have e3 : ay.xn (j' + 3) - ay.xn (j' + 1) ≠ 0 := sub_ne_zero.mpr hy1
  have e4 : az.xn (k' + 2) - az.xn k' ≠ 0 := sub_ne_zero.mpr hz0
  have e5 : az.xn (k' + 3) - az.xn (k' + 1) ≠ 0 := sub_ne_zero.mpr hz1
  interval_cases l <;> simp [row3, dot_constraints3d, sum4, comps, Nat.add_assoc, embed3, ml3] <;> field_simp <;> ring

theorem multilinear_solves3 (ax ay az : Axis α) (i' j' k' : Nat) (m : Nat → Nat → Nat → α)
    (hx0 : ax.xn (i' + 2) ≠ ax.xn i') (hx1 : ax.xn (i' + 3) ≠ ax.xn (i' + 1))
    (hy0 : ay.xn (j' + 2) ≠ ay.xn j') (hy1 : ay.xn (j' + 3) ≠ ay.xn (j' + 1))
    (hz0 : az.xn (k' + 2) ≠ az.xn k') (hz1 : az.xn (k' + 3) ≠ az.xn (k' + 1)) :
    IsSol3 ax ay az (i' + 1, j' + 1, k' + 1) (fun a b c => ml3 m (ax.xn (i' + a)) (ay.xn (j' + b)) (az.xn (k' + c))) (embed3 m) := by
  intro l hl
  rcases Nat.lt_or_ge l 32 with a | a
  · rcases Nat.lt_or_ge l 16 with b | b
    · rcases Nat.lt_or_ge l 8 with c | c
      · exact ml3_knot0 ax ay az i' j' k' m hx0 hx1 hy0 hy1 hz0 hz1 l (by omega) c
      · exact ml3_knot1 ax ay az i' j' k' m hx0 hx1 hy0 hy1 hz0 hz1 l c b
    · rcases Nat.lt_or_ge l 24 with c | c
      · exact ml3_knot2 ax ay az i' j' k' m hx0 hx1 hy0 hy1 hz0 hz1 l b c
      · exact ml3_knot3 ax ay az i' j' k' m hx0 hx1 hy0 hy1 hz0 hz1 l c a
  · rcases Nat.lt_or_ge l 48 with b | b
    · rcases Nat.lt_or_ge l 40 with c | c
      · exact ml3_knot4 ax ay az i' j' k' m hx0 hx1 hy0 hy1 hz0 hz1 l a c
      · exact ml3_knot5 ax ay az i' j' k' m hx0 hx1 hy0 hy1 hz0 hz1 l c b
    · rcases Nat.lt_or_ge l 56 with c | c
      · exact ml3_knot6 ax ay az i' j' k' m hx0 hx1 hy0 hy1 hz0 hz1 l b c
      · exact ml3_knot7 ax ay az i' j' k' m hx0 hx1 hy0 hy1 hz0 hz1 l c hl
end Cherab.Caching
