/-!
# The data cache of the two beam models as a state machine

Transcribes the caching protocol of `BeamCXLine` (charge_exchange.pyx:127-129, 294-374) and `BeamEmissionLine`
(beam_emission.pyx:107-109, 178-223):

* `emission` tests one *guard* attribute (`_target_species is None` / `_rates_list is None`); when it is `None` it runs
  `_populate_cache`, then reads the cached attributes;
* `_populate_cache` is a sequence of attribute assignments whose right-hand sides are derived from the current
  configuration (line, beam, plasma composition, atomic data, line-shape class) through calls that may raise
  (`composition.get`, `AtomicData.wavelength / beam_cx_pec / beam_population_rate / beam_emission_pec`, the line-shape
  constructor): a failure after `k` statements leaves the first `k` assignments in place;
* `_change` (every setter, every notification of beam / plasma) resets a fixed set of attributes to `None`.

A slot records *which configuration* its content was derived from, so "stale" and "half-filled" are visible.
Mathlib-free and executable (driver op `cache`).
-/
namespace Cherab.BeamCache

/-- the cached attributes: `guard` = `_target_species` (CX only), `data` = `_excited_beam_data` / `_rates_list`,
`ground` = `_ground_beam_rate` (CX only) -/
inductive Field | guard | wavelength | ground | data | lineshape
  deriving DecidableEq, Repr

/-- `empty` = `None` (or `0.0` for the wavelength); `partly v` = a list created as `[]` under configuration `v` whose filling
loop has not finished; `full v` = the value derived from configuration `v` -/
inductive Slot | empty | partly (v : Nat) | full (v : Nat)
  deriving DecidableEq, Repr

/-- one statement of `_populate_cache` that writes an attribute of `self` -/
inductive Stmt
  | assign (f : Field)      -- `self._f = <derived from the current configuration>` (or: the loop filling `self._f` has finished)
  | init (f : Field)        -- `self._f = []`, filled by the loop that follows
  deriving DecidableEq, Repr

structure Model where
  cfg : Nat
  cache : Field → Slot

/-- a model object right after construction / `_change` in configuration `c` -/
def fresh (c : Nat) : Model := ⟨c, fun _ => .empty⟩

def Model.set (m : Model) (f : Field) (s : Slot) : Model := { m with cache := fun g => if g = f then s else m.cache g }

def exec (m : Model) : Stmt → Model
  | .assign f => m.set f (.full m.cfg)
  | .init f => m.set f (.partly m.cfg)

def runStmts (m : Model) (l : List Stmt) : Model := l.foldl exec m

/-- the caching protocol of one class: the attribute `emission` tests, the writes of `_populate_cache` in source order,
the attributes `_change` resets, the attributes `emission` reads after the test -/
structure Design where
  guard : Field
  order : List Stmt
  resets : List Field
  reads : List Field
  deriving DecidableEq, Repr

/-- charge_exchange.pyx on the unchanged tree: `_target_species` is written first (line 322), `_lineshape` last (365) and
is not reset by `_change` (368-374).  The position of `_ground_beam_rate` inside the loop depends on the provider's order. -/
def cxHead : Design :=
  ⟨.guard, [.assign .guard, .assign .wavelength, .init .data, .assign .ground, .assign .data, .assign .lineshape],
   [.guard, .wavelength, .ground, .data], [.guard, .ground, .data, .lineshape]⟩

/-- beam_emission.pyx on the unchanged tree: the guard `_rates_list` is created as `[]` (line 209) and filled by the loop -/
def besHead : Design :=
  ⟨.data, [.assign .wavelength, .init .data, .assign .data, .assign .lineshape],
   [.wavelength, .data, .lineshape], [.data, .lineshape]⟩

/-- notes/fixes/C05-r6-1.diff: the receiver is kept in a local and `self._target_species` is assigned last -/
def cxFixed : Design :=
  ⟨.guard, [.assign .wavelength, .init .data, .assign .ground, .assign .data, .assign .lineshape, .assign .guard],
   [.guard, .wavelength, .ground, .data], [.guard, .ground, .data, .lineshape]⟩

/-- notes/fixes/C05-r6-1.diff: the list is built in a local and `self._rates_list` is assigned last -/
def besFixed : Design :=
  ⟨.data, [.assign .wavelength, .assign .lineshape, .assign .data],
   [.wavelength, .data, .lineshape], [.data, .lineshape]⟩

/-- `_change` after the configuration became `c` -/
def change (d : Design) (c : Nat) (m : Model) : Model :=
  ⟨c, fun f => if f ∈ d.resets then .empty else m.cache f⟩

/-- `_populate_cache`: `fail = some k` — the call between the `k`-th and the `k+1`-th write raises -/
def populate (d : Design) (fail : Option Nat) (m : Model) : Model × Bool :=
  match fail with
  | none => (runStmts m d.order, true)
  | some k => (runStmts m (d.order.take k), false)

inductive Obs
  | raised                    -- `_populate_cache` raised
  | broken                    -- an attribute that `emission` dereferences is `None` (segmentation fault / TypeError)
  | ok (vals : List Slot)     -- the provenance of every attribute the emission was computed from
  deriving DecidableEq, Repr

def read (d : Design) (m : Model) : Obs :=
  if d.reads.any (fun f => m.cache f == .empty) then .broken else .ok (d.reads.map m.cache)

/-- `emission`: populate when the guard is `None`, then compute from the cache -/
def emission (d : Design) (fail : Option Nat) (m : Model) : Model × Obs :=
  if m.cache d.guard = .empty then
    let r := populate d fail m
    if r.2 then (r.1, read d r.1) else (r.1, .raised)
  else (m, read d m)

/-- what a model constructed in configuration `c` emits on its first use with a working provider -/
def freshObs (d : Design) (c : Nat) : Obs := .ok (d.reads.map fun _ => .full c)

inductive Op
  | change (c : Nat)
  | emit (fail : Option Nat)
  deriving Repr

/-- a failure point is before one of the writes or before the line-shape constructor returns: `k < #writes` -/
def Op.valid (d : Design) : Op → Prop
  | .change _ => True
  | .emit none => True
  | .emit (some k) => k < d.order.length

def step (d : Design) (m : Model) : Op → Model × Option (Nat × Obs)
  | .change c => (change d c m, none)
  | .emit fail => let r := emission d fail m; (r.1, some (m.cfg, r.2))

/-- all observations of a history, each with the configuration it was made in -/
def run (d : Design) : Model → List Op → Model × List (Nat × Obs)
  | m, [] => (m, [])
  | m, op :: ops =>
      let r := step d m op
      let rest := run d r.1 ops
      (rest.1, (match r.2 with | some o => [o] | none => []) ++ rest.2)

end Cherab.BeamCache
