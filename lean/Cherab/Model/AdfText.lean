/-
C08, layer 1: the views of `Model/Adf.lean` for real text lines (`ℓ = String`, a line without its trailing newline),
transcribed from the column slices and regular expressions of cherab/openadas/parse/*.py, and the text rendering of the
abstract line kinds (the Fortran-style layout of the formats).  Not proved; tied to the code by the correspondence run
(the same text is parsed by the real `parse_adf*`), and internally: parsing the rendered text with these views must
agree with parsing the abstract lines with the canonical views.

Numeric tokens stay strings (`α = String`): a field that Python's `float()` would accept is returned trimmed, after
`replace('D','E')` where the code does that.
-/
import Cherab.Model.Adf
namespace Cherab.Adf.Text
open Cherab.Adf

abbrev Cs := List Char

def isWs (c : Char) : Bool := c == ' ' || c == '\t' || c == '\n' || c == '\r' || c == '\x0b' || c == '\x0c'
def isDig (c : Char) : Bool := c.isDigit

def skipWs (cs : Cs) : Cs := cs.dropWhile isWs
def trim (cs : Cs) : Cs := ((cs.dropWhile isWs).reverse.dropWhile isWs).reverse
def digits (cs : Cs) : Cs × Cs := (cs.takeWhile isDig, cs.dropWhile isDig)
def natOf (ds : Cs) : Nat := ds.foldl (fun n c => 10 * n + (c.toNat - '0'.toNat)) 0

/-- Python slice `s[a:b]` -/
def slice (s : Cs) (a b : Nat) : Cs := (s.drop a).take (b - a)

/-- Python `int(s)` for the non-negative decimal literals that occur here (surrounding blanks allowed) -/
def pyInt (cs : Cs) : Option Nat :=
  let t := trim cs
  let t := match t with | '+' :: r => r | _ => t
  if t ≠ [] ∧ t.all isDig then some (natOf t) else none

/-- would Python's `float()` accept this text (decimal / exponent notation; blanks around it allowed) -/
def isFloat (cs : Cs) : Bool :=
  let t := trim cs
  let t := match t with | '+' :: r => r | '-' :: r => r | _ => t
  let (ip, r) := digits t
  let (fp, r, _hasDot) := match r with
    | '.' :: r' => let (f, r'') := digits r'; (f, r'', true)
    | _ => ([], r, false)
  if ip = [] ∧ fp = [] then false else
    match r with
    | [] => true
    | e :: r' =>
      if e == 'e' || e == 'E' then
        let r' := match r' with | '+' :: x => x | '-' :: x => x | _ => r'
        r' ≠ [] ∧ r'.all isDig
      else false

def pyFloat (cs : Cs) : Option String :=
  if isFloat cs then some (String.ofList (trim cs)) else none

def replaceDE (cs : Cs) : Cs := cs.map fun c => if c == 'D' then 'E' else c

/-- `line[1+10k : 10(k+1)].replace('D','E')` -/
def fieldCs (s : String) (k : Nat) : Cs := replaceDE (slice s.toList (1 + 10 * k) (10 * (k + 1)))

/-- `line.split()` -/
def splitWs (cs : Cs) : List Cs :=
  let rec go : Cs → Cs → List Cs
    | [], cur => if cur = [] then [] else [cur.reverse]
    | c :: r, cur => if isWs c then (if cur = [] then go r [] else cur.reverse :: go r []) else go r (c :: cur)
  go cs []

def allSome {β : Type} : List (Option β) → Option (List β)
  | [] => some []
  | none :: _ => none
  | some x :: t => (allSome t).map (x :: ·)

/-- all whitespace-separated tokens of a line as numbers -/
def floatToks (s : String) : Option (List String) := allSome ((splitWs s.toList).map pyFloat)

def rj (w : Nat) (s : String) : String := String.ofList (List.replicate (w - s.length) ' ') ++ s
def lj (w : Nat) (s : String) : String := s ++ String.ofList (List.replicate (w - s.length) ' ')
def rjn (w : Nat) (n : Nat) : String := rj w (toString n)
/-- a token right-justified in a Fortran field of width `w` -/
def rjC (w : Nat) (cs : Cs) : Cs := List.replicate (w - cs.length) ' ' ++ cs

/-- a Fortran list write: the tokens in consecutive fields of width `w` -/
def fieldsLine (w : Nat) (toks : List Cs) : Cs := (toks.map (rjC w)).flatten

/-- the text of a data line (`8F10.5`, `6D10.2`, `8E9.2`, …) -/
def dataLine (w : Nat) (xs : List String) : String := String.ofList (fieldsLine w (xs.map String.toList))

def dashes (n : Nat) : String := String.ofList (List.replicate n '-')
def cat (l : List String) : String := l.foldl (· ++ ·) ""

/-! ## ADF21 / ADF22 -/

def lex2x : Lex2x String String where
  field := fun s k => pyFloat (fieldCs s k)
  zt := fun s => pyInt (slice s.toList 3 5)
  svref := fun s => pyFloat (slice s.toList 13 22)
  n1 := fun s => pyInt (slice s.toList 1 5)
  n2 := fun s => pyInt (slice s.toList 6 10)
  tref := fun s => pyFloat (slice s.toList 17 26)
  eref := fun s => pyFloat (slice s.toList 12 21)
  dref := fun s => pyFloat (slice s.toList 28 37)

def text2x : K2x String → String
  | .head zt svref spec =>
    "ZT=" ++ rjn 2 zt ++ "  SVREF=" ++ rj 9 svref ++ "  SPEC=" ++ lj 2 spec ++ "  DATE=01/01/99  CODE=ADAS310"
  | .hy => dashes 79
  | .dims neb ndt tref => " " ++ rjn 4 neb ++ " " ++ rjn 4 ndt ++ " /TREF=" ++ rj 9 tref
  | .tdims ntt eref dref => " " ++ rjn 4 ntt ++ " /EREF=" ++ rj 9 eref ++ " /NREF=" ++ rj 9 dref
  | .vals xs => dataLine 10 xs

/-! ## ADF12 -/

def lex12 : Lex12 String String where
  field := fun s k => pyFloat (fieldCs s k)
  ifield := fun s k => pyInt (fieldCs s k)
  count := fun s => pyInt (slice s.toList 3 5)
  trans := fun s => match pyInt (slice s.toList 38 40), pyInt (slice s.toList 41 43) with
    | some a, some b => some (a, b)
    | _, _ => none

def text12 : K12 String → String
  | .count n => rjn 5 n
  | .hdr up lo => lj 38 " C+6   + H(1S)     /RECVR=C+6 /N=" ++ rjn 2 up ++ "-" ++ rjn 2 lo ++ " /EMISSIVITY"
  | .vals xs => dataLine 10 xs
  | .ints xs => cat (xs.map (rjn 10))

/-! ## ADF11 -/

/-- `re.split(r"\s{2,}", ·)`: a run of two or more blanks separates, a single blank stays inside the part
(`fuel` ≥ length) -/
def split2Go : Nat → Cs → Cs → List Cs
  | 0, _, cur => [cur.reverse]
  | f + 1, cs, cur =>
    match cs with
    | [] => [cur.reverse]
    | c :: r =>
      if isWs c then
        let run := (c :: r).takeWhile isWs
        let rest := (c :: r).dropWhile isWs
        if run.length ≥ 2 then cur.reverse :: split2Go f rest [] else split2Go f r (c :: cur)
      else split2Go f r (c :: cur)

/-- `re.split(r"\s{2,}", s.strip())` -/
def splitBlank2 (s : String) : List Cs :=
  let t := trim s.toList
  split2Go (t.length + 1) t []

def stripSlash (cs : Cs) : Cs := ((cs.dropWhile (· == '/')).reverse.dropWhile (· == '/')).reverse

def startsDashes2 (cs : Cs) : Bool := match cs with | '-' :: '-' :: _ => true | _ => false

def startsWithCs (p cs : Cs) : Bool := p.isPrefixOf cs

/-- leftmost match of `Z1\s*=*\s*[0-9]+\s*`: the matched text -/
def findZ1 : Cs → Option Cs
  | [] => none
  | c :: r =>
    let here : Option Cs :=
      if c == 'Z' && r.head? == some '1' then
        let a := r.tail
        let ws1 := a.takeWhile isWs; let a := a.dropWhile isWs
        let eqs := a.takeWhile (· == '='); let a := a.dropWhile (· == '=')
        let ws2 := a.takeWhile isWs; let a := a.dropWhile isWs
        let ds := a.takeWhile isDig; let a := a.dropWhile isDig
        let ws3 := a.takeWhile isWs
        if ds = [] then none else some (['Z', '1'] ++ ws1 ++ eqs ++ ws2 ++ ds ++ ws3)
      else none
    match here with
    | some m => some m
    | none => findZ1 r

/-- `int(re.sub(r"Z1[\s*=]", "", z1_pos))` -/
def z1Value (m : Cs) : Option Nat :=
  let body := match m with
    | 'Z' :: '1' :: x :: r => if isWs x || x == '*' || x == '=' then r else m
    | _ => m
  pyInt body

def lex11 : Lex11 String String String where
  header := fun s =>
    match splitBlank2 s with
    | a :: b :: c :: d :: e :: nm :: _proj :: _ =>
      match pyInt a, pyInt b, pyInt c, pyInt d, pyInt e with
      | some z, some nNe, some nTe, some zmin, some zmax =>
        some { z := z, nNe := nNe, nTe := nTe, zmin := zmin, zmax := zmax,
               name := (String.ofList (stripSlash nm)).toLower }
      | _, _, _, _, _ => none
    | _ => none
  digit0 := fun s => match skipWs s.toList with
    | c :: r => isDig c || (Cherab.Gen.AdfLex.probeAcceptsMinus && c == '-' && (match r with | d :: _ => isDig d | [] => false))
    | [] => false
  dash := fun s => startsDashes2 (skipWs s.toList)
  cdash := fun s => startsDashes2 ((skipWs s.toList).dropWhile (· == 'C'))
  c1dash := fun s => match skipWs s.toList with | 'C' :: r => startsDashes2 r | _ => false
  c01dash := fun s => match skipWs s.toList with | 'C' :: r => startsDashes2 r | r => startsDashes2 r
  conly := fun s => skipWs s.toList == ['C']
  z1 := fun s => (findZ1 s.toList).map z1Value
  toks := floatToks

def text11 : K11 String String → String
  | .hdr h => rjn 5 h.z ++ rjn 5 h.nNe ++ rjn 5 h.nTe ++ rjn 5 h.zmin ++ rjn 5 h.zmax ++ "     /"
      ++ lj 19 h.name.toUpper ++ "/" ++ lj 20 "GCR PROJECT"
  | .dashes nC (some z) => String.ofList (List.replicate nC 'C') ++ dashes (20 - nC)
      ++ "/ IPRT= 1  / IGRD= 1  /--------/ Z1=" ++ rjn 2 z ++ "   / DATE= 17/01/97"
  | .dashes nC none => String.ofList (List.replicate nC 'C') ++ dashes (80 - nC)
  | .nums xs => dataLine 10 xs
  | .cOnly => "C"
  | .text => "C  EFFECTIVE COEFFICIENTS, GENERATED FOR TESTING; IGRD= 2 Z1 = X"

/-! ## ADF15 -/

def lowerCs (cs : Cs) : Cs := cs.map Char.toLower

/-- case-insensitive literal prefix; the rest on success -/
def ciLit (p : String) (cs : Cs) : Option Cs :=
  let pl := lowerCs p.toList
  if pl.isPrefixOf (lowerCs (cs.take pl.length)) && cs.length ≥ pl.length then some (cs.drop pl.length) else none

def isC (c : Char) : Bool := c == 'C' || c == 'c'

/-- `^\s*(\d*) {4}/(.*)/?\s*$` -/
def fileHeader15 (s : String) : Bool :=
  let cs := s.toList
  let wsRun := cs.takeWhile isWs
  let a := cs.dropWhile isWs
  let (ds, b) := digits a
  if ds ≠ [] then startsWithCs "    /".toList b
  else b.head? == some '/' && wsRun.length ≥ 4 && (wsRun.reverse.take 4).all (· == ' ')

/-- the rest of the line after `^\s*[0-9]*\.[0-9]*` -/
def wlPrefix (cs : Cs) : Option Cs :=
  let (_, a) := digits (skipWs cs)
  match a with
  | '.' :: r => some (digits r).2
  | _ => none

/-- wavelength_match `^\s*[0-9]*\.[0-9]* ?a? +.*$` (IGNORECASE) -/
def wl15 (s : String) : Bool :=
  match wlPrefix s.toList with
  | none => false
  | some r =>
    match r with
    | ' ' :: _ => true
    | c :: ' ' :: _ => c == 'a' || c == 'A'
    | _ => false

/-- positions (suffixes) where a case-insensitive literal occurs: list of the texts after each occurrence, left to right,
paired with the number of characters before the occurrence -/
def occurrences (p : String) : Nat → Cs → List (Nat × Cs)
  | _, [] => []
  | i, c :: r =>
    let here := match ciLit p (c :: r) with | some rest => [(i, rest)] | none => []
    here ++ occurrences p (i + 1) r

/-- block_id_match `^\s*[0-9]*\.[0-9]* ?a?\s*([0-9]*)\s*([0-9]*).*/type *= *([a-zA-Z]*).*/isel *= * ([0-9]*)$` -/
def blockId15 (s : String) : Option BlockId :=
  match wlPrefix s.toList with
  | none => none
  | some r =>
    let r := match r with | ' ' :: t => t | _ => r
    let r := match r with | c :: t => if c == 'a' || c == 'A' then t else r | [] => r
    let (g1, r) := digits (skipWs r)
    let (g2, r) := digits (skipWs r)
    -- only the last "/isel" can be followed by ` *= * [0-9]*$`
    match (occurrences "/isel" 0 r).getLast? with
    | none => none
    | some (pIsel, suf) =>
      let a := suf.dropWhile (· == ' ')
      match a with
      | '=' :: b =>
        let sp := b.takeWhile (· == ' ')
        let (ds, rest) := digits (b.dropWhile (· == ' '))
        if sp.length ≥ 1 && rest == [] then
          -- some "/type *=" must end before that "/isel"
          let okType := (occurrences "/type" 0 r).any fun (q, t) =>
            match t.dropWhile (· == ' ') with
            | '=' :: _ => q + 5 + (t.takeWhile (· == ' ')).length < pIsel
            | _ => false
          if okType then
            some { numN := if g1 = [] then none else some (natOf g1),
                   numT := if g2 = [] then none else some (natOf g2),
                   isel := if ds = [] then none else some (natOf ds) }
          else none
        else none
      | _ => none

/-- pec_index_header_match `^C\s*ISEL\s*WAVELENGTH\s*TRANSITION\s*TYPE` (IGNORECASE) -/
def idxHeader15 (s : String) : Bool :=
  match s.toList with
  | c :: r =>
    isC c && (match ciLit "ISEL" (skipWs r) with
      | some r => match ciLit "WAVELENGTH" (skipWs r) with
        | some r => match ciLit "TRANSITION" (skipWs r) with
          | some r => (ciLit "TYPE" (skipWs r)).isSome
          | none => false
        | none => false
      | none => false)
  | [] => false

/-- configuration_header_match `^C\s*Configuration\s*\(2S\+1\)L\(w-1/2\)\s*Energy \(cm\*\*-1\)$` (IGNORECASE) -/
def cfgHeader15 (s : String) : Bool :=
  match s.toList with
  | c :: r =>
    isC c && (match ciLit "Configuration" (skipWs r) with
      | some r => match ciLit "(2S+1)L(w-1/2)" (skipWs r) with
        | some r => match ciLit "Energy (cm**-1)" (skipWs r) with
          | some r => r == []
          | none => false
        | none => false
      | none => false)
  | [] => false

def natOpt (ds : Cs) : Option Nat := if ds = [] then none else some (natOf ds)

def rateTypeOf (cs : Cs) : Option RateType :=
  match String.ofList cs with
  | "EXCIT" => some .excit
  | "RECOM" => some .recom
  | "CHEXC" => some .chexc
  | _ => none

/-- `([0-9]*\.[0-9]*)`: the text of the group and the rest -/
def decimalGroup (cs : Cs) : Option (Cs × Cs) :=
  let (ip, r) := digits cs
  match r with
  | '.' :: r' => let (fp, r'') := digits r'; some (ip ++ ['.'] ++ fp, r'')
  | _ => none

def isAlphaC (c : Char) : Bool := c.isAlpha

/-- pec_hydrogen_transition_match
`^C\s*([0-9]*)\.\s*([0-9]*\.[0-9]*)\s*N=\s*([0-9]*) - N=\s*([0-9]*)\s*([A-Z]*)` (IGNORECASE) -/
def idxH15 (s : String) : Option (IdxMatch String) :=
  match s.toList with
  | c :: r =>
    if !isC c then none else
    let (g0, r) := digits (skipWs r)
    match r with
    | '.' :: r =>
      match decimalGroup (skipWs r) with
      | none => none
      | some (g1, r) =>
        match ciLit "N=" (skipWs r) with
        | none => none
        | some r =>
          let wsRun := r.takeWhile isWs
          let after := r.dropWhile isWs
          let (g2, r2) := digits after
          let tail : Option Cs :=
            if g2 ≠ [] then ciLit " - N=" r2
            else if wsRun.getLast? == some ' ' then ciLit "- N=" after else none
          match tail with
          | none => none
          | some r =>
            let (g3, r) := digits (skipWs r)
            let g4 := (skipWs r).takeWhile isAlphaC
            some { isel := natOpt g0, wl := pyFloat g1, up := natOpt g2, lo := natOpt g3, typ := rateTypeOf g4 }
    | _ => none
  | [] => none

def inCls (c : Char) : Bool := c == '(' || c == ')' || c == '.' || isDig c || isWs c

/-- the common tail `\s*([0-9]*\.[0-9]*)\s*([0-9]*)[\(\)\.0-9\s]*-\s*([0-9]*)[\(\)\.0-9\s]*([A-Z]*)` -/
def idxTail (g0 : Cs) (r : Cs) : Option (IdxMatch String) :=
  match decimalGroup (skipWs r) with
  | none => none
  | some (g1, r) =>
    let (g2, r) := digits (skipWs r)
    match r.dropWhile inCls with
    | '-' :: r =>
      let (g3, r) := digits (skipWs r)
      let g4 := (r.dropWhile inCls).takeWhile isAlphaC
      some { isel := natOpt g0, wl := pyFloat g1, up := natOpt g2, lo := natOpt g3, typ := rateTypeOf g4 }
    | _ => none

/-- pec_full_transition_match of `_scrape_metadata_hydrogen_like` (the dot after ISEL is mandatory) -/
def idxHL15 (s : String) : Option (IdxMatch String) :=
  match s.toList with
  | c :: r =>
    if !isC c then none else
    let (g0, r) := digits (skipWs r)
    match r with
    | '.' :: r => idxTail g0 r
    | _ => none
  | [] => none

/-- pec_full_transition_match of `_scrape_metadata_full` (`\.?`): first with the dot consumed, then without -/
def idxF15 (s : String) : Option (IdxMatch String) :=
  match s.toList with
  | c :: r =>
    if !isC c then none else
    let (g0, r) := digits (skipWs r)
    match r with
    | '.' :: r' =>
      match idxTail g0 r' with
      | some m => some m
      | none => idxTail g0 r
    | _ => idxTail g0 r
  | [] => none

def isOrbLetter (c : Char) : Bool := "spdfg".toList.contains c.toLower

/-- `((?:[0-9][SPDFG][0-9]\s)*)` -/
def orbitals : Nat → Cs → Cs × Cs
  | 0, cs => ([], cs)
  | f + 1, cs =>
    match cs with
    | a :: b :: c :: d :: r =>
      if isDig a && isOrbLetter b && isDig c && isWs d then
        let (g, rest) := orbitals f r
        (a :: b :: c :: d :: g, rest)
      else ([], cs)
    | _ => ([], cs)

/-- `([0-9]*\.?[0-9]*)` -/
def optDecimal (cs : Cs) : Cs × Cs :=
  let (ip, r) := digits cs
  match r with
  | '.' :: r' => let (fp, r'') := digits r'; (ip ++ ['.'] ++ fp, r'')
  | _ => (ip, r)

def rstrip (cs : Cs) : Cs := (cs.reverse.dropWhile isWs).reverse

/-- configuration_string_match
`^C\s*([0-9]*)\s*((?:[0-9][SPDFG][0-9]\s)*)\s*\(([0-9]*\.?[0-9]*)\)([0-9]*)\(\s*([0-9]*\.?[0-9]*)\)` (IGNORECASE) -/
def cfg15 (s : String) : Option (CfgMatch String) :=
  match s.toList with
  | c :: r =>
    if !isC c then none else
    let (g0, r) := digits (skipWs r)
    let (g1, r) := orbitals r.length (skipWs r)
    match skipWs r with
    | '(' :: r =>
      let (g2, r) := optDecimal r
      match r with
      | ')' :: r =>
        let (g3, r) := digits r
        match r with
        | '(' :: r =>
          let (g4, r) := optDecimal (skipWs r)
          match r with
          | ')' :: _ =>
            some { id := natOpt g0, conf := String.ofList (lowerCs (rstrip g1)), spin := String.ofList g2,
                   l := natOpt g3, j := String.ofList g4 }
          | _ => none
        | _ => none
      | _ => none
    | _ => none
  | [] => none

def lex15 : Lex15 String String String String where
  fileHeader := fileHeader15
  wl := wl15
  blockId := blockId15
  split := floatToks
  idxHeader := idxHeader15
  cfgHeader := cfgHeader15
  idxH := idxH15
  idxHL := idxHL15
  idxF := idxF15
  cfg := cfg15

def typName : RateType → String
  | .excit => "EXCIT" | .recom => "RECOM" | .chexc => "CHEXC"

def text15 : K15 String String String → String
  | .fileHeader n => rjn 5 n ++ "    /C 2 PHOTON EMISSIVITY COEFFICIENTS/"
  | .blockHdr wl nN nT typ isel => rj 8 wl ++ " A" ++ rjn 5 nN ++ rjn 5 nT ++ " /FILMEM = bottom  /TYPE = " ++ typName typ
      ++ " /INDM = T/ISEL = " ++ rjn 4 isel
  | .data xs => dataLine 9 xs
  | .comment => "C"
  | .cfgHeader => "C  Configuration       (2S+1)L(w-1/2)    Energy (cm**-1)"
  | .cfgLine id conf spin l j => "C" ++ rjn 6 id ++ "  " ++ lj 18 (conf.toUpper ++ " ") ++ "(" ++ spin ++ ")" ++ toString l
      ++ "(" ++ rj 4 j ++ ")         0.0"
  | .idxHeader => "C  ISEL  WAVELENGTH      TRANSITION       TYPE"
  | .idxH isel wl up lo typ => "C" ++ rjn 5 isel ++ "." ++ rj 12 wl ++ "    N=" ++ rjn 2 up ++ " - N=" ++ rjn 2 lo ++ "    " ++ typName typ
  | .idxC dot isel wl up lo typ => "C" ++ rjn 5 isel ++ (if dot then "." else " ") ++ rj 12 wl ++ "   " ++ rjn 3 up ++ "(2)1( 2.5)-"
      ++ rjn 3 lo ++ "(2)0( 0.5)  " ++ typName typ

/-! ## the literals this file transcribes

Copied from the sources when the recognisers above were written; `Props/C08.lean` proves that the table which the
translator regenerates from /repo on every run (`Gen/AdfLex.lean`) is still this one.  (The resolved-file probe of
parse_adf11 is not in the list: it is `Gen.AdfLex.probeRegex`, summarised by `probeAcceptsMinus`, because its repair
is prepared.) -/

def pinnedRegexes : List (String × String) := [
  ("adf11.py:parse_adf11:re.split1", "\\s{2,}"),
  ("adf11.py:parse_adf11:re.match1", "^\\s*C{0}-{2,}"),
  ("adf11.py:parse_adf11:re.sub1", "\\n*\\s+"),
  ("adf11.py:parse_adf11:re.match2", "^\\s*C*-{2,}"),
  ("adf11.py:parse_adf11:re.sub2", "\\n*\\s+"),
  ("adf11.py:parse_adf11:re.match3", "^\\s*C{1}-{2,}"),
  ("adf11.py:parse_adf11:re.match4", "^\\s*C{0,1}-{2,}"),
  ("adf11.py:parse_adf11:re.match5", "^\\s*C\\n"),
  ("adf11.py:parse_adf11:re.search1", "Z1\\s*=*\\s*[0-9]+\\s*"),
  ("adf11.py:parse_adf11:re.sub3", "Z1[\\s*=]"),
  ("adf11.py:parse_adf11:re.search2", "IGRD\\s*=*\\s*[0-9]+\\s*"),
  ("adf11.py:parse_adf11:re.search3", "IGRD\\s*=*\\s*[0-9]+\\s*"),
  ("adf11.py:parse_adf11:re.search4", "IPRT\\s*=*\\s*[0-9]+\\s*"),
  ("adf11.py:parse_adf11:re.search5", "IPRT\\s*=*\\s*[0-9]+\\s*"),
  ("adf15.py:parse_adf15:re.match1", "^\\s*(\\d*) {4}/(.*)/?\\s*$"),
  ("adf15.py:_scrape_metadata_hydrogen:pec_index_header_match", "^C\\s*ISEL\\s*WAVELENGTH\\s*TRANSITION\\s*TYPE"),
  ("adf15.py:_scrape_metadata_hydrogen:pec_hydrogen_transition_match", "^C\\s*([0-9]*)\\.\\s*([0-9]*\\.[0-9]*)\\s*N=\\s*([0-9]*) - N=\\s*([0-9]*)\\s*([A-Z]*)"),
  ("adf15.py:_scrape_metadata_hydrogen_like:pec_index_header_match", "^C\\s*ISEL\\s*WAVELENGTH\\s*TRANSITION\\s*TYPE"),
  ("adf15.py:_scrape_metadata_hydrogen_like:pec_full_transition_match", "^C\\s*([0-9]*)\\.\\s*([0-9]*\\.[0-9]*)\\s*([0-9]*)[\\(\\)\\.0-9\\s]*-\\s*([0-9]*)[\\(\\)\\.0-9\\s]*([A-Z]*)"),
  ("adf15.py:_scrape_metadata_full:configuration_header_match", "^C\\s*Configuration\\s*\\(2S\\+1\\)L\\(w-1/2\\)\\s*Energy \\(cm\\*\\*-1\\)$"),
  ("adf15.py:_scrape_metadata_full:pec_index_header_match", "^C\\s*ISEL\\s*WAVELENGTH\\s*TRANSITION\\s*TYPE"),
  ("adf15.py:_scrape_metadata_full:configuration_string_match", "^C\\s*([0-9]*)\\s*((?:[0-9][SPDFG][0-9]\\s)*)\\s*\\(([0-9]*\\.?[0-9]*)\\)([0-9]*)\\(\\s*([0-9]*\\.?[0-9]*)\\)"),
  ("adf15.py:_scrape_metadata_full:pec_full_transition_match", "^C\\s*([0-9]*)\\.?\\s*([0-9]*\\.[0-9]*)\\s*([0-9]*)[\\(\\)\\.0-9\\s]*-\\s*([0-9]*)[\\(\\)\\.0-9\\s]*([A-Z]*)"),
  ("adf15.py:_extract_rate:wavelength_match", "^\\s*[0-9]*\\.[0-9]* ?a? +.*$"),
  ("adf15.py:_extract_rate:block_id_match", "^\\s*[0-9]*\\.[0-9]* ?a?\\s*([0-9]*)\\s*([0-9]*).*/type *= *([a-zA-Z]*).*/isel *= * ([0-9]*)$"),
  ("utility.py:readvalues:fieldslice1", "line[1 + nb_read_line * 10:(nb_read_line + 1) * 10]")
]

def pinnedSlices : List (String × Nat × Nat) := [
  ("adf12.py:parse_adf12:slice1", 3, 5),
  ("adf12.py:_parse_block:slice1", 38, 40),
  ("adf12.py:_parse_block:slice2", 41, 43),
  ("utility.py:parse_adas2x_rate:slice1", 3, 5),
  ("utility.py:parse_adas2x_rate:slice2", 13, 22),
  ("utility.py:parse_adas2x_rate:slice3", 29, 31),
  ("utility.py:parse_adas2x_rate:slice4", 38, 46),
  ("utility.py:parse_adas2x_rate:slice5", 1, 5),
  ("utility.py:parse_adas2x_rate:slice6", 6, 10),
  ("utility.py:parse_adas2x_rate:slice7", 17, 26),
  ("utility.py:parse_adas2x_rate:slice8", 1, 5),
  ("utility.py:parse_adas2x_rate:slice9", 12, 21),
  ("utility.py:parse_adas2x_rate:slice10", 28, 37)
]

def pinnedReadvalues : List (String × String) := [
  ("adf12.py:_parse_block:readvalues1", "1 6"),
  ("adf12.py:_parse_block:readvalues2", "5 6"),
  ("adf12.py:_parse_block:readvalues3", "5 6 type=int"),
  ("adf12.py:_parse_block:readvalues4", "24 6"),
  ("adf12.py:_parse_block:readvalues5", "24 6"),
  ("adf12.py:_parse_block:readvalues6", "12 6"),
  ("adf12.py:_parse_block:readvalues7", "12 6"),
  ("adf12.py:_parse_block:readvalues8", "24 6"),
  ("adf12.py:_parse_block:readvalues9", "24 6"),
  ("adf12.py:_parse_block:readvalues10", "12 6"),
  ("adf12.py:_parse_block:readvalues11", "12 6"),
  ("adf12.py:_parse_block:readvalues12", "12 6"),
  ("adf12.py:_parse_block:readvalues13", "12 6"),
  ("utility.py:parse_adas2x_rate:readvalues1", "neb 8"),
  ("utility.py:parse_adas2x_rate:readvalues2", "ndt 8"),
  ("utility.py:parse_adas2x_rate:readvalues3", "neb 8"),
  ("utility.py:parse_adas2x_rate:readvalues4", "ntt 8"),
  ("utility.py:parse_adas2x_rate:readvalues5", "ntt 8")
]

def pinnedDivisions : List (String × String) := [
  ("adf15.py:_scrape_metadata_hydrogen:div1", "10"),
  ("adf15.py:_scrape_metadata_hydrogen_like:div1", "10"),
  ("adf15.py:_scrape_metadata_full:div1", "10")
]

def pinnedFactors : List (String × String) := [
  ("AngstromToNm", "0.1"),
  ("Cm3ToM3", "1e-06"),
  ("PerCm3ToPerM3", "1000000.0")
]

end Cherab.Adf.Text
