import Cherab.Props.C09
open Cherab.Props.C09
#print axioms closed_form_solves
#print axioms solution_unique
#print axioms lsq_returns_closed_form
#print axioms bdSolve_eq_closed
#print axioms fractional_entry_closed
#print axioms fractions_in_unit_interval
#print axioms fractions_sum_one
#print axioms neighbour_balance
#print axioms zero_donor_density_eq_no_donor
#print axioms element_density_scales
#print axioms from_density_drops_donor
#print axioms neutrality_matches
#print axioms entry_points_agree
#print axioms entry_points_disagree_as_written
#print axioms entry_points_agree_switch
#print axioms entry_points_agree_current_tree
#print axioms representation_scalar
#print axioms representation_fn1
#print axioms representation_fn2
#print axioms assignDonor_none_zero
#print axioms profile_pointwise
#print axioms profile_pointwise_density
