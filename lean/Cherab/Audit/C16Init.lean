import Cherab.Props.C16Init
open Cherab.Props.C16
#print axioms init_total_spectrometer
#print axioms init_total_ct
#print axioms init_total_polychromator
#print axioms init_total_all
#print axioms no_attr_error_all
