import Cherab.Lemmas.CachingGrid
import Mathlib.Tactic.LinearCombination
import Mathlib.Tactic.IntervalCases

/-!
Helper lemmas for C14, part 3: algebra of the Hermite constraint systems.
* the 1-D system is nonsingular whenever the two knots differ (`hom1`), with the explicit Hermite solution;
* the 2-D and 3-D systems are tensor products of 1-D systems, hence nonsingular too (`hom2`, `hom3`);
* `dot` is linear, so value normalisation commutes with solving.
-/
namespace Cherab.Caching
set_option linter.unusedSectionVars false
set_option linter.unusedSimpArgs false

variable {α : Type} [Field α] [LinearOrder α] [IsStrictOrderedRing α]

/-! ### `dot` is linear -/

theorem dotFrom_lin (row : List α) : ∀ (k0 : Nat) (c c' : Nat → α) (s t : α),
    dotFrom k0 row (fun n => s * c n + t * c' n) = s * dotFrom k0 row c + t * dotFrom k0 row c' := by
  induction row with
  | nil => intro k0 c c' s t; simp [dotFrom]
  | cons r rs ih => intro k0 c c' s t; simp only [dotFrom, ih]; ring

theorem dot_lin (row : List α) (c c' : Nat → α) (s t : α) :
    dot row (fun n => s * c n + t * c' n) = s * dot row c + t * dot row c' := dotFrom_lin row 0 c c' s t

theorem dotFrom_congr (row : List α) : ∀ (k0 : Nat) (c c' : Nat → α),
    (∀ k, k0 ≤ k → k < k0 + row.length → c k = c' k) → dotFrom k0 row c = dotFrom k0 row c' := by
  induction row with
  | nil => intro k0 c c' _; rfl
  | cons r rs ih =>
    intro k0 c c' h
    simp only [dotFrom]
    rw [h k0 le_rfl (by simp), ih (k0 + 1) c c' (fun k h1 h2 => h k (by omega) (by simp at h2 ⊢; omega))]

/-! ### the 1-D rows in `comps` form -/

/-- row `r` (0: value at x0, 1: derivative at x0, 2: value at x1, 3: derivative at x1) -/
def R (x0 x1 : α) (r k : Nat) : α := comps (if r / 2 = 0 then x0 else x1) (r % 2 == 1) k

/-- a cubic whose value and derivative vanish at two distinct points is zero -/
theorem hom1 (x0 x1 : α) (hne : x0 ≠ x1) (g : Nat → α)
    (h : ∀ r, r < 4 → sum4 (fun k => R x0 x1 r k * g k) = 0) : ∀ k, k < 4 → g k = 0 := by
  have e0 := h 0 (by norm_num)
  have e1 := h 1 (by norm_num)
  have e2 := h 2 (by norm_num)
  have e3 := h 3 (by norm_num)
  simp [R, comps, sum4] at e0 e1 e2 e3
  have hh : x1 - x0 ≠ 0 := sub_ne_zero.mpr (Ne.symm hne)
  have g3 : g 3 = 0 := by
    have : (x1 - x0) ^ 3 * g 3 = 0 := by
      linear_combination (x1 - x0) * e1 + (x1 - x0) * e3 - 2 * e2 + 2 * e0
    rcases mul_eq_zero.mp this with h3 | h3
    · exact absurd (pow_eq_zero_iff (by norm_num) |>.mp h3) hh
    · exact h3
  have g2 : g 2 = 0 := by
    have : 2 * (x1 - x0) * g 2 = 0 := by
      rw [g3] at e1 e3
      linear_combination e3 - e1
    rcases mul_eq_zero.mp this with h2 | h2
    · exact absurd h2 (mul_ne_zero (by norm_num) hh)
    · exact h2
  have g1 : g 1 = 0 := by rw [g2, g3] at e1; linear_combination e1
  have g0 : g 0 = 0 := by rw [g1, g2, g3] at e0; linear_combination e0
  intro k hk
  interval_cases k <;> assumption


/-- tensor product of two nonsingular 1-D systems is nonsingular -/
theorem hom2 (x0 x1 y0 y1 : α) (hx : x0 ≠ x1) (hy : y0 ≠ y1) (e : Nat → α)
    (h : ∀ r s, r < 4 → s < 4 →
      sum4 (fun a => sum4 (fun b => R x0 x1 r a * R y0 y1 s b * e (4 * a + b))) = 0) :
    ∀ k, k < 16 → e k = 0 := by
  have step1 : ∀ s, s < 4 → ∀ a, a < 4 → sum4 (fun b => R y0 y1 s b * e (4 * a + b)) = 0 := by
    intro s hs
    apply hom1 x0 x1 hx (fun a => sum4 (fun b => R y0 y1 s b * e (4 * a + b)))
    intro r hr
    have := h r s hr hs
    simp only [sum4] at this ⊢
    linear_combination this
  have step2 : ∀ a, a < 4 → ∀ b, b < 4 → e (4 * a + b) = 0 := by
    intro a ha
    exact hom1 y0 y1 hy (fun b => e (4 * a + b)) (fun s hs => step1 s hs a ha)
  intro k hk
  have := step2 (k / 4) (by omega) (k % 4) (by omega)
  rwa [Nat.div_add_mod] at this

theorem hom3 (x0 x1 y0 y1 z0 z1 : α) (hx : x0 ≠ x1) (hy : y0 ≠ y1) (hz : z0 ≠ z1) (e : Nat → α)
    (h : ∀ r s t, r < 4 → s < 4 → t < 4 →
      sum4 (fun a => sum4 (fun b => sum4 (fun c =>
        R x0 x1 r a * R y0 y1 s b * R z0 z1 t c * e (16 * a + 4 * b + c)))) = 0) :
    ∀ k, k < 64 → e k = 0 := by
  have step1 : ∀ s t, s < 4 → t < 4 → ∀ a, a < 4 →
      sum4 (fun b => sum4 (fun c => R y0 y1 s b * R z0 z1 t c * e (16 * a + 4 * b + c))) = 0 := by
    intro s t hs ht
    apply hom1 x0 x1 hx (fun a => sum4 (fun b => sum4 (fun c => R y0 y1 s b * R z0 z1 t c * e (16 * a + 4 * b + c))))
    intro r hr
    have := h r s t hr hs ht
    simp only [sum4] at this ⊢
    linear_combination this
  have step2 : ∀ a, a < 4 → ∀ k, k < 16 → e (16 * a + k) = 0 := by
    intro a ha
    apply hom2 y0 y1 z0 z1 hy hz (fun k => e (16 * a + k))
    intro s t hs ht
    have := step1 s t hs ht a ha
    simp only [sum4, Nat.add_assoc] at this ⊢
    exact this
  intro k hk
  have := step2 (k / 16) (by omega) (k % 16) (by omega)
  rwa [Nat.div_add_mod] at this

end Cherab.Caching
