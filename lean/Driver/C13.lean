import Cherab.Drv.Proto
import Cherab.Model.Wrappers
open Cherab.Drv Cherab.Wrappers

/-- C `fmod` for doubles: exact remainder of truncated division.  Lean has no `Float.fmod`; for the magnitudes the
harness generates (|x/p| < 2^52) `x - trunc(x/p)*p` computed with an exact product is what libm returns when
`trunc(x/p)*p` is representable; the harness only sends the driver such cases (checked on the Python side) and
otherwise supplies libm's `fmod` value itself via the `remf` command. -/
def fmodF (x p : Float) : Float :=
  let q := x / p
  let t := if q < 0 then Float.ceil q else Float.floor q
  x - t * p

def idF (x : Float) : Float := x

def step (ts : List String) : String :=
  match ts with
  -- remainder with libm fmod value supplied: "remf x p fmod(x,p)"
  | ["remf", x, p, m] => fF (remainder (fun _ _ => pF m) (pF x) (pF p))
  | ["rem", x, p] => fF (remainder fmodF (pF x) (pF p))
  | ["clamp", v, a, b] => fF (clamp (pF v) (pF a) (pF b))
  | ["sel3", s, x, y, z] =>
      match sel3 (pN s) (pF x) (pF y) (pF z) with
      | some v => fF v
      | none => "ValueError"
  | ["swz3", s0, s1, s2, x, y, z] =>
      match swizzle3 (fun a b c => [a, b, c]) (pN s0) (pN s1) (pN s2) (pF x) (pF y) (pF z) with
      | some l => fFs l
      | none => "ValueError"
  | ["slice2", ax, v, x] => fFs (slice2 (fun a b => [a, b]) (pN ax) (pF v) (pF x))
  | ["slice3", ax, v, x, y] => fFs (slice3 (fun a b c => [a, b, c]) (pN ax) (pF v) (pF x) (pF y))
  | ["axi", x, y, z] => fFs (axisymmetric Float.sqrt (fun a b => [a, b]) (pF x) (pF y) (pF z))
  | ["cyl", x, y, z] => fFs (cylindrical Float.sqrt Float.atan2 (fun a b c => [a, b, c]) (pF x) (pF y) (pF z))
  | ["rotz", c, s, a, b, d] =>
      let w := rotateZ (pF c) (pF s) (pF a, pF b, pF d); fFs [w.1, w.2.1, w.2.2]
  | ["lin", a, b, n, i] => fF (linspace (pF a) (pF b) (pN n) (pN i))
  | "poly" :: px :: py :: rest =>
      let fs := rest.map pF
      let rec pairs : List Float → List (Float × Float)
        | a :: b :: t => (a, b) :: pairs t
        | _ => []
      fB (inPolygon (pF px) (pF py) (pairs fs))
  -- round 6: validation ladders (0 = accepted, k = k-th raise)
  | ["cctor", a, b] => toString (clampCtor (pF a) (pF b))
  | ["cctor2", a, b, c, d] => toString (clampCtor2 (pF a) (pF b) (pF c) (pF d))
  | ["cctor3", a, b, c, d, e, f] => toString (clampCtor3 (pF a) (pF b) (pF c) (pF d) (pF e) (pF f))
  | ["pctor1", a] => toString (periodicCtor1 (pF a))
  | ["pctor2", a, b] => toString (periodicCtor2 (pF a) (pF b))
  | ["pctor3", a, b, c] => toString (periodicCtor3 (pF a) (pF b) (pF c))
  -- round 6: sampler entry points; output = axes followed by the wrapped function's arguments in call order
  | ["samp1", lx, x0, x1, nx] =>
      match sample1d (fun x => [x]) (pN lx) (pF x0) (pF x1) (pI nx) with
      | .ok (xs, v) => fFs (xs ++ v.flatten)
      | .error k => s!"E {k}"
  | ["samp2", lx, ly, x0, x1, y0, y1, nx, ny] =>
      match sample2d (fun x y => [x, y]) (pN lx) (pN ly) (pF x0) (pF x1) (pF y0) (pF y1) (pI nx) (pI ny) with
      | .ok (xs, ys, v) => fFs (xs ++ ys ++ v.flatten.flatten)
      | .error k => s!"E {k}"
  | ["samp3", lx, ly, lz, x0, x1, y0, y1, z0, z1, nx, ny, nz] =>
      match sample3d (fun x y z => [x, y, z]) (pN lx) (pN ly) (pN lz) (pF x0) (pF x1) (pF y0) (pF y1) (pF z0) (pF z1)
          (pI nx) (pI ny) (pI nz) with
      | .ok (xs, ys, zs, v) => fFs (xs ++ ys ++ zs ++ v.flatten.flatten.flatten)
      | .error k => s!"E {k}"
  -- round 6: nested wrappers; the wrapped function is t ↦ 2t − 1 (exact in both worlds up to the same rounding)
  | ["coper", x, p, m, mn, mx] =>
      fF (clampOutPeriodic1 (fun _ _ => pF m) (fun t => 2 * t - 1) (pF p) (pF mn) (pF mx) (pF x))
  | ["axper", x, y, z, pz, m] =>
      fFs (axisymmetricPeriodic Float.sqrt (fun _ _ => pF m) (fun a b => [a, b]) 0 (pF pz) (pF x) (pF y) (pF z))
  | ["slci", ax, v, x, y, a, b, c, d, e, f] =>
      fFs (sliceClampInput3 (fun p q r => [p, q, r]) (pF a) (pF b) (pF c) (pF d) (pF e) (pF f) (pN ax) (pF v) (pF x) (pF y))
  | _ => "bad-op"

def main : IO UInt32 := do
  loop (stateless step) (← IO.getStdin) (← IO.getStdout) ()
  return 0
