import Cherab.Model.Groups
import Mathlib.Data.List.Basic
import Mathlib.Data.List.Nodup
import Mathlib.Tactic.Ring

/-!
# Helper lemmas and specification vocabulary for C15 (observer groups)

Heap updates, the two assignment loops of the group setters (`assignAll`, `assignZip`), the frame they respect,
unpacking of the decidable well-formedness predicates, the membership invariant, Python indexing/slicing.
The property theorems are in `Cherab/Props/C15.lean`.
-/
namespace Cherab.Groups


@[simp] theorem setAttr_attrs_same (h : Heap) (u : Nat) (a : Attr) (x : Nat) : ((h.setAttr u a x) u).attrs a = x := by
  simp [Heap.setAttr, Obs.set]

theorem setAttr_attrs_other (h : Heap) (u w : Nat) (a b : Attr) (x : Nat) (hne : b ≠ a ∨ w ≠ u) :
    ((h.setAttr u a x) w).attrs b = (h w).attrs b := by
  unfold Heap.setAttr
  by_cases hw : w = u
  · subst hw
    rcases hne with hne | hne
    · simp [Obs.set, hne]
    · exact absurd rfl hne
  · simp [hw]

@[simp] theorem setAttr_parent (h : Heap) (u w : Nat) (a : Attr) (x : Nat) : ((h.setAttr u a x) w).parent = (h w).parent := by
  unfold Heap.setAttr; by_cases hw : w = u <;> simp [hw, Obs.set]

@[simp] theorem setAttr_types (h : Heap) (u w : Nat) (a : Attr) (x : Nat) : ((h.setAttr u a x) w).types = (h w).types := by
  unfold Heap.setAttr; by_cases hw : w = u <;> simp [hw, Obs.set]

@[simp] theorem setParent_attrs (h : Heap) (u w : Nat) (p : Option Nat) : ((h.setParent u p) w).attrs = (h w).attrs := by
  unfold Heap.setParent; by_cases hw : w = u <;> simp [hw]

@[simp] theorem setParent_types (h : Heap) (u w : Nat) (p : Option Nat) : ((h.setParent u p) w).types = (h w).types := by
  unfold Heap.setParent; by_cases hw : w = u <;> simp [hw]

@[simp] theorem setParent_parent_same (h : Heap) (u : Nat) (p : Option Nat) : ((h.setParent u p) u).parent = p := by
  simp [Heap.setParent]

theorem setParent_parent_other (h : Heap) (u w : Nat) (p : Option Nat) (hw : w ≠ u) : ((h.setParent u p) w).parent = (h w).parent := by
  simp [Heap.setParent, hw]

/-- two heaps that agree on everything observable -/
def HeapEq (h h' : Heap) : Prop :=
  ∀ u, (∀ b, (h' u).attrs b = (h u).attrs b) ∧ (h' u).parent = (h u).parent ∧ (h' u).types = (h u).types

theorem HeapEq.eq {h h' : Heap} (e : HeapEq h h') : h' = h := by
  funext u
  obtain ⟨ha, hp, ht⟩ := e u
  cases hu : h u; cases hu' : h' u
  simp only [hu, hu'] at ha hp ht
  simp only [Obs.mk.injEq]
  exact ⟨funext ha, hp, ht⟩

/-- "nothing but attribute `a` of the objects in `us` changed" -/
def Frame (a : Attr) (us : List Nat) (h h' : Heap) : Prop :=
  (∀ u b, (b ≠ a ∨ u ∉ us) → (h' u).attrs b = (h u).attrs b) ∧
  (∀ u, (h' u).parent = (h u).parent ∧ (h' u).types = (h u).types)

theorem Frame.refl (a : Attr) (us : List Nat) (h : Heap) : Frame a us h h :=
  ⟨fun _ _ _ => rfl, fun _ => ⟨rfl, rfl⟩⟩

/-- the member's own setter accepts `o`, and the group's `isinstance(·, RenderEngine)` guard (if any) lets it pass -/
def Passes (chk : Bool) (o : Obj) : Prop := o.rej = none ∧ (chk = true → o.engine = true)

theorem assignAll_cons (a : Attr) (o : Obj) (ho : o.rej = none) (u : Nat) (us : List Nat) (h : Heap) :
    assignAll a o (u :: us) h = assignAll a o us (h.setAttr u a o.stored) := by
  simp only [assignAll, ho]

theorem assignZip_cons (a : Attr) (chk : Bool) (e : Err) (u : Nat) (us : List Nat) (o : Obj) (os : List Obj) (h : Heap)
    (ho : Passes chk o) :
    assignZip a chk e (u :: us) (o :: os) h = assignZip a chk e us os (h.setAttr u a o.stored) := by
  have hchk : (chk && !o.engine) = false := by
    cases hc : chk
    · rfl
    · simp [ho.2 hc]
  simp only [assignZip, hchk, ho.1, Bool.false_eq_true, if_false]

/-- extending the frame by one more object at the front -/
theorem Frame.cons {a : Attr} {u : Nat} {us : List Nat} {h h' : Heap} {x : Nat}
    (f : Frame a us (h.setAttr u a x) h') : Frame a (u :: us) h h' := by
  obtain ⟨h3, h4⟩ := f
  refine ⟨?_, ?_⟩
  · intro w b hb
    have hb' : b ≠ a ∨ w ∉ us := by
      rcases hb with hb | hb
      · exact Or.inl hb
      · exact Or.inr (fun hm => hb (List.mem_cons_of_mem _ hm))
    rw [h3 w b hb']
    apply setAttr_attrs_other
    rcases hb with hb | hb
    · exact Or.inl hb
    · exact Or.inr (fun e' => hb (e' ▸ List.mem_cons_self))
  · intro w
    obtain ⟨p, t⟩ := h4 w
    exact ⟨by rw [p]; simp, by rw [t]; simp⟩

theorem assignAll_spec (a : Attr) (o : Obj) (ho : o.rej = none) (us : List Nat) (h : Heap) :
    (assignAll a o us h).2 = none ∧
    (∀ u ∈ us, (((assignAll a o us h).1) u).attrs a = o.stored) ∧
    Frame a us h (assignAll a o us h).1 := by
  induction us generalizing h with
  | nil => exact ⟨rfl, by simp, Frame.refl _ _ _⟩
  | cons u us ih =>
    rw [assignAll_cons a o ho]
    obtain ⟨h1, h2, h3⟩ := ih (h.setAttr u a o.stored)
    refine ⟨h1, ?_, h3.cons⟩
    intro w hw
    by_cases hwu : w ∈ us
    · exact h2 w hwu
    · have hw' : w = u := by simpa [hwu] using hw
      subst hw'
      rw [h3.1 w a (Or.inr hwu)]
      simp

theorem assignZip_spec (a : Attr) (chk : Bool) (e : Err) (us : List Nat) (os : List Obj) (h : Heap)
    (hlen : os.length = us.length) (hok : ∀ o ∈ os, Passes chk o) (hnd : us.Nodup) :
    (assignZip a chk e us os h).2 = none ∧
    (∀ i (h1 : i < us.length) (h2 : i < os.length), (((assignZip a chk e us os h).1) us[i]).attrs a = os[i].stored) ∧
    Frame a us h (assignZip a chk e us os h).1 := by
  induction us generalizing os h with
  | nil =>
    cases os with
    | nil => exact ⟨rfl, by simp, Frame.refl _ _ _⟩
    | cons o os => simp at hlen
  | cons u us ih =>
    cases os with
    | nil => simp at hlen
    | cons o os =>
      rw [assignZip_cons a chk e u us o os h (hok o List.mem_cons_self)]
      have hnd' := (List.nodup_cons.mp hnd)
      obtain ⟨h1, h2, h3⟩ := ih os (h.setAttr u a o.stored) (by simpa using hlen)
        (fun o' ho' => hok o' (List.mem_cons_of_mem _ ho')) hnd'.2
      refine ⟨h1, ?_, h3.cons⟩
      intro i hi1 hi2
      cases i with
      | zero =>
        simp only [List.getElem_cons_zero]
        rw [h3.1 u a (Or.inr hnd'.1)]
        simp
      | succ i =>
        simp only [List.getElem_cons_succ]
        exact h2 i (by simpa using hi1) (by simpa using hi2)

/-- whatever the values, the loops touch nothing but attribute `a` of the listed objects (also when they stop half-way) -/
theorem assignAll_frame (a : Attr) (o : Obj) (us : List Nat) (h : Heap) : Frame a us h (assignAll a o us h).1 := by
  induction us generalizing h with
  | nil => exact Frame.refl _ _ _
  | cons u us ih =>
    cases hr : o.rej with
    | some e => simp only [assignAll, hr]; exact Frame.refl _ _ _
    | none => rw [assignAll_cons a o hr]; exact (ih _).cons

theorem assignZip_frame (a : Attr) (chk : Bool) (e : Err) (us : List Nat) (os : List Obj) (h : Heap) :
    Frame a us h (assignZip a chk e us os h).1 := by
  induction us generalizing os h with
  | nil => cases os <;> exact Frame.refl _ _ _
  | cons u us ih =>
    cases os with
    | nil => exact Frame.refl _ _ _
    | cons o os =>
      by_cases hp : Passes chk o
      · rw [assignZip_cons a chk e u us o os h hp]; exact (ih _ _).cons
      · have : assignZip a chk e (u :: us) (o :: os) h = (h, (assignZip a chk e (u :: us) (o :: os) h).2) := by
          simp only [assignZip]
          split
          · rfl
          · cases hr : o.rej with
            | some e' => rfl
            | none =>
              exfalso; apply hp; refine ⟨hr, ?_⟩
              intro hc; rename_i hn; simp [hc] at hn; exact hn
        rw [this]; exact Frame.refl _ _ _

/-- the sequence kinds the setter of `d` recognises (`list`, `tuple`, and `ndarray` where the source names it) -/
def kindsOf (d : Descriptor) : List SeqKind :=
  match d.setter with
  | some (.broadcast s) =>
    (match s.test with
     | .isinst ks => ks
     | .allItems ks => ks
     | .sized => [])
  | _ => []

/-- `isinstance(v, RenderEngine)` guard in the element-wise loop -/
def elemChk (d : Descriptor) : Bool :=
  match d.setter with
  | some (.broadcast s) => s.elemEngineCheck
  | _ => false

/-- `isinstance(value, RenderEngine)` guard in front of the broadcast loop -/
def scalarChk (d : Descriptor) : Bool :=
  match d.setter with
  | some (.broadcast s) =>
    (match s.orelse with
     | .broadcast _ c _ => c
     | _ => false)
  | _ => false

/-- the member attribute the public attribute `d.name` stands for -/
abbrev memberAttr (d : Descriptor) : Attr := expectedMember d.name

/-- `value` is treated as a sequence by `d`'s setter -/
abbrev IsSeq (d : Descriptor) (v : Val) : Prop := kindIn v.obj.kind (kindsOf d) = true

/-- outcome record of an assignment that succeeded and wrote `xs` (one value per member) into attribute `a` -/
structure Wrote (a : Attr) (w w' : World) (xs : List Nat) : Prop where
  members : w'.members = w.members
  gid : w'.gid = w.gid
  read : readEach w' a = xs
  frame : Frame a w.members w.heap w'.heap

theorem readEach_of_frame {a b : Attr} {w w' : World} (hm : w'.members = w.members)
    (f : Frame a w.members w.heap w'.heap) (hb : b ≠ a) : readEach w' b = readEach w b := by
  unfold readEach
  rw [hm]
  apply List.map_congr_left
  intro u _
  exact f.1 u b (Or.inl hb)

structure WFB (d : Descriptor) (s : Setter) (ks : List SeqKind) (chk : Bool) (err : Err) : Prop where
  getter : d.getter = .each (memberAttr d)
  setter : d.setter = some (.broadcast s)
  test : s.test = .isinst ks
  kinds : hasListTuple ks = true
  lenCheck : s.lenCheck = true
  lenErr : s.lenErr = .valueError
  seqAttr : s.seqAttr = memberAttr d
  orelse : s.orelse = .broadcast (memberAttr d) chk err
  bound : s.fnName = d.name ∧ s.decTarget = d.name ∧ d.getterFn = d.name

theorem wfBroadcast_unpack (d : Descriptor) (h : d.wfBroadcast = true) : ∃ s ks chk err, WFB d s ks chk err := by
  unfold Descriptor.wfBroadcast at h
  cases hg : d.getter with
  | each a =>
    cases hs : d.setter with
    | none => simp [hg, hs] at h
    | some sd =>
      cases sd with
      | broadcast s =>
        simp only [hg, hs, Bool.and_eq_true, beq_iff_eq] at h
        obtain ⟨⟨⟨⟨⟨⟨⟨⟨ha, hgf⟩, hfn⟩, hdt⟩, hlc⟩, hle⟩, hsa⟩, htest⟩, hor⟩ := h
        cases ht : s.test with
        | isinst ks =>
          cases ho : s.orelse with
          | broadcast a' chk err =>
            simp only [ht] at htest
            simp only [ho, beq_iff_eq] at hor
            subst hor
            exact ⟨s, ks, chk, err, ⟨by rw [hg, ha], hs, ht, htest, hlc, hle, by rw [hsa, ha], by rw [ho, ha], hfn, hdt, hgf⟩⟩
          | raise e => simp [ho] at hor
          | absent => simp [ho] at hor
        | sized => simp [ht] at htest
        | allItems ks => simp [ht] at htest
      | _ => simp [hg, hs] at h
  | memberList => simp [hg] at h
  | unrecognised x => simp [hg] at h

theorem WFB.kindsOf {d : Descriptor} {s ks chk err} (h : WFB d s ks chk err) : kindsOf d = ks := by
  simp [Cherab.Groups.kindsOf, h.setter, h.test]

theorem WFB.elemChk {d : Descriptor} {s ks chk err} (h : WFB d s ks chk err) : elemChk d = s.elemEngineCheck := by
  simp [Cherab.Groups.elemChk, h.setter]

theorem WFB.scalarChk {d : Descriptor} {s ks chk err} (h : WFB d s ks chk err) : scalarChk d = chk := by
  simp [Cherab.Groups.scalarChk, h.setter, h.orelse]

theorem WFB.run {d : Descriptor} {s ks chk err} (h : WFB d s ks chk err) (w : World) (v : Val) :
    setAttr d w v = if kindIn v.obj.kind ks then seqBranch s w v else elseBranch s w v := by
  simp [setAttr, h.setter, Setter.run, h.test]

theorem seqBranch_wrong_length (s : Setter) (w : World) (v : Val) (hl : s.lenCheck = true)
    (hlen : v.items.length ≠ w.members.length) : seqBranch s w v = (w, some s.lenErr) := by
  simp [seqBranch, hl, hlen]

theorem seqBranch_ok (s : Setter) (w : World) (v : Val) (hlen : v.items.length = w.members.length)
    (hok : ∀ o ∈ v.items, Passes s.elemEngineCheck o) (hnd : w.members.Nodup) :
    (seqBranch s w v).2 = none ∧ Wrote s.seqAttr w (seqBranch s w v).1 (v.items.map (·.stored)) := by
  have hb : (s.lenCheck && v.items.length != w.members.length) = false := by simp [hlen]
  obtain ⟨h1, h2, h3⟩ := assignZip_spec s.seqAttr s.elemEngineCheck s.elemErr w.members v.items w.heap hlen hok hnd
  simp only [seqBranch, hb, World.withHeap, Bool.false_eq_true, if_false]
  refine ⟨h1, rfl, rfl, ?_, h3⟩
  apply List.ext_getElem
  · simp [readEach, hlen]
  · intro i hi1 hi2
    simp only [readEach, List.getElem_map]
    exact h2 i (by simpa [readEach] using hi1) (by simpa using hi2)

theorem elseBranch_broadcast_ok (s : Setter) (a : Attr) (chk : Bool) (err : Err) (hs : s.orelse = .broadcast a chk err)
    (w : World) (v : Val) (hok : Passes chk v.obj) :
    (elseBranch s w v).2 = none ∧ Wrote a w (elseBranch s w v).1 (List.replicate w.members.length v.obj.stored) := by
  have hchk : (chk && !v.obj.engine) = false := by
    cases hc : chk
    · rfl
    · simp [hok.2 hc]
  obtain ⟨h1, h2, h3⟩ := assignAll_spec a v.obj hok.1 w.members w.heap
  simp only [elseBranch, hs, hchk, World.withHeap, Bool.false_eq_true, if_false]
  refine ⟨h1, rfl, rfl, ?_, h3⟩
  apply List.ext_getElem
  · simp [readEach]
  · intro i hi1 hi2
    simp only [readEach, List.getElem_map, List.getElem_replicate]
    exact h2 _ (List.getElem_mem _)

/-- no setter body ever changes membership, parents or types, and it writes at most one member attribute of members
(true for *every* descriptor, well-formed or not, and also when an exception interrupts a loop) -/
theorem Setter.run_frame (s : Setter) (w : World) (v : Val) :
    (s.run w v).1.members = w.members ∧ (s.run w v).1.gid = w.gid ∧
    ∃ a, Frame a w.members w.heap (s.run w v).1.heap := by
  have hseq : (seqBranch s w v).1.members = w.members ∧ (seqBranch s w v).1.gid = w.gid ∧
      ∃ a, Frame a w.members w.heap (seqBranch s w v).1.heap := by
    unfold seqBranch
    split
    · exact ⟨rfl, rfl, "", Frame.refl _ _ _⟩
    · exact ⟨rfl, rfl, s.seqAttr, assignZip_frame _ _ _ _ _ _⟩
  have hels : (elseBranch s w v).1.members = w.members ∧ (elseBranch s w v).1.gid = w.gid ∧
      ∃ a, Frame a w.members w.heap (elseBranch s w v).1.heap := by
    unfold elseBranch
    split
    · split
      · exact ⟨rfl, rfl, "", Frame.refl _ _ _⟩
      · exact ⟨rfl, rfl, _, assignAll_frame _ _ _ _⟩
    · exact ⟨rfl, rfl, "", Frame.refl _ _ _⟩
    · exact ⟨rfl, rfl, "", Frame.refl _ _ _⟩
  unfold Setter.run
  split
  · split
    · exact hseq
    · exact hels
  · split
    · exact ⟨rfl, rfl, "", Frame.refl _ _ _⟩
    · exact hseq
  · split
    · exact ⟨rfl, rfl, "", Frame.refl _ _ _⟩
    · split
      · exact hseq
      · exact hels

theorem Wrote.each {a : Attr} {w w' : World} {x : Nat} (h : Wrote a w w' (List.replicate w.members.length x)) :
    ∀ u ∈ w.members, (w'.heap u).attrs a = x := by
  intro u hu
  have hr := h.read
  unfold readEach at hr
  rw [h.members] at hr
  have : (w'.heap u).attrs a ∈ List.replicate w.members.length x := by
    rw [← hr]; exact List.mem_map_of_mem hu
  exact (List.mem_replicate.mp this).2

theorem Wrote.nth {a : Attr} {w w' : World} {xs : List Nat} (h : Wrote a w w' xs) :
    ∀ i (h1 : i < w.members.length) (h2 : i < xs.length), (w'.heap w.members[i]).attrs a = xs[i] := by
  intro i h1 h2
  have hr := h.read
  unfold readEach at hr
  rw [h.members] at hr
  subst hr
  simp

theorem World.ext' {w w' : World} (hg : w'.gid = w.gid) (hm : w'.members = w.members) (hh : HeapEq w.heap w'.heap) : w' = w := by
  cases w; cases w'
  simp only at hg hm
  subst hg; subst hm
  simp only [World.mk.injEq, true_and, and_true]
  exact hh.eq

theorem Wrote.again {a : Attr} {w w' w'' : World} {xs : List Nat} (h1 : Wrote a w w' xs) (h2 : Wrote a w' w'' xs) : w'' = w' := by
  apply World.ext' h2.gid h2.members
  intro u
  refine ⟨?_, (h2.frame.2 u).1, (h2.frame.2 u).2⟩
  intro b
  by_cases hb : b ≠ a ∨ u ∉ w'.members
  · exact h2.frame.1 u b hb
  · have hb' : b = a ∧ u ∈ w'.members := by
      constructor
      · by_contra hne; exact hb (Or.inl hne)
      · by_contra hne; exact hb (Or.inr hne)
    obtain ⟨rfl, hu⟩ := hb'
    have e : readEach w'' b = readEach w' b := by rw [h2.read, h1.read]
    unfold readEach at e
    rw [h2.members] at e
    exact List.map_inj_left.mp e u hu

/-- what all broadcast-family shapes share -/
structure Core (d : Descriptor) (s : Setter) : Prop where
  getter : d.getter = .each (memberAttr d)
  setter : d.setter = some (.broadcast s)
  lenCheck : s.lenCheck = true
  lenErr : s.lenErr = .valueError
  seqAttr : s.seqAttr = memberAttr d
  noElemChk : s.elemEngineCheck = false

theorem Core.read {d : Descriptor} {s : Setter} (h : Core d s) (w : World) :
    getAttr d w = .vals (w.members.map fun u => (w.heap u).attrs (memberAttr d)) := by
  simp [getAttr, h.getter, readEach]

theorem Core.seq_ok {d : Descriptor} {s : Setter} (h : Core d s) (w : World) (v : Val)
    (hlen : v.items.length = w.members.length) (hok : ∀ o ∈ v.items, o.rej = none) (hnd : w.members.Nodup) :
    (seqBranch s w v).2 = none ∧ Wrote (memberAttr d) w (seqBranch s w v).1 (v.items.map (·.stored)) := by
  have := seqBranch_ok s w v hlen (fun o ho => ⟨hok o ho, by simp [h.noElemChk]⟩) hnd
  rwa [h.seqAttr] at this

theorem Core.seq_wrong {d : Descriptor} {s : Setter} (h : Core d s) (w : World) (v : Val)
    (hlen : v.items.length ≠ w.members.length) : seqBranch s w v = (w, some .valueError) := by
  rw [seqBranch_wrong_length s w v h.lenCheck hlen, h.lenErr]

theorem wfSeqOnly_unpack (d : Descriptor) (h : d.wfSeqOnly = true) :
    ∃ s ks, Core d s ∧ s.test = .isinst ks ∧ hasListTuple ks = true ∧ s.orelse = .raise .typeError := by
  unfold Descriptor.wfSeqOnly at h
  cases hg : d.getter with
  | each a =>
    cases hs : d.setter with
    | none => simp [hg, hs] at h
    | some sd =>
      cases sd with
      | broadcast s =>
        simp only [hg, hs, Bool.and_eq_true, beq_iff_eq, Bool.not_eq_true'] at h
        obtain ⟨⟨⟨⟨⟨⟨⟨⟨⟨ha, _⟩, _⟩, _⟩, hlc⟩, hle⟩, hsa⟩, hec⟩, htest⟩, hor⟩ := h
        cases ht : s.test with
        | isinst ks =>
          simp only [ht] at htest
          exact ⟨s, ks, ⟨by rw [hg, ha], hs, hlc, hle, by rw [hsa, ha], hec⟩, ht, htest, hor⟩
        | sized => simp [ht] at htest
        | allItems ks => simp [ht] at htest
      | _ => simp [hg, hs] at h
  | memberList => simp [hg] at h
  | unrecognised x => simp [hg] at h

theorem wfLenOnly_unpack (d : Descriptor) (h : d.wfLenOnly = true) : ∃ s, Core d s ∧ s.test = .sized := by
  unfold Descriptor.wfLenOnly at h
  cases hg : d.getter with
  | each a =>
    cases hs : d.setter with
    | none => simp [hg, hs] at h
    | some sd =>
      cases sd with
      | broadcast s =>
        simp only [hg, hs, Bool.and_eq_true, beq_iff_eq, Bool.not_eq_true'] at h
        obtain ⟨⟨⟨⟨⟨⟨⟨⟨ha, _⟩, _⟩, _⟩, hlc⟩, hle⟩, hsa⟩, hec⟩, htest⟩ := h
        exact ⟨s, ⟨by rw [hg, ha], hs, hlc, hle, by rw [hsa, ha], hec⟩, htest⟩
      | _ => simp [hg, hs] at h
  | memberList => simp [hg] at h
  | unrecognised x => simp [hg] at h

theorem wfAllSeq_unpack (d : Descriptor) (h : d.wfAllSeq = true) :
    ∃ s ks err, Core d s ∧ s.test = .allItems ks ∧ hasListTuple ks = true ∧ s.orelse = .broadcast (memberAttr d) false err := by
  unfold Descriptor.wfAllSeq at h
  cases hg : d.getter with
  | each a =>
    cases hs : d.setter with
    | none => simp [hg, hs] at h
    | some sd =>
      cases sd with
      | broadcast s =>
        simp only [hg, hs, Bool.and_eq_true, beq_iff_eq, Bool.not_eq_true'] at h
        obtain ⟨⟨⟨⟨⟨⟨⟨⟨⟨ha, _⟩, _⟩, _⟩, hlc⟩, hle⟩, hsa⟩, hec⟩, htest⟩, hor⟩ := h
        cases ht : s.test with
        | allItems ks =>
          cases ho : s.orelse with
          | broadcast a' chk err =>
            simp only [ht] at htest
            simp only [ho, Bool.and_eq_true, beq_iff_eq, Bool.not_eq_true'] at hor
            obtain ⟨rfl, rfl⟩ := hor
            exact ⟨s, ks, err, ⟨by rw [hg, ha], hs, hlc, hle, by rw [hsa, ha], hec⟩, ht, htest, by rw [ho, ha]⟩
          | raise e => simp [ho] at hor
          | absent => simp [ho] at hor
        | sized => simp [ht] at htest
        | isinst ks => simp [ht] at htest
      | _ => simp [hg, hs] at h
  | memberList => simp [hg] at h
  | unrecognised x => simp [hg] at h

/-- every member's scene-graph parent is the group, and every member is of an accepted type -/
def Inv (ci : ClassInfo) (w : World) : Prop :=
  ∀ u ∈ w.members, (w.heap u).parent = some w.gid ∧ typeOk w.heap ci.accepted u = true

theorem typeOk_congr {h h' : Heap} (acc : List String) (u : Nat) (e : (h' u).types = (h u).types) :
    typeOk h' acc u = typeOk h acc u := by
  simp [typeOk, e]

theorem Inv.of_frame {ci : ClassInfo} {w w' : World} {a : Attr} (hi : Inv ci w) (hm : w'.members = w.members)
    (hg : w'.gid = w.gid) (f : Frame a w.members w.heap w'.heap) : Inv ci w' := by
  intro u hu
  rw [hm] at hu
  obtain ⟨p, t⟩ := hi u hu
  exact ⟨by rw [(f.2 u).1, hg]; exact p, by rw [typeOk_congr _ _ (f.2 u).2]; exact t⟩

theorem reparentAll_spec (g : Nat) (us : List Nat) (h : Heap) :
    (∀ u ∈ us, ((reparentAll g us h) u).parent = some g) ∧
    (∀ u, u ∉ us → ((reparentAll g us h) u).parent = (h u).parent) ∧
    (∀ u, ((reparentAll g us h) u).types = (h u).types ∧ ((reparentAll g us h) u).attrs = (h u).attrs) := by
  induction us generalizing h with
  | nil => simp [reparentAll]
  | cons x us ih =>
    obtain ⟨h1, h2, h3⟩ := ih (h.setParent x (some g))
    simp only [reparentAll]
    refine ⟨?_, ?_, ?_⟩
    · intro u hu
      by_cases hux : u ∈ us
      · exact h1 u hux
      · have : u = x := by simpa [hux] using hu
        subst this
        rw [h2 u hux]; simp
    · intro u hu
      have hux : u ∉ us := fun hm => hu (List.mem_cons_of_mem _ hm)
      have hne : u ≠ x := fun e => hu (e ▸ List.mem_cons_self)
      rw [h2 u hux]; exact setParent_parent_other h x u _ hne
    · intro u
      obtain ⟨t, a⟩ := h3 u
      exact ⟨by rw [t]; simp, by rw [a]; simp⟩

theorem reparentChecked_spec (g : Nat) (acc : List String) (e : Err) (us : List Nat) (h : Heap) :
    (∀ u, ((reparentChecked g acc e us h).1 u).types = (h u).types ∧
          ((reparentChecked g acc e us h).1 u).attrs = (h u).attrs ∧
          (((reparentChecked g acc e us h).1 u).parent = (h u).parent ∨
           ((reparentChecked g acc e us h).1 u).parent = some g)) ∧
    ((reparentChecked g acc e us h).2 = none →
      ∀ u ∈ us, ((reparentChecked g acc e us h).1 u).parent = some g ∧ typeOk h acc u = true) ∧
    ((reparentChecked g acc e us h).2 ≠ none →
      (reparentChecked g acc e us h).2 = some e ∧ ∃ u ∈ us, typeOk h acc u = false) := by
  induction us generalizing h with
  | nil => simp [reparentChecked]
  | cons x us ih =>
    simp only [reparentChecked]
    by_cases hx : typeOk h acc x = true
    · simp only [hx, if_true]
      obtain ⟨h1, h2, h3⟩ := ih (h.setParent x (some g))
      have tc : ∀ u, typeOk (h.setParent x (some g)) acc u = typeOk h acc u :=
        fun u => typeOk_congr _ _ (by simp)
      refine ⟨?_, ?_, ?_⟩
      · intro u
        obtain ⟨t, a, p⟩ := h1 u
        refine ⟨by rw [t]; simp, by rw [a]; simp, ?_⟩
        rcases p with p | p
        · by_cases hux : u = x
          · subst hux; right; rw [p]; simp
          · left; rw [p]; exact setParent_parent_other h x u _ hux
        · exact Or.inr p
      · intro hn u hu
        by_cases hux : u ∈ us
        · obtain ⟨p, t⟩ := h2 hn u hux
          exact ⟨p, by rw [← tc u]; exact t⟩
        · have : u = x := by simpa [hux] using hu
          subst this
          refine ⟨?_, hx⟩
          rcases (h1 u).2.2 with p | p
          · rw [p]; simp
          · exact p
      · intro hn
        obtain ⟨he, u, hu, ht⟩ := h3 hn
        exact ⟨he, u, List.mem_cons_of_mem _ hu, by rw [← tc u]; exact ht⟩
    · have hx' : typeOk h acc x = false := by simpa using hx
      have hr : (if typeOk h acc x = true then reparentChecked g acc e us (h.setParent x (some g)) else (h, some e)) = (h, some e) := by
        simp [hx']
      rw [hr]
      exact ⟨fun u => ⟨rfl, rfl, Or.inl rfl⟩, fun hn => absurd hn (by simp), fun _ => ⟨rfl, x, List.mem_cons_self, hx'⟩⟩

theorem MemberSetter.run_inv (m : MemberSetter) (ci : ClassInfo) (w : World) (k : Option SeqKind) (us : List Nat)
    (hi : Inv ci w) : Inv ci (m.run ci w k us).1 ∧ (m.run ci w k us).1.gid = w.gid := by
  unfold MemberSetter.run
  split
  · exact ⟨hi, rfl⟩
  · split
    · split
      · rename_i hall
        obtain ⟨h1, _, h3⟩ := reparentAll_spec w.gid us w.heap
        refine ⟨?_, rfl⟩
        intro u hu
        refine ⟨h1 u hu, ?_⟩
        rw [typeOk_congr _ _ (h3 u).1]
        exact List.all_eq_true.mp hall u hu
      · exact ⟨hi, rfl⟩
    · obtain ⟨h1, h2, _⟩ := reparentChecked_spec w.gid ci.accepted m.elemErr us w.heap
      split
      · rename_i hh heq
        have e1 : (reparentChecked w.gid ci.accepted m.elemErr us w.heap).1 = hh := by rw [heq]
        have e2 : (reparentChecked w.gid ci.accepted m.elemErr us w.heap).2 = none := by rw [heq]
        refine ⟨?_, rfl⟩
        intro u hu
        obtain ⟨p, t⟩ := h2 e2 u hu
        rw [e1] at p
        refine ⟨p, ?_⟩
        rw [typeOk_congr (h := w.heap) _ _ (by rw [← e1]; exact (h1 u).1)]
        exact t
      · rename_i hh e' heq
        have e1 : (reparentChecked w.gid ci.accepted m.elemErr us w.heap).1 = hh := by rw [heq]
        refine ⟨?_, rfl⟩
        intro u hu
        obtain ⟨p, t⟩ := hi u hu
        obtain ⟨t', _, p'⟩ := h1 u
        rw [e1] at t' p'
        refine ⟨?_, ?_⟩
        · rcases p' with p' | p'
          · show (hh u).parent = some w.gid
            rw [p']; exact p
          · exact p'
        · show typeOk hh ci.accepted u = true
          rw [typeOk_congr (h := w.heap) _ _ t']; exact t

theorem pyIndex_nonneg (xs : List Nat) (i : Nat) (hi : i < xs.length) : pyIndex xs (i : Int) = some xs[i] := by
  unfold pyIndex
  have : (0 : Int) ≤ (i : Int) ∧ (i : Int) < (xs.length : Int) := ⟨by omega, by omega⟩
  simp [this, hi]

theorem pyIndex_negative (xs : List Nat) (k : Nat) (hk1 : 1 ≤ k) (hk2 : k ≤ xs.length) :
    pyIndex xs (-(k : Int)) = xs[xs.length - k]? := by
  unfold pyIndex
  have h1 : ¬ ((0 : Int) ≤ -(k : Int) ∧ -(k : Int) < (xs.length : Int)) := by omega
  have h2 : -(xs.length : Int) ≤ -(k : Int) ∧ -(k : Int) < 0 := ⟨by omega, by omega⟩
  have h3 : (-(k : Int) + (xs.length : Int)).toNat = xs.length - k := by omega
  simp only [h1, h2, if_false, and_self, if_true, h3]

theorem pyIndex_out_of_range (xs : List Nat) (i : Int) (h : (xs.length : Int) ≤ i ∨ i < -(xs.length : Int)) :
    pyIndex xs i = none := by
  unfold pyIndex
  have h1 : ¬ ((0 : Int) ≤ i ∧ i < (xs.length : Int)) := by omega
  have h2 : ¬ (-(xs.length : Int) ≤ i ∧ i < 0) := by omega
  simp only [h1, h2, if_false]

theorem sliceIdx_up (fuel a b : Nat) (hf : b - a ≤ fuel) :
    sliceIdx 1 (b : Int) fuel (a : Int) = List.map (fun i : Nat => (i : Int)) (List.range' a (b - a)) := by
  induction fuel generalizing a with
  | zero =>
    have : b - a = 0 := by omega
    simp [sliceIdx, this]
  | succ fuel ih =>
    unfold sliceIdx
    by_cases hab : a < b
    · have hc : ((0 : Int) < 1 ∧ (a : Int) < (b : Int)) ∨ ((1 : Int) < 0 ∧ (a : Int) > (b : Int)) := Or.inl ⟨by omega, by omega⟩
      have hs : b - a = (b - (a + 1)) + 1 := by omega
      simp only [hc, if_true]
      have := ih (a + 1) (by omega)
      rw [show ((a : Int) + 1) = ((a + 1 : Nat) : Int) by push_cast; ring, this, hs, List.range'_succ]
      simp
    · have hc : ¬ (((0 : Int) < 1 ∧ (a : Int) < (b : Int)) ∨ ((1 : Int) < 0 ∧ (a : Int) > (b : Int))) := by omega
      have : b - a = 0 := by omega
      rw [if_neg hc, this]
      rfl

theorem filterMap_range' (xs : List Nat) (a k : Nat) (h : a + k ≤ xs.length) :
    (List.range' a k).filterMap (fun i => xs[i]?) = (xs.drop a).take k := by
  induction k generalizing a with
  | zero => simp
  | succ k ih =>
    have ha : a < xs.length := by omega
    rw [List.range'_succ, List.filterMap_cons, List.getElem?_eq_getElem ha]
    simp only
    rw [ih (a + 1) (by omega), List.drop_eq_getElem_cons ha, List.take_succ_cons]

/-- `group[a:b]` for `0 ≤ a ≤ b ≤ len`: the members `a … b-1` in order -/
theorem pySlice_simple (xs : List Nat) (a b : Nat) (hab : a ≤ b) (hb : b ≤ xs.length) :
    pySlice xs (some (a : Int)) (some (b : Int)) none = some ((xs.drop a).take (b - a)) := by
  unfold pySlice
  have ha' : adjustBound (xs.length : Int) 1 (some (a : Int)) 0 = (a : Int) := by
    unfold adjustBound
    by_cases h : a = xs.length
    · have : ¬ ((a : Int) < 0) := by omega
      simp [this, h]
    · have h1 : ¬ ((a : Int) < 0) := by omega
      have h2 : ¬ ((a : Int) ≥ (xs.length : Int)) := by omega
      simp [h1, h2]
  have hb' : adjustBound (xs.length : Int) 1 (some (b : Int)) (xs.length : Int) = (b : Int) := by
    unfold adjustBound
    by_cases h : b = xs.length
    · have : ¬ ((b : Int) < 0) := by omega
      simp [this, h]
    · have h1 : ¬ ((b : Int) < 0) := by omega
      have h2 : ¬ ((b : Int) ≥ (xs.length : Int)) := by omega
      simp [h1, h2]
  simp only [Option.getD_none, one_ne_zero, if_false, show ¬ ((1 : Int) < 0) by omega, ha', hb']
  rw [sliceIdx_up xs.length a b (by omega), List.filterMap_map]
  have : ((fun i : Int => xs[i.toNat]?) ∘ fun i : Nat => (i : Int)) = fun i : Nat => xs[i]? := by
    funext i; simp
  rw [this, filterMap_range' xs a (b - a) (by omega)]

/-- whatever the slice, only members come back -/
theorem pySlice_members (xs : List Nat) (a b c : Option Int) (us : List Nat) (h : pySlice xs a b c = some us) :
    ∀ u ∈ us, u ∈ xs := by
  unfold pySlice at h
  simp only at h
  split at h
  · exact absurd h (by simp)
  · have := Option.some.inj h
    subst this
    intro u hu
    obtain ⟨i, _, hi⟩ := List.mem_filterMap.mp hu
    exact List.mem_of_getElem? hi

theorem filter_unique (l : List Nat) (p : Nat → Bool) (u : Nat) (hnd : l.Nodup) (hu : u ∈ l) (hp : p u = true)
    (hother : ∀ x ∈ l, x ≠ u → p x = false) : l.filter p = [u] := by
  induction l with
  | nil => simp at hu
  | cons x l ih =>
    obtain ⟨hx, hnd'⟩ := List.nodup_cons.mp hnd
    by_cases hxu : x = u
    · subst hxu
      have : l.filter p = [] := by
        apply List.filter_eq_nil_iff.mpr
        intro y hy
        have : y ≠ x := fun e => hx (e ▸ hy)
        simp [hother y (List.mem_cons_of_mem _ hy) this]
      simp [hp, this]
    · have hu' : u ∈ l := by
        rcases List.mem_cons.mp hu with e | e
        · exact absurd e.symm hxu
        · exact e
      have := ih hnd' hu' (fun y hy hne => hother y (List.mem_cons_of_mem _ hy) hne)
      simp [hother x List.mem_cons_self hxu, this]

theorem find_unique (l : List Nat) (p : Nat → Bool) (u : Nat) (hu : u ∈ l) (hp : p u = true)
    (hother : ∀ x ∈ l, x ≠ u → p x = false) : l.find? p = some u := by
  induction l with
  | nil => simp at hu
  | cons y l ih =>
    by_cases hyu : y = u
    · subst hyu; simp [List.find?_cons, hp]
    · have hy : p y = false := hother y List.mem_cons_self hyu
      have hu' : u ∈ l := by
        rcases List.mem_cons.mp hu with e | e
        · exact absurd e.symm hyu
        · exact e
      simp only [List.find?_cons, hy]
      exact ih hu' (fun z hz hne => hother z (List.mem_cons_of_mem _ hz) hne)

/-! ### deepening pass: error-freeness without distinctness, table lookup -/

/-- when every element passes, the zip loop raises nothing (no distinctness of members needed) -/
theorem assignZip_noerr (a : Attr) (chk : Bool) (e : Err) (us : List Nat) (os : List Obj) (h : Heap)
    (hok : ∀ o ∈ os, Passes chk o) : (assignZip a chk e us os h).2 = none := by
  induction us generalizing os h with
  | nil => cases os <;> rfl
  | cons u us ih =>
    cases os with
    | nil => rfl
    | cons o os =>
      rw [assignZip_cons a chk e u us o os h (hok o List.mem_cons_self)]
      exact ih os _ (fun o' ho' => hok o' (List.mem_cons_of_mem _ ho'))

theorem assignAll_noerr (a : Attr) (o : Obj) (ho : o.rej = none) (us : List Nat) (h : Heap) :
    (assignAll a o us h).2 = none := (assignAll_spec a o ho us h).1

/-- the element-wise branch either refuses on the length (world untouched) or, when every element passes, raises nothing -/
theorem seqBranch_err_unchanged (s : Setter) (w : World) (v : Val) (hl : s.lenCheck = true)
    (hok : ∀ o ∈ v.items, Passes s.elemEngineCheck o) (he : (seqBranch s w v).2 ≠ none) : (seqBranch s w v).1 = w := by
  by_cases hlen : v.items.length = w.members.length
  · exfalso; apply he
    have hb : (s.lenCheck && v.items.length != w.members.length) = false := by simp [hlen]
    simp only [seqBranch, hb, World.withHeap, Bool.false_eq_true, if_false]
    exact assignZip_noerr _ _ _ _ _ _ hok
  · rw [seqBranch_wrong_length s w v hl hlen]

theorem findDesc_mem {tbl : List Descriptor} {cls name : String} {d : Descriptor} (h : findDesc tbl cls name = some d) :
    d ∈ tbl ∧ d.cls = cls ∧ d.name = name := by
  unfold findDesc at h
  have hm := List.mem_of_find?_eq_some h
  have hp := List.find?_some h
  simp only [Bool.and_eq_true, beq_iff_eq] at hp
  exact ⟨hm, hp.1, hp.2⟩

/-- `add_observer` changes nobody's type (round 6, used by the constructor theorems) -/
theorem typeOk_addObserver (ci : ClassInfo) (w : World) (u x : Nat) (acc : List String) :
    typeOk (addObserver ci w u).1.heap acc x = typeOk w.heap acc x := by
  unfold addObserver
  split
  · apply typeOk_congr
    by_cases hx : x = u <;> simp [Heap.setParent, hx]
  · rfl

end Cherab.Groups
