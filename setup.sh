#!/bin/bash
# offline setup: build /repo's extensions from the working tree, the out-of-tree shim, the Lean library
# (models, theorems) and the native drivers.
set -e
D="$(cd "$(dirname "${BASH_SOURCE[0]}")" && pwd)"
cd "$D"
export PYTHONPATH="$D:$PYTHONPATH"
/venv/bin/python -m harness.vlib.rebuild
if [ -f harness/shim/setup_shim.py ]; then
  (cd harness/shim && /venv/bin/python setup_shim.py build_ext --inplace -q >/dev/null 2>&1 || /venv/bin/python setup_shim.py build_ext --inplace)
fi
cd lean
# build the theorem modules and native drivers of every property claimed in MANIFEST.json
ids=$(/venv/bin/python -c "import json; print(' '.join(c['property_id'] for c in json.load(open('../MANIFEST.json'))['checks']))")
targets=""
for id in $ids; do
  for f in Cherab/Props/${id}*.lean; do [ -f "$f" ] && targets="$targets Cherab.Props.$(basename "$f" .lean)"; done
  low=$(echo "$id" | tr 'C' 'c')
  targets="$targets drv_$low"
done
./lk $targets || echo "WARNING: some Lean targets failed to build; the affected checks will report it"
echo "setup complete"
