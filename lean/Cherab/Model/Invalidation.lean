namespace Inval

structure Proto (P C : Type) where
  deps   : C → List P
  clears : P → List C

structure St (P C : Type) where
  ver   : P → Nat
  cache : C → Option (P → Nat)

inductive Op (P C : Type) where
  | set (p : P)
  | obs (c : C)

variable {P C : Type} [DecidableEq P] [DecidableEq C]

def init : St P C := { ver := fun _ => 0, cache := fun _ => none }

def setP (pr : Proto P C) (s : St P C) (p : P) : St P C :=
  { ver := fun q => if q = p then s.ver q + 1 else s.ver q,
    cache := fun c => if c ∈ pr.clears p then none else s.cache c }

def fill (s : St P C) (c : C) : St P C :=
  match s.cache c with
  | some _ => s
  | none => { s with cache := fun d => if d = c then some s.ver else s.cache d }

def view (pr : Proto P C) (s : St P C) (c : C) : List Nat :=
  match s.cache c with
  | some snap => (pr.deps c).map snap
  | none => (pr.deps c).map s.ver

def step (pr : Proto P C) (s : St P C) : Op P C → St P C × Option (List Nat)
  | .set p => (setP pr s p, none)
  | .obs c => let s' := fill s c; (s', some (view pr s' c))

def run (pr : Proto P C) (s : St P C) (ops : List (Op P C)) : St P C :=
  ops.foldl (fun s o => (step pr s o).1) s

def Inv (pr : Proto P C) (s : St P C) : Prop :=
  ∀ c snap, s.cache c = some snap → ∀ p ∈ pr.deps c, snap p = s.ver p

def Covered (pr : Proto P C) : Prop := ∀ c p, p ∈ pr.deps c → c ∈ pr.clears p

theorem inv_init (pr : Proto P C) : Inv pr (init : St P C) := by
  intro c snap h; simp [init] at h

theorem inv_set (pr : Proto P C) (hc : Covered pr) (s : St P C) (p : P) (h : Inv pr s) :
    Inv pr (setP pr s p) := by
  intro c snap hs q hq
  simp only [setP] at hs ⊢
  split at hs
  · cases hs
  · rename_i hnot
    have := h c snap hs q hq
    by_cases hqp : q = p
    · subst hqp; exact absurd (hc c q hq) hnot
    · simp [hqp, this]

theorem inv_fill (pr : Proto P C) (s : St P C) (c : C) (h : Inv pr s) : Inv pr (fill s c) := by
  unfold fill
  split
  · exact h
  · intro d snap hs q hq
    simp only at hs
    split at hs
    · cases hs; rfl
    · exact h d snap hs q hq

theorem inv_run (pr : Proto P C) (hc : Covered pr) (ops : List (Op P C)) (s : St P C) (h : Inv pr s) :
    Inv pr (run pr s ops) := by
  induction ops generalizing s with
  | nil => exact h
  | cons o os ih =>
    apply ih
    cases o with
    | set p => exact inv_set pr hc s p h
    | obs c => exact inv_fill pr s c h

/-- main: after any history, an observation equals the from-scratch observation of the final configuration -/
theorem no_stale (pr : Proto P C) (hc : Covered pr) (ops : List (Op P C)) (c : C) :
    let s := run pr init ops
    (step pr s (.obs c)).2 = some ((pr.deps c).map s.ver) := by
  intro s
  have hI : Inv pr s := inv_run pr hc ops init (inv_init pr)
  have hF := inv_fill pr s c hI
  simp only [step, view]
  congr 1
  cases hcache : (fill s c).cache c with
  | none => simp [fill]; split <;> simp_all [fill]
  | some snap =>
    simp only
    apply List.map_congr_left
    intro p hp
    have := hF c snap hcache p hp
    rw [this]
    unfold fill; split <;> rfl

/-- converse witness -/
theorem stale_witness (pr : Proto P C) (c : C) (p : P) (hd : p ∈ pr.deps c) (hn : c ∉ pr.clears p) :
    let s := run pr init [.obs c, .set p]
    (step pr s (.obs c)).2 ≠ some ((pr.deps c).map s.ver) := by
  intro s h
  simp only [s, run, List.foldl, step, fill, init, setP, view, hn, if_false, if_true, ite_true] at h
  simp at h
  have := h p hd
  simp at this

end Inval
