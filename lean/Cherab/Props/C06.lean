import Cherab.Lemmas.Repository

/-!
# C06 — rate repository: last write wins per key, other keys untouched, no stray files

Property theorems about `Cherab.Repository` (Model/Repository.lean), for **every** table `T : Tables` that satisfies the
decidable well-formedness predicate `T.wellFormed`, every history of calls, every input.  That the tables generated
from /repo's current source are well-formed is the separate, `decide`d obligation of `Props/C06Table.lean`.

Clauses of the property sentence → theorems
* "every subsequent read of a key returns exactly the arrays most recently written for that key through the matching
  add or update function, all other keys keep their previous content, a key never written raises RuntimeError"
  → `refines_kv`, `last_write_wins`, `never_written_raises`, `getter_reads_kv`, `beam_cx_getter_reads_kv`,
    `add_matches_update_of_tables`, `stored_arrays_are_inputs`
* "keys are (family, symbol, charge[, donor/metastable][, transition])" → `paths_injective`, `keys_injective`
* "transition levels compared by their lower-cased string form" → `transition_key_iff_lower_equal`
  (needs: no `>` in the level strings — `transition_separator_collision` shows the hypothesis cannot be dropped)
* "every file created lies under the repository path that was passed" → `writes_under_root`,
  `dropped_root_escapes` (why `rootPassed` is needed)
* "an update that is rejected for invalid data leaves previously stored keys readable" → `rejected_update_preserves`,
  `call_preserves_or_writes` (every kind of call; old value or a value this call passed), `rejected_call_not_atomic`
  (why not "unchanged"), `accepted_update_every_target_readable` (bulk updates over several / fresh files)
* histories may contain add_*, update_*, install_*, `install_files` and `populate` calls (`Op`; `installFiles_refines`,
  `populate_refines`); `arg_key_iff`: call arguments ↦ key components
-/
namespace Cherab.Props.C06
open Cherab.Repository

/-! ## histories -/

inductive Op
  | upd (u : UpdFn) (inp : UpdInput) (root : Option Path)
  | add (a : AddFn) (args : List Arg) (items : List (List Arg × Rate)) (root : Option Path)
  | ins (i : InstallFn) (inps : List UpdInput) (root : Option Path)
  /-- `install_files(configuration, repository_path=root)`: the dispatched `install_*` calls with their parsed data -/
  | files (cfg : List (InstallFn × List UpdInput)) (root : Option Path)
  /-- `repository.populate(repository_path=root)`: `install_files`, then `update_wavelengths` -/
  | populate (cfg : List (InstallFn × List UpdInput)) (wl : UpdInput) (root : Option Path)

def Op.root : Op → Option Path
  | .upd _ _ r => r
  | .add _ _ _ r => r
  | .ins _ _ r => r
  | .files _ r => r
  | .populate _ _ r => r

def Op.isFrontEnd : Op → Bool
  | .files _ _ => true
  | .populate _ _ _ => true
  | _ => false

/-- the model's execution of one call -/
def Op.run (T : Tables) : Op → FS → Res
  | .upd u inp r => update T u inp r
  | .add a args items r => Repository.add T a args items r
  | .ins i inps r => install T i inps r
  | .files cfg r => installFiles T cfg r
  | .populate cfg wl r => Repository.populate T cfg wl r

/-- a history: every call runs on the file system the previous one left (an exception aborts only its own call) -/
def runOps (T : Tables) (ops : List Op) (fs : FS) : FS := ops.foldl (fun fs op => (op.run T fs).1) fs

/-- point updates of a front-end: its `update_*` calls in order, up to the first rejected one -/
def insPuts (T : Tables) : List (UpdFn × Bool) → List UpdInput → List (Key × Val) × Option Err
  | (u, _) :: cs, inp :: inps =>
    match (updPuts T u (u.prep T inp)).2 with
    | none => ((updPuts T u (u.prep T inp)).1 ++ (insPuts T cs inps).1, (insPuts T cs inps).2)
    | some e => ((updPuts T u (u.prep T inp)).1, some e)
  | _, _ => ([], none)

/-- point updates of `install_files`: its `install_*` calls in dispatch order, up to the first rejected one -/
def filesPuts (T : Tables) : List (InstallFn × List UpdInput) → List (Key × Val) × Option Err
  | [] => ([], none)
  | (i, inps) :: rest =>
    match (insPuts T (T.installCalls i) inps).2 with
    | none => ((insPuts T (T.installCalls i) inps).1 ++ (filesPuts T rest).1, (filesPuts T rest).2)
    | some e => ((insPuts T (T.installCalls i) inps).1, some e)

/-- point updates of `populate`: those of `install_files`, then (if none was rejected) those of `update_wavelengths` -/
def populatePuts (T : Tables) (cfg : List (InstallFn × List UpdInput)) (wl : UpdInput) : List (Key × Val) × Option Err :=
  match (filesPuts T cfg).2 with
  | none => ((filesPuts T cfg).1 ++ (updPuts T .wavelength (UpdFn.prep T .wavelength wl)).1,
             (updPuts T .wavelength (UpdFn.prep T .wavelength wl)).2)
  | some e => ((filesPuts T cfg).1, some e)

/-- **the abstract specification** of one call on the key → value map: a list of point updates and an outcome, both
computed from the call's arguments alone.  `add_y` is the update of the family it is named after.  (`prep` is the
identity, except for `update_pec_rates` while the table flag `pecReindexes` is set: see `Model/Repository.lean`.) -/
def Op.puts (T : Tables) : Op → List (Key × Val) × Option Err
  | .upd u inp _ => updPuts T u (u.prep T inp)
  | .add a args items _ => updPuts T a.own (a.wrap T args items)
  | .ins i inps _ => insPuts T (T.installCalls i) inps
  | .files cfg _ => filesPuts T cfg
  | .populate cfg wl _ => populatePuts T cfg wl

def specRun (T : Tables) (ops : List Op) (m : KV) : KV := ops.foldl (fun m op => applyPuts (op.puts T).1 m) m

def insTyped : List (UpdFn × Bool) → List UpdInput → Prop
  | (u, _) :: cs, inp :: inps => InputTyped u inp ∧ insTyped cs inps
  | _, _ => True

/-- key parts are of the right type (integer charges/metastables, class strings, transition pairs); rate data, species
validity and charge ranges are arbitrary -/
def Op.Typed (T : Tables) : Op → Prop
  | .upd u inp _ => InputTyped u inp
  | .add a args items _ => InputTyped a.own (a.wrap T args items)
  | .ins i inps _ => insTyped (T.installCalls i) inps
  | .files cfg _ => ∀ c ∈ cfg, insTyped (T.installCalls c.1) c.2
  | .populate cfg wl _ => (∀ c ∈ cfg, insTyped (T.installCalls c.1) c.2) ∧ InputTyped .wavelength wl

theorem wellFormed_iff (T : Tables) : T.wellFormed = true ↔
    T.addMatches = true ∧ T.getMatches = true ∧ T.shapesOk = true ∧ T.disjointOk = true ∧ T.rootPassed = true := by
  simp [Tables.wellFormed, Bool.and_eq_true, and_assoc]

theorem installAll_refines (T : Tables) (hS : T.shapesOk = true) (hD : T.disjointOk = true) (root : Option Path)
    (k : Key) (hk : k.ok = true) : ∀ (calls : List (UpdFn × Bool)) (inps : List UpdInput) (fs : FS),
    insTyped calls inps →
    (installAll T calls inps root fs).2 = (insPuts T calls inps).2 ∧
    absView T (resolve root) (installAll T calls inps root fs).1.at k
      = applyPuts (insPuts T calls inps).1 (absView T (resolve root) fs.at) k := by
  intro calls
  induction calls with
  | nil => intro inps fs _; simp [installAll, insPuts, applyPuts]
  | cons c cs ih =>
    intro inps fs ht
    obtain ⟨u, b⟩ := c
    cases inps with
    | nil => simp [installAll, insPuts, applyPuts]
    | cons inp inps =>
      obtain ⟨h1, h2⟩ := update_refines T hS hD u inp ht.1 root fs k hk
      simp only [installAll, insPuts]
      rcases hu : update T u inp root fs with ⟨fs', o⟩
      rw [hu] at h1 h2
      simp only at h1 h2
      rw [← h1]
      cases o with
      | none =>
        simp only []
        obtain ⟨i1, i2⟩ := ih inps fs' ht.2
        refine ⟨i1, ?_⟩
        rw [i2, applyPuts_append]
        exact applyPuts_congr _ _ _ _ h2
      | some e => exact ⟨rfl, h2⟩

theorem installFiles_refines (T : Tables) (hW : T.wellFormed = true) (root : Option Path) (k : Key) (hk : k.ok = true) :
    ∀ (cfg : List (InstallFn × List UpdInput)) (fs : FS), (∀ c ∈ cfg, insTyped (T.installCalls c.1) c.2) →
    (installFiles T cfg root fs).2 = (filesPuts T cfg).2 ∧
    absView T (resolve root) (installFiles T cfg root fs).1.at k
      = applyPuts (filesPuts T cfg).1 (absView T (resolve root) fs.at) k := by
  obtain ⟨_, _, hS, hD, hR⟩ := (wellFormed_iff T).mp hW
  intro cfg
  induction cfg with
  | nil => intro fs _; simp [installFiles, filesPuts, applyPuts]
  | cons c cs ih =>
    intro fs ht
    obtain ⟨i, inps⟩ := c
    have hti : insTyped (T.installCalls i) inps := ht (i, inps) (List.mem_cons_self ..)
    have hts : ∀ c ∈ cs, insTyped (T.installCalls c.1) c.2 := fun c h => ht c (List.mem_cons_of_mem _ h)
    have h12 := installAll_refines T hS hD root k hk (T.installCalls i) inps fs hti
    rw [← installSeq_eq T root _ inps fs (rootPassed_of T hR i)] at h12
    obtain ⟨h1, h2⟩ := h12
    simp only [installFiles, filesPuts, passes_of_rootPassed T hR, if_true, install]
    rcases hu : installSeq T (T.installCalls i) inps root fs with ⟨fs', o⟩
    rw [hu] at h1 h2
    simp only at h1 h2
    rw [← h1]
    cases o with
    | none =>
      simp only []
      obtain ⟨i1, i2⟩ := ih fs' hts
      refine ⟨i1, ?_⟩
      rw [i2, applyPuts_append]
      exact applyPuts_congr _ _ _ _ h2
    | some e => exact ⟨rfl, h2⟩

theorem populate_refines (T : Tables) (hW : T.wellFormed = true) (root : Option Path) (k : Key) (hk : k.ok = true)
    (cfg : List (InstallFn × List UpdInput)) (wl : UpdInput) (fs : FS)
    (ht : (∀ c ∈ cfg, insTyped (T.installCalls c.1) c.2) ∧ InputTyped .wavelength wl) :
    (Repository.populate T cfg wl root fs).2 = (populatePuts T cfg wl).2 ∧
    absView T (resolve root) (Repository.populate T cfg wl root fs).1.at k
      = applyPuts (populatePuts T cfg wl).1 (absView T (resolve root) fs.at) k := by
  obtain ⟨_, _, hS, hD, hR⟩ := (wellFormed_iff T).mp hW
  obtain ⟨h1, h2⟩ := installFiles_refines T hW root k hk cfg fs ht.1
  simp only [Repository.populate, populatePuts, passes_of_rootPassed T hR, if_true]
  rcases hu : installFiles T cfg root fs with ⟨fs', o⟩
  rw [hu] at h1 h2
  simp only at h1 h2
  rw [← h1]
  cases o with
  | none =>
    simp only []
    obtain ⟨u1, u2⟩ := update_refines T hS hD .wavelength wl ht.2 root fs' k hk
    refine ⟨u1, ?_⟩
    rw [u2, applyPuts_append]
    exact applyPuts_congr _ _ _ _ h2
  | some e => exact ⟨rfl, h2⟩

/-- one call refines its specification -/
theorem op_refines (T : Tables) (hW : T.wellFormed = true) (op : Op) (hT : op.Typed T) (fs : FS) (k : Key)
    (hk : k.ok = true) :
    (op.run T fs).2 = (op.puts T).2 ∧
    absView T (resolve op.root) (op.run T fs).1.at k
      = applyPuts (op.puts T).1 (absView T (resolve op.root) fs.at) k := by
  obtain ⟨hA, _, hS, hD, hR⟩ := (wellFormed_iff T).mp hW
  cases op with
  | upd u inp r => exact update_refines T hS hD u inp hT r fs k hk
  | add a args items r =>
    simp only [Op.run, Op.puts, Op.root, add_eq_update T hA]
    have := update_refines T hS hD a.own _ hT r fs k hk
    rw [prep_wrap T a (addMatches_of T hA a).2.2] at this
    exact this
  | ins i inps r =>
    simp only [Op.run, Op.puts, Op.root, install, installSeq_eq T r _ inps fs (rootPassed_of T hR i)]
    exact installAll_refines T hS hD r k hk _ inps fs hT
  | files cfg r => exact installFiles_refines T hW r k hk cfg fs hT
  | populate cfg wl r => exact populate_refines T hW r k hk cfg wl fs hT

theorem specRun_congr (T : Tables) (ops : List Op) (m m' : KV) (k : Key) (h : m k = m' k) :
    specRun T ops m k = specRun T ops m' k := by
  induction ops generalizing m m' with
  | nil => exact h
  | cons op ops ih => exact ih _ _ (applyPuts_congr _ _ _ _ h)

/-- **`refines_kv`** — for every history of add/update/install calls on the repository at `R`, the getters' view of the
file system is the key → value map obtained by replaying the calls' point updates, in order, on the initial map.
(Point updates ⇒ the last write to a key wins and every other key keeps its content.) -/
theorem refines_kv (T : Tables) (hW : T.wellFormed = true) (R : Path) (ops : List Op)
    (hT : ∀ op ∈ ops, op.Typed T ∧ resolve op.root = R) (fs : FS) (k : Key) (hk : k.ok = true) :
    absView T R (runOps T ops fs).at k = specRun T ops (absView T R fs.at) k := by
  induction ops generalizing fs with
  | nil => rfl
  | cons op ops ih =>
    obtain ⟨ht, hr⟩ := hT op (List.mem_cons_self ..)
    have := (op_refines T hW op ht fs k hk).2
    rw [hr] at this
    simp only [runOps, specRun, List.foldl_cons]
    have ih' := ih (fun op' h => hT op' (List.mem_cons_of_mem _ h)) (op.run T fs).1
    simp only [runOps, specRun] at ih'
    rw [ih']
    exact specRun_congr T ops _ _ k this

/-- outcome (ok / which exception) of every call is the specification's -/
theorem outcome_refines (T : Tables) (hW : T.wellFormed = true) (op : Op) (hT : op.Typed T) (fs : FS) :
    (op.run T fs).2 = (op.puts T).2 :=
  (op_refines T hW op hT fs ⟨.ionisation, [.sym ""], [.num 0]⟩ (by decide)).1

/-- all point updates of a history, in order -/
def allPuts (T : Tables) (ops : List Op) : List (Key × Val) := ops.flatMap fun op => (op.puts T).1

theorem specRun_eq (T : Tables) (ops : List Op) (m : KV) : specRun T ops m = applyPuts (allPuts T ops) m := by
  induction ops generalizing m with
  | nil => rfl
  | cons op ops ih =>
    simp only [specRun, List.foldl_cons, allPuts, List.flatMap_cons, applyPuts_append]
    exact ih _

/-- **last write wins, other keys untouched**: after any history, a key holds the value of the last point update made
to it, and the value it had initially if no call updated it -/
theorem last_write_wins (T : Tables) (hW : T.wellFormed = true) (R : Path) (ops : List Op)
    (hT : ∀ op ∈ ops, op.Typed T ∧ resolve op.root = R) (fs : FS) (k : Key) (hk : k.ok = true) :
    absView T R (runOps T ops fs).at k =
      match lastWrite (allPuts T ops) k with
      | some v => some v
      | none => absView T R fs.at k := by
  rw [refines_kv T hW R ops hT fs k hk, specRun_eq, applyPuts_lastWrite]
  cases lastWrite (allPuts T ops) k <;> rfl

theorem absView_empty (T : Tables) (R : Path) (k : Key) : absView T R (FS.at []) k = none := by
  unfold absView; cases k.loc T R <;> rfl

/-- **a key never written raises RuntimeError**: starting from the empty repository, a key that no call updated has no
value; the keyed getters then raise RuntimeError (`getter_reads_kv`) -/
theorem never_written_raises (T : Tables) (hW : T.wellFormed = true) (R : Path) (ops : List Op)
    (hT : ∀ op ∈ ops, op.Typed T ∧ resolve op.root = R) (k : Key) (hk : k.ok = true)
    (hn : k ∉ (allPuts T ops).map Prod.fst) : absView T R (runOps T ops []).at k = none := by
  rw [last_write_wins T hW R ops hT [] k hk, lastWrite_none_of_not_mem _ _ hn]
  exact absView_empty T R k

/-- the keyed getters (all but beam CX) return the map's value at the requested key — or RuntimeError if it has
none, AttributeError if an argument has no `.symbol` -/
theorem getter_reads_kv (T : Tables) (hW : T.wellFormed = true) (g : GetFn) (hg : g.own.getKind = .keyed)
    (args : List Arg) (root : Option Path) (fs : FS) :
    get T g args root fs =
      match (getKey g args).loc T (resolve root) with
      | none => .error .attributeError
      | some _ =>
        match absView T (resolve root) fs.at (getKey g args) with
        | some v => .ok [(renderIKey (getKey g args).inner, v)]
        | none => .error .runtimeError :=
  get_keyed T ((wellFormed_iff T).mp hW).2.1 g hg args root fs

/-- `get_beam_cx_rates` returns every stored metastable of the transition, and raises RuntimeError exactly when none
is stored -/
theorem beam_cx_getter_reads_kv (T : Tables) (hW : T.wellFormed = true) (g : GetFn) (hg : g.own.getKind = .prefixed)
    (args : List Arg) (root : Option Path) (fs : FS) (l : Path × IKey)
    (hl : (getKey g args).loc T (resolve root) = some l) :
    (∀ r, get T g args root fs = .ok r → ∀ ik : IKey, ik.head? = l.2.head? → alookup ik r = fs.at l.1 ik) ∧
    (get T g args root fs = .error .runtimeError ↔ ∀ ik : IKey, ik.head? = l.2.head? → fs.at l.1 ik = none) :=
  get_prefixed T ((wellFormed_iff T).mp hW).2.1 g hg args root fs l hl

/-- a call that is not rejected updates every key it addresses (and only those), with the validated rate passed for it -/
theorem accepted_update_writes_all (T : Tables) (u : UpdFn) (inp : UpdInput) (h : (updPuts T u inp).2 = none) :
    (updPuts T u inp).1.map Prod.fst = targets u inp ∧
    ∀ kv ∈ (updPuts T u inp).1, ∃ e ∈ inp, ∃ it ∈ e.inner,
      kv.1 = ⟨u, u.normArgs e.args, it.1.map Arg.norm⟩ ∧ u.validate it.2 = .ok kv.2 :=
  ⟨updPuts_complete T u inp h, updPuts_sub T u inp⟩

/-- `a` is literally the outcome of one of the two conversions of an object the caller passed -/
def ArrIn (r : Rate) (a : Arr) : Prop := ∃ n x, alookup n r = some x ∧ (x.arr = .ok a ∨ x.flt = .ok a)

theorem field_ok {r : Rate} {n : String} {a : Arr} (h : field r n = .ok a) : ArrIn r a := by
  unfold field at h; split at h
  · next x h' => exact ⟨n, x, h', Or.inl h⟩
  · cases h

theorem fieldF_ok {r : Rate} {n : String} {a : Arr} (h : fieldF r n = .ok a) : ArrIn r a := by
  unfold fieldF at h; split at h
  · next x h' => exact ⟨n, x, h', Or.inr h⟩
  · cases h

theorem pairCheck_ok {r : Rate} {x y : String} {a b : Arr} (h : pairCheck r x y = .ok (a, b)) :
    ArrIn r a ∧ ArrIn r b := by
  unfold pairCheck at h
  cases h1 : field r x with
  | error e => rw [h1] at h; cases h
  | ok a' =>
    cases h2 : field r y with
    | error e => rw [h1, h2] at h; cases h
    | ok b' =>
      rw [h1, h2] at h
      simp only [bind, Except.bind, guardE] at h
      split at h
      · cases h
      · split at h
        · cases h
        · split at h
          · cases h
          · cases h; exact ⟨field_ok h1, field_ok h2⟩

/-- **bit for bit**: every array of a stored value is the NumPy / `float` conversion of one of the objects of the rate
dictionary that was passed (validation only converts, selects and renames — `'rates'` is stored as `'rate'` — it never
recomputes) -/
theorem stored_arrays_are_inputs (u : UpdFn) (r : Rate) (v : Val) (h : u.validate r = .ok v) :
    ∀ na ∈ v, ArrIn r na.2 := by
  have bindE : ∀ {α β : Type} (x : Except Err α) (f : α → Except Err β) (b : β),
      (x >>= f) = .ok b → ∃ a, x = .ok a ∧ f a = .ok b := by
    intro α β x f b hb; cases x with
    | error e => cases hb
    | ok a => exact ⟨a, rfl, hb⟩
  have guardK : ∀ {β : Type} (c : Bool) (e : Err) (f : Unit → Except Err β) (b : β),
      (guardE c e >>= f) = .ok b → f () = .ok b := by
    intro β c e f b hb; unfold guardE at hb; split at hb
    · exact hb
    · cases hb
  cases u <;> simp only [UpdFn.validate] at h
  all_goals first
    | (unfold validateAdf11 at h
       obtain ⟨te, h1, h⟩ := bindE _ _ _ h
       obtain ⟨ne, h2, h⟩ := bindE _ _ _ h
       obtain ⟨rt, h3, h⟩ := bindE _ _ _ h
       have h := guardK _ _ _ _ (guardK _ _ _ _ (guardK _ _ _ _ h))
       cases h
       intro na hna
       simp only [List.mem_cons, List.not_mem_nil, or_false] at hna
       rcases hna with rfl | rfl | rfl
       · exact field_ok h1
       · exact field_ok h2
       · exact field_ok h3)
    | (unfold validatePec at h
       obtain ⟨ne, h1, h⟩ := bindE _ _ _ h
       obtain ⟨te, h2, h⟩ := bindE _ _ _ h
       obtain ⟨rt, h3, h⟩ := bindE _ _ _ h
       have h := guardK _ _ _ _ (guardK _ _ _ _ (guardK _ _ _ _ h))
       cases h
       intro na hna
       simp only [List.mem_cons, List.not_mem_nil, or_false] at hna
       rcases hna with rfl | rfl | rfl
       · exact field_ok h1
       · exact field_ok h2
       · exact field_ok h3)
    | (unfold validatePecThermalCx at h
       obtain ⟨ne, h1, h⟩ := bindE _ _ _ h
       obtain ⟨te, h2, h⟩ := bindE _ _ _ h
       obtain ⟨td, h3, h⟩ := bindE _ _ _ h
       obtain ⟨rt, h4, h⟩ := bindE _ _ _ h
       have h := guardK _ _ _ _ (guardK _ _ _ _ (guardK _ _ _ _ (guardK _ _ _ _ h)))
       cases h
       intro na hna
       simp only [List.mem_cons, List.not_mem_nil, or_false] at hna
       rcases hna with rfl | rfl | rfl | rfl
       · exact field_ok h1
       · exact field_ok h2
       · exact field_ok h3
       · exact field_ok h4)
    | (unfold validateWavelength at h
       obtain ⟨w, h1, h⟩ := bindE _ _ _ h
       cases h
       intro na hna
       simp only [List.mem_cons, List.not_mem_nil, or_false] at hna
       subst hna
       exact fieldF_ok h1)
    | (unfold validateBeamCx at h
       obtain ⟨q0, h0, h⟩ := bindE _ _ _ h
       obtain ⟨⟨eb, qeb⟩, p1, h⟩ := bindE _ _ _ h
       obtain ⟨⟨ti, qti⟩, p2, h⟩ := bindE _ _ _ h
       obtain ⟨⟨ni, qni⟩, p3, h⟩ := bindE _ _ _ h
       obtain ⟨⟨z, qz⟩, p4, h⟩ := bindE _ _ _ h
       obtain ⟨⟨b, qb⟩, p5, h⟩ := bindE _ _ _ h
       cases h
       have e1 := pairCheck_ok p1
       have e2 := pairCheck_ok p2
       have e3 := pairCheck_ok p3
       have e4 := pairCheck_ok p4
       have e5 := pairCheck_ok p5
       intro na hna
       simp only [List.mem_cons, List.not_mem_nil, or_false] at hna
       rcases hna with rfl | rfl | rfl | rfl | rfl | rfl | rfl | rfl | rfl | rfl | rfl
       · exact e1.1
       · exact e2.1
       · exact e3.1
       · exact e4.1
       · exact e5.1
       · exact fieldF_ok h0
       · exact e1.2
       · exact e2.2
       · exact e3.2
       · exact e4.2
       · exact e5.2)
    | (unfold validateBeamRate at h
       obtain ⟨e, h1, h⟩ := bindE _ _ _ h
       obtain ⟨n, h2, h⟩ := bindE _ _ _ h
       obtain ⟨t, h3, h⟩ := bindE _ _ _ h
       obtain ⟨sen, h4, h⟩ := bindE _ _ _ h
       obtain ⟨st, h5, h⟩ := bindE _ _ _ h
       have h := guardK _ _ _ _ (guardK _ _ _ _ (guardK _ _ _ _ (guardK _ _ _ _ (guardK _ _ _ _ h))))
       obtain ⟨eref, r1, h⟩ := bindE _ _ _ h
       obtain ⟨nref, r2, h⟩ := bindE _ _ _ h
       obtain ⟨tref, r3, h⟩ := bindE _ _ _ h
       obtain ⟨sref, r4, h⟩ := bindE _ _ _ h
       cases h
       intro na hna
       simp only [List.mem_cons, List.not_mem_nil, or_false] at hna
       rcases hna with rfl | rfl | rfl | rfl | rfl | rfl | rfl | rfl | rfl
       · exact field_ok h1
       · exact field_ok h2
       · exact field_ok h3
       · exact field_ok h4
       · exact field_ok h5
       · exact fieldF_ok r1
       · exact fieldF_ok r2
       · exact fieldF_ok r3
       · exact fieldF_ok r4)

/-! ## keys ↔ files -/

/-- **`paths_injective`**: two well-kinded keys stored in the same file have the same family and the same
file-selecting components (symbols up to case, charges, class) -/
theorem paths_injective (T : Tables) (hW : T.wellFormed = true) (R : Path) (k k' : Key) (hk : k.ok = true)
    (hk' : k'.ok = true) (p : Path) (i i' : IKey) (h : k.loc T R = some (p, i)) (h' : k'.loc T R = some (p, i')) :
    k.fam = k'.fam ∧ k.args = k'.args :=
  path_inj T ((wellFormed_iff T).mp hW).2.2.1 ((wellFormed_iff T).mp hW).2.2.2.1 R k k' hk hk' p i i' h h'

/-- distinct well-kinded keys never share a (file, inner key) location -/
theorem keys_injective (T : Tables) (hW : T.wellFormed = true) (R : Path) (k k' : Key) (hk : k.ok = true)
    (hk' : k'.ok = true) (l : Path × IKey) (h : k.loc T R = some l) (h' : k'.loc T R = some l) : k = k' :=
  loc_inj T ((wellFormed_iff T).mp hW).2.2.1 ((wellFormed_iff T).mp hW).2.2.2.1 R k k' hk hk' l h h'

/-- **`transition_key_iff_lower_equal`**: two transitions have the same key iff their levels agree after `str()` and
lower-casing — provided the (lower-cased) upper levels do not contain `>` -/
theorem transition_key_iff_lower_equal (u l u' l' : Level) (h : '>' ∉ (lower u.render).toList)
    (h' : '>' ∉ (lower u'.render).toList) :
    encodeTransition u l = encodeTransition u' l' ↔
      lower u.render = lower u'.render ∧ lower l.render = lower l'.render := by
  constructor
  · exact join_inj _ _ _ _ h h'
  · rintro ⟨e1, e2⟩; unfold encodeTransition; rw [e1, e2]

theorem lower_lit1 : lower "a -> b" = "a -> b" := by
  apply String.toList_injective; simp [lower, String.toLower, String.toList_map]
theorem lower_lit2 : lower "c" = "c" := by
  apply String.toList_injective; simp [lower, String.toLower, String.toList_map]
theorem lower_lit3 : lower "a" = "a" := by
  apply String.toList_injective; simp [lower, String.toLower, String.toList_map]
theorem lower_lit4 : lower "b -> c" = "b -> c" := by
  apply String.toList_injective; simp [lower, String.toLower, String.toList_map]

/-- the hypothesis of `transition_key_iff_lower_equal` cannot be dropped: the model (like
`utility.encode_transition`) gives `('a -> b', 'c')` and `('a', 'b -> c')` the same key -/
theorem transition_separator_collision :
    encodeTransition (.str "a -> b") (.str "c") = encodeTransition (.str "a") (.str "b -> c") ∧
    ¬ (lower (Level.str "a -> b").render = lower (Level.str "a").render) := by
  simp only [encodeTransition, Level.render, lower_lit1, lower_lit2, lower_lit3, lower_lit4]
  decide

/-! ## rejected updates -/

/-- **`rejected_update_preserves`**: whatever a call does — accepted, or rejected at any point for invalid data —
(1) its outcome and effect are those of its specification, a sub-list of the point updates of the keys it addresses;
(2) a key it does not address keeps its value; (3) every key that was readable stays readable. -/
theorem rejected_update_preserves (T : Tables) (hW : T.wellFormed = true) (u : UpdFn) (inp : UpdInput)
    (hT : InputTyped u inp) (root : Option Path) (fs : FS) (k : Key) (hk : k.ok = true) :
    (k ∉ targets u inp →
      absView T (resolve root) (update T u inp root fs).1.at k = absView T (resolve root) fs.at k) ∧
    ((absView T (resolve root) fs.at k).isSome = true →
      (absView T (resolve root) (update T u inp root fs).1.at k).isSome = true) := by
  obtain ⟨_, _, hS, hD, _⟩ := (wellFormed_iff T).mp hW
  have h := (update_refines T hS hD u inp hT root fs k hk).2
  constructor
  · intro hn
    rw [h]
    exact applyPuts_not_mem _ _ _ (fun hm => hn (targets_prep T u inp ▸ updPuts_keys_sub T u _ k hm))
  · intro hs
    rw [h]
    exact applyPuts_isSome _ _ _ hs

theorem lastWrite_mem (l : List (Key × Val)) (k : Key) (v : Val) (h : lastWrite l k = some v) : (k, v) ∈ l := by
  induction l with
  | nil => simp [lastWrite] at h
  | cons kv t ih =>
    simp only [lastWrite] at h
    cases ht : lastWrite t k with
    | some w => rw [ht] at h; cases h; exact List.mem_cons_of_mem _ (ih ht)
    | none =>
      rw [ht] at h
      simp only at h
      by_cases hk : k = kv.1
      · rw [if_pos hk] at h; cases h; rw [hk]; exact List.mem_cons_self ..
      · rw [if_neg hk] at h; cases h

theorem lastWrite_isSome_of_mem (l : List (Key × Val)) (k : Key) (h : k ∈ l.map Prod.fst) : (lastWrite l k).isSome = true := by
  induction l with
  | nil => simp at h
  | cons kv t ih =>
    simp only [lastWrite]
    cases ht : lastWrite t k with
    | some w => rfl
    | none =>
      simp only [List.map_cons, List.mem_cons] at h
      rcases h with h | h
      · simp [h]
      · have := ih h; rw [ht] at this; cases this

/-- **every call, accepted or rejected at any point** (add_*, update_*, install_*, install_files, populate): afterwards
each key holds either exactly the value it held before, or a value this very call passed (and validated) for that key;
in particular a key that was readable stays readable, and a key the call makes no point update for is untouched.
(Full "a rejected call leaves the repository unchanged" is *false* of the code and of the model — the ADF11-type writers
store charge by charge: `rejected_call_not_atomic`.) -/
theorem call_preserves_or_writes (T : Tables) (hW : T.wellFormed = true) (op : Op) (hT : op.Typed T) (fs : FS) (k : Key)
    (hk : k.ok = true) :
    (absView T (resolve op.root) (op.run T fs).1.at k = absView T (resolve op.root) fs.at k ∨
      ∃ v, (k, v) ∈ (op.puts T).1 ∧ absView T (resolve op.root) (op.run T fs).1.at k = some v) ∧
    ((absView T (resolve op.root) fs.at k).isSome = true →
      (absView T (resolve op.root) (op.run T fs).1.at k).isSome = true) ∧
    (k ∉ (op.puts T).1.map Prod.fst →
      absView T (resolve op.root) (op.run T fs).1.at k = absView T (resolve op.root) fs.at k) := by
  have h := (op_refines T hW op hT fs k hk).2
  refine ⟨?_, ?_, ?_⟩
  · rw [h, applyPuts_lastWrite]
    cases hl : lastWrite (op.puts T).1 k with
    | none => exact Or.inl rfl
    | some v => exact Or.inr ⟨v, lastWrite_mem _ _ _ hl, rfl⟩
  · intro hs; rw [h]; exact applyPuts_isSome _ _ _ hs
  · intro hn; rw [h]; exact applyPuts_not_mem _ _ _ hn

/-- **bulk updates, any number of files, fresh or existing**: after an `update_*` call that is not rejected, *every* key the
nested dictionary addresses is readable (no entry is dropped: "only the last charge written"), and every other key —
in the same file, in another file of the call, in any other family — is untouched (nothing leaks from one file's content
into the next) -/
theorem accepted_update_every_target_readable (T : Tables) (hW : T.wellFormed = true) (u : UpdFn) (inp : UpdInput)
    (hT : InputTyped u inp) (root : Option Path) (fs : FS) (hacc : (update T u inp root fs).2 = none) (k : Key)
    (hk : k.ok = true) :
    (k ∈ targets u inp → ∃ v, (k, v) ∈ (updPuts T u (u.prep T inp)).1 ∧
        absView T (resolve root) (update T u inp root fs).1.at k = some v) ∧
    (k ∉ targets u inp → absView T (resolve root) (update T u inp root fs).1.at k = absView T (resolve root) fs.at k) := by
  obtain ⟨_, _, hS, hD, _⟩ := (wellFormed_iff T).mp hW
  obtain ⟨h1, h2⟩ := update_refines T hS hD u inp hT root fs k hk
  have hnone : (updPuts T u (u.prep T inp)).2 = none := h1 ▸ hacc
  have hkeys := updPuts_complete T u (u.prep T inp) hnone
  rw [targets_prep] at hkeys
  constructor
  · intro hmem
    rw [h2, applyPuts_lastWrite]
    have := lastWrite_isSome_of_mem (updPuts T u (u.prep T inp)).1 k (hkeys ▸ hmem)
    cases hl : lastWrite (updPuts T u (u.prep T inp)).1 k with
    | none => rw [hl] at this; cases this
    | some v => exact ⟨v, lastWrite_mem _ _ _ hl, rfl⟩
  · intro hn
    rw [h2]
    exact applyPuts_not_mem _ _ _ (hkeys ▸ hn)

/-! ## files -/

/-- **`writes_under_root`**: no call creates, modifies or removes a file that is not under the repository path it was
given — for `update_*` and `add_*` unconditionally, for the `install_*` front-ends when the tables say that every
`repository.update_*` call receives `repository_path` -/
theorem writes_under_root (T : Tables) (op : Op) (hR : ∀ i inps r, op = .ins i inps r → ∀ c ∈ T.installCalls i, c.2 = true)
    (hF : op.isFrontEnd = true → T.rootPassed = true)
    (fs : FS) (p : Path) (hp : ¬ resolve op.root <+: p) : (op.run T fs).1.read p = fs.read p := by
  cases op with
  | upd u inp r => exact update_read T u inp r fs p hp
  | add a args items r => exact add_read T a args items r fs p hp
  | ins i inps r => exact installSeq_read T r p hp _ inps fs (hR i inps r rfl)
  | files cfg r => exact installFiles_read T (hF rfl) r p hp cfg fs
  | populate cfg wl r => exact populate_read T (hF rfl) cfg wl r fs p hp

theorem writes_under_root_of_tables (T : Tables) (hW : T.wellFormed = true) (op : Op) (fs : FS) (p : Path)
    (hp : ¬ resolve op.root <+: p) : (op.run T fs).1.read p = fs.read p :=
  writes_under_root T op (fun i _ _ _ => rootPassed_of T ((wellFormed_iff T).mp hW).2.2.2.2 i)
    (fun _ => ((wellFormed_iff T).mp hW).2.2.2.2) fs p hp

/-- … and neither do `install_files` and `populate`, when the tables say every front-end call hands the root on -/
theorem front_ends_write_under_root (T : Tables) (hW : T.wellFormed = true) (cfg : List (InstallFn × List UpdInput))
    (wl : UpdInput) (root : Option Path) (fs : FS) (p : Path) (hp : ¬ resolve root <+: p) :
    (installFiles T cfg root fs).1.read p = fs.read p ∧ (populate T cfg wl root fs).1.read p = fs.read p :=
  ⟨installFiles_read T ((wellFormed_iff T).mp hW).2.2.2.2 root p hp cfg fs,
   populate_read T ((wellFormed_iff T).mp hW).2.2.2.2 cfg wl root fs p hp⟩

/-- **`add_matches_update`** (generic half): with well-formed tables `add_y(args…, rate, root)` is
`update_<family of y>` applied to the one-entry dictionary `wrap` builds, with the class string `y` is named after -/
theorem add_matches_update_of_tables (T : Tables) (hW : T.wellFormed = true) (a : AddFn) (args : List Arg)
    (items : List (List Arg × Rate)) (root : Option Path) (fs : FS) :
    add T a args items root fs = update T a.own (a.wrap T args items) root fs ∧ (a.wrap T args items).length ≤ 1 ∧
    T.addFixed a = a.ownFixed := by
  have hA := ((wellFormed_iff T).mp hW).1
  refine ⟨add_eq_update T hA a args items root fs, ?_, (addMatches_of T hA a).2.2⟩
  unfold AddFn.wrap; split <;> simp

/-! ## why the table conditions are needed (constructive counter-examples), non-vacuity -/

/-- if the tables route `add_y` into the code and file of another family `u' ≠ own y` (as `add_continuum_power_rate`
→ `update_line_power_rates` does), the call changes **no** key of its own family: the getter named after it never
sees what was added -/
theorem misrouted_add_never_updates_own_family (T : Tables) (hS : T.shapesOk = true) (hD : T.disjointOk = true)
    (a : AddFn) (u' : UpdFn) (h1 : T.famOfAdd a = u') (h2 : T.tmplOfAdd a = T.tmplOfUpd u') (hne : u' ≠ a.own)
    (args : List Arg) (items : List (List Arg × Rate)) (hT : InputTyped u' (a.wrap T args items))
    (root : Option Path) (fs : FS) (k : Key) (hk : k.ok = true) (hf : k.fam = a.own) :
    absView T (resolve root) (add T a args items root fs).1.at k = absView T (resolve root) fs.at k := by
  have e : add T a args items root fs
      = seqEntries (updateEntry u' (T.tmplOfUpd u') (resolve root)) (a.wrap T args items) fs := by
    unfold add; rw [h1, h2]
  obtain ⟨_, s2⟩ := seqEntries_spec _ _ (fun e fs => updateEntry_spec u' (T.tmplOfUpd u') (resolve root) e fs)
    (a.wrap T args items) fs
  obtain ⟨_, r2⟩ := seq_refines T hS hD (resolve root) u' k hk _ hT fs.at
  rw [e, s2, r2]
  apply applyPuts_not_mem
  intro hm
  simp only [List.mem_map] at hm
  obtain ⟨kv, hkv, rfl⟩ := hm
  obtain ⟨_, _, _, _, h3, _⟩ := updPuts_sub T u' _ kv hkv
  rw [h3] at hf
  exact hne hf

/-- a front-end whose table entry drops `repository_path` (as `install_adf15` does for thermal-CX PECs) runs that
update on the *default* repository: the repository that was passed receives nothing from it -/
theorem dropped_root_escapes (T : Tables) (u : UpdFn) (inp : UpdInput) (R : Path) (fs : FS) :
    installSeq T [(u, false)] [inp] (some R) fs = update T u inp none fs ∧
    ∀ p, ¬ defaultRoot <+: p → (installSeq T [(u, false)] [inp] (some R) fs).1.read p = fs.read p := by
  have e : installSeq T [(u, false)] [inp] (some R) fs = update T u inp none fs := by
    simp only [installSeq, Bool.false_eq_true, if_false]
    rcases update T u inp none fs with ⟨fs', o⟩
    cases o <;> rfl
  refine ⟨e, fun p hp => ?_⟩
  rw [e]; exact update_read T u inp none fs p hp

/-- for dictionaries whose class keys are lower-case (the documented `'excitation'`, `'recombination'`), and for every
family other than PEC, `update_x` iterates exactly the dictionary it was given: the specification `Op.puts` is about the
rates that were passed -/
theorem prep_id_of_lower_classes (T : Tables) (u : UpdFn) (inp : UpdInput)
    (h : ∀ e ∈ inp, ∀ c rest, e.args = .str c :: rest → lower c = c) : u.prep T inp = inp := by
  cases u <;> simp only [UpdFn.prep]
  split
  · exact pecReindex_lower inp h
  · rfl

/-- … and for every dictionary once the table flag is off (source fetches `transitions[transition]`) -/
theorem prep_id_of_tables (T : Tables) (h : T.pecReindexes = false) (u : UpdFn) (inp : UpdInput) :
    u.prep T inp = inp := by
  cases u <;> simp [UpdFn.prep, h]

theorem lower_RECOMBINATION : lower "RECOMBINATION" = "recombination" := by
  apply String.toList_injective; simp [lower, String.toLower, String.toList_map]

/-- why `pecReindexes` matters: while it is set, a call that carries both spellings of a class stores, for the entry
spelled in upper case, the rate of the *lower-case* entry — the rate `B` passed for it is never stored -/
theorem pec_mixed_case_class_reads_other_entry (e q t : Arg) (A B : Rate) :
    pecReindex [⟨[.str "recombination", e, q], [([t], A)]⟩, ⟨[.str "RECOMBINATION", e, q], [([t], B)]⟩]
      = [⟨[.str "recombination", e, q], [([t], A)]⟩, ⟨[.str "RECOMBINATION", e, q], [([t], A)]⟩] := by
  simp [pecReindex, lower_RECOMBINATION, lower_recombination, alookup]

/-- the tables a source without the two routing slips yields -/
def idealTables : Tables where
  updWrites
    | .ionisation => some ⟨["ionisation"], [.symLower], ".json"⟩
    | .recombination => some ⟨["recombination"], [.symLower], ".json"⟩
    | .thermalCx => some ⟨["thermal_cx"], [.symLower, .raw, .symLower], ".json"⟩
    | .linePower => some ⟨["radiated_power", "line"], [.symLower], ".json"⟩
    | .continuumPower => some ⟨["radiated_power", "continuum"], [.symLower], ".json"⟩
    | .cxPower => some ⟨["radiated_power", "cx"], [.symLower], ".json"⟩
    | .pec => some ⟨["pec"], [.raw, .symLower, .raw], ".json"⟩
    | .pecThermalCx => some ⟨["pec", "thermal_cx"], [.symLower, .raw, .symLower, .raw], ".json"⟩
    | .wavelength => some ⟨["wavelength"], [.symLower, .raw], ".json"⟩
    | .beamCx => some ⟨["beam", "cx"], [.symLower, .symLower, .raw], ".json"⟩
    | .beamEmission => some ⟨["beam", "emission"], [.symLower, .symLower, .raw], ".json"⟩
    | _ => none
  updCalls
    | .beamStopping => some .beamStopping
    | .beamPopulation => some .beamPopulation
    | _ => none
  addWrites
    | .beamStopping => some ⟨["beam", "stopping"], [.symLower, .symLower, .raw], ".json"⟩
    | .beamPopulation => some ⟨["beam", "population"], [.symLower, .raw, .symLower, .raw], ".json"⟩
    | _ => none
  addCalls
    | .beamStopping => none
    | .beamPopulation => none
    | a => some a.own
  addFixed := AddFn.ownFixed
  getReads
    | .beamStopping => some ⟨["beam", "stopping"], [.symLower, .symLower, .raw], ".json"⟩
    | .beamPopulation => some ⟨["beam", "population"], [.symLower, .raw, .symLower, .raw], ".json"⟩
    | .ionisation => some ⟨["ionisation"], [.symLower], ".json"⟩
    | .recombination => some ⟨["recombination"], [.symLower], ".json"⟩
    | .thermalCx => some ⟨["thermal_cx"], [.symLower, .raw, .symLower], ".json"⟩
    | .linePower => some ⟨["radiated_power", "line"], [.symLower], ".json"⟩
    | .continuumPower => some ⟨["radiated_power", "continuum"], [.symLower], ".json"⟩
    | .cxPower => some ⟨["radiated_power", "cx"], [.symLower], ".json"⟩
    | .pecExcitation => some ⟨["pec"], [.raw, .symLower, .raw], ".json"⟩
    | .pecRecombination => some ⟨["pec"], [.raw, .symLower, .raw], ".json"⟩
    | .pecThermalCx => some ⟨["pec", "thermal_cx"], [.symLower, .raw, .symLower, .raw], ".json"⟩
    | .wavelength => some ⟨["wavelength"], [.symLower, .raw], ".json"⟩
    | .beamCx => some ⟨["beam", "cx"], [.symLower, .symLower, .raw], ".json"⟩
    | .beamEmission => some ⟨["beam", "emission"], [.symLower, .symLower, .raw], ".json"⟩
  getFixed := GetFn.ownFixed
  installCalls
    | .adf11scd => [(.ionisation, true)]
    | .adf11acd => [(.recombination, true)]
    | .adf11ccd => [(.thermalCx, true)]
    | .adf11plt => [(.linePower, true)]
    | .adf11prb => [(.continuumPower, true)]
    | .adf11prc => [(.cxPower, true)]
    | .adf12 => [(.beamCx, true)]
    | .adf15 => [(.pecThermalCx, true), (.pec, true), (.wavelength, true)]
    | .adf21 => [(.beamStopping, true)]
    | .adf22bmp => [(.beamPopulation, true)]
    | .adf22bme => [(.beamEmission, true)]
  frontCalls := [("install_files", "install_adf15", true)]
  pecReindexes := false
  encodeUpper := ["str", "lower"]
  encodeLower := ["str", "lower"]
  encodeFormat := "{} -> {}"

/-- the hypothesis `T.wellFormed` of all theorems above is satisfiable -/
theorem idealTables_wellFormed : idealTables.wellFormed = true := by decide

/-- the tables of the source as it is today, in the one respect that matters for `add_continuum_power_rate` -/
def misroutedTables : Tables :=
  { idealTables with addCalls := fun a => if a = .continuumPower then some .linePower else idealTables.addCalls a }

example : misroutedTables.addMatches = false ∧ misroutedTables.shapesOk = true ∧ misroutedTables.disjointOk = true ∧
    misroutedTables.famOfAdd .continuumPower = .linePower ∧
    misroutedTables.tmplOfAdd .continuumPower = misroutedTables.tmplOfUpd .linePower := by decide

-- non-vacuity: well-kinded keys, typed inputs and histories satisfying the hypotheses of `refines_kv` exist
example : (Key.mk .ionisation [.sym "c"] [.num 2]).ok = true := by decide
example : (Key.mk .beamCx [.sym "d", .sym "c", .num 6] [.tr "8 -> 7", .num 1]).ok = true := by decide
example (r : Rate) : InputTyped .continuumPower [⟨[.sp ⟨true, "C", 6, 0⟩], [([.num 2], r)]⟩] := by
  intro e he
  simp only [List.mem_singleton] at he
  subst he
  refine ⟨by rfl, ?_⟩
  intro it hit
  simp only [List.mem_singleton] at hit
  subst hit
  rfl

/-- on the ideal tables: whatever was stored before, after `add_continuum_power_rate(C, 2, r)` with an accepted `r`
the key (continuum, c, 2) holds the validated `r` (read-your-write, an instance of `refines_kv`) -/
example (r : Rate) (v : Val) (hv : validateAdf11 r = .ok v) (R : Path) (fs : FS) :
    absView idealTables R
      (runOps idealTables [.add .continuumPower [.sp ⟨true, "C", 6, 0⟩, .num 2] [([], r)] (some R)] fs).at
      ⟨.continuumPower, [.sym (lower "C")], [.num 2]⟩ = some v := by
  have hT : ∀ op ∈ [Op.add .continuumPower [.sp ⟨true, "C", 6, 0⟩, .num 2] [([], r)] (some R)],
      op.Typed idealTables ∧ resolve op.root = R := by
    intro op hop
    simp only [List.mem_singleton] at hop
    subst hop
    refine ⟨?_, rfl⟩
    intro e he
    simp only [AddFn.wrap, List.mem_singleton] at he
    subst he
    refine ⟨by rfl, ?_⟩
    intro it hit
    simp only [List.mem_singleton] at hit
    subst hit
    rfl
  rw [refines_kv idealTables idealTables_wellFormed R _ hT fs _ (by decide)]
  have hp : (Op.puts idealTables (.add .continuumPower [.sp ⟨true, "C", 6, 0⟩, .num 2] [([], r)] (some R))).1
      = [(⟨.continuumPower, [.sym (lower "C")], [.num 2]⟩, v)] := by
    simp [Op.puts, AddFn.wrap, AddFn.own, updPuts, seqPuts, entryPuts, UpdFn.precheck, isElem, Tables.tmplOfUpd,
      idealTables, Template.inst, renderSlots, renderSlot, UpdFn.normArgs, Arg.norm, UpdFn.pattern, prefixKV, itemKV,
      UpdFn.innerCheck, chargeOk, UpdFn.validate, hv, keyed]
  simp [specRun, hp, applyPuts, putKV]

/-- the statement "a rejected call leaves the repository unchanged" is false: `update_ionisation_rates({C: {1: r, 7: r}})`
raises ValueError (charge 7 > Z) *after* charge 1 has been stored — replayed on the implementation by the `rejected`
history of harness/props/c06.py -/
theorem rejected_call_not_atomic (r : Rate) (v : Val) (hv : validateAdf11 r = .ok v) :
    Op.puts idealTables (.upd .ionisation [⟨[.sp ⟨true, "C", 6, 0⟩], [([.num 1], r), ([.num 7], r)]⟩] none)
      = ([(⟨.ionisation, [.sym (lower "C")], [.num 1]⟩, v)], some .valueError) := by
  simp [Op.puts, UpdFn.prep, updPuts, seqPuts, entryPuts, UpdFn.precheck, isElem, Tables.tmplOfUpd,
    idealTables, Template.inst, renderSlots, renderSlot, UpdFn.normArgs, Arg.norm, UpdFn.pattern, prefixKV, itemKV,
    UpdFn.innerCheck, chargeOk, UpdFn.validate, hv, keyed]

theorem lower_pad1 : lower " a" = " a" := by
  apply String.toList_injective; simp [lower, String.toLower, String.toList_map]
theorem lower_pad2 : lower "a " = "a " := by
  apply String.toList_injective; simp [lower, String.toLower, String.toList_map]
theorem lower_pad3 : lower "a  b" = "a  b" := by
  apply String.toList_injective; simp [lower, String.toLower, String.toList_map]
theorem lower_pad4 : lower "a b" = "a b" := by
  apply String.toList_injective; simp [lower, String.toLower, String.toList_map]

/-- the key of a transition is injective modulo **exactly** `str().lower()`: leading / trailing padding and inner double
spaces are significant, `3` and `'3'` are one key, `3` and `'03'` are two (instances of `transition_key_iff_lower_equal`;
the table obligation `encode_is_str_lower` pins that the source applies nothing but `str` and `lower`) -/
theorem padding_and_spacing_are_significant :
    encodeTransition (.str " a") (.str "c") ≠ encodeTransition (.str "a") (.str "c") ∧
    encodeTransition (.str "a ") (.str "c") ≠ encodeTransition (.str "a") (.str "c") ∧
    encodeTransition (.str "a  b") (.str "c") ≠ encodeTransition (.str "a b") (.str "c") ∧
    encodeTransition (.int 3) (.str "c") = encodeTransition (.str "3") (.str "c") := by
  have h3 : Int.repr 3 = "3" := by decide
  simp only [encodeTransition, Level.render, lower_pad1, lower_pad2, lower_pad3, lower_pad4, lower_lit2, lower_lit3, h3]
  decide

/-- call arguments ↦ key components, made explicit: two transition arguments give the same key component iff their levels
agree after `str().lower()` (no `>` in the upper levels — `transition_separator_collision` is the proved negation without
it); two Element arguments iff their symbols agree after lower-casing; integer arguments iff equal -/
theorem arg_key_iff :
    (∀ u l u' l', '>' ∉ (lower u.render).toList → '>' ∉ (lower u'.render).toList →
      (Arg.norm (.tr u l) = Arg.norm (.tr u' l') ↔ lower u.render = lower u'.render ∧ lower l.render = lower l'.render)) ∧
    (∀ s s' : Species, s.isElement = true → s'.isElement = true →
      (Arg.norm (.sp s) = Arg.norm (.sp s') ↔ lower s.symbol = lower s'.symbol)) ∧
    (∀ n m : Int, Arg.norm (.num n) = Arg.norm (.num m) ↔ n = m) := by
  refine ⟨?_, ?_, ?_⟩
  · intro u l u' l' h h'
    simp only [Arg.norm, KArg.tr.injEq]
    exact transition_key_iff_lower_equal u l u' l' h h'
  · intro s s' hs hs'
    simp [Arg.norm, hs, hs']
  · intro n m; simp [Arg.norm]

-- non-vacuity of `call_preserves_or_writes` / `accepted_update_every_target_readable`: a typed call and an ok key exist
example (r : Rate) : (Op.upd .ionisation [⟨[.sp ⟨true, "C", 6, 0⟩], [([.num 1], r), ([.num 7], r)]⟩] none).Typed idealTables := by
  intro e he
  simp only [List.mem_singleton] at he
  subst he
  refine ⟨by rfl, ?_⟩
  intro it hit
  simp only [List.mem_cons, List.not_mem_nil, or_false] at hit
  rcases hit with rfl | rfl <;> rfl
example : (Op.files [(.adf21, [[]]), (.adf15, [[], [], []])] none).Typed idealTables := by
  intro c hc
  simp only [List.mem_cons, List.not_mem_nil, or_false] at hc
  rcases hc with rfl | rfl
  · exact ⟨fun _ h => by simp at h, trivial⟩
  · exact ⟨fun _ h => by simp at h, fun _ h => by simp at h, fun _ h => by simp at h, trivial⟩

end Cherab.Props.C06
