import Cherab.Drv.Proto
import Cherab.Model.Inversion
import Cherab.Gen.Inversion
open Cherab.Drv Cherab.Inversion

/-- split a flat list into rows of length `n` -/
def rowsOf (n : Nat) : Nat → List Float → List (List Float)
  | 0, _ => []
  | m + 1, l => l.take n :: rowsOf n m (l.drop n)

def flat (C : List (List Float)) : List Float := C.foldr (· ++ ·) []

def errS : Err → String
  | .zeroDivision => "ZeroDivisionError"
  | .valueError => "ValueError"

/-- parse the initial guess: `0 e` (e = the harness's value of `np.exp(-1)`) | `1 v` | `2 k x1..xk`;
returns (expm1, guess, rest) -/
def pGuess : List String → Float × Guess Float × List String
  | "0" :: e :: r => (pF e, .none, r)
  | "1" :: v :: r => (Float.exp (-1), .scalar (pF v), r)
  | "2" :: k :: r => let (xs, r') := takeF (pN k) r; (Float.exp (-1), .array xs, r')
  | r => (Float.exp (-1), .none, r)

def sartOut (r : Except Err (List Float × List Float)) : String :=
  match r with
  | .error e => errS e
  | .ok (x, c) => s!"ok {c.length} {fFs x} {fFs c}"


def pRep : String → Rep
  | "f32" => .f32 | "i32" => .i32 | "i64" => .i64 | "bool" => .bool | "list" => .list | "intlist" => .list
  | "tuple" => .tuple | "fortran" => .fortran | "strided" => .strided | "readonly" => .readonly | "col" => .col
  | _ => .f64

def pGRep : String → GRep
  | "none" => .none | "pyfloat" => .pyfloat | "pyint" => .pyint | "pybool" => .pybool | "npf64" => .npf64
  | "npf32" => .npf32 | "npi64" => .npi64 | "zerod" => .zerod
  | s => .arr (pRep s)

def pARep : String → ARep
  | "pyint" => .pyint | "npf64" => .npf64 | "npf32" => .npf32 | "zerod" => .zerod
  | _ => .pyfloat

def statusS : Status → String
  | .ok => "ok" | .valueError => "ValueError" | .typeError => "TypeError" | .attributeError => "AttributeError"

/-- the two SART commands, returning the parsed guess together with the model's result -/
def sartCmd : List String → Option (Guess Float × Except Err (List Float × List Float))
  -- sart n m maxit relax tol <guess> W(m*n) b(m)
  | "sart" :: n :: m :: it :: w :: tol :: r =>
      let (e1, g, r) := pGuess r
      let n := pN n; let m := pN m
      let (Wf, r) := takeF (m * n) r
      let (b, _) := takeF m r
      some (g, sartRun e1 n (rowsOf n m Wf) none b g (pN it) (pF w) (pF tol))
  -- csart n m maxit relax tol beta <guess> W(m*n) b(m) L(n*n)
  | "csart" :: n :: m :: it :: w :: tol :: beta :: r =>
      let (e1, g, r) := pGuess r
      let n := pN n; let m := pN m
      let (Wf, r) := takeF (m * n) r
      let (b, r) := takeF m r
      let (Lf, _) := takeF (n * n) r
      some (g, sartRun e1 n (rowsOf n m Wf) (some (rowsOf n n Lf, pF beta)) b g (pN it) (pF w) (pF tol))
  | _ => none

/-- what the caller's `initial_guess` object holds after the call (`guessAfter`) -/
def guessOut : Guess Float → String
  | .none => "none"
  | .scalar v => s!"scalar {fF v}"
  | .array xs => s!"array {xs.length} {fFs xs}"

def step (ts : List String) : String :=
  match ts with
  | "sart" :: _ | "csart" :: _ => (sartCmd ts).elim "bad-op" (fun gr => sartOut gr.2)
  -- ga <sart … | csart …> -> state of the caller's initial_guess object after that call
  | "ga" :: r => (sartCmd r).elim "bad-op" (fun gr => guessOut (guessAfter gr.1 gr.2))
  -- nnls m n alpha hasL W b [L] xsol(n) rnorm  ->  vmax | C/v | d/v | x | rnorm*vmax
  | "nnls" :: m :: n :: a :: hasL :: r =>
      let n := pN n; let m := pN m
      let (Wf, r) := takeF (m * n) r
      let (b, r) := takeF m r
      let (L, r) := if hasL == "1" then let (Lf, r') := takeF (n * n) r; (some (rowsOf n n Lf), r') else (none, r)
      let (xs, r) := takeF n r
      let rn := pF (r.headD "0")
      let W := rowsOf n m Wf
      let C := stackC n W (pF a) L
      let d := stackD n b
      let v := normaliser Cherab.Gen.Inversion.nnlsVmaxGuarded d
      let res := nnlsWrap Cherab.Gen.Inversion.nnlsVmaxGuarded (fun _ _ => (xs, rn)) n W b (pF a) L
      s!"{fF v} {fFs (flat (divMat v C))} {fFs (divVec v d)} {fFs res.1} {fF res.2}"
  -- lstsq m n alpha hasL W b [L] -> C | d   (as handed to the solver)
  | "lstsq" :: m :: n :: a :: hasL :: r =>
      let n := pN n; let m := pN m
      let (Wf, r) := takeF (m * n) r
      let (b, r) := takeF m r
      let L := if hasL == "1" then some (rowsOf n n (takeF (n * n) r).1) else none
      let res := lstsqWrap (fun C d => (C, d)) n (rowsOf n m Wf) b (pF a) L
      s!"{fFs (flat res.1)} {fFs res.2}"
  -- svd m n W b P(n*m) -> P b
  | "svd" :: m :: n :: r =>
      let n := pN n; let m := pN m
      let (Wf, r) := takeF (m * n) r
      let (b, r) := takeF m r
      let (Pf, _) := takeF (n * m) r
      fFs (svdWrap (fun _ => rowsOf m n Pf) (rowsOf n m Wf) b)
  -- kkt rows n C d x -> g | x.g
  | "kkt" :: rows :: n :: r =>
      let n := pN n; let rows := pN rows
      let (Cf, r) := takeF (rows * n) r
      let (d, r) := takeF rows r
      let (x, _) := takeF n r
      let k := kktResidual n (rowsOf n rows Cf) d x
      s!"{fFs k.1} {fF k.2}"
  -- obj m n alpha W b L x -> |Wx-b|^2 + alpha^2 |Lx|^2
  | "obj" :: m :: n :: a :: r =>
      let n := pN n; let m := pN m
      let (Wf, r) := takeF (m * n) r
      let (b, r) := takeF m r
      let (Lf, r) := takeF (n * n) r
      let (x, _) := takeF n r
      fF (objective (rowsOf n m Wf) (rowsOf n n Lf) (pF a) b x)
  -- acceptance of argument representations
  | ["acc", "sart", rW, rb, rg] => statusS (sartAccept (pRep rW) (pRep rb) (pGRep rg))
  | ["acc", "lsq", m, rW, ra, rL, rb] =>
      statusS (lsqAccept (pN m) (pRep rW) (pARep ra) (if rL == "-" then none else some (pRep rL)) (pRep rb))
  | ["acc", "svd", rW, rb] => statusS (svdAccept (pRep rW) (pRep rb))
  | _ => "bad-op"

def main : IO UInt32 := do
  loop (stateless step) (← IO.getStdin) (← IO.getStdout) ()
  return 0
