import Cherab.Props.C18Table
open Cherab.Props.C18Table
#print axioms six_classes
#print axioms tables_understood
#print axioms tables_well_formed
#print axioms constructors_complete
#print axioms constructors_accept_valid_parameters
#print axioms geometry_changes_notify
#print axioms speed_of_light_exact
