"""C02 — line shapes are normalised: the spectral integral equals the supplied radiance.

T  lean/Cherab/Props/C02.lean (42 theorems) over lean/Cherab/Model/LineShape.lean
K  the real cpdef entry points (add_gaussian_line, add_lorentzian_line, every LineShapeModel.add_line,
   BeamEmissionMultiplet.add_line, GaussianQuadrature) are called in-process with a real raysect Spectrum and mock
   Species/Plasma/Beam (Python DistributionFunction subclass, Python B field); the same inputs go to the native driver
   (model definitions at Float) and the spectra are compared bin by bin.  Source-level constants (cut-offs, physical
   constants, polynomial coefficients, splitting factor) are re-read from the .pyx files on every run.
S  oracle on the implementation only (no model): Sigma samples*Delta against R x window fraction via math.erf
   (scipy.integrate.quad for the Lorentzian), bin averages, pi + sigma = none, component ratios on isolated peaks,
   zero width adds nothing.
"""
import math
import os
import re

import numpy as np

from harness.vlib.util import f2b, b2f, fs, REPO

AMU = 1.66053906660e-27
EC = 1.602176634e-19
CL = 299792458.0
HC = 1239.8419738620933
MUB = 5.78838180123e-5
SQ2 = math.sqrt(2.0)

LS = 'cherab/core/model/lineshape/'

# tolerances ----------------------------------------------------------------------------------------------------------
K_REL = 1e-9            # DESIGN §3
K_FLOOR = 2e-14         # x sum|R_c| / delta: erf differences carry an absolute error of a few 1e-16
S_GAUSS_TOL = 1e-11     # x R: Sigma samples*Delta vs R x fraction (Gaussian family; the cut-off loses < 2e-23)
LOR_DISC_TOL = 1e-4     # x R: a Lorentzian total further than this from [truncated, un-truncated-edge-bin] expectation is a discrepancy
                        # (10 x the integrator's rtol); every discrepancy is then *attributed* (see attribute_lorentz)
LOR_SIG = 'C02:add_lorentzian_line:GaussianQuadrature-under-resolved-bin'


# ---------------------------------------------------------------------------------------------------------------------
# source-level constants ("translator" part of the tie)
# ---------------------------------------------------------------------------------------------------------------------
def _src(rel):
    return open(os.path.join(REPO, rel)).read()


def read_source_constants():
    out = {}
    g = _src(LS + 'gaussian.pyx')
    out['cutG'] = float(re.search(r'^DEF GAUSSIAN_CUTOFF_SIGMA\s*=\s*([-+0-9.eE]+)', g, re.M).group(1))
    st = _src(LS + 'stark.pyx')
    out['cutL'] = float(re.search(r'^DEF LORENTZIAN_CUTOFF_GAMMA\s*=\s*([-+0-9.eE]+)', st, re.M).group(1))

    def lst(name):
        m = re.search(name + r'\s*=\s*\[([^\]]*)\]', st)
        return [float(t) for t in m.group(1).split(',')]
    out['coef'] = lst('_fwhm_poly_coeff_gauss') + lst('_fwhm_poly_coeff_lorentz') + lst('_weight_poly_coeff')
    m = re.search(r'fwhm_lorentz_to_total < ([0-9.eE+-]+):', st), re.search(r'fwhm_lorentz_to_total > ([0-9.eE+-]+):', st)
    out['thr'] = [float(m[0].group(1)), float(m[1].group(1))]
    # which bin integral add_lorentzian_line uses: the shipped quadrature or the closed form of notes/fixes/C02-1.diff
    body = st[st.index('cpdef Spectrum add_lorentzian_line'):st.index('cdef class StarkBroadenedLine')]
    code = '\n'.join(l for l in body.split('\n') if not l.strip().startswith('#'))
    if 'integrator.evaluate(lower_wavelength, upper_wavelength)' in code:
        out['lorentz_variant'] = 'quad'
    elif '_stark_cumulative(' in code:
        out['lorentz_variant'] = 'cdf'
    else:
        out['lorentz_variant'] = 'unknown'
    c = _src('cherab/core/utility/constants.pyx')

    def const(name):
        return float(re.search(r'double ' + name + r'\s*=\s*([-+0-9.eE]+)', c).group(1))
    out['consts'] = [const('ATOMIC_MASS'), const('ELEMENTARY_CHARGE'), const('SPEED_OF_LIGHT'), const('HC_EV_NM'),
                     const('BOHR_MAGNETON')]
    ms = _src(LS + 'beam/mse.pyx')
    out['split'] = float(re.search(r'^DEF STARK_SPLITTING_FACTOR\s*=\s*([-+0-9.eE]+)', ms, re.M).group(1))
    return out


# ---------------------------------------------------------------------------------------------------------------------
# mocks
# ---------------------------------------------------------------------------------------------------------------------
class World:
    """one plasma + beam with *spatially varying* profiles.  Every quantity is a linear profile through the value the case
    prescribes at the sampling point the call signature promises (`point` of the plasma models, `plasma_point` of the beam
    models): q(r) = q0 + g * ((x-x0) + 2(y-y0) + 3(z-z0)), exact at r0, different (and of possibly different sign) anywhere
    else.  All sampling coordinates are recorded."""

    def __init__(self, rng):
        from raysect.core import Vector3D, Point3D
        from cherab.core import Plasma, Beam, AtomicData
        from cherab.core.distribution import DistributionFunction
        W = self
        W.rng = rng
        W.point = (0.1, 0.2, 0.3)
        W.calls = []

        def off(x, y, z):
            x0, y0, z0 = W.point
            return (x - x0) + 2.0 * (y - y0) + 3.0 * (z - z0)

        def scal(v0, d):
            return v0 + 0.37 * (abs(v0) + 1.0) * d

        class Dist(DistributionFunction):
            def __init__(s, tag):
                super().__init__()
                s.tag = tag
                s.t = 1.0
                s.v = (0.0, 0.0, 0.0)
                s.n = 1e19

            def effective_temperature(s, x, y, z):
                W.calls.append((s.tag + '.effective_temperature', x, y, z))
                return scal(s.t, off(x, y, z))

            def bulk_velocity(s, x, y, z):
                W.calls.append((s.tag + '.bulk_velocity', x, y, z))
                d = off(x, y, z)
                return Vector3D(s.v[0] + 3.1e4 * d, s.v[1] - 1.7e4 * d, s.v[2] + 0.9e4 * d)

            def density(s, x, y, z):
                W.calls.append((s.tag + '.density', x, y, z))
                return scal(s.n, off(x, y, z))

            def evaluate(s, *a):
                return 0.0

        def bfield(x, y, z):
            W.calls.append(('b_field', x, y, z))
            d = off(x, y, z)
            b = W.B0
            return Vector3D(b[0] + 0.8 * d, b[1] - 1.3 * d, b[2] + 0.5 * d)

        self.V = Vector3D
        self.P3 = Point3D
        self.ion = Dist('species')
        self.el = Dist('electrons')
        self.plasma = Plasma()
        self.B0 = (0.0, 0.0, 0.0)
        self.plasma.b_field = bfield
        self.plasma.electron_distribution = self.el
        self.ad = AtomicData()
        self.beam = Beam()
        self.beam.plasma = self.plasma
        self._elements = {}

    def element(self, aw):
        from cherab.core.atomic import Element
        if aw not in self._elements:
            self._elements[aw] = Element('iso%r' % aw, 'X%d' % len(self._elements), 1, aw)
        return self._elements[aw]

    def set_env(self, e):
        """prescribe the values at a fresh random sampling point; elsewhere the profiles differ"""
        rng = self.rng
        self.point = (rng.uniform(-2, 2), rng.uniform(-2, 2), rng.uniform(-2, 2))
        self.ion.t = e['ts']
        self.ion.v = tuple(e['vel'])
        self.B0 = tuple(e['b'])
        self.el.n = e['ne']
        self.el.t = e['te']
        self.calls = []

    def other_point(self):
        """a point of the *other* frame (beam_point): guaranteed off the sampling point along the profile gradient"""
        rng = self.rng
        x0, y0, z0 = self.point
        return (x0 + rng.uniform(0.1, 1.5), y0 + rng.uniform(0.1, 1.5), z0 + rng.uniform(0.1, 1.5))


def spectrum(mn, mx, bins, base=None):
    from raysect.optical import Spectrum
    assert mn > 0, 'generator produced a window with non-positive wavelengths'
    s = Spectrum(mn, mx, bins)
    if base is not None:
        s.samples[:] = base
    return s


def spec_tokens(s, base):
    return '%s %s %s %d %s' % (f2b(s.min_wavelength), f2b(s.max_wavelength), f2b(s.delta_wavelength), s.bins, fs(base))


# ---------------------------------------------------------------------------------------------------------------------
# generators
# ---------------------------------------------------------------------------------------------------------------------
WINDOW_CLASSES = ['inside', 'straddle-lo', 'straddle-hi', 'outside-lo', 'outside-hi', 'tail-lo', 'tail-hi',
                  'narrow', 'one-bin', 'wide-line', 'edge-centre', 'random']


def gen_window(rng, wl, width, cut, cls=None):
    """(min, max, bins, class) placed relative to a line (wl, width); width > 0"""
    cls = cls or rng.choice(WINDOW_CLASSES)
    bins = rng.randint(1, 40)
    span = cut * width
    if cls == 'inside':
        mn = wl - span * rng.uniform(1.05, 3.0)
        mx = wl + span * rng.uniform(1.05, 3.0)
    elif cls == 'straddle-lo':
        mn = wl + width * rng.uniform(-3, 3)
        mx = wl + span * rng.uniform(1.05, 2.0)
    elif cls == 'straddle-hi':
        mn = wl - span * rng.uniform(1.05, 2.0)
        mx = wl + width * rng.uniform(-3, 3)
    elif cls == 'outside-lo':              # window entirely below the cut-off interval
        mx = wl - span * rng.uniform(1.01, 3.0)
        mn = mx - width * rng.uniform(1, 30)
    elif cls == 'outside-hi':
        mn = wl + span * rng.uniform(1.01, 3.0)
        mx = mn + width * rng.uniform(1, 30)
    elif cls == 'tail-lo':                 # window below the centre, reaching into the lower tail
        mx = wl - width * rng.uniform(0.5, 6)
        mn = mx - width * rng.uniform(1, 30)
    elif cls == 'tail-hi':
        mn = wl + width * rng.uniform(0.5, 6)
        mx = mn + width * rng.uniform(1, 30)
    elif cls == 'narrow':                  # line much narrower than a bin
        d = width * rng.choice([20, 100, 1e3, 1e4])
        bins = rng.randint(1, 12)
        mn = wl - d * rng.uniform(0, bins)
        mx = mn + d * bins
    elif cls == 'one-bin':
        bins = 1
        mn = wl - width * rng.uniform(-2, 15)
        mx = mn + width * rng.uniform(0.5, 30)
    elif cls == 'wide-line':               # window much smaller than the line
        mn = wl + width * rng.uniform(-2, 2)
        mx = mn + width * rng.uniform(0.01, 0.5)
    elif cls == 'edge-centre':             # centre exactly on the lower / upper window edge
        if rng.random() < 0.5:
            mn = wl
            mx = wl + width * rng.uniform(1, 15)
        else:
            mx = wl
            mn = wl - width * rng.uniform(1, 15)
    else:
        mn = wl + width * rng.uniform(-15, 15)
        mx = mn + width * rng.uniform(0.1, 40)
    if not mx > mn:
        mx = mn + abs(width)
    return mn, mx, bins, cls


def gen_base(rng, bins):
    k = rng.random()
    if k < 0.5:
        return [0.0] * bins
    if k < 0.8:
        return [rng.uniform(0, 2) for _ in range(bins)]
    return [rng.choice([0.0, 1.0, 1e-30, 3.5, -0.25]) for _ in range(bins)]


ISOTOPES = [1.007975, 2.0141017778, 3.0160492777, 4.002602, 12.0106, 14.006855, 20.1797, 183.84]


def unit(rng):
    while True:
        v = [rng.gauss(0, 1) for _ in range(3)]
        n = math.sqrt(sum(t * t for t in v))
        if n > 1e-3:
            return [t / n for t in v]


def gen_env(rng, bclass=None, tclass=None):
    wl = rng.choice([656.104, 486.0, 121.567, 404.21, 909.0, rng.uniform(200, 1200)])
    aw = rng.choice(ISOTOPES + [rng.uniform(1, 60)])
    tclass = tclass or rng.choice(['zero', 'neg', 'cold', 'warm', 'warm', 'hot', 'warm'])
    ts = {'zero': 0.0, 'neg': -rng.uniform(0.1, 10), 'cold': 10 ** rng.uniform(-3, -1),
          'warm': 10 ** rng.uniform(-1, 2), 'hot': 10 ** rng.uniform(2, 4)}[tclass]
    vk = rng.random()
    vel = [0.0, 0.0, 0.0] if vk < 0.25 else [rng.uniform(-1, 1) * 10 ** rng.uniform(3, 6) for _ in range(3)]
    d = unit(rng)
    dk = rng.random()
    if dk < 0.2:
        d = rng.choice([[1.0, 0.0, 0.0], [0.0, -1.0, 0.0], [0.0, 0.0, 1.0]])
    scale = rng.choice([1.0, 1.0, 2.0, 0.125, rng.uniform(0.1, 10)])       # non-normalised directions too
    d = [t * scale for t in d]
    bclass = bclass or rng.choice(['zero', 'parallel', 'anti', 'perp', 'oblique', 'oblique', 'oblique', 'tiny', 'large'])
    if bclass == 'zero':
        b = [0.0, 0.0, 0.0]
    elif bclass == 'parallel':
        k = rng.uniform(0.5, 6) / scale
        b = [t * k for t in d]
    elif bclass == 'anti':
        k = -rng.uniform(0.5, 6) / scale
        b = [t * k for t in d]
    elif bclass == 'perp':
        u = unit(rng)
        dd = sum(t * t for t in d)
        pr = sum(x * y for x, y in zip(u, d)) / dd
        b = [x - pr * y for x, y in zip(u, d)]
        k = rng.uniform(0.5, 6) / max(1e-9, math.sqrt(sum(t * t for t in b)))
        b = [t * k for t in b]
    elif bclass == 'tiny':
        u = unit(rng)
        b = [t * 10 ** rng.uniform(-12, -4) for t in u]
    elif bclass == 'large':
        u = unit(rng)
        b = [t * rng.uniform(8, 40) for t in u]
    else:
        u = unit(rng)
        b = [t * rng.uniform(0.2, 8) for t in u]
    ek = rng.random()
    ne = 0.0 if ek < 0.08 else (-1e18 if ek < 0.12 else 10 ** rng.uniform(17, 21.5))
    tk = rng.random()
    te = 0.0 if tk < 0.06 else (-2.0 if tk < 0.1 else 10 ** rng.uniform(-1, 3))
    return dict(wl=wl, aw=aw, ts=ts, vel=vel, dir=d, b=b, ne=ne, te=te, tclass=tclass, bclass=bclass)


def env_tokens(e):
    return fs([e['wl'], e['aw'], e['ts']] + e['vel'] + e['dir'] + e['b'] + [e['ne'], e['te']])


def o_sigma(wl, t, aw):
    return math.sqrt(t * EC / (aw * AMU)) * wl / CL


def o_doppler(wl, d, v):
    n = math.sqrt(sum(t * t for t in d))
    return wl * (1.0 + sum(x * y for x, y in zip(v, d)) / n / CL)


def o_cos2(b, d):
    bd = sum(x * y for x, y in zip(b, d))
    return bd * bd / (sum(t * t for t in b) * sum(t * t for t in d))


# ---------------------------------------------------------------------------------------------------------------------
# independent oracle: component lists (radiance, centre, sigma) from the documented physics
# ---------------------------------------------------------------------------------------------------------------------
def o_zeeman_weights(e, pol, R):
    """(pi weight, sigma weight per component) * R for polarisation mode"""
    bb = sum(t * t for t in e['b'])
    if bb == 0:
        return None
    c2 = o_cos2(e['b'], e['dir'])
    s2 = 1.0 - c2
    wpi = 0.5 * s2 * R if pol != 'sigma' else 0.0
    wsg = (0.25 * s2 + 0.5 * c2) * R if pol != 'pi' else 0.0
    return wpi, wsg


def oracle_comps(kind, e, pol, R, extra):
    if e['ts'] <= 0:
        return []
    sg = o_sigma(e['wl'], e['ts'], e['aw'])
    dop = lambda w: o_doppler(w, e['dir'], e['vel'])
    bmag = math.sqrt(sum(t * t for t in e['b']))
    if kind == 'gauss':
        return [(R, dop(e['wl']), sg)]
    if kind == 'mult':
        return [(R * r, dop(w), sg) for w, r in extra['mult']]
    if kind == 'pz':
        al, be, ga = extra['abg']
        sg = sg * math.sqrt(1.0 + be * be * e['ts'] ** (2.0 * ga))
    zw = o_zeeman_weights(e, pol, R)
    if zw is None:
        return [(R if pol == 'no' else 0.5 * R, dop(e['wl']), sg)]
    wpi, wsg = zw
    if kind == 'zt':
        pe = HC / e['wl']
        return [(wpi, dop(e['wl']), sg), (wsg, dop(HC / (pe - MUB * bmag)), sg), (wsg, dop(HC / (pe + MUB * bmag)), sg)]
    if kind == 'pz':
        return [(wpi, dop(e['wl']), sg), (wsg, dop(e['wl'] + 0.5 * al * bmag), sg), (wsg, dop(e['wl'] - 0.5 * al * bmag), sg)]
    if kind == 'zm':
        out = []
        for key, w in (('pi', wpi), ('sp', wsg), ('sm', wsg)):
            tab = extra['tabs'][key]
            tot = sum(r for _, r in tab)
            for wv, r in tab:
                out.append((w * r / tot, dop(wv), sg))
        return out
    raise ValueError(kind)


def gauss_fraction(lo, hi, wl, sg):
    t = 1.0 / (SQ2 * sg)
    return 0.5 * (math.erf((hi - wl) * t) - math.erf((lo - wl) * t))


def oracle_bins(comps, mn, dl, bins):
    out = [0.0] * bins
    for R, wl, sg in comps:
        if sg <= 0 or R == 0:
            continue
        t = 1.0 / (SQ2 * sg)
        prev = math.erf((mn - wl) * t)
        for i in range(bins):
            cur = math.erf((mn + dl * (i + 1) - wl) * t)
            out[i] += R * 0.5 * (cur - prev) / dl
            prev = cur
    return out


# ---------------------------------------------------------------------------------------------------------------------
class Run:
    def __init__(self, ctx):
        self.ctx = ctx
        self.rng = ctx.rng
        self.lines = []          # driver input
        self.pending = []        # (line index, kind, implementation samples, floor, description)
        self.sampled = set()
        self.lor_pending = []
        self.cur_kidx = {}
        self.k_ok = set()
        self.W = World(ctx.rng)
        from raysect.core import Point3D, Vector3D
        self.V = Vector3D

    @property
    def P(self):
        """the sampling point of the current case (set by World.set_env)"""
        return self.W.P3(*self.W.point)

    def sampling_check(self, name, desc, kind):
        """S: every plasma quantity was sampled exactly at the point (and in the frame) the signature promises"""
        calls, self.W.calls = self.W.calls, []
        bad = [c for c in calls if tuple(c[1:]) != tuple(self.W.point)]
        self.ctx.count('S:sampling-point')
        self.ctx.case(key=('S', 'sampling', kind, len(calls)))
        if bad:
            self.ctx.count('S-fail:C02:%s:plasma-sampled-at-wrong-point' % name)
            self.ctx.fail('C02:%s:plasma-sampled-at-wrong-point' % name,
                          '%s sampled %s at %r; the point passed for the plasma quantities is %r (profiles vary in space, so the line shape is '
                          'that of another location)' % (name, bad[0][0], tuple(bad[0][1:]), tuple(self.W.point)),
                          dict(desc, sampling_point=list(self.W.point), sampled=[list(c) for c in bad[:4]]))
        return calls

    # -- K bookkeeping -------------------------------------------------------------------------------------------------
    def k_case(self, kind, line, impl, floor, desc, key):
        self.lines.append(line)
        self.pending.append((len(self.lines) - 1, kind, impl, floor, desc))
        self.ctx.count('K:' + kind)
        want = kind in ('gl', 'll', 'gq', 'm-zt', 'm-stark', 'mse') and kind not in self.sampled and len(self.lines) % 7 == 3
        if want:
            self.sampled.add(kind)
        self.ctx.case(key=('K', kind) + tuple(key), sample=dict(stream=kind, input=desc, implementation_head=impl[:4]) if want and not isinstance(impl, str) else None)

    def cmd(self, line):
        self.lines.append(line)

    # -- S bookkeeping -------------------------------------------------------------------------------------------------
    def s_check(self, ok, sig, why, desc, kind, key):
        self.ctx.count('S:' + kind)
        self.ctx.case(key=('S', kind) + tuple(key))
        if not ok:
            self.ctx.count('S-fail:' + sig)
            self.ctx.fail(sig, why, desc)


def compare(ctx, run, outs):
    n = 0
    run.k_ok = set()
    for idx, kind, impl, floor, desc in run.pending:
        o = outs[idx]
        run.k_ok.add(idx)
        if isinstance(impl, str):
            # discrete outputs (object state, raised / not raised): exact comparison
            n += 1
            if o != impl:
                ctx.disagreements += 1
                ctx.count('disagreement:' + kind)
                if ctx.hist['disagreement:' + kind] <= 3:
                    ctx.broke('correspondence', 'C02 stream ' + kind, dict(input=desc, model=o, implementation=impl))
                run.disagree.append((kind, desc))
                run.k_ok.discard(idx)
            continue
        try:
            mod = [b2f(t) for t in o.split()]
        except ValueError:
            mod = None
        ok = mod is not None and len(mod) == len(impl)
        worst = None
        if ok:
            for i, (a, b) in enumerate(zip(mod, impl)):
                if not (abs(a - b) <= K_REL * max(abs(a), abs(b)) + floor) and not (a != a and b != b):
                    ok = False
                    worst = (i, a, b)
                    break
        n += 1
        if not ok:
            ctx.disagreements += 1
            ctx.count('disagreement:' + kind)
            if ctx.hist['disagreement:' + kind] <= 3:
                ctx.broke('correspondence', 'C02 stream ' + kind,
                          dict(input=desc, first_difference=worst, model=(mod[:8] if mod else o[:200]), implementation=impl[:8]))
            run.disagree.append((kind, desc))
            run.k_ok.discard(idx)
    ctx.traces = n


# ---------------------------------------------------------------------------------------------------------------------
# streams
# ---------------------------------------------------------------------------------------------------------------------
def stream_primitives(run, n):
    """add_gaussian_line / add_lorentzian_line called directly: K per bin, S integral and bin averages"""
    from cherab.core.model.lineshape import add_gaussian_line
    rng, ctx = run.rng, run.ctx
    cut = run.src['cutG']
    for it in range(n):
        wl = rng.choice([656.1, 404.0, rng.uniform(100, 1200)])
        sg = rng.choice([10 ** rng.uniform(-4, 0.7), 0.015, 0.1])
        mn, mx, bins, cls = gen_window(rng, wl, sg, cut)
        if mn <= 1.0:
            sh = 100.0 - mn
            mn, mx, wl = mn + sh, mx + sh, wl + sh
        R = rng.choice([0.0, 1.0, rng.uniform(0, 5), 10 ** rng.uniform(-6, 6)])
        k = rng.random()
        if k < 0.05:
            sg = rng.choice([0.0, -0.1])
            cls = 'sigma<=0'
        base = gen_base(rng, bins)
        s = spectrum(mn, mx, bins, base)
        mn, mx, dl = s.min_wavelength, s.max_wavelength, s.delta_wavelength
        if sg > 0 and 2 * cut * sg / dl > 2 ** 29:
            continue
        r = add_gaussian_line(R, wl, sg, s)
        impl = [float(t) for t in s.samples]
        desc = dict(call='add_gaussian_line', radiance=R, wavelength=wl, sigma=sg, min=mn, max=mx, bins=bins, window=cls, base=base[:4])
        run.k_case('gl', 'gl %s %s' % (fs([R, wl, sg]), spec_tokens(s, base)), impl, K_FLOOR * abs(R) / dl + 1e-300, desc,
                   key=(cls, f2b(wl), f2b(sg), bins))
        # S: returned object is the same spectrum, integral, bins
        added = [a - b for a, b in zip(impl, base)]
        tot = math.fsum(added) * dl
        if sg > 0:
            fr = gauss_fraction(mn, mx, wl, sg)
            # tolerance: rounding of the base-sample subtraction when the base is not zero
            tol = S_GAUSS_TOL * abs(R) + 1e-13 * sum(abs(t) for t in base) * dl + 1e-300
            run.s_check(abs(tot - R * fr) <= tol, 'C02:add_gaussian_line:integral!=R*window-fraction',
                        'add_gaussian_line: Sigma added*delta = %r, R x fraction in window = %r (R=%r, window %s)' % (tot, R * fr, R, cls),
                        desc, 'gl-integral', (cls, bins))
            ob = oracle_bins([(R, wl, sg)], mn, dl, bins)
            bad = [i for i in range(bins) if abs(added[i] - ob[i]) > 1e-9 * abs(ob[i]) + 1e-13 * (abs(R) / dl + abs(base[i]))]
            run.s_check(not bad, 'C02:add_gaussian_line:bin!=bin-average-of-profile',
                        'add_gaussian_line: bin %r holds %r, bin average of the profile is %r' % (bad[:1], [added[i] for i in bad[:1]], [ob[i] for i in bad[:1]]),
                        desc, 'gl-bins', (cls, bins))
        else:
            run.s_check(impl == [float(t) for t in base], 'C02:add_gaussian_line:sigma<=0-changes-spectrum',
                        'add_gaussian_line with sigma=%r changed the spectrum' % sg, desc, 'gl-zero-width', (f2b(sg),))
        run.s_check(r is s, 'C02:add_gaussian_line:returns-other-object', 'returned spectrum is not the one passed in', desc, 'gl-identity', ())


def stream_edges(run):
    """dyadic inputs for which (cutoff - min)/delta is an exact integer: floor/ceil decisions hit exactly"""
    from cherab.core.model.lineshape import add_gaussian_line
    cut = run.src['cutG']
    if cut != 10.0:
        return
    for wl, sg, mn, dl, bins in [(8.0, 0.25, 4.0, 0.5, 16), (8.0, 0.25, 5.5, 0.5, 10), (8.0, 0.25, 4.0, 0.5, 9), (8.0, 0.25, 4.0, 0.5, 13),
                                 (8.0, 0.25, 10.5, 0.5, 4), (8.0, 0.25, 1.5, 0.5, 8), (8.0, 0.125, 4.0, 0.25, 32), (16.0, 0.5, 11.0, 1.0, 10),
                                 (8.0, 0.25, 10.0, 0.5, 4), (8.0, 0.25, 2.0, 0.5, 7), (8.0, 0.25, 8.0, 0.5, 1), (8.0, 0.25, 7.5, 0.5, 1)]:
        for R in (1.0, 3.0):
            s = spectrum(mn, mn + dl * bins, bins)
            assert s.delta_wavelength == dl
            add_gaussian_line(R, wl, sg, s)
            impl = [float(t) for t in s.samples]
            desc = dict(call='add_gaussian_line', radiance=R, wavelength=wl, sigma=sg, min=mn, max=mn + dl * bins, bins=bins, window='dyadic-edge')
            run.k_case('gl-edge', 'gl %s %s' % (fs([R, wl, sg]), spec_tokens(s, [0.0] * bins)), impl, K_FLOOR * R / dl, desc,
                       key=(wl, sg, mn, dl, bins, R))
            # exact support: bins that do not intersect [mn,mx] n [wl-10s, wl+10s] stay exactly zero
            lo, hi = wl - 10 * sg, wl + 10 * sg
            bad = [i for i in range(bins) if (mn + dl * (i + 1) <= lo or mn + dl * i >= hi) and impl[i] != 0.0]
            run.s_check(not bad, 'C02:add_gaussian_line:touches-bins-outside-cutoff', 'bins %r outside the cut-off interval were modified' % bad,
                        desc, 'gl-edge-support', (wl, sg, mn, dl, bins))
            fr = gauss_fraction(mn, mn + dl * bins, wl, sg)
            run.s_check(abs(sum(impl) * dl - R * fr) <= S_GAUSS_TOL * R, 'C02:add_gaussian_line:integral!=R*window-fraction',
                        'dyadic window: Sigma*delta=%r, R x fraction=%r' % (sum(impl) * dl, R * fr), desc, 'gl-edge-integral', (wl, sg, mn, dl, bins))


def stark_cumulative(x, x0, hw):
    """closed-form signed integral of 1/(1+|u|^2.5) from 0 to (x-x0)/hw (what the patched code evaluates)"""
    from scipy.special import hyp2f1
    u = abs(x - x0) / hw
    v = u * float(hyp2f1(0.4, 1.0, 1.4, -u ** 2.5))
    return v if x >= x0 else -v


def gtable(wl, fw, mn, dl, bins, cut):
    """(x, cumulative) for every abscissa the post-fix model can ask for: bin edges and the two cut-offs"""
    xs = set()
    for i in range(bins + 1):
        xs.add(mn + dl * float(i))
        xs.add(mn + float(i) * dl)
    xs.add(wl - cut * fw)
    xs.add(wl + cut * fw)
    return [(x, stark_cumulative(x, wl, 0.5 * fw)) for x in sorted(xs)]


def stark_exact(x0, f, a, b):
    """integral of StarkFunction(x0, f) over [a, b] to ~1e-11 (piecewise adaptive quadrature around the cusp)"""
    from scipy.integrate import quad
    from cherab.core.model.lineshape.stark import StarkFunction
    fn = StarkFunction(x0, f)
    pts = sorted(set([a, b] + [min(max(x0 + k * f, a), b) for k in (-50, -15, -5, -2, -1, -0.5, -0.2, 0, 0.2, 0.5, 1, 2, 5, 15, 50)]))
    tot = 0.0
    import warnings
    with warnings.catch_warnings():
        warnings.simplefilter('ignore')
        for lo, hi in zip(pts[:-1], pts[1:]):
            if hi > lo:
                tot += quad(fn, lo, hi, epsabs=0, epsrel=1e-12, limit=200)[0]
    return tot


def lorentz_oracle(R, wl, fw, mn, mx, dl, bins, cut):
    """R x (fraction of the normalised Stark profile in the bins the call may touch), and the truncated-profile value"""
    cl, cu = wl - cut * fw, wl + cut * fw
    if mx < cl or mn > cu:
        return 0.0, 0.0
    st = max(0, math.floor((cl - mn) / dl))
    en = min(bins, math.ceil((cu - mn) / dl))
    if en <= st:
        return 0.0, 0.0
    full = stark_exact(wl, fw, mn + st * dl, mn + en * dl)
    trunc = stark_exact(wl, fw, max(mn, cl), min(mx, cu))
    return R * full, R * trunc


def stream_lorentz(run, n):
    from cherab.core.model.lineshape import add_lorentzian_line
    from cherab.core.math.integrators import GaussianQuadrature
    rng, ctx = run.rng, run.ctx
    cut = run.src['cutL']
    for it in range(n):
        wl = rng.choice([656.1, 434.0, rng.uniform(300, 1000)])
        fw = rng.choice([10 ** rng.uniform(-3, 0), 0.05])
        cls = rng.choice(['resolved', 'resolved', 'resolved', 'straddle', 'coarse', 'coarse', 'under-resolved', 'outside', 'one-bin'])
        if cls == 'resolved':               # bins finer than the FWHM
            dl = fw * rng.uniform(0.05, 0.9)
            bins = rng.randint(4, 40)
            mn = wl - dl * bins * rng.uniform(0.2, 0.8)
        elif cls == 'straddle':
            dl = fw * rng.uniform(0.1, 1.5)
            bins = rng.randint(2, 30)
            mn = wl - dl * bins * rng.choice([rng.uniform(-0.2, 0.1), rng.uniform(0.9, 1.2)])
        elif cls == 'coarse':               # bin width 1..6 FWHM
            dl = fw * rng.uniform(1.0, 6.0)
            bins = rng.randint(2, 40)
            mn = wl - dl * bins * rng.uniform(0.2, 0.8)
        elif cls == 'under-resolved':       # bin width >= 8 FWHM: the whole line sits in one or two bins
            dl = fw * rng.choice([8, 12, 20, 50, 100, 300, 1000])
            bins = rng.randint(1, 12)
            mn = wl - dl * bins * rng.uniform(0.05, 0.95)
        elif cls == 'outside':
            dl = fw * rng.uniform(0.5, 3)
            bins = rng.randint(1, 20)
            mn = wl + cut * fw * rng.uniform(1.01, 2) if rng.random() < 0.5 else wl - cut * fw * rng.uniform(1.01, 2) - dl * bins
        else:
            bins = 1
            dl = fw * rng.choice([0.5, 2, 5, 30, 200])
            mn = wl - dl * rng.uniform(-0.5, 1.5)
        if mn <= 1.0:
            ctx.count('skipped:non-positive-wavelength-window')
            continue
        R = rng.choice([1.0, rng.uniform(0, 5), 10 ** rng.uniform(-3, 3)])
        if rng.random() < 0.04:
            fw = rng.choice([0.0, -0.2])
            cls = 'fwhm<=0'
        base = gen_base(rng, bins)
        lorentz_case(run, R, wl, fw, mn, mn + dl * bins, bins, base, cls)


def lorentz_case(run, R, wl, fw, mn, mx, bins, base, cls, origin=None):
    """one call of add_lorentzian_line: K case, reference line (model with the exact bin integral), S oracle.  A total that
    is off by more than the tolerance is queued for attribution (attribute_lorentz), not reported here."""
    from cherab.core.model.lineshape import add_lorentzian_line
    ctx = run.ctx
    cut = run.src['cutL']
    s = spectrum(mn, mx, bins, base)
    mn, mx, dl = s.min_wavelength, s.max_wavelength, s.delta_wavelength
    add_lorentzian_line(R, wl, fw, s, run.default_integrator)
    impl = [float(t) for t in s.samples]
    ratio = dl / fw if fw > 0 else 0.0
    desc = dict(call='add_lorentzian_line', radiance=R, wavelength=wl, fwhm=fw, min=mn, max=mx, bins=bins, window=cls,
                bin_width_over_fwhm=ratio, integrator='GaussianQuadrature()')
    if origin:
        desc['origin'] = origin
    variant = run.src['lorentz_variant']
    tab = gtable(wl, fw, mn, dl, bins, cut) if fw > 0 else []
    if variant == 'cdf' and fw > 0:
        kline = 'llc %s %s %d %s' % (fs([R, wl, fw]), spec_tokens(s, base), len(tab), fs([t for xg in tab for t in xg]))
    else:
        kline = 'll %s %s' % (fs([R, wl, fw]), spec_tokens(s, base))
    run.k_case('ll', kline, impl, 1e-12 * abs(R) / dl + 1e-300, desc, key=(cls, f2b(wl), f2b(fw), bins))
    kidx = len(run.lines) - 1
    added = [a - b for a, b in zip(impl, base)]
    tot = math.fsum(added) * dl
    if fw <= 0:
        run.s_check(impl == [float(t) for t in base], 'C02:add_lorentzian_line:fwhm<=0-changes-spectrum', 'fwhm=%r changed the spectrum' % fw,
                    desc, 'll-zero-width', (f2b(fw),))
        return
    full, trunc = lorentz_oracle(R, wl, fw, mn, mx, dl, bins, cut)
    bsum = sum(abs(t) for t in base)
    if variant == 'cdf':
        # closed-form bin integrals, clipped at the cut-offs: the truncated normalised profile, to rounding
        ok = abs(tot - trunc) <= 1e-9 * R + 1e-12 * bsum * dl
        run.s_check(ok, 'C02:add_lorentzian_line:integral!=R*window-fraction',
                    'add_lorentzian_line(R=%r, wavelength=%r, fwhm=%r) on Spectrum(%r, %r, %d): Sigma added*delta = %r, R x window fraction = %r'
                    % (R, wl, fw, mn, mx, bins, tot, trunc), desc, 'll-integral', (cls, bins, f2b(fw)))
        return
    # expected: R x fraction of the normalised profile in the window; the two edge bins integrate the un-truncated profile,
    # which may add up to 5.1e-4 R (noted, accepted): interval [truncated, un-truncated]
    elo, ehi = min(full, trunc), max(full, trunc)
    ok = elo - LOR_DISC_TOL * R - 1e-12 * bsum * dl <= tot <= ehi + LOR_DISC_TOL * R + 1e-12 * bsum * dl
    ctx.count('S:ll-integral')
    ctx.case(key=('S', 'll-integral', cls, bins, f2b(fw)))
    # reference run of the *model* with the exact bin integral (same window logic, no quadrature)
    run.cmd('llx %s %s %d %s' % (fs([R, wl, fw]), spec_tokens(s, [0.0] * bins), len(tab), fs([t for xg in tab for t in xg])))
    run.lor_pending.append(dict(kind='primitive', ok=ok, kidx=kidx, xidx=len(run.lines) - 1, tot=tot, elo=elo, ehi=ehi, trunc=trunc, R=R, dl=dl,
                                ratio=ratio, desc=desc,
                                text='add_lorentzian_line(R=%r, wavelength=%r, fwhm=%r) on Spectrum(%r, %r, %d) [bin width = %.3g FWHM]: Sigma added*delta = %r '
                                     'but R x (fraction of the normalised profile in the window) = %r' % (R, wl, fw, mn, mx, bins, ratio, tot, trunc)))


def stream_starkfunction(run, n):
    """S only: the closed-form (2F1) normalisation of StarkFunction over +-50 FWHM; model <-> StarkFunction values (K)"""
    from cherab.core.model.lineshape.stark import StarkFunction
    rng = run.rng
    cut = run.src['cutL']
    for it in range(n):
        x0 = rng.uniform(200, 1000)
        fw = 10 ** rng.uniform(-3, 0.5)
        tot = stark_exact(x0, fw, x0 - cut * fw, x0 + cut * fw)
        desc = dict(call='StarkFunction', wavelength=x0, fwhm=fw)
        run.s_check(abs(tot - 1.0) <= 1e-8, 'C02:StarkFunction:not-normalised-over-cutoff', 'integral over +-%g FWHM = %r' % (cut, tot), desc,
                    'stark-norm', (f2b(fw),))
        fn = StarkFunction(x0, fw)
        for k in range(3):
            x = x0 + fw * rng.choice([0.0, rng.uniform(-60, 60), rng.uniform(-2, 2)])
            run.k_case('sf', 'sf %s' % fs([x0, fw, x]), [fn(x)], 0.0, dict(call='StarkFunction.__call__', wavelength=x0, fwhm=fw, x=x),
                       key=(f2b(x0), f2b(fw), f2b(x)))


def stream_quadrature(run, n):
    """GaussianQuadrature.evaluate on Python integrands vs the model (order stepping, rtol stop)"""
    from cherab.core.math.integrators import GaussianQuadrature
    from scipy.special import roots_legendre
    rng = run.rng
    configs = [(1, 50, 1e-5), (1, 5, 1e-3), (3, 12, 1e-8), (2, 2, 1e-5), (1, 30, 1e-2)]
    for mn_o, mx_o, rtol in configs:
        toks = []
        for order in range(mn_o, mx_o + 1):
            r, w = roots_legendre(order)
            toks.append('%d %s %s' % (order, fs(r), fs(w)))
        run.cmd('rules %d %s' % (mx_o - mn_o + 1, ' '.join(toks)))
        run.cmd('cfg %s' % fs([run.src['cutG'], run.src['cutL'], run.normC, rtol]))
        q = GaussianQuadrature(relative_tolerance=rtol, max_order=mx_o, min_order=mn_o)
        for it in range(max(2, n // len(configs))):
            kind = rng.choice(['poly', 'poly', 'exp', 'runge', 'stark'])
            a = rng.uniform(-3, 3)
            b = a + rng.choice([rng.uniform(0.01, 5), 1.0, -rng.uniform(0.1, 2)])
            if kind == 'poly':
                cs = [rng.uniform(-2, 2) for _ in range(rng.randint(1, 9))]
                q.integrand = lambda x, cs=cs: _horner(cs, x)
                line = 'gq poly %s %s' % (fs([a, b]), fs(cs))
                d = dict(integrand='polynomial', coefficients=cs)
            elif kind == 'exp':
                k = rng.uniform(-3, 3)
                q.integrand = lambda x, k=k: math.exp(k * x)
                line = 'gq exp %s' % fs([a, b, k])
                d = dict(integrand='exp(kx)', k=k)
            elif kind == 'runge':
                k = rng.uniform(0, 40)
                q.integrand = lambda x, k=k: 1.0 / (1.0 + k * x * x)
                line = 'gq runge %s' % fs([a, b, k])
                d = dict(integrand='1/(1+kx^2)', k=k)
            else:
                from cherab.core.model.lineshape.stark import StarkFunction
                x0 = rng.uniform(400, 700)
                fw = 10 ** rng.uniform(-2, 0)
                a = x0 + fw * rng.uniform(-8, 8)
                b = a + fw * rng.uniform(0.05, 20)
                q.integrand = StarkFunction(x0, fw)
                line = 'gq stark %s' % fs([a, b, x0, fw])
                d = dict(integrand='StarkFunction', wavelength=x0, fwhm=fw)
            val = q(a, b)
            d.update(call='GaussianQuadrature.__call__', a=a, b=b, min_order=mn_o, max_order=mx_o, rtol=rtol)
            run.k_case('gq', line, [val], 1e-13 * abs(b - a), d, key=(kind, mn_o, mx_o, f2b(a), f2b(b)))
    # restore the default integrator configuration for the streams that follow
    set_default_rules(run)


def _horner(cs, x):
    acc = 0.0
    for c in reversed(cs):
        acc = c + x * acc
    return acc


def set_default_rules(run):
    from scipy.special import roots_legendre
    q = run.default_integrator
    toks = []
    for order in range(q.min_order, q.max_order + 1):
        r, w = roots_legendre(order)
        toks.append('%d %s %s' % (order, fs(r), fs(w)))
    run.cmd('rules %d %s' % (q.max_order - q.min_order + 1, ' '.join(toks)))
    run.cmd('cfg %s' % fs([run.src['cutG'], run.src['cutL'], run.normC, q.relative_tolerance]))


# -- plasma models ------------------------------------------------------------------------------------------------------
def model_sigma(kind, e, extra):
    if e['ts'] <= 0:
        return 0.02
    sg = o_sigma(e['wl'], e['ts'], e['aw'])
    if kind == 'pz':
        al, be, ga = extra['abg']
        sg *= math.sqrt(1.0 + be * be * e['ts'] ** (2.0 * ga))
    return sg


def gen_tables(rng, e, kind):
    """multiplet / Zeeman-structure tables of 1..6 components"""
    extra = {}
    if kind == 'mult':
        n = rng.randint(1, 6)
        # ratios that sum to 1.0 exactly in double arithmetic (the constructor insists on == 1.0)
        parts = [rng.randint(1, 16) for _ in range(n)]
        tot = sum(parts)
        ratios = [p / tot for p in parts]
        if sum(ratios) != 1.0:
            parts = [1] * n if n in (1, 2, 4) else [2, 1, 1][:n] if n == 3 else [1] * 4 + [2] * (n - 4)
            tot = sum(parts)
            ratios = [p / tot for p in parts]
            if sum(ratios) != 1.0:
                ratios = [0.5, 0.25, 0.125, 0.0625, 0.03125, 0.03125][:n]
                ratios[-1] += 1.0 - sum(ratios)
        sg = model_sigma('mult', e, None)
        ws = [e['wl'] + sg * rng.uniform(-40, 40) for _ in range(n)]
        extra['mult'] = list(zip(ws, ratios))
    if kind == 'zm':
        bmag = math.sqrt(sum(t * t for t in e['b']))
        tabs, fns = {}, {}
        for key in ('pi', 'sp', 'sm'):
            n = rng.randint(1, 6 if key == 'pi' else 4)
            rows = []
            for _ in range(n):
                a0 = e['wl'] + rng.uniform(-0.05, 0.05)
                a1 = rng.uniform(-0.03, 0.03)
                r0 = rng.uniform(0.1, 3.0)
                r1 = rng.uniform(0, 0.2)
                rows.append((a0, a1, r0, r1))
            fns[key] = [((lambda b, a0=a0, a1=a1: a0 + a1 * b), (lambda b, r0=r0, r1=r1: r0 + r1 * b)) for a0, a1, r0, r1 in rows]
            tabs[key] = [(a0 + a1 * bmag, r0 + r1 * bmag) for a0, a1, r0, r1 in rows]
        extra['tabs'] = tabs
        extra['fns'] = fns
    if kind == 'pz':
        extra['abg'] = (rng.choice([0.0402068, rng.uniform(0.001, 0.2)]), rng.choice([0.0, 0.4384, rng.uniform(0, 2)]),
                        rng.choice([-0.5015, 0.0, rng.uniform(-1, 1)]))
    if kind == 'stark':
        extra['cab'] = rng.choice([(3.71e-18, 0.7665, 0.064), (8.425e-18, 0.7803, -0.050 + 0.1), (1.31e-15, 0.6796, 0.03),
                                   (10 ** rng.uniform(-19, -15), rng.uniform(0.5, 0.9), rng.uniform(0.01, 0.3))])
    return extra


def build_model(run, kind, e, pol, extra):
    from cherab.core import Line, Species
    from cherab.core.atomic import ZeemanStructure
    from cherab.core.model import lineshape as L
    W = run.W
    el = W.element(e['aw'])
    line = Line(el, 0, (3, 2))
    sp = Species(el, 0, W.ion)
    if kind == 'gauss':
        return L.GaussianLine(line, e['wl'], sp, W.plasma, W.ad)
    if kind == 'mult':
        return L.MultipletLineShape(line, e['wl'], sp, W.plasma, W.ad, [[w for w, r in extra['mult']], [r for w, r in extra['mult']]])
    if kind == 'zt':
        return L.ZeemanTriplet(line, e['wl'], sp, W.plasma, W.ad, pol)
    if kind == 'pz':
        return L.ParametrisedZeemanTriplet(line, e['wl'], sp, W.plasma, W.ad, extra['abg'], pol)
    if kind == 'zm':
        f = extra['fns']
        zs = ZeemanStructure(f['pi'], f['sp'], f['sm'])
        return L.ZeemanMultiplet(line, e['wl'], sp, W.plasma, W.ad, zs, pol)
    if kind == 'stark':
        return L.StarkBroadenedLine(line, e['wl'], sp, W.plasma, W.ad, extra['cab'], run.default_integrator, pol)
    raise ValueError(kind)


def model_line(kind, pol, R, e, extra, s, base):
    head = 'm %s %s %s %s' % (kind, pol, f2b(R), env_tokens(e))
    if kind == 'mult':
        head += ' %d %s' % (len(extra['mult']), fs([t for wr in extra['mult'] for t in wr]))
    if kind == 'pz':
        head += ' ' + fs(extra['abg'])
    if kind == 'zm':
        for key in ('pi', 'sp', 'sm'):
            tab = extra['tabs'][key]
            head += ' %d %s' % (len(tab), fs([t for wr in tab for t in wr]))
    if kind == 'stark':
        head += ' ' + fs(extra['cab'])
    return head + ' ' + spec_tokens(s, base)


def stark_widths_oracle(e, cab):
    """documented pseudo-Voigt parameters: (lorentz weight, full FWHM) — docstring of StarkBroadenedLine"""
    c, a, b = cab
    fl = c * e['ne'] ** a / e['te'] ** b if e['ne'] > 0 and e['te'] > 0 else 0.0
    fg = 2 * math.sqrt(2 * math.log(2)) * o_sigma(e['wl'], e['ts'], e['aw']) if e['ts'] > 0 else 0.0
    return fl, fg


def stream_models(run, n):
    rng, ctx = run.rng, run.ctx
    cutG = run.src['cutG']
    kinds = ['gauss', 'mult', 'zt', 'pz', 'zm', 'stark']
    deferred = []
    for it in range(n):
        kind = kinds[it % len(kinds)]
        e = gen_env(rng)
        if kind == 'stark' and rng.random() < 0.5:
            # keep Doppler and Stark widths comparable so that the pseudo-Voigt branch is exercised
            e['ts'] = rng.choice([e['ts'], 10 ** rng.uniform(-1, 1.5)])
            e['ne'] = 10 ** rng.uniform(19.5, 21.5)
            e['te'] = 10 ** rng.uniform(-0.5, 1.5)
        extra = gen_tables(rng, e, kind)
        sg = model_sigma(kind, e, extra)
        if kind == 'stark':
            fl, fg = stark_widths_oracle(e, extra['cab'])
            sg = max(sg if e['ts'] > 0 else 0.0, fl / 2.355, 1e-4)
        centre = o_doppler(e['wl'], e['dir'], e['vel'])
        wcls = None
        if kind == 'stark':
            wcls = rng.choice(['inside', 'straddle-lo', 'straddle-hi', 'random', 'tail-hi', 'one-bin', 'outside-lo'])
        mn, mx, bins, cls = gen_window(rng, centre, sg, cutG, wcls)
        if kind == 'stark':
            bins = max(bins, 8) if cls != 'one-bin' else 1
        if mn <= 1.0:
            continue
        R = rng.choice([1.0, 0.0, rng.uniform(0, 5), 10 ** rng.uniform(-4, 4)])
        base = gen_base(rng, bins)
        run.W.set_env(e)
        res = {}
        run.cur_kidx = {}
        ok_build = True
        for pol in ('no', 'pi', 'sigma'):
            try:
                m = build_model(run, kind, e, pol, extra)
            except ValueError as ex:
                ctx.count('ctor-rejected:' + kind)
                ok_build = False
                break
            s = spectrum(mn, mx, bins, base)
            r = m.add_line(R, run.P, run.V(*e['dir']), s)
            impl = [float(t) for t in s.samples]
            res[pol] = (impl, s)
            dl = s.delta_wavelength
            desc = dict(model=type(m).__name__, polarisation=pol, radiance=R, env={k: e[k] for k in ('wl', 'aw', 'ts', 'vel', 'dir', 'b', 'ne', 'te')},
                        extra={k: v for k, v in extra.items() if k != 'fns'}, min=s.min_wavelength, max=s.max_wavelength, bins=bins,
                        window=cls, B=e['bclass'], T=e['tclass'])
            run.sampling_check(type(m).__name__, desc, kind)
            if sg > 0 and 2 * cutG * sg / dl < 2 ** 29:
                floor = (K_FLOOR if kind != 'stark' else 1e-11) * abs(R) / dl + 1e-300
                key = (pol, cls, e['bclass'], e['tclass'], f2b(e['wl']), f2b(R))
                if kind == 'stark' and run.src['lorentz_variant'] == 'cdf':
                    # post-fix variant: the driver needs the closed-form cumulative at the bin edges of every Lorentzian
                    # component; the component centres are asked from the model first (second driver pass below)
                    deferred.append((pol, R, e, extra, s, base, impl, floor, desc, key))
                else:
                    run.k_case('m-' + kind, model_line(kind, pol, R, e, extra, s, base), impl, floor, desc, key=key)
                    run.cur_kidx[pol] = len(run.lines) - 1
            if kind in ('gauss', 'mult'):
                break
        if not ok_build:
            continue
        model_oracles(run, kind, e, R, extra, res, base, cls)
    if deferred:
        cutL = run.src['cutL']
        mc = ['mc %s %s %s %s' % (pol, f2b(R), env_tokens(e), fs(extra['cab'])) for pol, R, e, extra, s, base, impl, floor, desc, key in deferred]
        outs = ctx.driver(mc)
        for (pol, R, e, extra, s, base, impl, floor, desc, key), o in zip(deferred, outs):
            vals = [b2f(t) for t in o.split()]
            trip = []
            for j in range(0, len(vals), 3):
                wl_c, fw_c = vals[j + 1], vals[j + 2]
                if fw_c > 0:
                    trip += [(wl_c, x, g) for x, g in gtable(wl_c, fw_c, s.min_wavelength, s.delta_wavelength, s.bins, cutL)]
            run.cmd('gtab %d %s' % (len(trip), fs([t for tr in trip for t in tr])))
            run.k_case('m-stark', model_line('stark', pol, R, e, extra, s, base), impl, floor, desc, key=key)


def model_oracles(run, kind, e, R, extra, res, base, cls):
    """S: oracles evaluated on the implementation's spectra only"""
    name = {'gauss': 'GaussianLine', 'mult': 'MultipletLineShape', 'zt': 'ZeemanTriplet', 'pz': 'ParametrisedZeemanTriplet',
            'zm': 'ZeemanMultiplet', 'stark': 'StarkBroadenedLine'}[kind]
    envd = {k: e[k] for k in ('wl', 'aw', 'ts', 'vel', 'dir', 'b', 'ne', 'te')}
    impl_no, s = res['no']
    mn, mx, dl, bins = s.min_wavelength, s.max_wavelength, s.delta_wavelength, s.bins
    bsum = sum(abs(t) for t in base)
    desc = dict(model=name, radiance=R, env=envd, extra={k: v for k, v in extra.items() if k != 'fns'}, min=mn, max=mx, bins=bins, window=cls)
    # zero width -------------------------------------------------------------------------------------------------------
    nowidth = e['ts'] <= 0 and (kind != 'stark' or not (e['ne'] > 0 and e['te'] > 0))
    if nowidth:
        for pol, (impl, _) in res.items():
            run.s_check(impl == [float(t) for t in base], 'C02:%s:no-width-adds-something' % name,
                        '%s (pol %s) changed the spectrum although the line has no width (ts=%r, ne=%r, te=%r)' % (name, pol, e['ts'], e['ne'], e['te']),
                        dict(desc, polarisation=pol), 'zero-width', (kind, pol))
        return
    # pi + sigma = none ---------------------------------------------------------------------------------------------------
    if 'pi' in res:
        a_no = [x - b for x, b in zip(impl_no, base)]
        a_pi = [x - b for x, b in zip(res['pi'][0], base)]
        a_sg = [x - b for x, b in zip(res['sigma'][0], base)]
        scale = abs(R) / dl
        bad = [i for i in range(bins) if abs(a_no[i] - (a_pi[i] + a_sg[i])) > 1e-12 * scale + 1e-13 * abs(base[i]) + 1e-300]
        run.s_check(not bad, 'C02:%s:pi+sigma!=unpolarised' % name,
                    '%s: bin %r: none=%r, pi=%r, sigma=%r' % (name, bad[:1], [a_no[i] for i in bad[:1]], [a_pi[i] for i in bad[:1]], [a_sg[i] for i in bad[:1]]),
                    desc, 'pi+sigma', (kind, e['bclass'], cls))
    if kind == 'stark':
        stark_oracle(run, e, R, extra, res, base, cls, desc)
        return
    # integral and bin averages against the documented component structure -----------------------------------------------
    for pol, (impl, _) in res.items():
        comps = oracle_comps(kind, e, pol, R, extra)
        added = [x - b for x, b in zip(impl, base)]
        tot = math.fsum(added) * dl
        want = sum(Rc * gauss_fraction(mn, mx, w, sg) for Rc, w, sg in comps if sg > 0)
        tol = S_GAUSS_TOL * abs(R) + 1e-13 * bsum * dl + 1e-300
        # the Doppler-shifted centres are recomputed by the oracle; an ulp of the centre moves a steep window-edge fraction
        slope = sum(abs(Rc) / sg for Rc, w, sg in comps if sg > 0) * 1e-13 * e['wl']
        run.s_check(abs(tot - want) <= tol + slope, 'C02:%s:integral!=R*window-fraction' % name,
                    '%s (pol %s): Sigma added*delta = %r, radiance x fraction of the normalised profile in the window = %r (R=%r)' % (name, pol, tot, want, R),
                    dict(desc, polarisation=pol), 'integral', (kind, pol, cls, e['bclass']))
        ob = oracle_bins(comps, mn, dl, bins)
        sc = abs(R) / dl
        bad = [i for i in range(bins) if abs(added[i] - ob[i]) > 1e-7 * abs(ob[i]) + 1e-9 * sc + 1e-13 * abs(base[i])]
        run.s_check(not bad, 'C02:%s:bin!=bin-average-of-profile' % name,
                    '%s (pol %s): bin %r holds %r, bin average of the documented profile is %r' % (name, pol, bad[:1], [added[i] for i in bad[:1]], [ob[i] for i in bad[:1]]),
                    dict(desc, polarisation=pol), 'bins', (kind, pol, cls, e['bclass']))


def stark_oracle(run, e, R, extra, res, base, cls, desc):
    """total of StarkBroadenedLine: window spanning everything -> R (mode no); generally gw*Gauss + lw*Lorentz fractions
    with the documented weights.  A discrepancy that add_lorentzian_line alone reproduces is attributed to it."""
    from cherab.core.model.lineshape import add_lorentzian_line
    cutL = run.src['cutL']
    fl, fg = stark_widths_oracle(e, extra['cab'])
    a_co = run.src['coef']
    pg, plz, pw = a_co[0:7], a_co[7:14], a_co[14:20]
    # documented fits (docstring of StarkBroadenedLine): b-polynomial in G/L for L >= G, a-polynomial in L/G otherwise
    if fg <= fl:
        r_ = fg / fl
        fv = sum(c * r_ ** i for i, c in enumerate([1., 0, 0.57575, 0.37902, -0.42519, -0.31525, 0.31718])) * fl
    else:
        r_ = fl / fg
        fv = sum(c * r_ ** i for i, c in enumerate([1., 0.15882, 1.04388, -1.38281, 0.46251, 0.82325, -0.58026])) * fg
    x = fl / fv
    if x < 0.01:
        lw = 0.0
    elif x > 0.999:
        lw = 1.0
    else:
        lw = math.exp(sum(c * math.log(x) ** i for i, c in enumerate([5.14820e-04, 1.38821e+00, -9.60424e-02, -3.83995e-02, -7.40042e-03, -5.47626e-04])))
    sg = fv / (2 * math.sqrt(2 * math.log(2)))
    bmag = math.sqrt(sum(t * t for t in e['b']))
    dop = lambda w: o_doppler(w, e['dir'], e['vel'])
    for pol, (impl, s) in res.items():
        mn, mx, dl, bins = s.min_wavelength, s.max_wavelength, s.delta_wavelength, s.bins
        zw = o_zeeman_weights(e, pol, R)
        if zw is None:
            parts = [(R if pol == 'no' else 0.5 * R, dop(e['wl']))]
        else:
            pe = HC / e['wl']
            parts = [(zw[0], dop(e['wl'])), (zw[1], dop(HC / (pe - MUB * bmag))), (zw[1], dop(HC / (pe + MUB * bmag)))]
        want_lo = want_hi = 0.0
        for Rc, w in parts:
            if Rc == 0:
                continue
            if lw < 1.0:
                g_ = (1 - lw) * Rc * gauss_fraction(mn, mx, w, sg)
                want_lo += g_
                want_hi += g_
            if lw > 0.0:
                full, trunc = lorentz_oracle(lw * Rc, w, fv, mn, mx, dl, bins, cutL)
                if run.src['lorentz_variant'] == 'cdf':
                    full = trunc
                want_lo += min(full, trunc)
                want_hi += max(full, trunc)
        added = [a - b for a, b in zip(impl, base)]
        tot = math.fsum(added) * dl
        ltol = 1e-8 if run.src['lorentz_variant'] == 'cdf' else LOR_DISC_TOL
        tol = (ltol if lw > 0 else 1e-9) * abs(R) + 1e-12 * sum(abs(t) for t in base) * dl + 1e-300
        ok = want_lo - tol <= tot <= want_hi + tol
        d2 = dict(desc, polarisation=pol, lorentz_weight=lw, fwhm_full=fv, bin_width_over_fwhm=dl / fv)
        text = ('StarkBroadenedLine (pol %s) on Spectrum(%r, %r, %d) [bin width = %.3g FWHM of the Lorentzian part, weight %.3g]: Sigma added*delta = %r, '
                'documented pseudo-Voigt fraction x radiance = %r' % (pol, mn, mx, bins, dl / fv, lw, tot, want_lo))
        if lw > 0 and run.src['lorentz_variant'] != 'cdf':
            run.ctx.count('S:stark-integral')
            run.ctx.case(key=('S', 'stark-integral', pol, cls, e['bclass']))
            if not ok:
                # queued: attributed to the quadrature only if K agrees and the model with the exact bin integral is right
                run.lor_pending.append(dict(kind='stark', ok=False, kidx=run.cur_kidx.get(pol), tot=tot, elo=want_lo, ehi=want_hi, R=R, dl=dl,
                                            ratio=dl / fv, desc=d2, text=text, pol=pol, e=e, extra=extra, spec=s, base=base))
        else:
            run.s_check(ok, 'C02:StarkBroadenedLine:integral!=R*window-fraction', text, d2, 'stark-integral', (pol, cls, e['bclass']))


def attribute_lorentz(ctx, run, outs):
    """Every Lorentzian total that missed its expectation is attributed.  It belongs to the known quadrature finding
    (LOR_SIG) iff (a) K agrees for that very call — the implementation *is* the transcribed per-bin GaussianQuadrature —
    and (b) the same model run with the exact (closed-form) bin integral gives the expected value, i.e. window edges,
    normalisation and weights are right and the whole discrepancy is the quadrature's.  Anything else keeps its own
    signature and is a violation."""
    attributed = []
    # reference runs for the Stark-model discrepancies: second driver pass in 'exact' mode
    starks = [p for p in run.lor_pending if p['kind'] == 'stark' and not p['ok']]
    if starks:
        cutL = run.src['cutL']
        mc = ['mc %s %s %s %s' % (p['pol'], f2b(p['R']), env_tokens(p['e']), fs(p['extra']['cab'])) for p in starks]
        comps = ctx.driver(mc)
        lines = ['cfg %s' % fs([run.src['cutG'], cutL, run.normC, run.default_integrator.relative_tolerance]), 'mode exact']
        for p, o in zip(starks, comps):
            vals = [b2f(t) for t in o.split()]
            s = p['spec']
            trip = []
            for j in range(0, len(vals), 3):
                if vals[j + 2] > 0:
                    trip += [(vals[j + 1], x, g) for x, g in gtable(vals[j + 1], vals[j + 2], s.min_wavelength, s.delta_wavelength, s.bins, cutL)]
            lines.append('gtab %d %s' % (len(trip), fs([t for tr in trip for t in tr])))
            lines.append(model_line('stark', p['pol'], p['R'], p['e'], p['extra'], s, [0.0] * s.bins))
            p['xidx2'] = len(lines) - 1
        outs2 = ctx.driver(lines)
    for p in run.lor_pending:
        ref_line = outs[p['xidx']] if p['kind'] == 'primitive' else (outs2[p['xidx2']] if not p['ok'] else None)
        if ref_line is None:
            continue
        try:
            ref = math.fsum(b2f(t) for t in ref_line.split()) * p['dl']
        except ValueError:
            ref = float('nan')
        R = p['R']
        # the reference (closed form) and the oracle (adaptive quadrature) both evaluate |x - x0| / fwhm: conditioning ~ ulp(x0) / fwhm
        wl_, fw_ = (p['desc']['wavelength'], p['desc']['fwhm']) if p['kind'] == 'primitive' else (p['e']['wl'], p['desc']['fwhm_full'])
        btol = (1e-8 + 16 * math.ulp(wl_) / fw_) * R
        b_ok = p['elo'] - btol <= ref <= p['ehi'] + btol
        if p['ok']:
            # no discrepancy on the implementation; the reference model must be right as well (monitor of the tie)
            if not b_ok:
                ctx.broke('correspondence', 'C02 reference (exact bin integral) vs oracle', dict(input=p['desc'], reference=ref, expected=[p['elo'], p['ehi']]))
            continue
        a_ok = p['kidx'] is not None and p['kidx'] in run.k_ok
        ctx.count('S:lorentz-discrepancy')
        if a_ok and b_ok:
            attributed.append(p)
            ctx.count('S:lorentz-discrepancy-attributed-to-quadrature')
        else:
            why = []
            if not a_ok:
                why.append('the implementation does not equal the model with the transcribed GaussianQuadrature (K)')
            if not b_ok:
                why.append('the model with the exact bin integral gives %r, expected [%r, %r]' % (ref, p['elo'], p['ehi']))
            sig = 'C02:add_lorentzian_line:integral!=R*window-fraction' if p['kind'] == 'primitive' else 'C02:StarkBroadenedLine:integral!=R*window-fraction'
            ctx.count('S-fail:' + sig)
            ctx.fail(sig, p['text'] + ' -- not explained by the bin quadrature: ' + '; '.join(why), p['desc'])
    if attributed:
        run.lorentz_defect_seen = True
        worst = max(attributed, key=lambda p: (p['kind'] == 'primitive', max(p['elo'] - p['tot'], p['tot'] - p['ehi']) / p['R']))
        lo_r = min(p['ratio'] for p in attributed)
        hi_r = max(p['ratio'] for p in attributed)
        ctx.extra['lorentz_quadrature_finding'] = dict(cases=len(attributed), bin_width_over_fwhm=[lo_r, hi_r],
                                                       tolerance_x_R=LOR_DISC_TOL, stark_model_cases=sum(1 for p in attributed if p['kind'] == 'stark'))
        ctx.count('S-fail:' + LOR_SIG, len(attributed))
        ctx.fail(LOR_SIG,
                 'the per-bin GaussianQuadrature (rtol 1e-5, orders 1..50) of add_lorentzian_line misses its tolerance on the cusp of the Stark profile: '
                 '%d calls in this run deviate from R x window fraction by more than %g R, at bin widths from %.3g to %.3g FWHM (every bin where the shipped '
                 'quadrature misses its rtol is covered by this signature; attribution: K agrees with the transcribed quadrature and the model with the exact bin '
                 'integral gives the expected value).  Worst: %s' % (len(attributed), LOR_DISC_TOL, lo_r, hi_r, worst['text']), worst['desc'])


def stream_ratios(run, n):
    """component ratios on isolated peaks: components further apart than 30 sigma, integrate each peak separately"""
    rng = run.rng
    for it in range(n):
        kind = ['mult', 'zt', 'pz', 'zm'][it % 4]
        e = gen_env(rng, bclass=rng.choice(['oblique', 'oblique', 'perp', 'parallel']), tclass='cold')
        e['wl'] = 656.104
        e['aw'] = 2.0141017778
        e['ts'] = 10 ** rng.uniform(-3, -2)
        e['vel'] = [rng.uniform(-1e4, 1e4) for _ in range(3)]
        bm = math.sqrt(sum(t * t for t in e['b']))
        k = rng.uniform(3, 8) / bm
        e['b'] = [t * k for t in e['b']]
        bm *= k
        sg = o_sigma(e['wl'], e['ts'], e['aw'])
        extra = {}
        if kind == 'mult':
            ratios = rng.choice([[0.5, 0.25, 0.25], [0.125, 0.875], [0.25, 0.25, 0.25, 0.125, 0.125], [1.0], [0.0625, 0.4375, 0.5]])
            extra['mult'] = [(e['wl'] + 40 * sg * j, r) for j, r in enumerate(ratios)]
        if kind == 'pz':
            extra['abg'] = (0.0402068, 0.0, 0.0)
        if kind == 'zm':
            npi, nsp, nsm = rng.randint(1, 3), rng.randint(1, 2), rng.randint(1, 2)
            rows = {}
            off = 0
            for key, cnt in (('pi', npi), ('sp', nsp), ('sm', nsm)):
                rows[key] = [(e['wl'] + 40 * sg * (off + j), rng.uniform(0.2, 3)) for j in range(cnt)]
                off += cnt
            extra['tabs'] = rows
            extra['fns'] = {key: [((lambda b, w=w: w), (lambda b, r=r: r)) for w, r in rows[key]] for key in rows}
        R = rng.uniform(0.5, 4)
        pol = rng.choice(['no', 'pi', 'sigma']) if kind != 'mult' else 'no'
        comps = [c for c in oracle_comps(kind, e, pol, R, extra)]
        centres = [w for _, w, _ in comps]
        if len(comps) > 1:
            gaps = [abs(a - b) for i, a in enumerate(centres) for b in centres[i + 1:]]
            if min(gaps) < 25 * max(c[2] for c in comps):
                run.ctx.count('ratio-stream-overlap-skipped')
                continue
        sgm = max(c[2] for c in comps)
        mn = min(centres) - 14 * sgm
        mx = max(centres) + 14 * sgm
        bins = int(min(20000, max(50, (mx - mn) / (sgm / 2))))
        run.W.set_env(e)
        m = build_model(run, kind, e, pol, extra)
        s = spectrum(mn, mx, bins)
        m.add_line(R, run.P, run.V(*e['dir']), s)
        x = np.asarray(s.wavelengths)
        y = np.asarray(s.samples)
        desc = dict(model=type(m).__name__, polarisation=pol, radiance=R, env={k: e[k] for k in ('wl', 'aw', 'ts', 'vel', 'dir', 'b')},
                    extra={k: v for k, v in extra.items() if k != 'fns'}, min=mn, max=mx, bins=bins)
        run.sampling_check(type(m).__name__, desc, 'ratios-' + kind)
        bad = []
        for Rc, w, sc in comps:
            sel = np.abs(x - w) <= 12 * sc
            got = float(y[sel].sum()) * s.delta_wavelength
            if abs(got - Rc) > 1e-9 * R + 1e-12:
                bad.append((w, got, Rc))
        run.s_check(not bad, 'C02:%s:component-ratio' % type(m).__name__,
                    '%s (pol %s): isolated component at %r nm carries %r, stated share is %r' % ((type(m).__name__, pol) + (bad[0] if bad else (0, 0, 0))),
                    desc, 'ratios', (kind, pol, len(comps)))
        tot = float(y.sum()) * s.delta_wavelength
        run.s_check(abs(tot - sum(c[0] for c in comps)) <= 1e-9 * R, 'C02:%s:integral!=R*window-fraction' % type(m).__name__,
                    'isolated components: total %r vs %r' % (tot, sum(c[0] for c in comps)), desc, 'ratios-total', (kind, pol))


def stream_zeeman_structure(run, n):
    """ZeemanStructure.__call__ (public face of the cdef evaluate) against zeemanNormalise, incl. non-positive ratio sums"""
    from cherab.core.atomic import ZeemanStructure
    rng = run.rng
    for it in range(n):
        b = rng.choice([0.0, rng.uniform(0, 10)])
        tabs = {}
        for key in ('pi', 'sigma_plus', 'sigma_minus'):
            k = rng.randint(0 if key != 'pi' else 1, 6)
            mode = rng.choice(['pos', 'pos', 'pos', 'zero', 'neg', 'mixed'])
            rows = []
            for _ in range(k):
                r0 = {'pos': rng.uniform(0.01, 5), 'zero': 0.0, 'neg': -rng.uniform(0.1, 2), 'mixed': rng.uniform(-1, 1)}[mode]
                rows.append((rng.uniform(400, 700), rng.uniform(-0.01, 0.01), r0, rng.choice([0.0, rng.uniform(0, 0.1)]) if mode == 'pos' else 0.0))
            tabs[key] = (rows, mode)
        mk = lambda rows: [((lambda x, a0=a0, a1=a1: a0 + a1 * x), (lambda x, r0=r0, r1=r1: r0 + r1 * x)) for a0, a1, r0, r1 in rows]
        zs = ZeemanStructure(mk(tabs['pi'][0]), mk(tabs['sigma_plus'][0]), mk(tabs['sigma_minus'][0]))
        for key, (rows, mode) in tabs.items():
            arr = zs(b, key)
            raw = [(a0 + a1 * b, r0 + r1 * b) for a0, a1, r0, r1 in rows]
            impl = [float(t) for t in arr[0]] + [float(t) for t in arr[1]]
            desc = dict(call='ZeemanStructure.__call__', b=b, polarisation=key, raw=raw)
            run.k_case('zs', 'zn %d %s' % (len(raw), fs([t for wr in raw for t in wr])), impl, 0.0, desc, key=(key, mode, len(raw), f2b(b)))
            tot = sum(r for _, r in raw)
            if tot > 0 and raw:
                sm = math.fsum(float(t) for t in arr[1])
                run.s_check(abs(sm - 1.0) <= 1e-12, 'C02:ZeemanStructure:ratios-not-renormalised',
                            'ratios returned for %s at b=%r sum to %r' % (key, b, sm), desc, 'zs-sum', (key, len(raw)))
                okr = all(abs(float(arr[1][j]) - raw[j][1] / tot) <= 1e-12 for j in range(len(raw)))
                run.s_check(okr and [float(t) for t in arr[0]] == [w for w, _ in raw], 'C02:ZeemanStructure:ratio-or-wavelength-altered',
                            'normalised table %r for raw %r' % (arr.tolist(), raw), desc, 'zs-ratios', (key, len(raw)))



# -- fault histories: a raising user-supplied component function must not change what later successful calls return -----------
class _ComponentFault(ValueError):
    pass


def stream_fault_histories(run, n):
    """S, model-free.  One ZeemanStructure (and one ZeemanMultiplet on it) through a history of field strengths in which some calls
    make the k-th (k >= 2) user-supplied wavelength/ratio function of one polarisation raise.  Every successful call must (a) equal,
    bit for bit, the first successful call at the same field on the same object, (b) equal a fresh object built from the same
    functions, (c) integrate to the radiance (window spans the line), and the user's exception must reach the caller."""
    import numpy as np
    from cherab.core import Line, Species
    from cherab.core.atomic import ZeemanStructure
    from cherab.core.model import lineshape as L
    rng, W = run.rng, run.W
    for it in range(n):
        e = gen_env(rng, bclass='oblique', tclass=rng.choice(['cold', 'warm', 'warm', 'hot']))
        u = unit(rng)
        limit = rng.uniform(2.0, 6.0)
        b1 = rng.uniform(0.2, limit * 0.98)
        b3 = rng.uniform(0.2, limit * 0.98)
        b2 = limit + rng.uniform(0.01, 4.0)
        fkey = rng.choice(['pi', 'sp', 'sm'])
        sizes = {k: rng.randint(1, 5) for k in ('pi', 'sp', 'sm')}
        sizes[fkey] = rng.randint(2, 6)
        fidx = rng.randint(1, sizes[fkey] - 1)          # never the first: something is already written when it raises
        fwhich = rng.choice(['wavelength', 'ratio'])
        rows = {k: [(e['wl'] + rng.uniform(-0.05, 0.05), rng.uniform(-0.03, 0.03), rng.uniform(0.1, 3.0), rng.uniform(0, 0.2))
                    for _ in range(sizes[k])] for k in sizes}

        def lin(c0, c1, guarded):
            def f(b):
                if guarded and b > limit:
                    raise _ComponentFault('component tabulated up to %r T only, %r T requested' % (limit, b))
                return c0 + c1 * b
            return f

        def fns(k):
            return [(lin(a0, a1, k == fkey and j == fidx and fwhich == 'wavelength'),
                     lin(r0, r1, k == fkey and j == fidx and fwhich == 'ratio')) for j, (a0, a1, r0, r1) in enumerate(rows[k])]

        mk = lambda: ZeemanStructure(fns('pi'), fns('sp'), fns('sm'))
        hist = rng.choice([[b1, b2, b1], [b1, b2, b1, b2, b1], [b1, b3, b2, b1, b3], [b3, b1, b2, b2 + 1.0, b1, b3, b1]])
        desc = dict(stream='fault-history', field_direction=u, history=hist, raises_above=limit, failing_list=fkey, failing_index=fidx,
                    failing_function=fwhich, rows={k: [list(r) for r in rows[k]] for k in rows},
                    env={k: e[k] for k in ('wl', 'aw', 'ts', 'vel', 'dir')})
        kname = {'pi': 'pi', 'sp': 'sigma_plus', 'sm': 'sigma_minus'}[fkey]

        # (1) the structure itself, through its public accessor
        zs, first = mk(), {}
        for step, b in enumerate(hist):
            d = dict(desc, call='ZeemanStructure.__call__', polarisation=kname, step=step, b=b)
            try:
                arr = np.array(zs(b, kname), dtype=float)
            except _ComponentFault:
                run.s_check(b > limit, 'C02:ZeemanStructure:spurious-exception', 'raised at b=%r <= %r' % (b, limit), d, 'fault-zs-raise', (fkey,))
                continue
            run.s_check(b <= limit, 'C02:ZeemanStructure:component-exception-swallowed',
                        'the component function raised at b=%r but the call returned %r' % (b, arr.tolist()), d, 'fault-zs-raise', (fkey,))
            if b > limit:
                continue
            fresh = np.array(mk()(b, kname), dtype=float)
            same = b not in first or (arr.shape == first[b].shape and bool((arr == first[b]).all()))
            first.setdefault(b, arr)
            run.s_check(same and arr.shape == fresh.shape and bool((arr == fresh).all()),
                        'C02:ZeemanStructure:table-changed-after-raising-component-function',
                        'step %d at b=%r returns %r; the first call at this b returned %r, a fresh structure returns %r '
                        '(an earlier call at b > %r raised in component %d of %s)' % (step, b, arr.tolist(), first[b].tolist(), fresh.tolist(), limit, fidx, kname),
                        d, 'fault-zs', (fkey, fwhich, len(hist), step))

        # (2) the line shape on one structure
        pol = rng.choice(['no', 'pi'] if fkey == 'pi' else ['no', 'sigma'])
        sg = model_sigma('zm', e, None)
        centre = o_doppler(e['wl'], e['dir'], e['vel'])
        half = (0.06 + 0.031 * (b2 + 1.0)) * 1.01 + 13.0 * sg
        mn, mx, bins = centre - half, centre + half, rng.randint(50, 600)
        if mn <= 1.0:
            continue
        R = rng.uniform(0.1, 4)
        W.set_env(e)
        el = W.element(e['aw'])
        line, sp = Line(el, 0, (3, 2)), Species(el, 0, W.ion)
        model = L.ZeemanMultiplet(line, e['wl'], sp, W.plasma, W.ad, mk(), pol)
        share = 1.0 if pol == 'no' else None
        first = {}
        for step, b in enumerate(hist):
            W.B0 = tuple(t * b for t in u)
            d = dict(desc, call='ZeemanMultiplet.add_line', polarisation=pol, radiance=R, window=[mn, mx, bins], step=step, b=b)
            s = spectrum(mn, mx, bins)
            try:
                model.add_line(R, run.P, run.V(*e['dir']), s)
            except _ComponentFault:
                run.s_check(b > limit, 'C02:ZeemanMultiplet:spurious-exception', 'raised at |B|=%r <= %r' % (b, limit), d, 'fault-zm-raise', (fkey,))
                continue
            run.s_check(b <= limit, 'C02:ZeemanMultiplet:component-exception-swallowed',
                        'the component function raised at |B|=%r but add_line returned normally' % b, d, 'fault-zm-raise', (fkey,))
            if b > limit:
                continue
            got = np.array(s.samples, dtype=float)
            fm = L.ZeemanMultiplet(line, e['wl'], sp, W.plasma, W.ad, mk(), pol)
            fs_ = spectrum(mn, mx, bins)
            fm.add_line(R, run.P, run.V(*e['dir']), fs_)
            fresh = np.array(fs_.samples, dtype=float)
            same = b not in first or bool((got == first[b]).all())
            first.setdefault(b, got)
            integ, integ0 = float(got.sum() * s.delta_wavelength), float(fresh.sum() * s.delta_wavelength)
            run.s_check(same and bool((got == fresh).all()), 'C02:ZeemanMultiplet:spectrum-changed-after-raising-component-function',
                        'step %d, |B|=%r: spectrum differs from the first call at this field / from a fresh model by up to %.3e per bin '
                        '(integral %r vs %r; an earlier add_line at |B| > %r raised in component %d of the %s list)'
                        % (step, b, float(np.abs(got - fresh).max()), integ, integ0, limit, fidx, kname), d, 'fault-zm', (fkey, fwhich, pol, len(hist), step))
            if share is not None:
                run.s_check(abs(integ - R) <= 1e-9 * R, 'C02:ZeemanMultiplet:not-normalised-after-raising-component-function',
                            'step %d, |B|=%r: spectral integral %r for radiance %r (window spans the whole line)' % (step, b, integ, R),
                            d, 'fault-zm-integral', (fkey, pol, step))
        W.calls = []


# -- setter histories: construct -> set* -> use == fresh(final) --------------------------------------------------------------
GQ_TABLE_ORDERS = 40


def send_gq_table(run):
    from scipy.special import roots_legendre
    toks = []
    for order in range(1, GQ_TABLE_ORDERS + 1):
        r, w = roots_legendre(order)
        toks.append('%d %s %s' % (order, fs(r), fs(w)))
    run.cmd('gqtab %d %s' % (GQ_TABLE_ORDERS, ' '.join(toks)))


def gq_state(q):
    return '%d %d %s' % (q.min_order, q.max_order, f2b(q.relative_tolerance))


def _poly_exact(cs, a, b):
    return sum(c * (b ** (k + 1) - a ** (k + 1)) / (k + 1) for k, c in enumerate(cs))


def gq_integrand(rng, q, kind=None, max_degree=None):
    """install a random integrand on q; returns (driver command tail builder, description, exact integral or None)"""
    kind = kind or rng.choice(['poly', 'exp', 'runge', 'stark'])
    if kind == 'poly':
        deg = rng.randint(0, max_degree if max_degree is not None else 8)
        cs = [rng.uniform(-2, 2) for _ in range(deg + 1)]
        q.integrand = lambda x, cs=cs: _horner(cs, x)
        return (lambda a, b: 'poly %s %s' % (fs([a, b]), fs(cs))), dict(integrand='polynomial', coefficients=cs), cs
    if kind == 'exp':
        k = rng.uniform(-3, 3)
        q.integrand = lambda x, k=k: math.exp(k * x)
        return (lambda a, b: 'exp %s' % fs([a, b, k])), dict(integrand='exp(kx)', k=k), None
    if kind == 'runge':
        k = rng.uniform(0, 40)
        q.integrand = lambda x, k=k: 1.0 / (1.0 + k * x * x)
        return (lambda a, b: 'runge %s' % fs([a, b, k])), dict(integrand='1/(1+kx^2)', k=k), None
    from cherab.core.model.lineshape.stark import StarkFunction
    x0 = rng.uniform(1.0, 3.0)
    fw = 10 ** rng.uniform(-1, 0.5)
    q.integrand = StarkFunction(x0, fw)
    return (lambda a, b: 'stark %s' % fs([a, b, x0, fw])), dict(integrand='StarkFunction', wavelength=x0, fwhm=fw), None


def stream_gq_histories(run, n):
    """GaussianQuadrature: random sequences of the min_order / max_order / relative_tolerance / integrand setters (raise,
    lower, equal, invalid) interleaved with evaluations.  K: the object model (flat cache + setters + evaluate) in the
    driver follows the same history; S: every evaluation equals a freshly constructed integrator with the parameters the
    getters report, rejected setters change nothing, polynomials of degree <= 2*min_order-1 are integrated exactly."""
    from cherab.core.math.integrators import GaussianQuadrature
    rng, ctx = run.rng, run.ctx
    send_gq_table(run)
    for it in range(n):
        mn0 = rng.randint(1, 8)
        mx0 = min(GQ_TABLE_ORDERS, mn0 + rng.choice([0, 1, 3, rng.randint(0, 14)]))
        rt0 = rng.choice([1e-5, 1e-3, 1e-8, 1e-2])
        q = GaussianQuadrature(relative_tolerance=rt0, max_order=mx0, min_order=mn0)
        hist = [('new', mn0, mx0, rt0)]
        run.k_case('gqh-state', 'gqnew %d %d %s' % (mn0, mx0, f2b(rt0)), gq_state(q), 0.0, dict(history=list(hist)), key=('new', mn0, mx0))
        cmdb, idesc, cs = gq_integrand(rng, q)
        nops = rng.randint(2, 7)
        for step in range(nops + 2):
            final = step >= nops
            op = rng.choice(['min', 'min', 'max', 'max', 'rtol', 'integrand', 'eval']) if not final else ('evalpoly' if step == nops else 'eval')
            cmn, cmx = q.min_order, q.max_order
            if op in ('min', 'max', 'rtol'):
                if op == 'min':
                    cls = rng.choice(['raise', 'raise', 'lower', 'equal', 'to-max', 'invalid-low', 'invalid-high'])
                    v = {'raise': rng.randint(cmn, cmx), 'lower': rng.randint(1, cmn), 'equal': cmn, 'to-max': cmx,
                         'invalid-low': rng.choice([0, -1, -7]), 'invalid-high': cmx + rng.randint(1, 5)}[cls]
                elif op == 'max':
                    cls = rng.choice(['raise', 'raise', 'lower', 'equal', 'to-min', 'invalid-low', 'invalid-below-min'])
                    v = {'raise': rng.randint(cmx, GQ_TABLE_ORDERS), 'lower': rng.randint(cmn, cmx), 'equal': cmx, 'to-min': cmn,
                         'invalid-low': rng.choice([0, -2]), 'invalid-below-min': cmn - 1}[cls]
                else:
                    cls = rng.choice(['valid', 'valid', 'invalid'])
                    v = rng.choice([1e-5, 1e-3, 1e-8, 1e-2, 10 ** rng.uniform(-10, -1)]) if cls == 'valid' else rng.choice([0.0, -1e-3])
                before = gq_state(q)
                attr = {'min': 'min_order', 'max': 'max_order', 'rtol': 'relative_tolerance'}[op]
                try:
                    setattr(q, attr, v)
                    raised = '0'
                except ValueError:
                    raised = '1'
                hist.append((attr, v, 'raised' if raised == '1' else 'ok'))
                desc = dict(call='GaussianQuadrature.%s = %r' % (attr, v), history=list(hist))
                line = 'gqset %s %s' % (op, f2b(v) if op == 'rtol' else str(int(v)))
                run.k_case('gqh-state', line, raised + ' ' + gq_state(q), 0.0, desc, key=(op, cls, cmn, cmx, int(v) if op != 'rtol' else f2b(v)))
                if raised == '1':
                    run.s_check(gq_state(q) == before, 'C02:GaussianQuadrature:rejected-setter-changed-state',
                                '%s = %r raised ValueError but the state went from %s to %s' % (attr, v, before, gq_state(q)), desc, 'gqh-atomic', (op, cls))
                invalid = cls.startswith('invalid')
                run.s_check((raised == '1') == invalid, 'C02:GaussianQuadrature:setter-validation',
                            '%s = %r with (min, max) = (%d, %d): %s' % (attr, v, cmn, cmx, 'accepted' if raised == '0' else 'rejected'), desc, 'gqh-validation', (op, cls))
            elif op == 'integrand':
                cmdb, idesc, cs = gq_integrand(rng, q)
                hist.append(('integrand', idesc['integrand']))
            else:
                if op == 'evalpoly':
                    cmdb, idesc, cs = gq_integrand(rng, q, 'poly', max_degree=2 * q.min_order - 1)
                    hist.append(('integrand', 'polynomial degree %d <= 2*min_order-1' % (len(cs) - 1)))
                if idesc['integrand'] == 'StarkFunction':
                    a = idesc['wavelength'] + idesc['fwhm'] * rng.uniform(-6, 6)
                    b = a + idesc['fwhm'] * rng.uniform(0.05, 8)
                else:
                    a = rng.uniform(-2, 2)
                    b = a + rng.choice([rng.uniform(0.05, 3), 1.0, -rng.uniform(0.1, 2)])
                val = q(a, b)
                hist.append(('evaluate', a, b))
                desc = dict(call='GaussianQuadrature.__call__', a=a, b=b, state=gq_state(q).split()[:2], rtol=q.relative_tolerance, history=list(hist), **idesc)
                run.k_case('gqh-eval', 'gqe ' + cmdb(a, b), [val], 1e-13 * abs(b - a), desc, key=(idesc['integrand'], q.min_order, q.max_order, f2b(a), f2b(b)))
                fresh = GaussianQuadrature(q.integrand, q.relative_tolerance, q.max_order, q.min_order)
                fv = fresh(a, b)
                run.s_check(fv == val, 'C02:GaussianQuadrature:setter-history!=fresh-integrator',
                            'after %r the integrator returns %r on [%r, %r]; a fresh GaussianQuadrature(rtol=%r, max_order=%d, min_order=%d) returns %r'
                            % (hist[1:-1], val, a, b, q.relative_tolerance, q.max_order, q.min_order, fv), desc, 'gqh-fresh', (q.min_order, q.max_order, len(hist)))
                if idesc['integrand'] == 'polynomial' and len(cs) - 1 <= 2 * q.min_order - 1:
                    ex = _poly_exact(cs, a, b)
                    scale = sum(abs(c) * max(abs(a), abs(b), 1.0) ** (k + 1) for k, c in enumerate(cs))
                    run.s_check(abs(val - ex) <= 1e-11 * scale, 'C02:GaussianQuadrature:polynomial-not-exact',
                                'degree %d polynomial on [%r, %r] with min_order %d: %r, exact %r (history %r)' % (len(cs) - 1, a, b, q.min_order, val, ex, hist[1:-1]),
                                desc, 'gqh-poly-exact', (len(cs) - 1, q.min_order))
        # the same integrator object inside a StarkBroadenedLine
        if it % 2 == 0:
            stark_through_integrator(run, q, hist)


def stark_through_integrator(run, q, hist):
    from cherab.core.math.integrators import GaussianQuadrature
    from cherab.core import Line, Species
    from cherab.core.model import lineshape as L
    rng, W = run.rng, run.W
    e = gen_env(rng, tclass=rng.choice(['zero', 'cold', 'warm']))
    e['ne'] = 10 ** rng.uniform(19.5, 21.5)
    e['te'] = 10 ** rng.uniform(-0.5, 1.5)
    e['wl'] = 656.104
    cab = (3.71e-18, 0.7665, 0.064)
    fl = cab[0] * e['ne'] ** cab[1] / e['te'] ** cab[2]
    width = max(fl, 2.355 * o_sigma(e['wl'], e['ts'], e['aw']) if e['ts'] > 0 else 0.0)
    centre = o_doppler(e['wl'], e['dir'], e['vel'])
    bins = rng.randint(8, 40)
    dl = width * rng.uniform(0.1, 0.8)                 # resolved bins: the quadrature is meaningful here
    mn = centre - dl * bins * rng.uniform(0.3, 0.7)
    R = rng.uniform(0.5, 3)
    W.set_env(e)
    el = W.element(e['aw'])
    line = Line(el, 0, (3, 2))
    sp = Species(el, 0, W.ion)
    pol = rng.choice(['no', 'pi', 'sigma'])
    fresh = GaussianQuadrature(relative_tolerance=q.relative_tolerance, max_order=q.max_order, min_order=q.min_order)
    out = []
    for integ in (q, fresh):
        m = L.StarkBroadenedLine(line, e['wl'], sp, W.plasma, W.ad, cab, integ, pol)
        s = spectrum(mn, mn + dl * bins, bins)
        m.add_line(R, run.P, run.V(*e['dir']), s)
        out.append(([float(t) for t in s.samples], s))
        run.sampling_check('StarkBroadenedLine', dict(model='StarkBroadenedLine', polarisation=pol, radiance=R), 'gqh-stark')
    impl, s = out[0]
    desc = dict(model='StarkBroadenedLine', polarisation=pol, radiance=R, env={k: e[k] for k in ('wl', 'aw', 'ts', 'vel', 'dir', 'b', 'ne', 'te')},
                extra=dict(cab=cab), min=s.min_wavelength, max=s.max_wavelength, bins=bins, integrator_history=list(hist),
                integrator_state=gq_state(q).split()[:2], rtol=q.relative_tolerance)
    run.s_check(impl == out[1][0], 'C02:StarkBroadenedLine:integrator-setter-history!=fresh-integrator',
                'StarkBroadenedLine with an integrator that went through %r gives Sigma*delta = %r; with a fresh GaussianQuadrature(rtol=%r, max_order=%d, '
                'min_order=%d) it gives %r' % (hist[1:], sum(impl) * s.delta_wavelength, q.relative_tolerance, q.max_order, q.min_order,
                                               sum(out[1][0]) * s.delta_wavelength), desc, 'gqh-stark-fresh', (pol, q.min_order, q.max_order))
    if run.src['lorentz_variant'] != 'cdf':
        run.cmd('obji 1')
        run.k_case('gqh-stark', model_line('stark', pol, R, e, dict(cab=cab), s, [0.0] * bins), impl, 1e-11 * R / s.delta_wavelength, desc,
                   key=(pol, q.min_order, q.max_order, f2b(R)))
        run.cmd('obji 0')


def stream_pol_histories(run, n):
    """ZeemanLineShapeModel.polarisation setter: construct with A, set (valid spellings, rejected values), use == fresh(final)"""
    rng, ctx = run.rng, run.ctx
    cutG = run.src['cutG']
    kinds = ['zt', 'pz', 'zm', 'stark']
    spell = {'pi': ['pi', 'PI', 'Pi'], 'sigma': ['sigma', 'SIGMA', 'Sigma'], 'no': ['no', 'NO', 'No']}
    for it in range(n):
        kind = kinds[it % 4]
        e = gen_env(rng, tclass=rng.choice(['cold', 'warm', 'warm', 'hot']))
        if kind == 'stark':
            e['ne'] = 10 ** rng.uniform(19.5, 21.5)
            e['te'] = 10 ** rng.uniform(-0.5, 1.5)
        extra = gen_tables(rng, e, kind)
        sg = model_sigma(kind, e, extra)
        if kind == 'stark':
            fl, fg = stark_widths_oracle(e, extra['cab'])
            sg = max(sg, fl / 2.355)
        centre = o_doppler(e['wl'], e['dir'], e['vel'])
        mn, mx, bins, cls = gen_window(rng, centre, sg, cutG, rng.choice(['inside', 'straddle-lo', 'straddle-hi', 'random']))
        if kind == 'stark':
            bins = max(bins, 10)
        if mn <= 1.0:
            continue
        R = rng.uniform(0.1, 4)
        run.W.set_env(e)
        p0 = rng.choice(['no', 'pi', 'sigma'])
        m = build_model(run, kind, e, p0, extra)
        cur = p0
        hist = [('construct', p0)]
        for _ in range(rng.randint(1, 5)):
            if rng.random() < 0.25:
                v = rng.choice(['x', '', 'sigma+', 'none', 'pi '])
                try:
                    m.polarisation = v
                    raised = False
                except ValueError:
                    raised = True
                hist.append((v, 'raised' if raised else 'accepted'))
                run.s_check(raised and m.polarisation == cur, 'C02:%s:polarisation-setter-validation' % type(m).__name__,
                            'polarisation = %r: %s, getter now %r (was %r)' % (v, 'raised' if raised else 'accepted', m.polarisation, cur),
                            dict(model=type(m).__name__, history=list(hist)), 'polh-invalid', (kind, v))
            else:
                tgt = rng.choice(['no', 'pi', 'sigma'])
                v = rng.choice(spell[tgt])
                m.polarisation = v
                cur = tgt
                hist.append((v, 'ok'))
                run.s_check(m.polarisation == tgt, 'C02:%s:polarisation-getter' % type(m).__name__,
                            'after polarisation = %r the getter returns %r' % (v, m.polarisation), dict(model=type(m).__name__, history=list(hist)),
                            'polh-getter', (kind, v))
        base = gen_base(rng, bins)
        s = spectrum(mn, mx, bins, base)
        m.add_line(R, run.P, run.V(*e['dir']), s)
        impl = [float(t) for t in s.samples]
        run.sampling_check(type(m).__name__, dict(model=type(m).__name__, polarisation=cur, radiance=R), 'polh-' + kind)
        f = build_model(run, kind, e, cur, extra)
        s2 = spectrum(mn, mx, bins, base)
        f.add_line(R, run.P, run.V(*e['dir']), s2)
        run.W.calls = []
        desc = dict(model=type(m).__name__, polarisation=cur, polarisation_history=hist, radiance=R,
                    env={k: e[k] for k in ('wl', 'aw', 'ts', 'vel', 'dir', 'b', 'ne', 'te')}, extra={k: v for k, v in extra.items() if k != 'fns'},
                    min=s.min_wavelength, max=s.max_wavelength, bins=bins, window=cls)
        run.s_check(impl == [float(t) for t in s2.samples], 'C02:%s:polarisation-setter-history!=fresh-model' % type(m).__name__,
                    '%s after %r differs from a model constructed with polarisation=%r' % (type(m).__name__, hist, cur), desc, 'polh-fresh', (kind, p0, cur, len(hist)))
        dl = s.delta_wavelength
        if run.src['lorentz_variant'] != 'cdf' or kind != 'stark':
            floor = (K_FLOOR if kind != 'stark' else 1e-11) * R / dl + 1e-300
            if 2 * cutG * sg / dl < 2 ** 29:
                run.k_case('polh-' + kind, model_line(kind, cur, R, e, extra, s, base), impl, floor, desc, key=(p0, cur, len(hist), e['bclass'], f2b(R)))


# -- caller-data aliasing / argument mutation -------------------------------------------------------------------------------
MULT_REPRS = ['list', 'tuple', 'c-array', 'c-array-view', 'f-array', 'transposed', 'strided-view', 'int-array', 'float32-array', 'list-of-arrays',
              'reversed-view', 'readonly-view', 'big-endian-array', 'object-array']


def make_multiplet_arg(rep, table):
    """(argument handed to the constructor, in-place mutator or None, snapshot function) for one legal representation"""
    ws = [w for w, r in table]
    rs = [r for w, r in table]
    n = len(table)
    if rep == 'list':
        arg = [list(ws), list(rs)]

        def mutate():
            for j in range(n):
                arg[1][j] = 3.0 + j
                arg[0][j] += 1.5
        return arg, mutate, lambda: [list(arg[0]), list(arg[1])]
    if rep == 'tuple':
        arg = (tuple(ws), tuple(rs))
        return arg, None, lambda: (tuple(arg[0]), tuple(arg[1]))
    if rep == 'list-of-arrays':
        arg = [np.array(ws), np.array(rs)]

        def mutate():
            arg[1][:] = 7.0
            arg[0][:] += 1.5
        return arg, mutate, lambda: [arg[0].copy(), arg[1].copy()]
    if rep == 'c-array':
        arr = np.array([ws, rs], dtype=np.float64)
        base = arr
    elif rep == 'c-array-view':          # C-contiguous view into a larger work array
        base = np.full((4, n), -3.0)
        base[1] = ws
        base[2] = rs
        arr = base[1:3]
    elif rep == 'f-array':
        arr = np.asfortranarray(np.array([ws, rs], dtype=np.float64))
        base = arr
    elif rep == 'transposed':            # an (N x 2) table handed over as .T
        base = np.array(list(zip(ws, rs)), dtype=np.float64)
        arr = base.T
    elif rep == 'strided-view':
        base = np.full((4, 2 * n + 1), -3.0)
        base[1, 1::2] = ws
        base[3, 1::2] = rs
        arr = base[1::2, 1::2]
    elif rep == 'reversed-view':         # negative stride
        base = np.array([ws[::-1], rs[::-1]], dtype=np.float64)
        arr = base[:, ::-1]
    elif rep == 'readonly-view':         # the caller keeps a writable base, hands over a read-only view
        base = np.array([ws, rs], dtype=np.float64)
        arr = base.view()
        arr.flags.writeable = False

        def mutate_ro():
            base[1, :] = base[1, :] * 3 + 2
            base[0, :] = base[0, :] + 2
        return arr, mutate_ro, lambda: arr.copy()
    elif rep == 'big-endian-array':
        arr = np.array([ws, rs], dtype='>f8')
        base = arr
    elif rep == 'object-array':
        arr = np.array([ws, rs], dtype=object)
        base = arr
    elif rep == 'int-array':
        arr = np.array([[int(round(w)) for w in ws], [1] + [0] * (n - 1)], dtype=np.int64)
        base = arr
    elif rep == 'float32-array':
        arr = np.array([[float(np.float32(w)) for w in ws], rs], dtype=np.float32)
        base = arr
    else:
        raise ValueError(rep)

    def mutate():
        arr[1, :] = arr[1, :] * 3 + 2
        arr[0, :] = arr[0, :] + 2
        if base is not arr:
            base[...] = base * 2 + 1
    return arr, mutate, lambda: arr.copy()


def _same_obj(a, b):
    if isinstance(a, np.ndarray):
        return isinstance(b, np.ndarray) and a.dtype == b.dtype and a.shape == b.shape and np.array_equal(a, b)
    if isinstance(a, (list, tuple)):
        return type(a) is type(b) and len(a) == len(b) and all(_same_obj(x, y) for x, y in zip(a, b))
    return a == b


def stream_aliasing(run, n):
    """array-like constructor arguments: the model must own its data.  After construction the caller's object is mutated in
    place; add_line must return bit-identical spectra before / after the mutation and equal to a model built from a private
    copy; the constructor and add_line must not modify the caller's arrays, direction or point."""
    from cherab.core import Line, Species
    from cherab.core.atomic import ZeemanStructure
    from cherab.core.model import lineshape as L
    rng, ctx, W = run.rng, run.ctx, run.W
    cutG = run.src['cutG']
    for it in range(n):
        e = gen_env(rng, tclass=rng.choice(['cold', 'warm', 'warm', 'hot']), bclass=rng.choice(['oblique', 'perp', 'parallel', 'large']))
        kind = 'mult' if it % 3 != 2 else 'zm'
        extra = gen_tables(rng, e, kind)
        sg = model_sigma(kind, e, extra)
        centre = o_doppler(e['wl'], e['dir'], e['vel'])
        mn, mx, bins, cls = gen_window(rng, centre, sg, cutG, rng.choice(['inside', 'straddle-lo', 'random', 'inside']))
        if mn <= 1.0 or 2 * cutG * sg / ((mx - mn) / bins) >= 2 ** 29:
            continue
        R = rng.uniform(0.2, 4)
        W.set_env(e)
        el = W.element(e['aw'])
        line = Line(el, 0, (3, 2))
        sp = Species(el, 0, W.ion)
        dvec = run.V(*e['dir'])
        pt = run.P

        def shoot(m):
            s = spectrum(mn, mx, bins)
            m.add_line(R, pt, dvec, s)
            W.calls = []
            return [float(t) for t in s.samples], s

        if kind == 'mult':
            rep = MULT_REPRS[(it // 3 * 2 + it % 3) % len(MULT_REPRS)]
            # dyadic ratios: every partial sum is exact, so the ratios sum to 1.0 in *any* summation order (numpy's pairwise
            # sum over a strided row included) and a rejection cannot be blamed on rounding
            k_ = len(extra['mult'])
            rs_ = [0.5, 0.25, 0.125, 0.0625, 0.03125, 0.03125][:k_]
            rs_[-1] += 1.0 - sum(rs_)
            rng.shuffle(rs_)
            table = [(w, r) for (w, _), r in zip(extra['mult'], rs_)]
            if rep == 'int-array':
                table = [(float(int(round(w))), 1.0 if j == 0 else 0.0) for j, (w, r) in enumerate(table)]
            if rep == 'float32-array':
                k = len(table)
                rs = [0.5, 0.25, 0.125, 0.0625, 0.03125, 0.03125][:k]
                rs[-1] += 1.0 - sum(rs)
                table = [(float(np.float32(w)), r) for (w, _), r in zip(table, rs)]
            arg, mutate, snap = make_multiplet_arg(rep, table)
            before = snap()
            desc = dict(model='MultipletLineShape', representation=rep, radiance=R, env={k: e[k] for k in ('wl', 'aw', 'ts', 'vel', 'dir', 'b', 'ne', 'te')},
                        extra=dict(mult=table), min=mn, max=mx, bins=bins, window=cls,
                        scenario='construct from the caller\'s %s, evaluate, mutate the caller\'s object in place, evaluate again' % rep)
            try:
                m = L.MultipletLineShape(line, e['wl'], sp, W.plasma, W.ad, arg)
            except Exception as ex:  # noqa
                # right shape, ratios summing to one, values that convert to float64 without loss: a legal table whatever its
                # memory layout / dtype / container
                ctx.count('ctor-rejected:alias-' + rep)
                run.s_check(False, 'C02:MultipletLineShape:legal-table-representation-rejected(%s)' % rep,
                            'MultipletLineShape rejected a legal 2x%d multiplet table given as %s (wavelengths %r, ratios %r summing to 1): %s: %s'
                            % (len(table), rep, [w for w, r in table], [r for w, r in table], type(ex).__name__, ex), desc, 'alias-accept', (rep, len(table)))
                continue
            run.s_check(True, '', '', desc, 'alias-accept', (rep, len(table)))
            private = L.MultipletLineShape(line, e['wl'], sp, W.plasma, W.ad, [[w for w, r in table], [r for w, r in table]])
            run.s_check(_same_obj(before, snap()), 'C02:MultipletLineShape:constructor-modified-caller-data(%s)' % rep,
                        'MultipletLineShape.__init__ changed the caller\'s multiplet %s: %r -> %r' % (rep, before, snap()), desc, 'alias-ctor', (rep,))
            out0, s0 = shoot(m)
            run.s_check(_same_obj(before, snap()), 'C02:MultipletLineShape:add_line-modified-caller-data(%s)' % rep,
                        'add_line changed the caller\'s multiplet %s' % rep, desc, 'alias-call', (rep,))
            if mutate is not None:
                mutate()
            out1, s1 = shoot(m)
            outp, _ = shoot(private)
            ex = {}
            if out1 != out0:
                ex = dict(integral_before=sum(out0) * s0.delta_wavelength, integral_after=sum(out1) * s1.delta_wavelength)
            run.s_check(out1 == out0, 'C02:MultipletLineShape:aliases-caller-data(%s)' % rep,
                        'MultipletLineShape built from a %s: after the caller edited that object in place add_line gives Sigma*delta = %r instead of %r '
                        '(radiance %r): the model shares the caller\'s buffer' % (rep, ex.get('integral_after'), ex.get('integral_before'), R),
                        dict(desc, **ex), 'alias-mutate', (rep, len(table)))
            run.s_check(out0 == outp, 'C02:MultipletLineShape:representation-changes-result(%s)' % rep,
                        'model built from a %s differs from the model built from a private list copy' % rep, desc, 'alias-private', (rep,))
            run.k_case('alias-mult', model_line('mult', 'no', R, e, dict(mult=table), s1, [0.0] * bins), out1, K_FLOOR * R / s1.delta_wavelength + 1e-300,
                       desc, key=(rep, len(table), f2b(R)))
        else:
            f = extra['fns']
            lists = {k: list(f[k]) for k in ('pi', 'sp', 'sm')}
            rep = rng.choice(['lists', 'tuples'])
            args = [lists[k] if rep == 'lists' else tuple(lists[k]) for k in ('pi', 'sp', 'sm')]
            snap0 = [list(a) for a in args]
            zs = ZeemanStructure(*args)
            m = L.ZeemanMultiplet(line, e['wl'], sp, W.plasma, W.ad, zs, 'no')
            private = L.ZeemanMultiplet(line, e['wl'], sp, W.plasma, W.ad, ZeemanStructure(list(f['pi']), list(f['sp']), list(f['sm'])), 'no')
            desc = dict(model='ZeemanMultiplet', representation='ZeemanStructure from ' + rep, radiance=R,
                        env={k: e[k] for k in ('wl', 'aw', 'ts', 'vel', 'dir', 'b', 'ne', 'te')}, extra=dict(tabs=extra['tabs']), min=mn, max=mx, bins=bins,
                        window=cls, scenario='construct, evaluate, edit the caller\'s component lists and the arrays returned by ZeemanStructure.__call__, evaluate again')
            run.s_check(all(len(a) == len(b) and all(x is y for x, y in zip(a, b)) for a, b in zip(args, snap0)),
                        'C02:ZeemanStructure:constructor-modified-caller-data', 'ZeemanStructure.__init__ changed the caller\'s component lists', desc, 'alias-ctor', ('zs',))
            out0, s0 = shoot(m)
            bm = math.sqrt(sum(t * t for t in e['b']))
            got = zs(bm, 'pi')
            ref = got.copy()
            got[...] = 99.0                               # the caller scribbles over the returned table
            if rep == 'lists':
                lists['pi'].append((lambda b: e['wl'] + 0.3, lambda b: 50.0))
                lists['sp'].clear()
                lists['sm'][0] = (lambda b: e['wl'] - 0.4, lambda b: 9.0)
            again = zs(bm, 'pi')
            run.s_check(np.array_equal(again, ref), 'C02:ZeemanStructure:aliases-caller-data',
                        'ZeemanStructure(b, "pi") changed from %r to %r after the caller edited its own lists / the previously returned array'
                        % (ref.tolist(), again.tolist()), desc, 'alias-zs-call', (rep,))
            out1, s1 = shoot(m)
            outp, _ = shoot(private)
            run.s_check(out1 == out0 and out0 == outp, 'C02:ZeemanMultiplet:aliases-caller-data',
                        'ZeemanMultiplet: Sigma*delta before %r, after the caller edited its lists %r, private copy %r'
                        % (sum(out0) * s0.delta_wavelength, sum(out1) * s1.delta_wavelength, sum(outp) * s0.delta_wavelength), desc, 'alias-mutate', ('zm', rep))
            run.k_case('alias-zm', model_line('zm', 'no', R, e, extra, s1, [0.0] * bins), out1, K_FLOOR * R / s1.delta_wavelength + 1e-300, desc,
                       key=(rep, f2b(R)))
        # add_line must not touch the caller's direction / point objects
        run.s_check((dvec.x, dvec.y, dvec.z) == tuple(e['dir']) and (pt.x, pt.y, pt.z) == tuple(W.point),
                    'C02:%s:add_line-modified-direction-or-point' % type(m).__name__, 'direction %r -> %r, point %r -> %r'
                    % (e['dir'], (dvec.x, dvec.y, dvec.z), W.point, (pt.x, pt.y, pt.z)), desc, 'alias-args', (kind,))


# -- beam emission multiplet ----------------------------------------------------------------------------------------------
def stream_mse(run, n):
    from cherab.core import Line
    from cherab.core.model.lineshape import BeamEmissionMultiplet
    from raysect.core import Point3D
    rng, ctx, W = run.rng, run.ctx, run.W
    cutG = run.src['cutG']
    for it in range(n):
        e = gen_env(rng, bclass=rng.choice(['zero', 'oblique', 'oblique', 'parallel', 'large', 'perp']))
        isolated = it % 3 == 0
        energy = rng.choice([60000.0, 1000.0, rng.uniform(1e3, 1e5)])
        btemp = rng.choice([10.0, rng.uniform(0.05, 100), rng.uniform(0.05, 100), 0.0]) if not isolated else rng.uniform(0.01, 0.1)
        bdir = unit(rng)
        if e['bclass'] == 'parallel':
            k = rng.uniform(1, 5)
            e['b'] = [t * k for t in bdir]
        mass = rng.choice([1.007975, 2.0141017778, 3.0160492777])
        rat = [rng.choice([0.0, rng.uniform(0, 3)]) for _ in range(4)]
        if isolated:
            rat = [rng.uniform(0.2, 3) for _ in range(4)]
            e['ne'] = 1e19
            e['te'] = 100.0
            e['b'] = [t * 3.0 for t in unit(rng)]
        s2p, s1s0, p2p3, p4p3 = rat
        W.set_env(e)
        W.beam.energy = energy
        W.beam.temperature = btemp
        el = W.element(mass)
        W.beam.element = el
        line = Line(el, 0, (3, 2))
        m = BeamEmissionMultiplet(line, e['wl'], W.beam, W.ad, lambda n_, e_: s2p, lambda n_: s1s0, lambda n_: p2p3, lambda n_: p4p3)
        # oracle components (documented structure: sigma0, sigma+-1, pi+-2, pi+-3, pi+-4)
        speed = math.sqrt(2 * energy * EC / AMU)
        bv = [t * speed for t in bdir]
        cr = [bv[1] * e['b'][2] - bv[2] * e['b'][1], bv[2] * e['b'][0] - bv[0] * e['b'][2], bv[0] * e['b'][1] - bv[1] * e['b'][0]]
        split = 2.77e-8 * math.sqrt(sum(t * t for t in cr))
        cw = o_doppler(e['wl'], e['dir'], bv)
        sg = o_sigma(e['wl'], btemp, mass) if btemp > 0 else 0.0
        R = rng.choice([1.0, rng.uniform(0, 5), 10 ** rng.uniform(-3, 3)])
        active = e['te'] > 0 and e['ne'] > 0 and sg > 0
        d = 1.0 / (1.0 + s2p)
        isig, ipi = s2p * d * R, d * R
        s0 = 1.0 / (1.0 + s1s0)
        s1 = 0.5 * s1s0 / (1.0 + s1s0)
        pt = 1.0 + p2p3 + p4p3
        comps = [(isig * s0, cw, sg), (isig * s1, cw + split, sg), (isig * s1, cw - split, sg)]
        for k, pr in ((2, p2p3 / pt), (3, 1.0 / pt), (4, p4p3 / pt)):
            comps += [(0.5 * ipi * pr, cw + k * split, sg), (0.5 * ipi * pr, cw - k * split, sg)]
        width = max(sg, 1e-3)
        if isolated and active and split > 25 * sg:
            mn, mx = cw - 4 * split - 14 * sg, cw + 4 * split + 14 * sg
            bins = int(min(20000, max(50, (mx - mn) / (sg / 2))))
            cls = 'isolated'
        else:
            isolated = False
            mn, mx, bins, cls = gen_window(rng, cw + rng.choice([0, 1, -2, 4]) * split, width, cutG)
        if mn <= 1.0:
            continue
        base = gen_base(rng, bins) if not isolated else [0.0] * bins
        s = spectrum(mn, mx, bins, base)
        # beam frame != plasma frame: the beam-space point differs from the plasma-space point, and the profiles vary in space
        beam_pt = W.other_point()
        r = m.add_line(R, Point3D(*beam_pt), run.P, run.V(*bdir), run.V(*e['dir']), s)
        impl = [float(t) for t in s.samples]
        mn, mx, dl = s.min_wavelength, s.max_wavelength, s.delta_wavelength
        desc = dict(model='BeamEmissionMultiplet', radiance=R, wavelength=e['wl'], te=e['te'], ne=e['ne'], beam_energy=energy, beam_temperature=btemp,
                    beam_mass=mass, b=e['b'], beam_direction=bdir, observation_direction=e['dir'], ratios=dict(sigma_to_pi=s2p, sigma1_to_sigma0=s1s0,
                    pi2_to_pi3=p2p3, pi4_to_pi3=p4p3), min=mn, max=mx, bins=bins, window=cls, beam_point=list(beam_pt), plasma_point=list(W.point))
        sampled = run.sampling_check('BeamEmissionMultiplet', desc, 'mse')
        names = set(c[0] for c in sampled)
        need = {'electrons.effective_temperature'} | ({'electrons.density', 'b_field'} if e['te'] > 0 and e['ne'] > 0 else set())
        run.s_check(need <= names, 'C02:BeamEmissionMultiplet:plasma-quantity-not-sampled',
                    'quantities sampled: %r, expected at least %r at plasma_point' % (sorted(names), sorted(need)), desc, 'mse-sampled-set', (len(names),))
        if btemp >= 0 and bins <= 64 and 2 * cutG * width / dl < 2 ** 29:
            line_ = 'mse %s %s %s' % (f2b(R), fs([e['wl'], e['te'], e['ne'], energy] + e['b'] + bdir + e['dir'] + [mass, btemp, s2p, s1s0, p2p3, p4p3]),
                                      spec_tokens(s, base))
            run.k_case('mse', line_, impl, K_FLOOR * abs(R) / dl + 1e-300, desc, key=(cls, e['bclass'], f2b(R), f2b(energy)))
        if it % 4 == 1:
            # the shared Beam has been driven through its energy / temperature / element setters by every earlier case:
            # a freshly constructed Beam with the final values must give the same spectrum
            from cherab.core import Beam
            fb = Beam()
            fb.plasma = W.plasma
            fb.energy = energy
            fb.temperature = btemp
            fb.element = el
            fm = BeamEmissionMultiplet(line, e['wl'], fb, W.ad, lambda n_, e_: s2p, lambda n_: s1s0, lambda n_: p2p3, lambda n_: p4p3)
            s2_ = spectrum(mn, mx, bins, base)
            fm.add_line(R, Point3D(*beam_pt), run.P, run.V(*bdir), run.V(*e['dir']), s2_)
            W.calls = []
            run.s_check(impl == [float(t) for t in s2_.samples], 'C02:BeamEmissionMultiplet:beam-setter-history!=fresh-beam',
                        'BeamEmissionMultiplet on a Beam whose energy/temperature/element were changed through the setters differs from a fresh Beam '
                        'with the same final values', desc, 'mse-fresh-beam', (cls,))
        added = [a - b for a, b in zip(impl, base)]
        if not active:
            run.s_check(impl == [float(t) for t in base], 'C02:BeamEmissionMultiplet:no-width-adds-something',
                        'spectrum changed although te=%r ne=%r beam temperature=%r' % (e['te'], e['ne'], btemp), desc, 'mse-zero-width', (cls,))
            continue
        tot = math.fsum(added) * dl
        want = sum(Rc * gauss_fraction(mn, mx, w, sg) for Rc, w, _ in comps)
        slope = sum(abs(Rc) / sg for Rc, w, _ in comps) * 1e-13 * e['wl']
        tol = S_GAUSS_TOL * abs(R) + 1e-13 * sum(abs(t) for t in base) * dl + slope + 1e-300
        run.s_check(abs(tot - want) <= tol, 'C02:BeamEmissionMultiplet:integral!=R*window-fraction',
                    'Sigma added*delta = %r, radiance x window fraction of the documented 9-line profile = %r' % (tot, want), desc, 'mse-integral', (cls, e['bclass']))
        if isolated:
            x = np.asarray(s.wavelengths)
            y = np.asarray(s.samples)
            bad = []
            for Rc, w, _ in comps:
                got = float(y[np.abs(x - w) <= 12 * sg].sum()) * dl
                if abs(got - Rc) > 1e-9 * R:
                    bad.append((w, got, Rc))
            run.s_check(not bad, 'C02:BeamEmissionMultiplet:component-ratio',
                        'isolated Stark component at %r nm carries %r, stated share %r' % (bad[0] if bad else (0, 0, 0)), desc, 'mse-ratios', (f2b(s2p),))
        else:
            ob = oracle_bins(comps, mn, dl, bins)
            sc = abs(R) / dl
            bad = [i for i in range(bins) if abs(added[i] - ob[i]) > 1e-7 * abs(ob[i]) + 1e-9 * sc + 1e-13 * abs(base[i])]
            run.s_check(not bad, 'C02:BeamEmissionMultiplet:bin!=bin-average-of-profile',
                        'bin %r holds %r, documented profile gives %r' % (bad[:1], [added[i] for i in bad[:1]], [ob[i] for i in bad[:1]]), desc, 'mse-bins', (cls, e['bclass']))


# ---------------------------------------------------------------------------------------------------------------------
def check_erf(run, n):
    xs = [run.rng.uniform(-7, 7) for _ in range(n // 2)] + [run.rng.uniform(-1, 1) * 10 ** run.rng.uniform(-12, 0) for _ in range(n - n // 2)]
    xs += [0.0, -0.0, 2.5, -2.5, 6.0, 5.999999, 1e-300, 30.0, -30.0, float('inf'), float('-inf')]
    first = len(run.lines)
    for x in xs:
        run.cmd('erf ' + f2b(x))
    return first, xs


def check_source_constants(run, outs, i_consts, i_coef):
    ctx = run.ctx
    src = run.src
    got = [b2f(t) for t in outs[i_consts].split()]
    want = src['consts'] + [src['split'], 2 * math.sqrt(2 * math.log(2))]
    names = ['ATOMIC_MASS', 'ELEMENTARY_CHARGE', 'SPEED_OF_LIGHT', 'HC_EV_NM', 'BOHR_MAGNETON', 'STARK_SPLITTING_FACTOR', '_SIGMA2FWHM']
    for nme, a, b in zip(names, got, want):
        ctx.case(key=('const', nme))
        if not (a == b or (nme == '_SIGMA2FWHM' and abs(a - b) <= 1e-15 * b)):
            ctx.broke('correspondence', 'C02 constant ' + nme, dict(model=a, source=b))
    coef = [b2f(t) for t in outs[i_coef].split()]
    if coef != src['coef']:
        ctx.broke('correspondence', 'C02 Stark polynomial coefficients', dict(model=coef, source=src['coef']))
    if src['thr'] != [0.01, 0.999]:
        ctx.broke('correspondence', 'C02 Stark weight cut-overs', dict(model=[0.01, 0.999], source=src['thr']))
    ctx.case(key=('const', 'coef'))


def run(ctx):
    ctx.rule = ('one case = one call of a real cpdef entry point (add_gaussian_line, add_lorentzian_line, GaussianQuadrature, StarkFunction, the '
                'add_line of the 7 line-shape models in 3 polarisations) on a real raysect Spectrum; inputs drawn from window classes (line inside / '
                'straddling either edge / in a tail / outside the cut-off / narrower than a bin / one bin / wider than the window / centre on an edge / '
                'dyadic exact edges), B classes (zero, parallel, anti-parallel, perpendicular, oblique, tiny, large), temperature classes (<=0, cold, '
                'warm, hot), electron classes (<=0, >0), tables of 1..6 components, non-zero base spectra; distinct = (stream, class tuple, bit '
                'patterns of wavelength/radiance); trivial (constructor rejected, guard-band) cases are not counted')
    ctx.trusted += [
        'external functions are parameters of the model: C floor/ceil+<int> cast (FloorSpec/CeilSpec, |index| < 2^31), erf (ErfSpec: monotone, odd, <= 1), '
        'sqrt (SqrtSpec), pow (pow 0 n = 0), exp, log, M_SQRT2 > 0; the driver uses libm sqrt/pow/exp/log and its own erf (compared with math.erf on 1e4 points each run)',
        'raysect Spectrum (min/max/delta/bins/samples), Vector3D.normalise/dot/cross/length (transcribed into the model, compared through K)',
        'scipy.special.roots_legendre (Gauss-Legendre nodes passed to the driver as data), scipy.special.hyp2f1 (STARK_NORM_COEFFICIENT read from the class)',
        'S oracle: math.erf, scipy.integrate.quad (epsrel 1e-12, piecewise around the cusp) for the Lorentzian reference',
        'regex reader of DEF constants / constants.pyx / Stark coefficient lists (validated: the values are compared with the model literals and exercised by K)']
    ctx.assumptions += [
        'finite inputs; radiance >= 0; observation and beam directions non-zero (raysect raises otherwise); rest wavelength > 0',
        'bin indices are unbounded Int in the model: cases with 2*cutoff*width/delta >= 2^29 are not generated (C int cast)',
        'MultipletLineShape ratios sum to 1.0 exactly (constructor rejects anything else); ZeemanStructure ratio sums > 0; MSE ratios >= 0',
        'BeamEmissionMultiplet: beam temperature >= 0 (the Beam setter rejects negatives); te <= 0 or ne <= 0 returns the spectrum unchanged (the ratio functions are functions of ne) and is treated as the no-emission state',
        'Lorentzian: closed-form (2F1) normalisation and accuracy of the adaptive Gauss-Legendre rule are S-only (partial, DESIGN C02 P)']
    run_ = Run(ctx)
    run_.disagree = []
    run_.lorentz_defect_seen = False
    run_.src = read_source_constants()
    ctx.extra['source_constants'] = {k: v for k, v in run_.src.items() if k != 'coef'}

    ok_t = ctx.lean_check(['Cherab.Props.C02', 'Cherab.Props.C02Param'], 'Cherab/Audit/C02.lean')

    from cherab.core.math.integrators import GaussianQuadrature
    from cherab.core.model.lineshape.stark import StarkFunction
    run_.default_integrator = GaussianQuadrature()
    run_.normC = float(StarkFunction.STARK_NORM_COEFFICIENT)

    set_default_rules(run_)
    ctx.extra['lorentz_variant'] = run_.src['lorentz_variant']
    if run_.src['lorentz_variant'] == 'cdf':
        run_.cmd('mode cdf')
    i_consts = len(run_.lines)
    run_.cmd('consts')
    i_coef = len(run_.lines)
    run_.cmd('coef')
    i_erf, xs = check_erf(run_, 10000)

    # corpus first
    corpus_dir = os.path.join(os.path.dirname(os.path.dirname(os.path.dirname(os.path.abspath(__file__)))), 'corpus', 'C02')
    if os.path.isdir(corpus_dir):
        import json
        for f in sorted(os.listdir(corpus_dir)):
            if f.endswith('.json'):
                replay_case(run_, json.load(open(os.path.join(corpus_dir, f))), from_corpus=f)

    stream_edges(run_)
    stream_primitives(run_, ctx.n(500, 12000))
    stream_lorentz(run_, ctx.n(160, 2500))
    stream_starkfunction(run_, ctx.n(15, 150))
    stream_quadrature(run_, ctx.n(100, 1500))
    stream_gq_histories(run_, ctx.n(60, 1200))
    set_default_rules(run_)
    stream_pol_histories(run_, ctx.n(80, 1500))
    stream_models(run_, ctx.n(900, 15000))
    stream_ratios(run_, ctx.n(40, 600))
    stream_zeeman_structure(run_, ctx.n(60, 1000))
    stream_fault_histories(run_, ctx.n(40, 600))
    stream_aliasing(run_, ctx.n(90, 1500))
    stream_mse(run_, ctx.n(200, 4000))

    outs = ctx.driver(run_.lines)
    # erf of the driver vs libm
    worst = 0.0
    for x, o in zip(xs, outs[i_erf:i_erf + len(xs)]):
        a, b = b2f(o), math.erf(x)
        err = abs(a - b) / max(abs(b), 1e-300) if b != 0 else abs(a)
        worst = max(worst, err)
    ctx.extra['driver_erf_max_rel_error_vs_libm'] = worst
    ctx.case(key=('erf-validation', len(xs)))
    if worst > 4e-15:
        ctx.broke('correspondence', 'C02 driver erf', dict(max_rel_error=worst))
    check_source_constants(run_, outs, i_consts, i_coef)
    compare(ctx, run_, outs)
    attribute_lorentz(ctx, run_, outs)

    # a broken correspondence must end in a concrete failing input: the S oracles above already ran on every K case
    # (same inputs), so a property-level failure of a disagreeing case has been reported by them; nothing to add here.
    if run_.lorentz_defect_seen:
        ctx.extra['note'] = ('add_lorentzian_line violates the normalisation clause wherever its bin quadrature misses the cusp (see notes/C02.md); '
                             'the model reproduces the implementation (K agrees), the theorem lorentz_bins_telescope_partial needs an additive integrator')


def replay_case(run_, case, from_corpus=None):
    """re-execute a stored failing input against the real code (S oracle only)"""
    from cherab.core.model.lineshape import add_lorentzian_line, add_gaussian_line
    d = case.get('replay', case)
    call = d.get('call')
    if call == 'add_lorentzian_line':
        # queued like every other Lorentzian call: reported after the driver run, once the discrepancy (if any) is attributed
        n0 = len(run_.lor_pending)
        lorentz_case(run_, d['radiance'], d['wavelength'], d['fwhm'], d['min'], d['max'], d['bins'], [0.0] * d['bins'], d.get('window', 'replay'),
                     origin=from_corpus or 'replay')
        p = run_.lor_pending[n0] if len(run_.lor_pending) > n0 else None
        return (p['ok'] if p else True), (p['tot'] if p else None), (p['trunc'] if p else None)
    if call == 'add_gaussian_line':
        s = spectrum(d['min'], d['max'], d['bins'])
        add_gaussian_line(d['radiance'], d['wavelength'], d['sigma'], s)
        tot = float(np.sum(s.samples)) * s.delta_wavelength
        want = d['radiance'] * gauss_fraction(s.min_wavelength, s.max_wavelength, d['wavelength'], d['sigma']) if d['sigma'] > 0 else 0.0
        ok = abs(tot - want) <= S_GAUSS_TOL * d['radiance']
        run_.s_check(ok, 'C02:add_gaussian_line:integral!=R*window-fraction', 'replay: Sigma*delta=%r want %r' % (tot, want), d, 'corpus', (from_corpus or 'replay',))
        return ok, tot, want
    hist = d.get('history') or d.get('integrator_history')
    if hist and hist[0][0] == 'new':
        return replay_gq_history(run_, d, hist)
    if d.get('model') == 'MultipletLineShape' and d.get('representation') in MULT_REPRS:
        return replay_alias(run_, d)
    if d.get('model') in MODEL_KINDS:
        return replay_model(run_, d)
    return None


def replay_alias(run_, d):
    """re-run the aliasing scenario: construct from the caller's object, evaluate, mutate the object in place, evaluate again"""
    from cherab.core import Line, Species
    from cherab.core.model import lineshape as L
    e = dict(d['env'])
    for k in ('vel', 'dir', 'b'):
        e[k] = list(e[k])
    table = [tuple(t) for t in d['extra']['mult']]
    rep = d['representation']
    W = run_.W
    W.set_env(e)
    el = W.element(e['aw'])
    arg, mutate, snap = make_multiplet_arg(rep, table)
    m = L.MultipletLineShape(Line(el, 0, (3, 2)), e['wl'], Species(el, 0, W.ion), W.plasma, W.ad, arg)
    outs = []
    for k in range(2):
        s = spectrum(d['min'], d['max'], d['bins'])
        m.add_line(d['radiance'], run_.P, run_.V(*e['dir']), s)
        outs.append([float(t) for t in s.samples])
        if k == 0 and mutate is not None:
            mutate()
    dl = s.delta_wavelength
    run_.s_check(outs[0] == outs[1], 'C02:MultipletLineShape:aliases-caller-data(%s)' % rep,
                 'replay: MultipletLineShape built from a %s: Sigma*delta = %r before and %r after the caller edited its object in place'
                 % (rep, sum(outs[0]) * dl, sum(outs[1]) * dl), d, 'replay-alias', (rep,))
    return outs[0] == outs[1], sum(outs[1]) * dl, sum(outs[0]) * dl


def replay_gq_history(run_, d, hist):
    """re-apply a stored GaussianQuadrature setter history, then compare with a fresh integrator and with the exact
    integral of a polynomial of degree 2*min_order-1"""
    from cherab.core.math.integrators import GaussianQuadrature
    _, mn0, mx0, rt0 = hist[0]
    q = GaussianQuadrature(relative_tolerance=rt0, max_order=mx0, min_order=mn0)
    for h in hist[1:]:
        if h[0] in ('min_order', 'max_order', 'relative_tolerance'):
            try:
                setattr(q, h[0], h[1])
            except ValueError:
                pass
    deg = 2 * q.min_order - 1
    cs = [((-1) ** k) * (1.0 + 0.25 * k) for k in range(deg + 1)]
    a, b = d.get('a', -0.75), d.get('b', 1.25)
    if d.get('integrand') == 'StarkFunction':
        a, b = -0.75, 1.25
    q.integrand = lambda x: _horner(cs, x)
    val = q(a, b)
    fresh = GaussianQuadrature(q.integrand, q.relative_tolerance, q.max_order, q.min_order)
    fv = fresh(a, b)
    ex = _poly_exact(cs, a, b)
    scale = sum(abs(c) * max(abs(a), abs(b), 1.0) ** (k + 1) for k, c in enumerate(cs))
    run_.s_check(val == fv, 'C02:GaussianQuadrature:setter-history!=fresh-integrator',
                 'replay: after %r the integrator returns %r on [%r, %r], a fresh one with (min, max, rtol) = (%d, %d, %r) returns %r'
                 % (hist[1:], val, a, b, q.min_order, q.max_order, q.relative_tolerance, fv), d, 'replay-gqh', ())
    run_.s_check(abs(val - ex) <= 1e-11 * scale, 'C02:GaussianQuadrature:polynomial-not-exact',
                 'replay: degree %d polynomial with min_order %d: %r, exact %r' % (deg, q.min_order, val, ex), d, 'replay-gqh-exact', ())
    return val == fv and abs(val - ex) <= 1e-11 * scale, val, fv


MODEL_KINDS = {'GaussianLine': 'gauss', 'MultipletLineShape': 'mult', 'ZeemanTriplet': 'zt', 'ParametrisedZeemanTriplet': 'pz',
               'ZeemanMultiplet': 'zm', 'StarkBroadenedLine': 'stark'}


def replay_model(run_, d):
    """rebuild a line-shape model case from its stored description and apply the S oracles to the real code"""
    kind = MODEL_KINDS[d['model']]
    e = dict(d['env'])
    for k in ('vel', 'dir', 'b'):
        e[k] = list(e[k])
    e.setdefault('bclass', 'replay')
    e.setdefault('tclass', 'replay')
    extra = {k: v for k, v in d.get('extra', {}).items()}
    if 'mult' in extra:
        extra['mult'] = [tuple(t) for t in extra['mult']]
    if 'abg' in extra:
        extra['abg'] = tuple(extra['abg'])
    if 'cab' in extra:
        extra['cab'] = tuple(extra['cab'])
    if 'tabs' in extra:
        extra['tabs'] = {k: [tuple(t) for t in v] for k, v in extra['tabs'].items()}
        extra['fns'] = {k: [((lambda b, w=w: w), (lambda b, r=r: r)) for w, r in v] for k, v in extra['tabs'].items()}
    R = d['radiance']
    run_.W.set_env(e)
    res = {}
    run_.cur_kidx = {}
    base = [0.0] * d['bins']
    for pol in ('no', 'pi', 'sigma'):
        m = build_model(run_, kind, e, pol, extra)
        s = spectrum(d['min'], d['max'], d['bins'])
        m.add_line(R, run_.P, run_.V(*e['dir']), s)
        res[pol] = ([float(t) for t in s.samples], s)
        run_.sampling_check(type(m).__name__, dict(d, polarisation=pol), 'replay')
        if kind == 'stark' and run_.src['lorentz_variant'] != 'cdf':
            run_.k_case('m-stark', model_line('stark', pol, R, e, extra, s, base), res[pol][0], 1e-11 * abs(R) / s.delta_wavelength + 1e-300,
                        dict(d, polarisation=pol), key=('replay', pol))
            run_.cur_kidx[pol] = len(run_.lines) - 1
        if kind in ('gauss', 'mult'):
            break
    before = len(run_.ctx.failing) + len(run_.ctx.known_hits)
    model_oracles(run_, kind, e, R, extra, res, base, d.get('window', 'replay'))
    after = len(run_.ctx.failing) + len(run_.ctx.known_hits)
    tot = sum(res['no'][0]) * res['no'][1].delta_wavelength
    return after == before, tot, 'see oracle messages above'


def replay(ctx, path):
    import json
    r = json.load(open(path))
    print(json.dumps({k: r[k] for k in r if k != 'broken'}, indent=1)[:3000])
    run_ = Run(ctx)
    run_.disagree = []
    run_.lorentz_defect_seen = False
    run_.src = read_source_constants()
    from cherab.core.math.integrators import GaussianQuadrature
    from cherab.core.model.lineshape.stark import StarkFunction
    run_.default_integrator = GaussianQuadrature()
    run_.normC = float(StarkFunction.STARK_NORM_COEFFICIENT)
    set_default_rules(run_)
    if run_.src['lorentz_variant'] == 'cdf':
        run_.cmd('mode cdf')
    res = replay_case(run_, r)
    if res is None:
        print('replay: stored input is not a single-call case; re-running the full check')
        run(ctx)
        return ctx.finish()
    outs = ctx.driver(run_.lines)
    compare(ctx, run_, outs)
    attribute_lorentz(ctx, run_, outs)
    bad = [f['signature'] for f in ctx.failing] + [k['signature'] for k in ctx.known_hits]
    print('replay: property %s on the stored input (implementation %r, oracle %r)%s'
          % ('VIOLATED' if bad else 'HOLDS', res[1], res[2], ' -> ' + ', '.join(bad) if bad else ''))
    return ctx.finish()
