import Cherab.Model.Inversion
import Mathlib.Tactic.Ring
import Mathlib.Tactic.Linarith
import Mathlib.Tactic.FieldSimp
import Mathlib.Tactic.Positivity
import Mathlib.Tactic.LinearCombination
import Mathlib.Algebra.Order.Field.Basic

/-!
Helper lemmas for C11: list algebra behind the inversion model (`vsum`, `dot`, `matVec`, `tMatVec`, …) over a
commutative ring / ordered field.  Property theorems are in `Cherab/Props/C11.lean`.
-/
namespace Cherab.Inversion
set_option linter.unusedSectionVars false

section ring
variable {α : Type} [Field α] [LinearOrder α] [IsStrictOrderedRing α]

theorem foldl_add_eq (l : List α) (a : α) : l.foldl (· + ·) a = a + l.sum := by
  induction l generalizing a with
  | nil => simp
  | cons h t ih => simp [List.foldl_cons, ih, add_assoc]

theorem vsum_eq_sum (l : List α) : vsum l = l.sum := by
  simp [vsum, foldl_add_eq]

@[simp] theorem vsum_nil : vsum ([] : List α) = 0 := by simp [vsum]
@[simp] theorem vsum_cons (a : α) (l : List α) : vsum (a :: l) = a + vsum l := by
  simp [vsum_eq_sum]
theorem vsum_append (a b : List α) : vsum (a ++ b) = vsum a + vsum b := by
  simp [vsum_eq_sum]

@[simp] theorem dot_nil_left (b : List α) : dot ([] : List α) b = 0 := by simp [dot]
@[simp] theorem dot_nil_right (a : List α) : dot a ([] : List α) = 0 := by simp [dot]
@[simp] theorem dot_cons (a b : α) (as bs : List α) : dot (a :: as) (b :: bs) = a * b + dot as bs := by
  simp [dot]

theorem dot_comm (a b : List α) : dot a b = dot b a := by
  induction a generalizing b with
  | nil => simp
  | cons h t ih => cases b with
    | nil => simp
    | cons hb tb => simp [ih tb, mul_comm]

theorem dot_vsub_right (r y x : List α) (h : y.length = x.length) :
    dot r (vsub y x) = dot r y - dot r x := by
  induction r generalizing y x with
  | nil => simp
  | cons a t ih =>
    cases y with
    | nil => cases x with
      | nil => simp [vsub]
      | cons _ _ => simp at h
    | cons hy ty => cases x with
      | nil => simp at h
      | cons hx tx =>
        have h' : ty.length = tx.length := by simpa using h
        have := ih ty tx h'
        simp only [vsub] at this ⊢
        simp only [List.zipWith_cons_cons, dot_cons, this]
        ring

theorem dot_vadd_right (r y x : List α) (h : y.length = x.length) :
    dot r (vadd y x) = dot r y + dot r x := by
  induction r generalizing y x with
  | nil => simp
  | cons a t ih =>
    cases y with
    | nil => cases x with
      | nil => simp [vadd]
      | cons _ _ => simp at h
    | cons hy ty => cases x with
      | nil => simp at h
      | cons hx tx =>
        have h' : ty.length = tx.length := by simpa using h
        have := ih ty tx h'
        simp only [vadd] at this ⊢
        simp only [List.zipWith_cons_cons, dot_cons, this]
        ring

theorem dot_vsub_left (y x g : List α) (h : y.length = x.length) :
    dot (vsub y x) g = dot y g - dot x g := by
  rw [dot_comm, dot_vsub_right g y x h, dot_comm g y, dot_comm g x]

theorem dot_smul_right (c : α) (z a : List α) : dot z (smul c a) = c * dot z a := by
  induction z generalizing a with
  | nil => simp
  | cons h t ih => cases a with
    | nil => simp [smul]
    | cons ha ta =>
      have := ih ta
      simp only [smul] at this ⊢
      simp only [List.map_cons, dot_cons, this]
      ring

theorem dot_smul_left (c : α) (a z : List α) : dot (smul c a) z = c * dot a z := by
  rw [dot_comm, dot_smul_right, dot_comm]

theorem dot_replicate_zero (z : List α) (n : Nat) : dot z (List.replicate n (0 : α)) = 0 := by
  induction z generalizing n with
  | nil => simp
  | cons h t ih => cases n with
    | zero => simp
    | succ k => simp [List.replicate_succ, ih]

theorem dot_nonneg (a b : List α) (ha : ∀ v ∈ a, 0 ≤ v) (hb : ∀ v ∈ b, 0 ≤ v) : 0 ≤ dot a b := by
  induction a generalizing b with
  | nil => simp
  | cons h t ih => cases b with
    | nil => simp
    | cons hb' tb =>
      simp only [dot_cons]
      have h1 : 0 ≤ h := ha h (by simp)
      have h2 : 0 ≤ hb' := hb hb' (by simp)
      have := ih tb (fun v hv => ha v (by simp [hv])) (fun v hv => hb v (by simp [hv]))
      positivity

theorem normSq_nonneg (v : List α) : 0 ≤ normSq v := by
  unfold normSq
  induction v with
  | nil => simp
  | cons h t ih => simp only [dot_cons]; nlinarith [mul_self_nonneg h]

theorem normSq_append (u v : List α) : normSq (u ++ v) = normSq u + normSq v := by
  unfold normSq
  induction u with
  | nil => simp
  | cons h t ih => simp only [List.cons_append, dot_cons, ih]; ring

theorem normSq_smul (c : α) (v : List α) : normSq (smul c v) = c * c * normSq v := by
  unfold normSq
  rw [dot_smul_left, dot_smul_right]; ring

@[simp] theorem vsub_length (a b : List α) : (vsub a b).length = min a.length b.length := by simp [vsub]
@[simp] theorem vadd_length (a b : List α) : (vadd a b).length = min a.length b.length := by simp [vadd]
@[simp] theorem smul_length (c : α) (a : List α) : (smul c a).length = a.length := by simp [smul]
@[simp] theorem matVec_length (W : List (List α)) (x : List α) : (matVec W x).length = W.length := by simp [matVec]

theorem vsub_append (u v b z : List α) (h : u.length = b.length) :
    vsub (u ++ v) (b ++ z) = vsub u b ++ vsub v z := by
  simp only [vsub]; exact List.zipWith_append h

theorem vsub_replicate_zero (v : List α) (n : Nat) (h : v.length = n) : vsub v (List.replicate n (0 : α)) = v := by
  subst h
  induction v with
  | nil => simp [vsub]
  | cons a t ih =>
    simp only [vsub] at ih ⊢
    simp [List.replicate_succ, ih]

theorem matVec_append (A B : List (List α)) (x : List α) : matVec (A ++ B) x = matVec A x ++ matVec B x := by
  simp [matVec]

theorem dot_map_mul_left (a : α) (r x : List α) : dot (r.map (fun v => a * v)) x = a * dot r x := by
  have := dot_smul_left a r x
  simpa [smul] using this

theorem matVec_scaleMat (a : α) (L : List (List α)) (x : List α) :
    matVec (scaleMat a L) x = smul a (matVec L x) := by
  simp [matVec, scaleMat, smul, dot_map_mul_left, Function.comp_def]

theorem dot_map_div_left (v : α) (r x : List α) : dot (r.map (fun c => c / v)) x = dot r x / v := by
  induction r generalizing x with
  | nil => simp
  | cons h t ih => cases x with
    | nil => simp
    | cons hx tx => simp only [List.map_cons, dot_cons, ih]; ring

theorem matVec_divMat (v : α) (C : List (List α)) (x : List α) :
    matVec (divMat v C) x = divVec v (matVec C x) := by
  simp [matVec, divMat, divVec, dot_map_div_left, Function.comp_def]

theorem vsub_divVec (v : α) (u d : List α) : vsub (divVec v u) (divVec v d) = divVec v (vsub u d) := by
  induction u generalizing d with
  | nil => simp [vsub, divVec]
  | cons h t ih => cases d with
    | nil => simp [vsub, divVec]
    | cons hd td =>
      have := ih td
      simp only [vsub, divVec] at this ⊢
      simp only [List.map_cons, List.zipWith_cons_cons, this, sub_div]

theorem normSq_divVec (v : α) (w : List α) : normSq (divVec v w) = normSq w / (v * v) := by
  unfold normSq
  induction w with
  | nil => simp [divVec]
  | cons h t ih =>
    simp only [divVec] at ih ⊢
    simp only [List.map_cons, dot_cons, ih]
    by_cases hv : v = 0
    · subst hv; simp
    · field_simp

/-! ### transpose product -/

theorem tMatVec_length (n : Nat) (C : List (List α)) (r : List α) (hC : ∀ row ∈ C, row.length = n) :
    (tMatVec n C r).length = n := by
  induction C generalizing r with
  | nil => simp [tMatVec]
  | cons row C' ih => cases r with
    | nil => simp [tMatVec]
    | cons ri r' =>
      have h1 := ih r' (fun row' h => hC row' (by simp [h]))
      have h2 : row.length = n := hC row (by simp)
      simp only [tMatVec] at h1 ⊢
      simp [h1, h2]

/-- `z · (Cᵀ r) = (C z) · r` -/
theorem dot_tMatVec (n : Nat) (C : List (List α)) (r z : List α) (hC : ∀ row ∈ C, row.length = n) :
    dot z (tMatVec n C r) = dot (matVec C z) r := by
  induction C generalizing r with
  | nil => simp [tMatVec, matVec, dot_replicate_zero]
  | cons row C' ih => cases r with
    | nil => simp [tMatVec, dot_replicate_zero]
    | cons ri r' =>
      have hC' : ∀ row' ∈ C', row'.length = n := fun row' h => hC row' (by simp [h])
      have h1 := ih r' hC'
      have h2 : row.length = n := hC row (by simp)
      have hl := tMatVec_length n C' r' hC'
      simp only [tMatVec, matVec] at h1 hl ⊢
      simp only [List.zip_cons_cons, List.foldr_cons, List.map_cons, dot_cons]
      rw [dot_vadd_right _ _ _ (by simp [h2, hl]), dot_smul_right, h1, dot_comm z row]
      ring

/-- the expansion behind both optimality certificates:
`|Cy − d|² = |Cx − d|² + |C(y−x)|² + 2 (C(y−x))·(Cx − d)` -/
theorem normSq_expand (C : List (List α)) (d x y : List α) (h : y.length = x.length)
    (hd : d.length = C.length) :
    normSq (vsub (matVec C y) d) =
      normSq (vsub (matVec C x) d) + normSq (matVec C (vsub y x))
        + 2 * dot (matVec C (vsub y x)) (vsub (matVec C x) d) := by
  induction C generalizing d with
  | nil => simp [matVec, vsub, normSq]
  | cons row C' ih => cases d with
    | nil => simp at hd
    | cons di d' =>
      have h1 := ih d' (by simpa using hd)
      have h2 := dot_vsub_right row y x h
      simp only [matVec, vsub, normSq] at h1 h2 ⊢
      simp only [List.map_cons, List.zipWith_cons_cons, dot_cons, h2]
      linear_combination h1

/-- `|Cy − d|² − |Cx − d|² = |C(y−x)|² + 2 (y−x)·g` with `g = Cᵀ(Cx − d)` -/
theorem normSq_gap (n : Nat) (C : List (List α)) (d x y : List α) (hC : ∀ row ∈ C, row.length = n)
    (h : y.length = x.length) (hd : d.length = C.length) :
    normSq (vsub (matVec C y) d) =
      normSq (vsub (matVec C x) d) + normSq (matVec C (vsub y x))
        + 2 * (dot y (normalEqResidual n C d x) - dot x (normalEqResidual n C d x)) := by
  rw [normSq_expand C d x y h hd, ← dot_tMatVec n C _ _ hC, dot_vsub_left y x _ h]
  rfl

/-! ### SART building blocks -/

theorem absv_eq_abs (x : α) : absv x = |x| := by
  unfold absv
  split_ifs with h
  · exact (abs_of_neg h).symm
  · exact (abs_of_nonneg (not_lt.mp h)).symm

/-- the guarded accumulation loop of `obsDiff` as a sum over rows -/
theorem obsDiff_foldl (W : List (List α)) (b : List α) (hb : b.length = W.length)
    (f1 f2 f3 f4 : List α → α) (acc : α) :
    (List.zip (W.map f1) (List.zip (W.map f2) (List.zip (W.map f3) (List.zip b (W.map f4))))).foldl
      (fun acc t => if t.2.1 == 0 then acc else acc + (t.1 * t.2.2.1) * (t.2.2.2.1 - t.2.2.2.2)) acc
    = acc + (List.zipWith (fun r bk => if f2 r = 0 then 0 else (f1 r * f3 r) * (bk - f4 r)) W b).sum := by
  induction W generalizing b acc with
  | nil => simp
  | cons r W' ih => cases b with
    | nil => simp at hb
    | cons bk b' =>
      have hb' : b'.length = W'.length := by simpa using hb
      simp only [List.map_cons, List.zip_cons_cons, List.foldl_cons, List.zipWith_cons_cons, List.sum_cons]
      rw [ih b' hb']
      by_cases h0 : f2 r = 0
      · simp [h0]
      · simp [h0]; ring

/-- `obsDiff` with the quantities `invert_sart` precomputes, as the documented sum
`Σ_k [W_{k⊕} ≠ 0] W_{kj}/W_{k⊕} (b_k − ŷ_k)` -/
theorem obsDiff_eq (W : List (List α)) (b x : List α) (j : Nat) (hb : b.length = W.length) :
    obsDiff (col W j) (rowSums W) ((rowSums W).map (fun l => 1 / l)) b (matVec W x)
    = (List.zipWith (fun r bk => if r.sum = 0 then 0 else r.getD j 0 / r.sum * (bk - dot r x)) W b).sum := by
  unfold obsDiff col rowSums matVec
  rw [List.map_map]
  have := obsDiff_foldl W b hb (fun r => r.getD j 0) vsum ((fun l => 1 / l) ∘ vsum) (fun r => dot r x) 0
  rw [this, zero_add]
  congr 2
  funext r bk
  simp only [vsum_eq_sum, Function.comp]
  split_ifs
  · rfl
  · ring

theorem cellUpdate_nonneg (ω dens xj od : α) (gp : Option α) : 0 ≤ cellUpdate ω dens xj od gp := by
  unfold cellUpdate
  simp only
  split_ifs with h1 h2
  all_goals first | exact le_refl _ | exact not_lt.mp ‹_›

@[simp] theorem sweep_length (n : Nat) (W : List (List α)) (b dens len inv : List α) (ω : α)
    (pen : Option (List α)) (x yh : List α) : (sweep n W b dens len inv ω pen x yh).length = n := by
  simp [sweep]

theorem sweep_getElem (n : Nat) (W : List (List α)) (b dens len inv : List α) (ω : α)
    (pen : Option (List α)) (x yh : List α) (j : Nat) (hj : j < (sweep n W b dens len inv ω pen x yh).length) :
    (sweep n W b dens len inv ω pen x yh)[j] =
      cellUpdate ω (dens.getD j 0) (x.getD j 0) (obsDiff (col W j) len inv b yh) (pen.map (fun g => g.getD j 0)) := by
  simp [sweep]

theorem sweep_nonneg (n : Nat) (W : List (List α)) (b dens len inv : List α) (ω : α)
    (pen : Option (List α)) (x yh : List α) : ∀ v ∈ sweep n W b dens len inv ω pen x yh, 0 ≤ v := by
  intro v hv
  simp only [sweep, List.mem_map] at hv
  obtain ⟨j, _, rfl⟩ := hv
  exact cellUpdate_nonneg _ _ _ _ _

theorem colSums_getD (W : List (List α)) (n j : Nat) (hj : j < n) :
    (colSums W n).getD j 0 = (W.map (fun r => r.getD j 0)).sum := by
  simp [colSums, col, hj, vsum_eq_sum, List.getD_eq_getElem?_getD]

/-! ### moved helper lemmas -/

theorem dot_zero_right (z g : List α) (hg : ∀ v ∈ g, v = 0) : dot z g = 0 := by
  induction z generalizing g with
  | nil => simp
  | cons h t ih => cases g with
    | nil => simp
    | cons hg' tg =>
      have h0 : hg' = 0 := hg hg' (by simp)
      simp [h0, ih tg (fun v hv => hg v (by simp [hv]))]


theorem foldl_max_ge_init (t : List α) (h : α) : h ≤ t.foldl (fun a v => if a < v then v else a) h := by
  induction t generalizing h with
  | nil => simp
  | cons a t ih =>
    simp only [List.foldl_cons]
    split_ifs with hlt
    · exact le_trans hlt.le (ih a)
    · exact ih h

theorem foldl_max_ge_mem (t : List α) (h : α) : ∀ v ∈ t, v ≤ t.foldl (fun a v => if a < v then v else a) h := by
  induction t generalizing h with
  | nil => simp
  | cons a t ih =>
    intro v hv
    simp only [List.foldl_cons]
    rcases List.mem_cons.mp hv with rfl | hv'
    · split_ifs with hlt
      · exact foldl_max_ge_init t v
      · exact le_trans (not_lt.mp hlt) (foldl_max_ge_init t h)
    · exact ih _ v hv'

theorem foldl_max_mem (t : List α) (h : α) :
    t.foldl (fun a v => if a < v then v else a) h = h ∨ t.foldl (fun a v => if a < v then v else a) h ∈ t := by
  induction t generalizing h with
  | nil => simp
  | cons a t ih =>
    simp only [List.foldl_cons]
    split_ifs with hlt
    · rcases ih a with h1 | h1
      · right; rw [h1]; simp
      · right; exact List.mem_cons_of_mem _ h1
    · rcases ih h with h1 | h1
      · left; exact h1
      · right; exact List.mem_cons_of_mem _ h1

theorem maxOf_ge (l : List α) : ∀ v ∈ l, v ≤ maxOf l := by
  cases l with
  | nil => simp
  | cons h t =>
    intro v hv
    rcases List.mem_cons.mp hv with rfl | hv'
    · exact foldl_max_ge_init t v
    · exact foldl_max_ge_mem t h v hv'

theorem maxOf_mem (l : List α) (hl : l ≠ []) : maxOf l ∈ l := by
  cases l with
  | nil => exact absurd rfl hl
  | cons h t =>
    rcases foldl_max_mem t h with h1 | h1
    · simp only [maxOf]; rw [h1]; simp
    · exact List.mem_cons_of_mem _ h1


theorem dot_delta (i : Nat) (x : List α) (s : Nat) :
    dot ((List.range' s x.length).map (fun j => if i = j then (1 : α) else 0)) x
      = if s ≤ i then x.getD (i - s) 0 else 0 := by
  induction x generalizing s with
  | nil => simp
  | cons a t ih =>
    simp only [List.length_cons, List.range'_succ, List.map_cons, dot_cons, ih (s + 1)]
    rcases Nat.lt_trichotomy i s with h | h | h
    · have h1 : ¬ i = s := by omega
      have h2 : ¬ s + 1 ≤ i := by omega
      have h3 : ¬ s ≤ i := by omega
      simp [h1, h2, h3]
    · subst h
      simp
    · have h1 : ¬ i = s := by omega
      have h2 : s + 1 ≤ i := by omega
      have h3 : s ≤ i := by omega
      obtain ⟨k, hk⟩ : ∃ k, i - s = k + 1 := ⟨i - s - 1, by omega⟩
      have hk' : i - (s + 1) = k := by omega
      simp [h1, h2, h3, hk, hk']


/-! ### SART specification vocabulary (used by the statements in `Props/C11.lean`) -/

section sartspec
variable (n : Nat) (W : List (List α)) (b : List α) (ω : α) (lap : Option (List (List α) × α))

/-- one pass of the cell loop as `invert_sart` / `invert_constrained_sart` performs it from the solution `x`
(the carried `y_hat` is `W x`, the penalty is recomputed from `x`) -/
def sweepFull (x : List α) : List α :=
  sweep n W b (colSums W n) (rowSums W) ((rowSums W).map (fun l => 1 / l)) ω (gradPenalty lap x) x (matVec W x)

/-- what the constrained variant subtracts in cell `j`: `β (L x)_j`; `0` for `invert_sart` -/
def penaltyAt (x : List α) (j : Nat) : α :=
  match gradPenalty lap x with
  | none => 0
  | some g => g.getD j 0

/-- the documented update rule before clipping:
`x_j + ω / W_{⊕j} · Σ_k W_{kj} / W_{k⊕} · (Φ_k − (W x)_k)` (division by zero is `0` in a Lean field, i.e. cells
without rays keep their value and rows of zeros contribute nothing) -/
def sartRule (x : List α) (j : Nat) : α :=
  x.getD j 0 + ω / (W.map (fun r => r.getD j 0)).sum *
    (List.zipWith (fun r bk => r.getD j 0 / r.sum * (bk - dot r x)) W b).sum

theorem clip_eq_max (v : α) : (if v < 0 then 0 else v) = max 0 v := by
  split_ifs with h
  · exact (max_eq_left h.le).symm
  · exact (max_eq_right (not_lt.mp h)).symm

theorem penaltyAt_none (x : List α) (j : Nat) : penaltyAt (α := α) none x j = 0 := rfl

theorem penaltyAt_some (L : List (List α)) (β : α) (x : List α) (j : Nat) (hj : j < L.length) :
    penaltyAt (some (L, β)) x j = β * dot L[j] x := by
  simp [penaltyAt, gradPenalty, matVec, hj, List.getD_eq_getElem?_getD, mul_comm]


/-! ### the iteration and its stopping rule -/

variable (x0 : List α) (tol : α)

/-- iterate `k` of the documented update rule from `x0` -/
def iter : Nat → List α
  | 0 => x0
  | k + 1 => sweepFull n W b ω lap (iter k)

/-- entry `k` of the convergence list: `(|b|² − |W x^{(k+1)}|²) / |b|²` -/
def convAt (k : Nat) : α :=
  (dot b b - normSq (matVec W (iter n W b ω lap x0 (k + 1)))) / dot b b

/-- the documented stopping rule at loop index `i` (`k > 0 and |conv[k] − conv[k−1]| < conv_tol`) -/
def stopAt (i : Nat) : Prop :=
  1 ≤ i ∧ |convAt n W b ω lap x0 i - convAt n W b ω lap x0 (i - 1)| < tol

instance (i : Nat) : Decidable (stopAt n W b ω lap x0 tol i) := by unfold stopAt; infer_instance

theorem range_map_reverse_succ (f : Nat → α) (k : Nat) :
    ((List.range (k + 1)).map f).reverse = f k :: ((List.range k).map f).reverse := by
  simp [List.range_succ]

/-- one trip round the `for k` loop -/
theorem sartLoop_step (hbb : dot b b ≠ 0) (k fuel : Nat) :
    sartLoop n W b (colSums W n) (rowSums W) ((rowSums W).map (fun l => 1 / l)) ω lap tol (dot b b) (fuel + 1)
      (iter n W b ω lap x0 k) (matVec W (iter n W b ω lap x0 k))
      (((List.range k).map (convAt n W b ω lap x0)).reverse)
    = if stopAt n W b ω lap x0 tol k then
        .ok (iter n W b ω lap x0 (k + 1), (List.range (k + 1)).map (convAt n W b ω lap x0))
      else
        sartLoop n W b (colSums W n) (rowSums W) ((rowSums W).map (fun l => 1 / l)) ω lap tol (dot b b) fuel
          (iter n W b ω lap x0 (k + 1)) (matVec W (iter n W b ω lap x0 (k + 1)))
          (((List.range (k + 1)).map (convAt n W b ω lap x0)).reverse) := by
  rw [sartLoop]
  simp only [beq_iff_eq, hbb, if_false]
  have hx : sweep n W b (colSums W n) (rowSums W) ((rowSums W).map (fun l => 1 / l)) ω
      (gradPenalty lap (iter n W b ω lap x0 k)) (iter n W b ω lap x0 k) (matVec W (iter n W b ω lap x0 k))
      = iter n W b ω lap x0 (k + 1) := rfl
  rw [hx]
  have hc : (dot b b - dot (matVec W (iter n W b ω lap x0 (k + 1))) (matVec W (iter n W b ω lap x0 (k + 1)))) / dot b b
      = convAt n W b ω lap x0 k := rfl
  rw [hc]
  cases k with
  | zero =>
    have : ¬ stopAt n W b ω lap x0 tol 0 := by simp [stopAt]
    simp [this]
  | succ k' =>
    rw [range_map_reverse_succ]
    simp only [absv_eq_abs]
    have hiff : stopAt n W b ω lap x0 tol (k' + 1) ↔
        |convAt n W b ω lap x0 (k' + 1) - convAt n W b ω lap x0 k'| < tol := by
      simp [stopAt]
    by_cases hs : |convAt n W b ω lap x0 (k' + 1) - convAt n W b ω lap x0 k'| < tol
    · simp [hs, hiff.mpr hs, List.range_succ]
    · simp [hs, mt hiff.mp hs, List.range_succ]

theorem sartLoop_spec (hbb : dot b b ≠ 0) (fuel k : Nat) (xs cs : List α)
    (h : sartLoop n W b (colSums W n) (rowSums W) ((rowSums W).map (fun l => 1 / l)) ω lap tol (dot b b) fuel
      (iter n W b ω lap x0 k) (matVec W (iter n W b ω lap x0 k))
      (((List.range k).map (convAt n W b ω lap x0)).reverse) = .ok (xs, cs)) :
    ∃ N, k ≤ N ∧ N ≤ k + fuel ∧ xs = iter n W b ω lap x0 N ∧ cs = (List.range N).map (convAt n W b ω lap x0) ∧
      (N = k + fuel ∨ (k < N ∧ stopAt n W b ω lap x0 tol (N - 1))) ∧
      ∀ i, k ≤ i → i + 1 < N → ¬ stopAt n W b ω lap x0 tol i := by
  induction fuel generalizing k with
  | zero =>
    simp only [sartLoop, List.reverse_reverse, Except.ok.injEq, Prod.mk.injEq] at h
    obtain ⟨rfl, rfl⟩ := h
    exact ⟨k, le_refl _, le_refl _, rfl, rfl, Or.inl rfl, fun i h1 h2 => by omega⟩
  | succ fuel ih =>
    rw [sartLoop_step n W b ω lap x0 tol hbb] at h
    by_cases hs : stopAt n W b ω lap x0 tol k
    · simp only [hs, if_true, Except.ok.injEq, Prod.mk.injEq] at h
      obtain ⟨rfl, rfl⟩ := h
      exact ⟨k + 1, by omega, by omega, rfl, rfl, Or.inr ⟨by omega, by simpa using hs⟩, fun i h1 h2 => by omega⟩
    · simp only [hs, if_false] at h
      obtain ⟨N, h1, h2, h3, h4, h5, h6⟩ := ih (k + 1) h
      refine ⟨N, by omega, by omega, h3, h4, ?_, ?_⟩
      · rcases h5 with h5 | ⟨h5, h5'⟩
        · left; omega
        · right; exact ⟨by omega, h5'⟩
      · intro i hi1 hi2
        by_cases hik : i = k
        · subst hik; exact hs
        · exact h6 i (by omega) hi2


end sartspec

/-! ### proof-deepening pass: vocabulary and helpers -/

/-- `W_{⊕j}` : column sum -/
def colSum (W : List (List α)) (j : Nat) : α := (W.map (fun r => r.getD j 0)).sum

/-- the back-projected, ray-length-weighted residual of cell `j`: `Σ_k [W_{k⊕} ≠ 0] W_{kj}/W_{k⊕} (b_k − (W x)_k)`;
this is minus the `j`-th partial derivative of `½ Σ_k (b_k − (Wx)_k)² / W_{k⊕}` -/
def backProj (W : List (List α)) (b x : List α) (j : Nat) : α :=
  (List.zipWith (fun r bk => if r.sum = 0 then 0 else r.getD j 0 / r.sum * (bk - dot r x)) W b).sum

theorem list_eq_iff_getD (n : Nat) (a c : List α) (ha : a.length = n) (hc : c.length = n) :
    a = c ↔ ∀ j, j < n → a.getD j 0 = c.getD j 0 := by
  constructor
  · intro h j _; rw [h]
  · intro h
    apply List.ext_getElem (by rw [ha, hc])
    intro j h1 h2
    have := h j (by omega)
    rwa [List.getD_eq_getElem?_getD, List.getD_eq_getElem?_getD, List.getElem?_eq_getElem h1, List.getElem?_eq_getElem h2,
      Option.getD_some, Option.getD_some] at this

theorem getD_nonneg (x : List α) (hx0 : ∀ v ∈ x, 0 ≤ v) (j : Nat) : 0 ≤ x.getD j 0 := by
  rw [List.getD_eq_getElem?_getD]
  cases h : x[j]? with
  | none => simp
  | some w => simp only [Option.getD_some]; exact hx0 w (List.mem_of_getElem? h)

/-- scalar core of the fixed-point characterisation: `max 0 (v + c·s) = v` for `v ≥ 0`, `c > 0` -/
theorem clip_fixed_iff (v c s : α) (hv : 0 ≤ v) (hc : 0 < c) :
    max 0 (v + c * s) = v ↔ (0 < v → s = 0) ∧ (v = 0 → s ≤ 0) := by
  constructor
  · intro h
    constructor
    · intro hpos
      by_cases hle : v + c * s ≤ 0
      · rw [max_eq_left hle] at h; exact absurd h.symm hpos.ne'
      · rw [max_eq_right (not_le.mp hle).le] at h
        have : c * s = 0 := by linarith
        rcases mul_eq_zero.mp this with h0 | h0
        · exact absurd h0 hc.ne'
        · exact h0
    · intro hz
      subst hz
      rw [zero_add] at h
      have hle : c * s ≤ 0 := by
        by_contra hgt
        rw [max_eq_right (not_le.mp hgt).le] at h
        exact hgt h.le
      by_contra hs
      have := mul_pos hc (not_le.mp hs)
      linarith
  · rintro ⟨h1, h2⟩
    rcases hv.lt_or_eq with hpos | hz
    · rw [h1 hpos, mul_zero, add_zero]; exact max_eq_right hv
    · have hs := h2 hz.symm
      rw [← hz, zero_add]
      apply max_eq_left
      nlinarith

end ring
/-- the number of measurements only matters for a column-vector measurement -/
theorem lsqAccept_col_only (m : Nat) (rW : Rep) (ra : ARep) (rL : Option Rep) (rb : Rep) (h : rb ≠ Rep.col) :
    lsqAccept m rW ra rL rb = lsqAccept 0 rW ra rL rb := by
  unfold lsqAccept
  have : (rb == Rep.col) = false := by simpa using h
  simp [this]


end Cherab.Inversion
