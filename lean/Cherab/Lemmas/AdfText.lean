import Cherab.Model.AdfText
import Mathlib.Tactic.Ring
import Mathlib.Tactic.Linarith
import Mathlib.Data.List.Basic

/-!
Helper lemmas about the text layer of C08 (`Model/AdfText.lean`): fields of a Fortran list write.
-/
namespace Cherab.Adf.Text
set_option linter.unusedSectionVars false
set_option linter.unusedVariables false

/-- a token that survives fixed-width slicing and blank splitting: not empty, fits in `n` columns, contains no blank -/
structure WFTok (n : Nat) (t : Cs) : Prop where
  ne : t ≠ []
  len : t.length ≤ n
  nows : ∀ c ∈ t, isWs c = false

theorem length_rjC (w : Nat) (t : Cs) (h : t.length ≤ w) : (rjC w t).length = w := by
  simp [rjC]; omega

theorem drop_flatten_uniform (w : Nat) : ∀ (k : Nat) (ls : List Cs), (∀ l ∈ ls, l.length = w) →
    ls.flatten.drop (w * k) = (ls.drop k).flatten := by
  intro k
  induction k with
  | zero => intro ls _; simp
  | succ k ih =>
    intro ls h
    cases ls with
    | nil => simp
    | cons a ls =>
      have ha : a.length = w := h a List.mem_cons_self
      have : w * (k + 1) = a.length + w * k := by rw [ha]; ring
      simp only [List.flatten_cons, List.drop_succ_cons, this]
      rw [← List.drop_drop, List.drop_left]
      exact ih ls (fun l hl => h l (List.mem_cons_of_mem _ hl))

theorem dropWhile_ws_tok (t r : Cs) (h0 : t ≠ []) (hw : ∀ c ∈ t, isWs c = false) :
    (t ++ r).dropWhile isWs = t ++ r := by
  cases t with
  | nil => exact absurd rfl h0
  | cons c t => simp [List.dropWhile, hw c List.mem_cons_self]

theorem dropWhile_ws_blanks (m : Nat) (r : Cs) : (List.replicate m ' ' ++ r).dropWhile isWs = r.dropWhile isWs := by
  induction m with
  | zero => rfl
  | succ m ih =>
    have : isWs ' ' = true := by decide
    simp [List.replicate_succ, List.dropWhile, this, ih]

/-- trimming blanks around a padded token gives the token back -/
theorem trim_padded (m : Nat) (t : Cs) (h0 : t ≠ []) (hw : ∀ c ∈ t, isWs c = false) :
    trim (List.replicate m ' ' ++ t) = t := by
  unfold trim
  rw [dropWhile_ws_blanks]
  have h1 := dropWhile_ws_tok t [] h0 hw
  rw [List.append_nil] at h1
  rw [h1]
  have h2 := dropWhile_ws_tok t.reverse [] (by simpa using h0) (fun c hc => hw c (List.mem_reverse.mp hc))
  rw [List.append_nil] at h2
  rw [h2, List.reverse_reverse]

/-! ### `line.split()` -/

theorem go_blanks (m : Nat) (r : Cs) : splitWs.go (List.replicate m ' ' ++ r) [] = splitWs.go r [] := by
  induction m with
  | zero => rfl
  | succ m ih =>
    have : isWs ' ' = true := by decide
    simp [List.replicate_succ, splitWs.go, this, ih]

theorem go_tok (r : Cs) : ∀ (t cur : Cs), (∀ c ∈ t, isWs c = false) →
    splitWs.go (t ++ r) cur = splitWs.go r (t.reverse ++ cur) := by
  intro t
  induction t with
  | nil => intro cur _; rfl
  | cons c t ih =>
    intro cur h
    simp only [List.cons_append, splitWs.go, h c List.mem_cons_self, Bool.false_eq_true, if_false]
    rw [ih (c :: cur) (fun c' hc' => h c' (List.mem_cons_of_mem _ hc'))]
    simp

theorem go_fields (w : Nat) : ∀ (toks : List Cs), (∀ t ∈ toks, WFTok (w - 1) t) → 0 < w →
    ∀ cur : Cs, cur ≠ [] → splitWs.go (fieldsLine w toks) cur = cur.reverse :: toks := by
  intro toks
  induction toks with
  | nil => intro _ _ cur hc; simp [fieldsLine, splitWs.go, hc]
  | cons t ts ih =>
    intro h hw cur hc
    have ht := h t List.mem_cons_self
    obtain ⟨m, hm⟩ : ∃ m, w - t.length = m + 1 := ⟨w - t.length - 1, by have := ht.len; omega⟩
    have hws : isWs ' ' = true := by decide
    have hfl : fieldsLine w (t :: ts) = ' ' :: (List.replicate m ' ' ++ (t ++ fieldsLine w ts)) := by
      simp [fieldsLine, rjC, hm, List.replicate_succ]
    rw [hfl, splitWs.go]
    simp only [hws, if_true, hc, if_false]
    rw [go_blanks, go_tok _ t [] ht.nows, List.append_nil]
    rw [ih (fun t' ht' => h t' (List.mem_cons_of_mem _ ht')) hw t.reverse (by simpa using ht.ne), List.reverse_reverse]

end Cherab.Adf.Text
