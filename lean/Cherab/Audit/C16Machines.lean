import Cherab.Props.C16Machines
open Cherab.Props.C16Machines
#print axioms sp_obs_of_inv
#print axioms sp_init_eq_fresh
#print axioms sp_history_eq_fresh
#print axioms sp_rejected_unchanged
#print axioms sp_observations_do_not_matter
#print axioms sp_history_accepted
#print axioms sp_history_range_and_bins
#print axioms poly_obs_of_inv
#print axioms poly_init_eq_fresh
#print axioms poly_history_eq_fresh
#print axioms poly_rejected_unchanged
#print axioms poly_observations_do_not_matter
#print axioms poly_pipelines_follow
