#!/usr/bin/env python3
"""appends the round-6 sentence of tools/round6_claims.json to each claim text of tools/claims.json (idempotent) and regenerates MANIFEST.json"""
import json, os
D = os.path.dirname(os.path.dirname(os.path.abspath(__file__)))
c = json.load(open(os.path.join(D, 'tools', 'claims.json')))
r = json.load(open(os.path.join(D, 'tools', 'round6_claims.json')))
for pid, t in r.items():
    if pid in c and 'Round 6:' not in c[pid]['text']:
        c[pid]['text'] = c[pid]['text'].rstrip() + ' ' + t
json.dump(c, open(os.path.join(D, 'tools', 'claims.json'), 'w'), indent=1)
os.system('python3 %s/tools/mkmanifest.py' % D)
