#!/usr/bin/env python3
"""run ./check for given ids (quick), print a one-line summary each"""
import json, subprocess, sys, time, os
D = os.path.dirname(os.path.dirname(os.path.abspath(__file__)))
for pid in sys.argv[1:]:
    t = time.time()
    r = subprocess.run(['./check', pid], cwd=D, capture_output=True, text=True)
    lines = [l for l in r.stdout.splitlines() if l.startswith(('VIOLATION', 'KNOWN-FINDING', 'INFRA'))]
    try:
        c = json.load(open(os.path.join(D, 'evidence', pid + '.json')))['coverage']
        s = 'obl %s/%s eval %s distinct %s traces %s disagree %s' % (c.get('obligations'), c.get('discharged'), c.get('evaluations'), c.get('distinct_nontrivial'), c.get('traces_validated_against_impl'), c.get('disagreements_checked'))
    except Exception as e:
        s = 'no evidence: %s' % e
    print('%s exit=%d %.0fs %s %s' % (pid, r.returncode, time.time() - t, s, ' | '.join(l[:160] for l in lines)), flush=True)
