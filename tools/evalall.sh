#!/bin/bash
# usage: tools/evalall.sh <Cxx> <mutdir>   -- evaluates <mutdir>/_out/*/patch.diff one after the other; results to $D/tools/mut/results/<Cxx>_<i>.txt
P=$1; M=$2
mkdir -p $D/tools/mut/results
for d in $M/_out/*/; do
  i=$(basename $d)
  [ -f $d/patch.diff ] || continue
  ( cd /verif && tools/evalmut.sh $P $d/patch.diff quick ${P}_$i ) > $D/tools/mut/results/${P}_$i.txt 2>&1
  echo "$P $i -> $(head -1 $D/tools/mut/results/${P}_$i.txt)"
done
