"""C01 translator: scans /repo's .pyx/.pxd/.py sources of the plasma/beam/laser nodes, their model base classes,
materials, attenuator and concrete emission models and writes the *notification graph* to
lean/Cherab/Gen/NotifyEdges.lean.

It is purely syntactic (regex + indentation).  What it recognises:

  nodes   "Class.method", "Class.attr.set" (property setter), "Class.notifier", "scenegraph:Class",
          "cache:<Name>" (a lazily filled cache / eagerly rebuilt derived object)
  edges   caller -> callee
          * `self.m(...)`                                   -> Class.m  (resolved along the base-class chain)
          * `self.notifier.notify()`                        -> Class.notifier
          * `self._attr.m(...)`, `self._attr.x = ...`       -> <type of _attr>.m / .x.set      (ATTR_TYPES)
          * `<var>.x = ...` for loop variables over models  -> <ModelBase>.x.set
          * `Material(...)` constructor calls               -> Material.__init__
          * virtual dispatch: Base.m -> Sub.m for every scanned subclass overriding m
          * subscriptions `<owner>.notifier.add(self.cb)`   -> edge  <OwnerClass>.notifier -> Class.cb, *only if*
            cb is Python-visible (`def`/`cpdef`): Notifier resolves callbacks with __getattribute__, a cdef method
            cannot be found (recorded in `brokenSubscriptions`)
          * scenegraph:Class -> Class._modified iff it is declared def/cpdef (raysect dispatches through Python)
          * cache clears: a concrete `_change` that assigns None to the sentinel tested by `emission`
            -> cache:Models(<Class>);  methods constructing PlasmaMaterial/BeamMaterial/LaserMaterial
            -> cache:<Material>;  `_generate_geometry()`/`generate_geometry()` callers -> cache:<X>Geometry;
            SingleRayAttenuator._change clearing `_density` and `_stopping_data` -> cache:Attenuation
"""
import os
import re

from harness.vlib import lean
from harness.vlib.util import REPO, LEAN

FILES = [
    'cherab/core/plasma/node.pyx', 'cherab/core/plasma/model.pyx', 'cherab/core/plasma/material.pyx',
    'cherab/core/beam/node.pyx', 'cherab/core/beam/model.pyx', 'cherab/core/beam/material.pyx',
    'cherab/core/laser/node.pyx', 'cherab/core/laser/model.pyx', 'cherab/core/laser/material.pyx',
    'cherab/core/laser/profile.pyx', 'cherab/core/laser/laserspectrum.pyx',
    'cherab/core/model/attenuator/singleray.pyx',
    'cherab/core/model/plasma/impact_excitation.pyx', 'cherab/core/model/plasma/recombination.pyx',
    'cherab/core/model/plasma/thermal_cx.pyx', 'cherab/core/model/plasma/total_radiated_power.pyx',
    'cherab/core/model/plasma/bremsstrahlung.pyx',
    'cherab/core/model/beam/charge_exchange.pyx', 'cherab/core/model/beam/beam_emission.pyx',
    'cherab/core/model/laser/model.pyx', 'cherab/core/model/laser/profile.pyx',
]

# type of sub-object attributes (per owning class); module-qualified where names clash
ATTR_TYPES = {
    ('Plasma', '_composition'): 'Composition', ('Plasma', '_models'): 'plasma.ModelManager', ('Plasma', '_geometry'): None,
    ('Beam', '_models'): 'beam.ModelManager', ('Beam', '_attenuator'): 'BeamAttenuator', ('Beam', '_plasma'): 'Plasma',
    ('Laser', '_models'): 'laser.ModelManager', ('Laser', '_laser_profile'): 'LaserProfile', ('Laser', '_plasma'): 'Plasma',
    ('Laser', '_laser_spectrum'): 'LaserSpectrum',
    ('PlasmaModel', '_plasma'): 'Plasma', ('BeamModel', '_plasma'): 'Plasma', ('BeamModel', '_beam'): 'Beam',
    ('BeamAttenuator', '_plasma'): 'Plasma', ('BeamAttenuator', '_beam'): 'Beam',
    ('LaserModel', '_plasma'): 'Plasma', ('LaserModel', '_laser_profile'): 'LaserProfile',
    ('LaserModel', '_laser_spectrum'): 'LaserSpectrum',
}
LOOPVAR_TYPES = {'PlasmaMaterial': 'PlasmaModel', 'BeamMaterial': 'BeamModel', 'LaserMaterial': 'LaserModel'}
MATERIALS = ('PlasmaMaterial', 'BeamMaterial', 'LaserMaterial')


class Method:
    def __init__(self, cls, name, kind, setter, body):
        self.cls, self.name, self.kind, self.setter, self.body = cls, name, kind, setter, body


def _module_tag(path):
    return path.split('/')[2] if path.startswith('cherab/core/') else ''


def scan_file(path):
    """returns {class name: dict(base, methods: {key: Method}, tag)}"""
    src = open(os.path.join(REPO, path)).read()
    src = re.sub(r'("""|\'\'\')(.*?)\1', lambda m: '\n' * m.group(0).count('\n'), src, flags=re.S)
    lines = [re.sub(r'#.*', '', l).rstrip() for l in src.split('\n')]
    classes = {}
    cur = None
    i = 0
    tag = _module_tag(path)
    pending_setter = None
    while i < len(lines):
        l = lines[i]
        m = re.match(r'^(cdef\s+)?class\s+(\w+)\s*(\(([^)]*)\))?\s*:', l)
        if m:
            name = m.group(2)
            base = (m.group(4) or '').split(',')[0].strip() or None
            if name == 'ModelManager':
                name = tag + '.ModelManager'
            cur = classes.setdefault(name, dict(base=base, methods={}, tag=tag))
            i += 1
            continue
        if cur is not None and l and not l.startswith(' ') and not l.startswith('@'):
            if not re.match(r'^(cdef|cpdef|def|from|import|cimport|try|except|DEF|ctypedef)', l):
                pass
            if re.match(r'^(def|cpdef|cdef)\s', l) and not re.match(r'^cdef\s+class', l):
                cur = None
        ms = re.match(r'^    @(\w+)\.setter', l)
        if ms and cur is not None:
            pending_setter = ms.group(1)
            i += 1
            continue
        md = re.match(r'^    (def|cpdef|cdef)\s+(?:[\w\.\[\], ]+?\s+)?(\w+)\s*\(', l)
        if md and cur is not None and not re.match(r'^    cdef\s*:', l):
            kind, name = md.group(1), md.group(2)
            # collect body: following lines with indent > 4 (or blank)
            j = i + 1
            # skip continuation lines of the signature
            while not lines[j - 1].rstrip().endswith(':') and j < len(lines):
                j += 1
            body = []
            while j < len(lines) and (not lines[j].strip() or lines[j].startswith('        ')):
                body.append(lines[j])
                j += 1
            key = name + '.set' if pending_setter == name else name
            if pending_setter and pending_setter != name:
                key = pending_setter + '.set@' + name     # irregular: setter bound to another name
            cname = [k for k, v in classes.items() if v is cur][0]
            if key not in cur['methods'] or pending_setter:
                cur['methods'][key] = Method(cname, key, kind, bool(pending_setter), '\n'.join(body))
            pending_setter = None
            i = j
            continue
        if l.strip() and not l.strip().startswith('@'):
            pending_setter = None if not l.startswith('    @') else pending_setter
        i += 1
    return classes


def scan():
    classes = {}
    for f in FILES:
        for k, v in scan_file(f).items():
            if k in classes:
                classes[k]['methods'].update(v['methods'])
            else:
                classes[k] = v
    return classes


def resolve(classes, cls, meth):
    """find the class along the base chain of `cls` that defines `meth`"""
    c = cls
    seen = 0
    while c and seen < 10:
        if c in classes and meth in classes[c]['methods']:
            return c
        c = classes.get(c, {}).get('base')
        seen += 1
    return None


def subclasses(classes, base):
    out = []
    for k in classes:
        c = classes[k]['base']
        n = 0
        while c and n < 10:
            if c == base:
                out.append(k)
                break
            c = classes.get(c, {}).get('base')
            n += 1
    return out


def notifier_owner(classes, cls):
    """the notifier object is created by the top-most scanned ancestor (e.g. BeamAttenuator for SingleRayAttenuator)"""
    c = cls
    n = 0
    while classes.get(c, {}).get('base') in classes and n < 10:
        c = classes[c]['base']
        n += 1
    return c


def attr_type(classes, cls, attr):
    c = cls
    n = 0
    while c and n < 10:
        if (c, attr) in ATTR_TYPES:
            return ATTR_TYPES[(c, attr)]
        c = classes.get(c, {}).get('base')
        n += 1
    return None


def graph(classes):
    edges = set()
    broken = []
    notes = []

    def node(c, m):
        return '%s.%s' % (c, m)

    for cname, c in classes.items():
        for key, m in c['methods'].items():
            src = node(cname, key)
            body = m.body
            if re.search(r'self\.notifier\.notify\(\)', body):
                edges.add((src, node(notifier_owner(classes, cname), 'notifier')))
            for mm in re.finditer(r'self\.(\w+)\(', body):
                callee = mm.group(1)
                owner = resolve(classes, cname, callee)
                if owner:
                    edges.add((src, node(owner, callee)))
            for mm in re.finditer(r'self\.(_\w+)\.(\w+)\(', body):
                t = attr_type(classes, cname, mm.group(1))
                if t and mm.group(2) != 'notifier':
                    owner = resolve(classes, t, mm.group(2))
                    if owner:
                        edges.add((src, node(owner, mm.group(2))))
            for mm in re.finditer(r'self\.(_\w+)\.(\w+)\s*=[^=]', body):
                t = attr_type(classes, cname, mm.group(1))
                if t:
                    owner = resolve(classes, t, mm.group(2) + '.set')
                    if owner:
                        edges.add((src, node(owner, mm.group(2) + '.set')))
            if cname in LOOPVAR_TYPES and key == '__init__':
                for mm in re.finditer(r'\bmodel\.(\w+)\s*=[^=]', body):
                    owner = resolve(classes, LOOPVAR_TYPES[cname], mm.group(1) + '.set')
                    if owner:
                        edges.add((src, node(owner, mm.group(1) + '.set')))
            for mat in MATERIALS:
                if re.search(r'\b%s\(' % mat, body) and cname != mat:
                    edges.add((src, node(mat, '__init__')))
                    edges.add((src, 'cache:' + mat))
            if re.search(r'self\._generate_geometry\(\)', body):
                edges.add((src, 'cache:BeamGeometry'))
            if re.search(r'\.generate_geometry\(\)', body) and cname == 'Laser':
                edges.add((src, 'cache:LaserGeometry'))
            # subscriptions
            for mm in re.finditer(r'self\.(_\w+)\.notifier\.add\(self\.(\w+)\)', body):
                t = attr_type(classes, cname, mm.group(1))
                cb = mm.group(2)
                owner = resolve(classes, cname, cb)
                if t and owner:
                    kind = classes[owner]['methods'][cb].kind
                    tgt_classes = [cname] + subclasses(classes, cname)
                    if kind == 'cdef':
                        broken.append('%s.notifier -> %s.%s (cdef: invisible to Notifier)' % (t, cname, cb))
                    else:
                        edges.add((node(t, 'notifier'), node(owner, cb)))
    # virtual dispatch
    for cname, c in classes.items():
        for key in c['methods']:
            for sub in subclasses(classes, cname):
                if key in classes[sub]['methods']:
                    edges.add((node(cname, key), node(sub, key)))
    # subscriptions registered by a base class are inherited: Base.notifier -> Base.cb already; dispatch edges cover subs
    # scene graph
    for cname in ('Plasma', 'Beam', 'Laser'):
        owner = resolve(classes, cname, '_modified')
        if owner and classes[owner]['methods']['_modified'].kind in ('def', 'cpdef'):
            edges.add(('scenegraph:' + cname, node(owner, '_modified')))
        else:
            broken.append('scenegraph:%s -> %s._modified (not Python-visible)' % (cname, cname))
    # a moved plasma also changes beam->plasma and laser->plasma transforms: reaches them through Plasma.notifier
    # cache clears by concrete _change methods
    for cname, c in classes.items():
        ch = c['methods'].get('_change')
        if not ch:
            continue
        cleared = set(re.findall(r'self\.(_\w+)(?:\.\w+)?\s*=\s*(?:None|False)', ch.body))
        em = c['methods'].get('emission') or c['methods'].get('density')
        sentinels = set()
        for key in ('emission', 'density', 'calculate_attenuation'):
            mm_ = c['methods'].get(key)
            if mm_:
                sentinels |= set(re.findall(r'if self\.(_\w+)(?:\.\w+)? is None', mm_.body))
                sentinels |= set(re.findall(r'if not self\.(_\w+)\s*:\s*\n\s*self\._populate', mm_.body))
        if not sentinels:
            continue
        if sentinels <= cleared:
            if cname == 'SingleRayAttenuator':
                edges.add((node(cname, '_change'), 'cache:Attenuation'))
            else:
                edges.add((node(cname, '_change'), 'cache:Models(%s)' % cname))
        else:
            notes.append('%s._change does not clear sentinel(s) %s' % (cname, sorted(sentinels - cleared)))
    return edges, broken, notes


def lean_text(classes, edges, broken, notes):
    setters = {c + '.' + k for c, v in classes.items() for k, m in v['methods'].items() if m.setter}
    nodes = sorted({a for a, b in edges} | {b for a, b in edges} | setters)
    idx = {n: i for i, n in enumerate(nodes)}
    kinds = []
    for cname, c in sorted(classes.items()):
        for key, m in sorted(c['methods'].items()):
            if key in ('_modified', '_change') or m.setter:
                kinds.append((cname + '.' + key, m.kind))
    out = ['/- GENERATED by harness/translators/notify_edges.py from /repo sources — do not edit. -/',
           'namespace Cherab.Gen.NotifyEdges', '',
           '/-- node names of the notification graph -/',
           'def nodeNames : List String := [']
    out += ['  "%s",' % n for n in nodes]
    out[-1] = out[-1].rstrip(',')
    out += [']', '', '/-- caller → callee edges (indices into `nodeNames`) -/', 'def edges : List (Nat × Nat) := [']
    es = sorted((idx[a], idx[b]) for a, b in edges)
    out += ['  ' + ', '.join('(%d, %d)' % e for e in es[i:i + 10]) + (',' if i + 10 < len(es) else '') for i in range(0, len(es), 10)]
    out += [']', '', '/-- subscriptions / dispatches that exist in the source but cannot fire -/',
            'def brokenSubscriptions : List String := [' + ', '.join('"%s"' % b for b in sorted(broken)) + ']', '',
            'def notes : List String := [' + ', '.join('"%s"' % b for b in sorted(notes)) + ']', '',
            'end Cherab.Gen.NotifyEdges', '']
    return '\n'.join(out), nodes


def generate(ctx=None):
    classes = scan()
    edges, broken, notes = graph(classes)
    text, nodes = lean_text(classes, edges, broken, notes)
    changed = lean.write_if_changed(os.path.join(LEAN, 'Cherab', 'Gen', 'NotifyEdges.lean'), text)
    if ctx is not None:
        ctx.extra['notify_graph'] = dict(nodes=len(nodes), edges=len(edges), broken=broken, notes=notes, regenerated=changed)
    return classes, edges, broken, notes


if __name__ == '__main__':
    import sys
    sys.path.insert(0, '/verif')
    classes, edges, broken, notes = generate()
    for a, b in sorted(edges):
        print(a, '->', b)
    print('BROKEN', broken)
    print('NOTES', notes)
