import Cherab.Props.C06
import Cherab.Props.C06Table
import Cherab.Props.C06TableAdd
import Cherab.Props.C06TableRoot

namespace Cherab.Props.C06Table
open Cherab.Repository Cherab.Gen.RepoPaths Cherab.Props.C06

/-- the tables of the current source satisfy the hypothesis of every theorem of `Props/C06.lean` -/
theorem tables_wellformed : tables.wellFormed = true := by
  simp only [Tables.wellFormed, add_matches_update, get_matches_update, templates_shaped, templates_disjoint,
    all_paths_under_root, Bool.and_self]

/-- hence, for the repository functions as they are in /repo now: every history refines the key → value map -/
theorem refines_kv_current (R : Path) (ops : List Op) (hT : ∀ op ∈ ops, op.Typed tables ∧ resolve op.root = R)
    (fs : FS) (k : Key) (hk : k.ok = true) :
    absView tables R (runOps tables ops fs).at k = specRun tables ops (absView tables R fs.at) k :=
  refines_kv tables tables_wellformed R ops hT fs k hk

end Cherab.Props.C06Table
