import Cherab.Model.Registry
import Cherab.Model.Periodic
import Cherab.Gen.Elements
import Cherab.Lemmas.Registry

/-!
# C19 — the element and isotope registry is unambiguous and self-consistent

Property theorems only.  Objects: `Gen.Elements.elements / isotopes` — the *complete* table of `Element` / `Isotope`
objects exported by `cherab/core/atomic/elements.pyx`, regenerated from the source on every run, with the
constructors, index key expressions and `__richcmp__/__hash__` field lists generated from the same source.

Table facts are Boolean checks evaluated by the kernel (`decide +kernel`, pure `Nat` arithmetic) and lifted to the
readable statements by the general lemmas of `Lemmas/Registry.lean`; statements that do not mention the table hold
for every table / every object (`index_roundtrip_iff_collision_free`, `lookup_returns_last_owner`, `*_eq_hash`,
`*_ne_is_not_eq`, `isotope_ctor_atomic_number`, `code_injective`).

"Any letter case" is expressed as: the spelling `s` has the same lower-case form as the identifier
(`lower s = lower id`), which is what `str(v).lower()` makes of it.
-/
namespace Cherab.Props.C19
open Cherab.Registry Cherab.Gen.Elements

/-- every exported species object, elements first -/
def allSpecies : List Sp := elements.map Sp.el ++ isotopes.map Sp.iso

/-! ## the generated codes are the codes of the readable strings -/

/-- the numeric name / symbol codes in the generated table are `enc` of the spellings listed next to them -/
theorem codes_ok :
    elements.map (fun e => (e.name, e.sym)) = elementStrings.map (fun p => (enc p.1, enc p.2)) ∧
    isotopes.map (fun i => (i.base.name, i.base.sym)) = isotopeStrings.map (fun p => (enc p.1, enc p.2)) := by
  decide +kernel

/-- different NUL-free byte strings have different codes (so uniqueness of codes is uniqueness of strings) -/
theorem code_injective (xs ys : List Nat) (hx : ∀ b ∈ xs, 0 < b ∧ b < 256) (hy : ∀ b ∈ ys, 0 < b ∧ b < 256)
    (h : encBytes xs = encBytes ys) : xs = ys := encBytes_injective xs ys hx hy h

/-! ## index construction: general facts (any table) -/

/-- a lookup in a built index returns the last object, in `dir()` order, that owns the key (later entries overwrite) -/
theorem lookup_returns_last_owner {α : Type} (keys : α → List Nat) (objs : List α) (k : Nat) :
    Index.get? (buildIndex keys objs) k = objs.reverse.find? fun o => decide (k ∈ keys o) :=
  get?_buildIndex keys objs k

/-- for every table: each object is found under each of its keys **iff** no key is owned by two objects -/
theorem index_roundtrip_iff_collision_free {α : Type} (keys : α → List Nat) (objs : List α) :
    RoundTrip keys objs ↔ CollisionFree keys objs := roundTrip_iff_collisionFree keys objs

/-! ## the generated table: every index key leads back to its owner

The kernel evaluates, for every indexed object and every key expression of the builder, the key (with the model's
`lower`, `cat`, `strNat`) and looks it up in the translator's search-tree certificate (keys evaluated there with
Python's own string functions): linear·log.  That certifies collision-freeness; round trip through the *modelled*
index (`buildIndex`, last writer wins) then follows from the general equivalence. -/

def chkElementKeys : Bool :=
  indexedElements.all fun e => (elementKeys e).all fun k => optElIs (elementKeyTree.find k) e
def chkIsotopeKeys : Bool :=
  indexedIsotopes.all fun i => (isotopeKeys i).all fun k => optIsoIs (isotopeKeyTree.find k) i

theorem chk_element_keys : chkElementKeys = true := by decide +kernel
theorem chk_isotope_keys : chkIsotopeKeys = true := by decide +kernel

/-- no two elements share an index key (lower-case symbol, lower-case name, decimal atomic number) -/
theorem element_index_collision_free : CollisionFree elementKeys indexedElements := by
  refine collisionFree_of_oracle elementKeyTree.find fun e he k hk => ?_
  have h := chk_element_keys
  simp only [chkElementKeys, List.all_eq_true] at h
  exact optElIs_iff.mp (h e he k hk)

/-- no two isotopes share an index key (symbol, name, element symbol + A, element name + A; lower case) -/
theorem isotope_index_collision_free : CollisionFree isotopeKeys indexedIsotopes := by
  refine collisionFree_of_oracle isotopeKeyTree.find fun i hi k hk => ?_
  have h := chk_isotope_keys
  simp only [chkIsotopeKeys, List.all_eq_true] at h
  exact optIsoIs_iff.mp (h i hi k hk)

/-- every indexed element is found in `_element_index` under each of its keys -/
theorem element_index_roundtrip : RoundTrip elementKeys indexedElements :=
  (roundTrip_iff_collisionFree _ _).mpr element_index_collision_free

/-- every indexed isotope is found in `_isotope_index` under each of its keys -/
theorem isotope_index_roundtrip : RoundTrip isotopeKeys indexedIsotopes :=
  (roundTrip_iff_collisionFree _ _).mpr isotope_index_collision_free

/-- every exported object was bound when its index was built (nothing is defined after the `_build_*_index()` call) -/
def chkIndexed : Bool := subseqB El.beq elements indexedElements && subseqB Iso.beq isotopes indexedIsotopes
theorem chk_indexed : chkIndexed = true := by decide +kernel

theorem all_exported_indexed :
    (∀ e ∈ elements, e ∈ indexedElements) ∧ (∀ i ∈ isotopes, i ∈ indexedIsotopes) := by
  have h := chk_indexed
  simp only [chkIndexed, Bool.and_eq_true] at h
  exact ⟨subseqB_sound (fun _ _ => El.beq_iff.mp) h.1, subseqB_sound (fun _ _ => Iso.beq_iff.mp) h.2⟩

/-! ## lookup round trip, every exported object, every identifier, every letter case -/

/-- `str(Z)` and `<symbol><A>` keys: lower-casing commutes with the way the builder assembled them (table check) -/
def chkKeyForms : Bool :=
  (elements.all fun e => (lower (strNat e.z)).beq (strNat e.z)) &&
  (isotopes.all fun i => Nat.ble 1 i.a &&
    (lower (cat i.parent.sym (strNat i.a))).beq (cat (lower i.parent.sym) (strNat i.a)) &&
    (lower (cat i.parent.name (strNat i.a))).beq (cat (lower i.parent.name) (strNat i.a)))
theorem chk_key_forms : chkKeyForms = true := by decide +kernel

private theorem key_forms :
    (∀ e ∈ elements, lower (strNat e.z) = strNat e.z) ∧
    (∀ i ∈ isotopes, 1 ≤ i.a ∧ lower (cat i.parent.sym (strNat i.a)) = cat (lower i.parent.sym) (strNat i.a) ∧
      lower (cat i.parent.name (strNat i.a)) = cat (lower i.parent.name) (strNat i.a)) := by
  have h := chk_key_forms
  simp only [chkKeyForms, Bool.and_eq_true, List.all_eq_true, Nat.ble_eq] at h
  exact ⟨fun e he => nbeq.mp (h.1 e he), fun i hi => ⟨(h.2 i hi).1.1, nbeq.mp (h.2 i hi).1.2, nbeq.mp (h.2 i hi).2⟩⟩

private theorem el_key {e : El} (he : e ∈ elements) {k : Nat} (hk : k ∈ elementKeys e) :
    elementIndex.get? k = some e :=
  element_index_roundtrip e (all_exported_indexed.1 e he) k hk

private theorem iso_key {i : Iso} (hi : i ∈ isotopes) {k : Nat} (hk : k ∈ isotopeKeys i) :
    isotopeIndex.get? k = some i :=
  isotope_index_roundtrip i (all_exported_indexed.2 i hi) k hk

/-- `lookup_element(s)` returns the element itself for every spelling `s` of its symbol or name in any letter case,
for its atomic number written as a string or given as an `int`, and for the object itself -/
theorem lookup_element_roundtrip (e : El) (he : e ∈ elements) :
    (∀ s, lower s = lower e.sym → lookupElement elementIndex (.str s) = some e) ∧
    (∀ s, lower s = lower e.name → lookupElement elementIndex (.str s) = some e) ∧
    lookupElement elementIndex (.str (strNat e.z)) = some e ∧
    lookupElement elementIndex (.int e.z) = some e ∧
    lookupElement elementIndex (.elem e) = some e := by
  have hz := key_forms.1 e he
  refine ⟨fun s hs => ?_, fun s hs => ?_, ?_, ?_, rfl⟩
  · rw [lookupElement_str, hs]; exact el_key he (by simp [elementKeys])
  · rw [lookupElement_str, hs]; exact el_key he (by simp [elementKeys])
  · rw [lookupElement_str, hz]; exact el_key he (by simp [elementKeys])
  · rw [lookupElement_int]
    show elementIndex.get? (lower (strNat e.z)) = some e
    rw [hz]; exact el_key he (by simp [elementKeys])

/-- `lookup_isotope(s)` returns the isotope itself for every spelling, in any letter case, of its symbol, its name,
`<element symbol><A>` and `<element name><A>`; and for the object itself -/
theorem lookup_isotope_roundtrip (i : Iso) (hi : i ∈ isotopes) :
    (∀ s, lower s = lower i.base.sym → lookupIsotope elementIndex isotopeIndex (.str s) none = some i) ∧
    (∀ s, lower s = lower i.base.name → lookupIsotope elementIndex isotopeIndex (.str s) none = some i) ∧
    (∀ s, lower s = lower (cat i.parent.sym (strNat i.a)) →
      lookupIsotope elementIndex isotopeIndex (.str s) none = some i) ∧
    (∀ s, lower s = lower (cat i.parent.name (strNat i.a)) →
      lookupIsotope elementIndex isotopeIndex (.str s) none = some i) ∧
    (∀ n, lookupIsotope elementIndex isotopeIndex (.isot i) n = some i) := by
  obtain ⟨_, h1, h2⟩ := key_forms.2 i hi
  refine ⟨fun s hs => ?_, fun s hs => ?_, fun s hs => ?_, fun s hs => ?_, fun n => rfl⟩
  · rw [lookupIsotope_str, hs]; exact iso_key hi (by simp [isotopeKeys])
  · rw [lookupIsotope_str, hs]; exact iso_key hi (by simp [isotopeKeys])
  · rw [lookupIsotope_str, hs, h1]; exact iso_key hi (by simp [isotopeKeys])
  · rw [lookupIsotope_str, hs, h2]; exact iso_key hi (by simp [isotopeKeys])

/-- `lookup_isotope(v, number=A)` returns the isotope for **every** `v` that `lookup_element` resolves to the
isotope's element (symbol / name in any case, atomic number as `str` or `int`, the `Element` object) -/
theorem lookup_isotope_by_element_and_number (i : Iso) (hi : i ∈ isotopes) (q : Query) (hq : ∀ j, q ≠ .isot j)
    (hel : lookupElement elementIndex q = some i.parent) :
    lookupIsotope elementIndex isotopeIndex q (some (i.a : Int)) = some i := by
  obtain ⟨ha, h1, _⟩ := key_forms.2 i hi
  have hn : (i.a : Int) ≠ 0 := by omega
  rw [lookupIsotope_number _ _ _ hq _ hn, hel]
  show isotopeIndex.get? (lower (cat i.parent.sym (strNat i.a))) = some i
  rw [h1]; exact iso_key hi (by simp [isotopeKeys])

/-! ## uniqueness of names and symbols (compared case-insensitively, which is the stronger statement) -/

def chkNames : Bool := idxOk nameTree.find 0 (allSpecies.map fun s => lower s.base.name)
theorem chk_names : chkNames = true := by decide +kernel

/-- no two species (elements and isotopes together) share a name, even up to letter case -/
theorem names_unique : (allSpecies.map fun s => lower s.base.name).Nodup := nodup_of_idxOk chk_names

/-- … hence no two share a name exactly, and the exported objects are pairwise different -/
theorem names_unique_exact : (allSpecies.map fun s => s.base.name).Nodup := by
  have h := names_unique
  rw [show (fun s : Sp => lower s.base.name) = lower ∘ (fun s : Sp => s.base.name) from rfl, ← List.map_map] at h
  exact List.Nodup.of_map _ h

theorem species_nodup : allSpecies.Nodup := List.Nodup.of_map _ names_unique_exact

theorem elements_nodup : elements.Nodup := by
  have h := species_nodup
  unfold allSpecies at h
  exact List.Nodup.of_map _ (List.Nodup.of_append_left h)

theorem isotopes_nodup : isotopes.Nodup := by
  have h := species_nodup
  unfold allSpecies at h
  exact List.Nodup.of_map _ (List.Nodup.of_append_right h)

/-- no two elements share a symbol (even up to letter case) -/
theorem element_symbols_unique : (elements.map fun e => lower e.sym).Nodup := by
  refine List.Nodup.map_on (fun a ha b hb hab => ?_) elements_nodup
  exact element_index_collision_free a (all_exported_indexed.1 a ha) b (all_exported_indexed.1 b hb) (lower a.sym)
    (by simp [elementKeys]) (by rw [hab]; simp [elementKeys])

/-- no two isotopes share a symbol (even up to letter case) -/
theorem isotope_symbols_unique : (isotopes.map fun i => lower i.base.sym).Nodup := by
  refine List.Nodup.map_on (fun a ha b hb hab => ?_) isotopes_nodup
  exact isotope_index_collision_free a (all_exported_indexed.2 a ha) b (all_exported_indexed.2 b hb) (lower a.base.sym)
    (by simp [isotopeKeys]) (by rw [hab]; simp [isotopeKeys])

/-- no two elements share an atomic number -/
theorem atomic_numbers_unique : (elements.map fun e => strNat e.z).Nodup := by
  refine List.Nodup.map_on (fun a ha b hb hab => ?_) elements_nodup
  exact element_index_collision_free a (all_exported_indexed.1 a ha) b (all_exported_indexed.1 b hb) (strNat a.z)
    (by simp [elementKeys]) (by rw [hab]; simp [elementKeys])

/-! ## periodic table -/

def chkPeriodic : Bool :=
  elements.all fun e => Cherab.Periodic.symbolMatches e.z e.sym && Cherab.Periodic.nameMatches e.z e.name

theorem chk_periodic : chkPeriodic = true := by decide +kernel

/-- every element's (atomic number, symbol) is a row of the hand-written reference table, and its name is the
IUPAC name (or a listed variant spelling) of that atomic number -/
theorem atomic_numbers_match_periodic_table (e : El) (he : e ∈ elements) :
    Cherab.Periodic.symbolMatches e.z e.sym = true ∧ Cherab.Periodic.nameMatches e.z e.name = true := by
  have h := chk_periodic
  simp only [chkPeriodic, List.all_eq_true, Bool.and_eq_true] at h
  exact h e he

/-- the reference table itself is well-formed: 118 rows, Z = 1 … 118 in order, symbols pairwise different -/
theorem periodic_table_wellformed :
    Cherab.Periodic.table.map (·.1) = List.range' 1 118 ∧ nodupB (Cherab.Periodic.coded.map (·.2.1)) = true := by
  decide +kernel

/-! ## isotopes -/

/-- `Isotope.__init__` (as generated from the source) hands its element's atomic number to `Element.__init__`:
for every isotope that can be constructed, not only the registered ones -/
theorem isotope_ctor_atomic_number (name symbol : Nat) (element : El) (massNumber : Nat) (w : Nat × Nat) :
    (mkIsotope name symbol element massNumber w).base.z = element.z ∧
    (mkIsotope name symbol element massNumber w).parent = element ∧
    (mkIsotope name symbol element massNumber w).a = massNumber := ⟨rfl, rfl, rfl⟩

def chkIsotopes : Bool :=
  isotopes.all fun i =>
    memEl i.parent elements && i.base.z.beq i.parent.z && Nat.ble 1 i.base.z && Nat.ble i.base.z i.a &&
    Nat.ble 1 i.base.wDen && weightNear i.base.wNum i.base.wDen i.a

theorem chk_isotopes : chkIsotopes = true := by decide +kernel

/-- each isotope's element is an exported element; the isotope has that element's atomic number, a mass number not
smaller than it, and an atomic weight (the exact value of the stored double) within 0.1 u of the mass number -/
theorem isotope_consistent (i : Iso) (hi : i ∈ isotopes) :
    i.parent ∈ elements ∧ i.base.z = i.parent.z ∧ 1 ≤ i.base.z ∧ i.base.z ≤ i.a ∧
    |(i.base.wNum : ℚ) / i.base.wDen - i.a| ≤ 1 / 10 := by
  have h := chk_isotopes
  simp only [chkIsotopes, List.all_eq_true, Bool.and_eq_true, Nat.ble_eq] at h
  obtain ⟨⟨⟨⟨⟨h1, h2⟩, h3⟩, h4⟩, h5⟩, h6⟩ := h i hi
  exact ⟨memEl_iff.mp h1, nbeq.mp h2, h3, h4, weightNear_sound h5 h6⟩


def chkIsotopeNaming : Bool :=
  isotopes.all fun i =>
    Cherab.Periodic.isotopeNamedAfter i.parent.z i.parent.name i.parent.sym i.a i.base.name i.base.sym

theorem chk_isotope_naming : chkIsotopeNaming = true := by decide +kernel

/-- **an isotope is attached to the right element**: its element's (Z, symbol, name) is a row of the hand-written
periodic table, and the isotope is named after *that* element — name `<element name><A>`, symbol `<element symbol><A>`,
or one of the documented hydrogen names (protium/H, deuterium/D, tritium/T with A = 1, 2, 3 and Z = 1).  An isotope
built with the wrong parent (hence the wrong atomic number) cannot satisfy this. -/
theorem isotope_named_after_its_element (i : Iso) (hi : i ∈ isotopes) :
    Cherab.Periodic.symbolMatches i.parent.z i.parent.sym = true ∧
    Cherab.Periodic.nameMatches i.parent.z i.parent.name = true ∧
    Cherab.Periodic.isotopeNamedAfter i.parent.z i.parent.name i.parent.sym i.a i.base.name i.base.sym = true := by
  have h := chk_isotope_naming
  simp only [chkIsotopeNaming, List.all_eq_true] at h
  have hp := atomic_numbers_match_periodic_table i.parent (isotope_consistent i hi).1
  exact ⟨hp.1, hp.2, h i hi⟩

/-- general: `(symbol + str(A)).lower()` is `symbol.lower() + str(A)` whenever lower-casing leaves `str(A)` alone -/
theorem lower_cat (a b : Nat) (hb : lower b = b) : lower (cat a b) = cat (lower a) b := lower_cat_of a b hb

/-- a key `k` of isotope `i` that ends in `str(A)`: the part before it, if it is the lower-case symbol of an indexed
element, is the symbol of `i`'s own element.  (Linear: the prefix is obtained by division, not by trying all elements.) -/
def ownPrefix (i : Iso) (k : Nat) : Bool :=
  if (k % 256 ^ bytes (strNat i.a)).beq (strNat i.a) then
    match elementKeyTree.find (k / 256 ^ bytes (strNat i.a)) with
    | some e => e.beq i.parent
    | none => true
  else true

def chkForeignElement : Bool :=
  isotopes.all fun i => (lower (strNat i.a)).beq (strNat i.a) && (isotopeKeys i).all (ownPrefix i)

theorem chk_foreign_element : chkForeignElement = true := by decide +kernel

/-- `lookup_isotope(v, number=A)` returns an isotope **only** for its own element: if `v` resolves (by
`lookup_element`) to an exported element `e` and the lookup yields isotope `i` with `A = i.a`, then `e` is `i`'s element -/
theorem lookup_isotope_only_by_own_element (i : Iso) (hi : i ∈ isotopes) (e : El) (he : e ∈ elements) (q : Query)
    (hq : ∀ j, q ≠ .isot j) (hel : lookupElement elementIndex q = some e)
    (h : lookupIsotope elementIndex isotopeIndex q (some (i.a : Int)) = some i) : e = i.parent := by
  have ha : (i.a : Int) ≠ 0 := by have := (isotope_consistent i hi).2.2; omega
  rw [lookupIsotope_number _ _ _ hq _ ha, hel] at h
  have hk : isotopeIndex.get? (lower (cat e.sym (strNat i.a))) = some i := h
  have hs := get?_buildIndex_sound isotopeKeys indexedIsotopes _ _ hk
  have hf := chk_foreign_element
  simp only [chkForeignElement, List.all_eq_true, Bool.and_eq_true] at hf
  obtain ⟨hdig, hown⟩ := hf i hi
  have hdig' : lower (strNat i.a) = strNat i.a := nbeq.mp hdig
  rw [lower_cat_of _ _ hdig'] at hs
  have h1 := hown _ hs.2
  have hfind : elementKeyTree.find (lower e.sym) = some e := by
    have hc := chk_element_keys
    simp only [chkElementKeys, List.all_eq_true] at hc
    exact optElIs_iff.mp (hc e (all_exported_indexed.1 e he) _ (by simp [elementKeys]))
  simp only [ownPrefix, cat_mod, cat_div, nbeq.mpr rfl, if_true, hfind] at h1
  exact El.beq_iff.mp h1

/-! ## equality and hashing -/

theorem hash_fields_subset :
    (∀ f ∈ cfg.elHash, f ∈ cfg.elEq) ∧ (∀ f ∈ cfg.isoHash, f ∈ cfg.isoEq) ∧ (∀ f ∈ cfg.lineHash, f ∈ cfg.lineEq) := by
  decide

theorem ne_fields_same :
    (∀ f, f ∈ cfg.elNe ↔ f ∈ cfg.elEq) ∧ (∀ f, f ∈ cfg.isoNe ↔ f ∈ cfg.isoEq) ∧
    (∀ f, f ∈ cfg.lineNe ↔ f ∈ cfg.lineEq) := by
  refine ⟨fun f => ?_, fun f => ?_, fun f => ?_⟩
  · cases f <;> decide
  · rcases f with (g | _ | _)
    · cases g <;> decide
    · decide
    · decide
  · cases f <;> decide

/-- **all** `Element` objects (registered or not): `a == b` implies `hash(a) == hash(b)` -/
theorem element_eq_hash (a b : El) (h : elEq cfg a b = true) : elHash cfg a = elHash cfg b :=
  elEq_hash hash_fields_subset.1 h

/-- **all** `Isotope` objects: `a == b` implies `hash(a) == hash(b)` -/
theorem isotope_eq_hash (a b : Iso) (h : isoEq cfg a b = true) : isoHash cfg a = isoHash cfg b :=
  isoEq_hash hash_fields_subset.1 hash_fields_subset.2.1 h

/-- **all** species: `a != b` is `not (a == b)`; `a == a` -/
theorem species_ne_is_not_eq (a b : Sp) : pyNe cfg a b = !pyEq cfg a b :=
  pyNe_eq_not ne_fields_same.1 ne_fields_same.2.1 a b
theorem species_eq_refl (a : Sp) : pyEq cfg a a = true := pyEq_refl cfg a

theorem name_is_compared : EField.name ∈ cfg.elEq ∧ IField.inh .name ∈ cfg.isoEq := by decide

/-- distinct exported species (elements and isotopes, mixed pairs included, both argument orders) compare unequal -/
theorem distinct_species_unequal :
    allSpecies.Pairwise fun a b => (pyEq cfg a b = false ∧ pyNe cfg a b = true) ∧
      (pyEq cfg b a = false ∧ pyNe cfg b a = true) := by
  have h : allSpecies.Pairwise fun a b => a.base.name ≠ b.base.name := by
    have := names_unique_exact
    rwa [List.Nodup, List.pairwise_map] at this
  refine h.imp ?_
  intro a b hab
  have h1 := pyEq_false_of_name_ne name_is_compared.1 name_is_compared.2 hab
  have h2 := pyEq_false_of_name_ne name_is_compared.1 name_is_compared.2 (a := b) (b := a) (fun e => hab e.symm)
  simp [species_ne_is_not_eq, h1, h2]

/-- on the registry `==` is identity -/
theorem species_eq_iff (a b : Sp) (ha : a ∈ allSpecies) (hb : b ∈ allSpecies) : pyEq cfg a b = true ↔ a = b := by
  constructor
  · intro h
    by_contra hne
    have hnm : a.base.name ≠ b.base.name := fun e =>
      hne (List.inj_on_of_nodup_map names_unique_exact ha hb e)
    rw [pyEq_false_of_name_ne name_is_compared.1 name_is_compared.2 hnm] at h
    exact Bool.noConfusion h
  · rintro rfl
    exact pyEq_refl cfg a

/-- equal exported species hash equally (so they work as `dict` / `set` keys) -/
theorem equal_species_hash_equal (a b : Sp) (ha : a ∈ allSpecies) (hb : b ∈ allSpecies)
    (h : pyEq cfg a b = true) : spHash cfg a = spHash cfg b := by
  rw [(species_eq_iff a b ha hb).mp h]

/-- outside the registry the mixed comparison is *not* hash-consistent: an `Isotope` constructed with an element's
name, symbol and weight compares equal to that `Element` but hashes a longer tuple (not an exported object; recorded so
that the scope of `equal_species_hash_equal` is explicit) -/
theorem mixed_eq_hash_witness : cfg.strictKind = false →
    ∃ (e : El) (i : Iso), pyEq cfg (.el e) (.iso i) = true ∧ hashBeq (spHash cfg (.el e)) (spHash cfg (.iso i)) = false := by
  first
  | exact fun h => absurd h (by decide)
  | exact fun _ => ⟨o_hydrogen, mkIsotope o_hydrogen.name o_hydrogen.sym o_hydrogen 1 (o_hydrogen.wNum, o_hydrogen.wDen),
      by decide +kernel⟩

/-- once `Element.__richcmp__` refuses objects of a different exact type (`cfg.strictKind`, notes/fixes/C19-1.diff) the
gap closes: for **all** species, registered or constructed, mixed or not, `a == b` implies equal hash arguments.
(Vacuous on the current tree, where `cfg.strictKind = false`; it becomes the operative theorem when the fix lands and
the translator emits `strictKind := true`.) -/
theorem all_species_eq_hash_if_strict (hs : cfg.strictKind = true) (a b : Sp) (h : pyEq cfg a b = true) :
    spHash cfg a = spHash cfg b :=
  pyEq_hash_strict hs hash_fields_subset.1 hash_fields_subset.2.1 h

/-! ## lines as dictionary keys -/

section lines
variable {τ : Type} [DecidableEq τ]

theorem line_eq_fields : ∀ f : LField, f ∈ cfg.lineEq := by
  intro f; cases f <;> decide

/-- two lines over exported species are `==` exactly when element, charge and transition coincide -/
theorem line_eq_iff (a b : Line τ) (ha : a.element ∈ allSpecies) (hb : b.element ∈ allSpecies) :
    lineEq cfg a b = true ↔ (a.element = b.element ∧ a.charge = b.charge ∧ a.transition = b.transition) := by
  simp only [lineEq, List.all_eq_true]
  constructor
  · intro h
    have h1 := h .element (line_eq_fields _)
    have h2 := h .charge (line_eq_fields _)
    have h3 := h .transition (line_eq_fields _)
    simp only [lfEq, decide_eq_true_eq] at h1 h2 h3
    exact ⟨(species_eq_iff _ _ ha hb).mp h1, h2, h3⟩
  · rintro ⟨h1, h2, h3⟩ f _
    cases f <;> simp [lfEq, h1, h2, h3, pyEq_refl]

/-- equal lines hash equally; `!=` is the negation of `==` -/
theorem line_eq_hash (a b : Line τ) (ha : a.element ∈ allSpecies) (hb : b.element ∈ allSpecies)
    (h : lineEq cfg a b = true) : lineHash cfg a = lineHash cfg b := by
  obtain ⟨h1, h2, h3⟩ := (line_eq_iff a b ha hb).mp h
  cases a; cases b
  simp_all

theorem line_ne_is_not_eq (a b : Line τ) : lineNe cfg a b = !lineEq cfg a b := by
  have hs := ne_fields_same.2.2
  rw [Bool.eq_iff_iff]
  simp only [lineNe, lineEq, List.any_eq_true, Bool.not_eq_true', List.all_eq_false]
  have hf : ∀ f, lfNe cfg f a b = !lfEq cfg f a b := by
    intro f; cases f <;> simp [lfNe, lfEq, species_ne_is_not_eq]
  constructor
  · rintro ⟨f, hf', h⟩; exact ⟨f, (hs f).mp hf', by simpa [hf] using h⟩
  · rintro ⟨f, hf', h⟩; exact ⟨f, (hs f).mpr hf', by simpa [hf] using h⟩

end lines

/-! ## proof-deepening pass

(A) equality is *value based* and eq / ne / hash are coherent for **every constructible** species and line, with the
    mixed `Element`–`Isotope` comparison characterised exactly (it is the only place where `==` does not imply equal hashes);
(B) the lookups are *total decision functions*: `lookup_*` answers with an object **iff** the (lower-cased) argument is one of
    that object's identifiers — in particular nothing is ever returned for a spelling that is not an identifier. -/

section deepening

theorem eq_fields_cover : (∀ f : EField, f ∈ cfg.elEq) ∧ (∀ f : IField, f ∈ cfg.isoEq) := by
  refine ⟨fun f => ?_, fun f => ?_⟩
  · cases f <;> decide
  · rcases f with (g | _ | _)
    · cases g <;> decide
    · decide
    · decide

/-- **value-based equality, all objects**: two species objects of the same exact type are `==` exactly when every
attribute coincides (name, symbol, atomic number, the double atomic weight; for isotopes also mass number and element) —
never by identity, never ignoring a field -/
theorem species_eq_iff_same_value (a b : Sp) (hk : SameKind a b) : pyEq cfg a b = true ↔ a = b :=
  pyEq_sameKind_iff eq_fields_cover.1 eq_fields_cover.2 hk

example : pyEq cfg (.iso o_deuterium) (.iso (mkIsotope o_deuterium.base.name o_deuterium.base.sym o_hydrogen 2
    (o_deuterium.base.wNum, o_deuterium.base.wDen))) = true := by decide +kernel

/-- mixed pairs, all objects, either argument order: `==` holds exactly when the `Element` coincides with the
inherited `Element` part of the `Isotope` -/
theorem species_eq_mixed_iff (hs : cfg.strictKind = false) (e : El) (i : Iso) :
    (pyEq cfg (.el e) (.iso i) = true ↔ e = i.base) ∧ (pyEq cfg (.iso i) (.el e) = true ↔ e = i.base) :=
  pyEq_mixed_iff hs eq_fields_cover.1 e i

/-- with the exact-type guard: a mixed pair is never `==` -/
theorem species_eq_mixed_strict (hs : cfg.strictKind = true) (e : El) (i : Iso) :
    pyEq cfg (.el e) (.iso i) = false ∧ pyEq cfg (.iso i) (.el e) = false :=
  pyEq_mixed_strict hs e i

/-- **eq ⇒ hash, all objects, exact scope**: for species that compare equal the hash arguments coincide **iff** the
two objects have the same exact type.  (⇐ is `element_eq_hash`/`isotope_eq_hash`; ⇒ says the mixed pair is the *only*
incoherent case, and it always is: the tuples have 4 and 5 entries.) -/
theorem species_eq_hash_iff_same_kind (a b : Sp) (h : pyEq cfg a b = true) :
    spHash cfg a = spHash cfg b ↔ SameKind a b := by
  constructor
  · intro hh
    cases a <;> cases b <;> simp only [SameKind]
    · exact absurd hh (spHash_mixed_ne (by decide) _ _)
    · exact absurd hh.symm (spHash_mixed_ne (by decide) _ _)
  · intro hk
    exact pyEq_hash_sameKind hash_fields_subset.1 hash_fields_subset.2.1 hk h

example : SameKind (.el o_iron) (.el o_iron) ∧ pyEq cfg (.el o_iron) (.el o_iron) = true := ⟨trivial, by decide +kernel⟩

/-- on the registry all three agree, mixed pairs included: `a == b ⇔ ¬(a != b) ⇔ a is b`, and `==` implies equal hashes -/
theorem registry_eq_ne_hash_coherent (a b : Sp) (ha : a ∈ allSpecies) (hb : b ∈ allSpecies) :
    (pyEq cfg a b = true ↔ pyNe cfg a b = false) ∧ (pyEq cfg a b = true ↔ a = b) ∧
    (pyEq cfg a b = true → spHash cfg a = spHash cfg b) := by
  refine ⟨?_, species_eq_iff a b ha hb, equal_species_hash_equal a b ha hb⟩
  rw [species_ne_is_not_eq]
  cases pyEq cfg a b <;> simp

example : Sp.el o_hydrogen ∈ allSpecies ∧ Sp.iso o_protium ∈ allSpecies := by decide +kernel

variable {τ : Type} [DecidableEq τ]

/-- **all lines** (any species objects of the same exact type, any charge, any transition): `==` exactly when element,
charge and transition coincide; then the hashes coincide; `!=` is its negation (`line_ne_is_not_eq`) -/
theorem line_eq_iff_same_value (a b : Line τ) (hk : SameKind a.element b.element) :
    lineEq cfg a b = true ↔ (a.element = b.element ∧ a.charge = b.charge ∧ a.transition = b.transition) := by
  simp only [lineEq, List.all_eq_true]
  constructor
  · intro h
    have h1 := h .element (line_eq_fields _)
    have h2 := h .charge (line_eq_fields _)
    have h3 := h .transition (line_eq_fields _)
    simp only [lfEq, decide_eq_true_eq] at h1 h2 h3
    exact ⟨(species_eq_iff_same_value _ _ hk).mp h1, h2, h3⟩
  · rintro ⟨h1, h2, h3⟩ f _
    cases f <;> simp [lfEq, h1, h2, h3, pyEq_refl]

theorem line_eq_hash_all (a b : Line τ) (hk : SameKind a.element b.element) (h : lineEq cfg a b = true) :
    lineHash cfg a = lineHash cfg b := by
  obtain ⟨h1, h2, h3⟩ := (line_eq_iff_same_value a b hk).mp h
  cases a; cases b
  simp_all

example : lineEq cfg (⟨.el o_carbon, 2, (1 : Nat)⟩ : Line Nat) ⟨.el o_carbon, 2, 1⟩ = true := by decide +kernel

/-- what is **not** true, stated so the scope is explicit: a line on an `Element` and a line on an `Isotope` carrying that
element's name, symbol and weight are `==` but hash differently (constructed objects only; `line_eq_hash` covers the registry) -/
theorem line_mixed_witness : cfg.strictKind = false →
    ∃ a b : Line Nat, lineEq cfg a b = true ∧ lineHash cfg a ≠ lineHash cfg b := by
  first
  | exact fun h => absurd h (by decide)
  | (intro _
     refine ⟨⟨.el o_hydrogen, 0, 1⟩,
       ⟨.iso (mkIsotope o_hydrogen.name o_hydrogen.sym o_hydrogen 1 (o_hydrogen.wNum, o_hydrogen.wDen)), 0, 1⟩,
       by decide +kernel, fun h => ?_⟩
     have h0 : ∀ x ∈ (lineHash cfg (⟨.el o_hydrogen, 0, 1⟩ : Line Nat)), x ∈ lineHash cfg (⟨.iso (mkIsotope o_hydrogen.name
         o_hydrogen.sym o_hydrogen 1 (o_hydrogen.wNum, o_hydrogen.wDen)), 0, 1⟩ : Line Nat) := fun x hx => h ▸ hx
     have h1 := h0 (.sp (spHash cfg (.el o_hydrogen))) (by simp [lineHash, cfg, lfVal])
     simp only [lineHash, List.mem_map] at h1
     obtain ⟨f, _, hf⟩ := h1
     cases f <;> simp only [lfVal, LHVal.sp.injEq, reduceCtorEq] at hf
     exact spHash_mixed_ne (c := cfg) (by decide) _ _ hf.symm)

/-- with the exact-type guard: **all** lines, any species — `==` implies equal hashes -/
theorem all_lines_eq_hash_if_strict (hs : cfg.strictKind = true) (a b : Line τ) (h : lineEq cfg a b = true) :
    lineHash cfg a = lineHash cfg b := by
  simp only [lineEq, List.all_eq_true] at h
  have h1 := h .element (line_eq_fields _)
  have h2 := h .charge (line_eq_fields _)
  have h3 := h .transition (line_eq_fields _)
  simp only [lfEq, decide_eq_true_eq] at h1 h2 h3
  have hh := all_species_eq_hash_if_strict hs _ _ h1
  refine List.map_congr_left fun f _ => ?_
  cases f <;> simp [lfVal, hh, h2, h3]

/-! ### (B) lookups as total decision functions -/

/-- every indexed object is an exported object (no stale binding is reachable through an index) -/
def chkIndexedExported : Bool :=
  (subseqB El.beq indexedElements elements || indexedElements.all fun e => memEl e elements) &&
  (subseqB Iso.beq indexedIsotopes isotopes || indexedIsotopes.all fun i => i.memB isotopes)
theorem chk_indexed_exported : chkIndexedExported = true := by decide +kernel

theorem all_indexed_exported :
    (∀ e ∈ indexedElements, e ∈ elements) ∧ (∀ i ∈ indexedIsotopes, i ∈ isotopes) := by
  have h := chk_indexed_exported
  simp only [chkIndexedExported, Bool.and_eq_true, Bool.or_eq_true, List.all_eq_true] at h
  refine ⟨fun e he => ?_, fun i hi => ?_⟩
  · rcases h.1 with h1 | h1
    · exact subseqB_sound (fun _ _ => El.beq_iff.mp) h1 e he
    · exact memEl_iff.mp (h1 e he)
  · rcases h.2 with h1 | h1
    · exact subseqB_sound (fun _ _ => Iso.beq_iff.mp) h1 i hi
    · have := h1 i hi
      simp only [Iso.memB, List.any_eq_true, Iso.beq_iff] at this
      obtain ⟨x, hx, rfl⟩ := this
      exact hx

/-- **`lookup_element` decides identifier membership** (every `str` argument `s`): it returns the element `e` iff `e` is
exported and the lower-cased `s` is `e`'s lower-cased symbol, lower-cased name, or decimal atomic number; otherwise it
raises.  Together with collision-freeness the answer is unique. -/
theorem lookup_element_decision (s : Nat) (e : El) :
    lookupElement elementIndex (.str s) = some e ↔
      e ∈ elements ∧ (lower s = lower e.sym ∨ lower s = lower e.name ∨ lower s = strNat e.z) := by
  rw [lookupElement_str]
  constructor
  · intro h
    obtain ⟨h1, h2⟩ := get?_buildIndex_sound elementKeys indexedElements _ _ h
    exact ⟨all_indexed_exported.1 e h1, by simpa [elementKeys] using h2⟩
  · rintro ⟨he, hk⟩
    exact el_key he (by simpa [elementKeys] using hk)

/-- … and raises `ValueError` iff no exported element has that identifier -/
theorem lookup_element_none_iff (s : Nat) :
    lookupElement elementIndex (.str s) = none ↔
      ∀ e ∈ elements, ¬ (lower s = lower e.sym ∨ lower s = lower e.name ∨ lower s = strNat e.z) := by
  constructor
  · intro h e he hk
    have := (lookup_element_decision s e).mpr ⟨he, hk⟩
    rw [h] at this
    simp at this
  · intro h
    cases hl : lookupElement elementIndex (.str s) with
    | none => rfl
    | some e =>
      obtain ⟨he, hk⟩ := (lookup_element_decision s e).mp hl
      exact absurd hk (h e he)

example : lookupElement elementIndex (.str (enc "unobtainium")) = none := by decide +kernel

/-- **`lookup_isotope` (no number) decides identifier membership**: returns `i` iff `i` is exported and the lower-cased
argument is its lower-cased symbol, name, `<element symbol><A>` or `<element name><A>` -/
theorem lookup_isotope_decision (s : Nat) (i : Iso) :
    lookupIsotope elementIndex isotopeIndex (.str s) none = some i ↔
      i ∈ isotopes ∧ (lower s = lower i.base.sym ∨ lower s = lower i.base.name ∨
        lower s = cat (lower i.parent.sym) (strNat i.a) ∨ lower s = cat (lower i.parent.name) (strNat i.a)) := by
  rw [lookupIsotope_str]
  constructor
  · intro h
    obtain ⟨h1, h2⟩ := get?_buildIndex_sound isotopeKeys indexedIsotopes _ _ h
    exact ⟨all_indexed_exported.2 i h1, by simpa [isotopeKeys] using h2⟩
  · rintro ⟨hi, hk⟩
    exact iso_key hi (by simpa [isotopeKeys] using hk)

/-- **`lookup_isotope(v, number=n)` decides**: for `n ≠ 0` and `v` not an isotope object it returns `i` iff `v` resolves
(by `lookup_element`) to some element `e` and `(e.symbol + str(n)).lower()` is one of `i`'s four keys; for `n = i.a` that
`e` is `i`'s own element (`lookup_isotope_only_by_own_element`) -/
theorem lookup_isotope_number_decision (q : Query) (hq : ∀ j, q ≠ .isot j) (n : Int) (hn : n ≠ 0) (i : Iso) :
    lookupIsotope elementIndex isotopeIndex q (some n) = some i ↔
      ∃ e, lookupElement elementIndex q = some e ∧ i ∈ isotopes ∧ lower (cat e.sym (strInt n)) ∈ isotopeKeys i := by
  rw [lookupIsotope_number _ _ _ hq _ hn]
  constructor
  · intro h
    cases he : lookupElement elementIndex q with
    | none => rw [he] at h; simp at h
    | some e =>
      rw [he] at h
      obtain ⟨h1, h2⟩ := get?_buildIndex_sound isotopeKeys indexedIsotopes _ _ h
      exact ⟨e, rfl, all_indexed_exported.2 i h1, h2⟩
  · rintro ⟨e, he, hi, hk⟩
    rw [he]
    exact iso_key hi hk

example : lookupIsotope elementIndex isotopeIndex (.str (enc "he")) (some 3) = some o_helium3 := by decide +kernel

/-- **lookup normalisation**: whatever is passed — a `str` in any letter case, an `int`, a numpy integer (anything whose
`str()` is the decimal numeral), or an `Isotope` object (through its `repr`) — `lookup_element` answers exactly as for the
string `str(v)`; only an `Element` object short-circuits.  Likewise `lookup_isotope` without a number. -/
theorem lookup_normalisation (q : Query) :
    ((∀ e, q ≠ .elem e) → lookupElement elementIndex q = lookupElement elementIndex (.str q.str')) ∧
    ((∀ i, q ≠ .isot i) → lookupIsotope elementIndex isotopeIndex q none =
      lookupIsotope elementIndex isotopeIndex (.str q.str') none) := by
  cases q with
  | elem e => exact ⟨fun h => absurd rfl (h e), fun _ => rfl⟩
  | isot i => exact ⟨fun _ => rfl, fun h => absurd rfl (h i)⟩
  | str s => exact ⟨fun _ => rfl, fun _ => rfl⟩
  | int n => exact ⟨fun _ => rfl, fun _ => rfl⟩

example : lookupElement elementIndex (.int 26) = lookupElement elementIndex (.str (enc "26")) := by decide +kernel

/- Full statement wanted:  `lookupElement elementIndex (.int n) = some e ↔ e ∈ elements ∧ n = e.z`  for every `n : Int`.
   Proved below: ⇐ in full, ⇒ up to "the numeral `str(n)` is one of `e`'s three keys".  Missing for ⇒: `str` on `int` is
   injective and a decimal numeral is never the lower-cased symbol or name of an element (needs a parser-inverse lemma for
   `strNatAux` and a first-byte argument; checked exhaustively by K for n ∈ [-3, 124] ∪ {10^6, -2^31}). -/
theorem lookup_element_int_decision_partial (n : Int) (e : El) :
    (lookupElement elementIndex (.int n) = some e ↔ e ∈ elements ∧ lower (strInt n) ∈ elementKeys e) ∧
    (e ∈ elements → n = e.z → lookupElement elementIndex (.int n) = some e) := by
  refine ⟨?_, fun he hn => hn ▸ (lookup_element_roundtrip e he).2.2.2.1⟩
  rw [lookupElement_int]
  constructor
  · intro h
    obtain ⟨h1, h2⟩ := get?_buildIndex_sound elementKeys indexedElements _ _ h
    exact ⟨all_indexed_exported.1 e h1, h2⟩
  · rintro ⟨he, hk⟩
    exact el_key he hk

example : lookupElement elementIndex (.int (-6)) = none := by decide +kernel

end deepening

/-! ## non-vacuity -/

/-- the table is not empty (lower bounds only: adding species must not break the build) -/
example : 80 ≤ elements.length ∧ 250 ≤ isotopes.length ∧ allSpecies.length = elements.length + isotopes.length := by
  decide +kernel
example : lookupElement elementIndex (.str (enc "Fe")) = some o_iron := by decide +kernel
example : lookupElement elementIndex (.str (enc "TUNGSTEN")) = some o_tungsten := by decide +kernel
example : lookupElement elementIndex (.int 18) = some o_argon := by decide +kernel
example : lookupElement elementIndex (.str (enc "xx")) = none := by decide +kernel
example : lookupIsotope elementIndex isotopeIndex (.str (enc "D")) none = some o_deuterium := by decide +kernel
example : lookupIsotope elementIndex isotopeIndex (.str (enc "hE3")) none = some o_helium3 := by decide +kernel
example : lookupIsotope elementIndex isotopeIndex (.int 1) (some 3) = some o_tritium := by decide +kernel
example : lookupIsotope elementIndex isotopeIndex (.str (enc "Hydrogen")) (some 2) = some o_deuterium := by decide +kernel
example : o_deuterium ∈ isotopes ∧ o_deuterium.parent = o_hydrogen ∧ o_hydrogen ∈ elements := by decide +kernel
/-- the element `hydrogen` and the isotope `protium` share the symbol "H": allowed (uniqueness is per kind), unequal -/
example : o_hydrogen.sym = o_protium.base.sym ∧ pyEq cfg (.el o_hydrogen) (.iso o_protium) = false := by decide +kernel
example : lineEq cfg (⟨.iso o_deuterium, 0, (3, 2)⟩ : Line (Nat × Nat)) ⟨.iso o_deuterium, 0, (3, 2)⟩ = true := by
  decide +kernel

end Cherab.Props.C19
