/-
C02 — the development behind `Cherab/Props/C02.lean`: definitions used in the statements (`WF`, `FloorSpec`,
`ErfSpec`, `gaussBin`, `frac`, `compsBin`, `PiPlusSigma`, …) and every lemma, in dependency order.  The property
theorems are restated (and re-exported under their property names) in `Props/C02.lean`.
-/
import Cherab.Model.LineShape
import Mathlib.Tactic.Ring
import Mathlib.Tactic.Linarith
import Mathlib.Tactic.FieldSimp
import Mathlib.Tactic.Positivity
import Mathlib.Tactic.NormNum
import Mathlib.Tactic.LinearCombination
import Mathlib.Algebra.Order.Field.Basic
import Mathlib.Algebra.BigOperators.Group.List.Basic
import Mathlib.Data.List.GetD
import Mathlib.Algebra.BigOperators.Ring.List
import Mathlib.Algebra.Order.Ring.Rat

namespace Cherab.Lemmas.LineShape
set_option linter.unusedSectionVars false
open Cherab.LineShape

variable {α : Type} [Field α] [LinearOrder α] [IsStrictOrderedRing α]

theorem addAt_length (k : Nat) (c xs : List α) : (addAt k c xs).length = xs.length := by
  induction xs generalizing k c with
  | nil => cases c <;> simp [addAt]
  | cons x xs ih =>
    cases c with
    | nil => simp [addAt]
    | cons c cs =>
      cases k with
      | zero => simp [addAt, ih]
      | succ k => simp [addAt, ih]

theorem addAt_sum (k : Nat) (c xs : List α) (h : k + c.length ≤ xs.length) :
    (addAt k c xs).sum = xs.sum + c.sum := by
  induction xs generalizing k c with
  | nil =>
    cases c with
    | nil => simp [addAt]
    | cons c cs => simp at h
  | cons x xs ih =>
    cases c with
    | nil => simp [addAt]
    | cons c cs =>
      cases k with
      | zero =>
        simp only [addAt, List.sum_cons]
        rw [ih 0 cs (by simp at h ⊢; omega)]; ring
      | succ k =>
        simp only [addAt, List.sum_cons]
        rw [ih k (c :: cs) (by simp at h ⊢; omega)]; simp only [List.sum_cons]; ring

theorem addAt_getD (k : Nat) (c xs : List α) (h : k + c.length ≤ xs.length) (i : Nat) :
    (addAt k c xs).getD i 0 = xs.getD i 0 + (if k ≤ i then c.getD (i - k) 0 else 0) := by
  induction xs generalizing k c i with
  | nil =>
    cases c with
    | nil => simp [addAt]
    | cons c cs => simp at h
  | cons x xs ih =>
    cases c with
    | nil => simp [addAt]
    | cons c cs =>
      cases k with
      | zero =>
        cases i with
        | zero => simp [addAt]
        | succ i =>
          simp only [addAt, List.getD_cons_succ]
          rw [ih 0 cs (by simp at h ⊢; omega)]; simp
      | succ k =>
        cases i with
        | zero => simp [addAt]
        | succ i =>
          simp only [addAt, List.getD_cons_succ]
          rw [ih k (c :: cs) (by simp at h ⊢; omega)]; simp


/-! ### the Gaussian loop -/

/-- erf argument at bin edge `j` -/
def tArg (mn dl wl temp : α) (j : Int) : α := ((mn + dl * (j : α)) - wl) * temp

theorem gaussContrib_length (erf : α → α) (R mn dl wl temp : α) (n : Nat) (i : Int) (lo : α) :
    (gaussContrib erf R mn dl wl temp n i lo).length = n := by
  induction n generalizing i lo with
  | zero => simp [gaussContrib]
  | succ n ih => simp [gaussContrib, ih]

theorem gaussContrib_getD (erf : α → α) (R mn dl wl temp : α) (n : Nat) (i : Int) (lo : α)
    (hlo : lo = erf (tArg mn dl wl temp i)) (k : Nat) (hk : k < n) :
    (gaussContrib erf R mn dl wl temp n i lo).getD k 0 =
      R * 0.5 * (erf (tArg mn dl wl temp (i + k + 1)) - erf (tArg mn dl wl temp (i + k))) / dl := by
  induction n generalizing i lo k with
  | zero => omega
  | succ n ih =>
    cases k with
    | zero => simp [gaussContrib, hlo, tArg]
    | succ k =>
      simp only [gaussContrib, List.getD_cons_succ]
      rw [ih (i + 1) (erf ((mn + dl * ((i + 1 : Int) : α) - wl) * temp)) rfl k (by omega)]
      push_cast
      have e1 : i + 1 + (k : Int) + 1 = i + ((k : Int) + 1) + 1 := by ring
      have e2 : i + 1 + (k : Int) = i + ((k : Int) + 1) := by ring
      rw [e1, e2]

theorem gaussContrib_step (erf : α → α) (R mn dl wl temp : α) (n : Nat) (i : Int) (lo : α) :
    gaussContrib erf R mn dl wl temp (n + 1) i lo =
      (R * 0.5 * (erf (tArg mn dl wl temp (i + 1)) - lo) / dl) ::
        gaussContrib erf R mn dl wl temp n (i + 1) (erf (tArg mn dl wl temp (i + 1))) := rfl

theorem gaussContrib_sum (erf : α → α) (R mn dl wl temp : α) (hdl : dl ≠ 0) (n : Nat) (i : Int) (lo : α)
    (hlo : lo = erf (tArg mn dl wl temp i)) :
    (gaussContrib erf R mn dl wl temp n i lo).sum * dl =
      R * 0.5 * (erf (tArg mn dl wl temp (i + n)) - erf (tArg mn dl wl temp i)) := by
  induction n generalizing i lo with
  | zero => simp [gaussContrib]
  | succ n ih =>
    rw [gaussContrib_step, List.sum_cons, add_mul, ih (i + 1) _ rfl, hlo]
    have e1 : i + 1 + (n : Int) = i + ((n + 1 : Nat) : Int) := by push_cast; ring
    rw [e1]
    field_simp
    ring

/-! ### the bin range -/

/-- contract of `<int> floor(x)` (values inside the `int` range) -/
def FloorSpec (f : α → Int) : Prop := ∀ x : α, ((f x : Int) : α) ≤ x ∧ x < ((f x : Int) : α) + 1
/-- contract of `<int> ceil(x)` -/
def CeilSpec (f : α → Int) : Prop := ∀ x : α, ((f x : Int) : α) - 1 < x ∧ x ≤ ((f x : Int) : α)

/-- a raysect `Spectrum`: `bins` samples, positive bin width, `max = min + bins·delta` -/
structure WF (s : Spec α) : Prop where
  len : s.samples.length = s.bins
  dl_pos : 0 < s.dl
  mx_eq : s.mx = s.mn + (s.bins : α) * s.dl

/-- wavelength of bin edge `j` -/
def edge (s : Spec α) (j : Int) : α := s.mn + s.dl * (j : α)

theorem lineRange_none_iff (F : Fns α) (cut wl w : α) (s : Spec α) :
    lineRange F cut wl w s = none ↔ s.mx < wl - cut * w ∨ wl + cut * w < s.mn := by
  unfold lineRange
  simp only
  split_ifs with h1 h2
  · simp [h1]
  · simp [h2]
  · simp only [false_iff, not_or]
    exact ⟨h1, by simpa using h2⟩

/-- **the bins `[start, end)` cover `[min,max] ∩ [λ − cut·w, λ + cut·w]` and lie inside `[min,max]`** -/
theorem lineRange_some (F : Fns α) (hf : FloorSpec F.floorI) (hc : CeilSpec F.ceilI) (cut wl w : α)
    (hcw : 0 ≤ cut * w) (s : Spec α) (hs : WF s) (st en : Int) (h : lineRange F cut wl w s = some (st, en)) :
    0 ≤ st ∧ st ≤ en ∧ en ≤ (s.bins : Int) ∧
      s.mn ≤ edge s st ∧ edge s st ≤ max s.mn (wl - cut * w) ∧
      min s.mx (wl + cut * w) ≤ edge s en ∧ edge s en ≤ s.mx := by
  unfold lineRange at h
  simp only at h
  split_ifs at h with h1 h2
  simp only [Option.some.injEq, Prod.mk.injEq] at h
  obtain ⟨hst, hen⟩ := h
  have hd := hs.dl_pos
  have hmx := hs.mx_eq
  push Not at h1 h2
  obtain ⟨f1, f2⟩ := hf ((wl - cut * w - s.mn) / s.dl)
  obtain ⟨c1, c2⟩ := hc ((wl + cut * w - s.mn) / s.dl)
  rw [le_div_iff₀ hd] at f1
  rw [div_lt_iff₀ hd] at f2
  rw [lt_div_iff₀ hd] at c1
  rw [div_le_iff₀ hd] at c2
  have hb : (0 : α) ≤ (s.bins : α) * s.dl := by positivity
  -- start
  have hst0 : 0 ≤ st := by rw [← hst]; exact le_max_left _ _
  have hst_lo : s.mn ≤ edge s st := by
    unfold edge
    have : (0 : α) ≤ (st : α) := by exact_mod_cast hst0
    nlinarith
  have hst_hi : edge s st ≤ max s.mn (wl - cut * w) := by
    unfold edge
    rcases le_total (F.floorI ((wl - cut * w - s.mn) / s.dl)) 0 with hle | hle
    · rw [← hst, max_eq_left hle]; simp
    · rw [← hst, max_eq_right hle]
      apply le_trans _ (le_max_right _ _)
      linarith
  have hen_hi : en ≤ (s.bins : Int) := by rw [← hen]; exact min_le_left _ _
  have hen_hi' : edge s en ≤ s.mx := by
    unfold edge
    have : (en : α) ≤ (s.bins : α) := by exact_mod_cast hen_hi
    rw [hmx]; nlinarith
  have hen_lo : min s.mx (wl + cut * w) ≤ edge s en := by
    unfold edge
    rcases le_total ((s.bins : Int)) (F.ceilI ((wl + cut * w - s.mn) / s.dl)) with hle | hle
    · rw [← hen, min_eq_left hle]
      apply le_trans (min_le_left _ _)
      rw [hmx]; push_cast; linarith
    · rw [← hen, min_eq_right hle]
      apply le_trans (min_le_right _ _)
      linarith
  refine ⟨hst0, ?_, hen_hi, hst_lo, hst_hi, hen_lo, hen_hi'⟩
  -- start ≤ end from edge(start) ≤ edge(end)
  have hmm : max s.mn (wl - cut * w) ≤ min s.mx (wl + cut * w) := by
    apply max_le <;> apply le_min <;> linarith
  have hee : edge s st ≤ edge s en := le_trans hst_hi (le_trans hmm hen_lo)
  unfold edge at hee
  have : (st : α) ≤ (en : α) := by
    by_contra hcon
    push Not at hcon
    nlinarith
  exact_mod_cast this

/-! ### `add_gaussian_line` -/

/-- `(start, end)` when the call touches the spectrum; `none` = one of the three early returns -/
def gaussActive (F : Fns α) (cut wl sigma : α) (s : Spec α) : Option (Int × Int) :=
  if sigma ≤ 0 then none else lineRange F cut wl sigma s

/-- erf argument of bin edge `j` for a line (λ, σ) on the grid of `s` -/
def tE (F : Fns α) (wl sigma : α) (s : Spec α) (j : Int) : α := tArg s.mn s.dl wl (1 / (F.sqrt2 * sigma)) j

/-- what `add_gaussian_line` adds to bin `i`: the bin average of the normalised profile times `R` -/
def gaussBin (F : Fns α) (cut R wl sigma : α) (s : Spec α) (i : Nat) : α :=
  match gaussActive F cut wl sigma s with
  | none => 0
  | some (st, en) =>
    if st ≤ (i : Int) ∧ (i : Int) < en then
      R * 0.5 * (F.erf (tE F wl sigma s (i + 1)) - F.erf (tE F wl sigma s i)) / s.dl
    else 0

/-- `Σ samples · Δλ` -/
def integral (s : Spec α) : α := s.samples.sum * s.dl

theorem addGaussianLine_inactive (F : Fns α) (cut R wl sigma : α) (s : Spec α)
    (h : gaussActive F cut wl sigma s = none) : addGaussianLine F cut R wl sigma s = s := by
  unfold gaussActive at h
  unfold addGaussianLine
  split_ifs at h ⊢ with h1
  · rfl
  · rw [h]

theorem addGaussianLine_active (F : Fns α) (cut R wl sigma : α) (s : Spec α) (st en : Int)
    (h : gaussActive F cut wl sigma s = some (st, en)) :
    addGaussianLine F cut R wl sigma s =
      { s with samples := addAt st.toNat (gaussContrib F.erf R s.mn s.dl wl (1 / (F.sqrt2 * sigma))
          (en - st).toNat st (F.erf (tE F wl sigma s st))) s.samples } := by
  unfold gaussActive at h
  unfold addGaussianLine
  split_ifs at h ⊢ with h1
  rw [h]
  simp only [tE, tArg]
  congr 4
  ring

theorem gaussActive_sigma_pos (F : Fns α) (cut wl sigma : α) (s : Spec α) (r : Int × Int)
    (h : gaussActive F cut wl sigma s = some r) : 0 < sigma ∧ lineRange F cut wl sigma s = some r := by
  unfold gaussActive at h
  split_ifs at h with h1
  exact ⟨not_le.mp h1, h⟩

/-- the grid (`min`, `max`, `delta`, `bins`) is never touched, and the number of samples is preserved -/
theorem addGaussianLine_grid (F : Fns α) (cut R wl sigma : α) (s : Spec α) :
    let s' := addGaussianLine F cut R wl sigma s
    s'.mn = s.mn ∧ s'.mx = s.mx ∧ s'.dl = s.dl ∧ s'.bins = s.bins ∧ s'.samples.length = s.samples.length := by
  cases h : gaussActive F cut wl sigma s with
  | none => simp [addGaussianLine_inactive F cut R wl sigma s h]
  | some r =>
    obtain ⟨st, en⟩ := r
    simp [addGaussianLine_active F cut R wl sigma s st en h, addAt_length]

theorem addGaussianLine_wf (F : Fns α) (cut R wl sigma : α) (s : Spec α) (hs : WF s) :
    WF (addGaussianLine F cut R wl sigma s) := by
  obtain ⟨h1, h2, h3, h4, h5⟩ := addGaussianLine_grid F cut R wl sigma s
  exact ⟨by rw [h5, h4]; exact hs.len, by rw [h3]; exact hs.dl_pos, by rw [h1, h2, h3, h4]; exact hs.mx_eq⟩

/-- **bin by bin: bin `i` receives `R·(Φ(edge i+1) − Φ(edge i))/Δ`** inside `[start, end)`, nothing outside -/
theorem gauss_bin_value (F : Fns α) (hf : FloorSpec F.floorI) (hc : CeilSpec F.ceilI) (cut R wl sigma : α)
    (hcut : 0 ≤ cut) (s : Spec α) (hs : WF s) (i : Nat) :
    (addGaussianLine F cut R wl sigma s).samples.getD i 0 = s.samples.getD i 0 + gaussBin F cut R wl sigma s i := by
  unfold gaussBin
  cases h : gaussActive F cut wl sigma s with
  | none => simp [addGaussianLine_inactive F cut R wl sigma s h]
  | some r =>
    obtain ⟨st, en⟩ := r
    obtain ⟨hsig, hr⟩ := gaussActive_sigma_pos F cut wl sigma s _ h
    obtain ⟨h0, hle, hen, -⟩ := lineRange_some F hf hc cut wl sigma (by positivity) s hs st en hr
    rw [addGaussianLine_active F cut R wl sigma s st en h]
    simp only
    rw [addAt_getD _ _ _ (by rw [gaussContrib_length, hs.len]; omega)]
    congr 1
    by_cases hi : st.toNat ≤ i
    · rw [if_pos hi]
      by_cases hi2 : i - st.toNat < (en - st).toNat
      · simp only [tE]
        rw [gaussContrib_getD _ _ _ _ _ _ _ _ _ rfl _ hi2, if_pos (by omega)]
        have e1 : st + ((i - st.toNat : Nat) : Int) = (i : Int) := by omega
        rw [e1]
      · rw [if_neg (by omega)]
        apply List.getD_eq_default
        rw [gaussContrib_length]; omega
    · rw [if_neg hi, if_neg (by omega)]

/-- **telescoping: `Σ_bins added·Δ = R·½(erf t(end) − erf t(start))`** -/
theorem gauss_bins_telescope (F : Fns α) (hf : FloorSpec F.floorI) (hc : CeilSpec F.ceilI) (cut R wl sigma : α)
    (hcut : 0 ≤ cut) (s : Spec α) (hs : WF s) (st en : Int) (h : gaussActive F cut wl sigma s = some (st, en)) :
    integral (addGaussianLine F cut R wl sigma s) =
      integral s + R * 0.5 * (F.erf (tE F wl sigma s en) - F.erf (tE F wl sigma s st)) := by
  obtain ⟨hsig, hr⟩ := gaussActive_sigma_pos F cut wl sigma s _ h
  obtain ⟨h0, hle, hen, -⟩ := lineRange_some F hf hc cut wl sigma (by positivity) s hs st en hr
  rw [addGaussianLine_active F cut R wl sigma s st en h]
  unfold integral
  simp only
  simp only [tE]
  rw [addAt_sum _ _ _ (by rw [gaussContrib_length, hs.len]; omega), add_mul,
    gaussContrib_sum _ _ _ _ _ _ hs.dl_pos.ne' _ _ _ rfl]
  have e1 : st + (((en - st).toNat : Nat) : Int) = en := by omega
  rw [e1]

/-! ### the window fraction -/

/-- hypotheses on the error function (true of the real `erf`; libm's is validated numerically each run) -/
structure ErfSpec (erf : α → α) : Prop where
  mono : Monotone erf
  odd : ∀ x, erf (-x) = -erf x
  le_one : ∀ x, erf x ≤ 1

theorem ErfSpec.neg_one_le {erf : α → α} (h : ErfSpec erf) (x : α) : -1 ≤ erf x := by
  have := h.le_one (-x); rw [h.odd] at this; linarith

/-- erf argument of wavelength `x` -/
def tX (F : Fns α) (wl sigma x : α) : α := (x - wl) * (1 / (F.sqrt2 * sigma))

/-- fraction of the normalised Gaussian (λ, σ) lying in `[a, b]` -/
def frac (F : Fns α) (wl sigma a b : α) : α := 0.5 * (F.erf (tX F wl sigma b) - F.erf (tX F wl sigma a))

theorem tE_eq_tX (F : Fns α) (wl sigma : α) (s : Spec α) (j : Int) : tE F wl sigma s j = tX F wl sigma (edge s j) := rfl

theorem tX_mono (F : Fns α) (h2 : 0 < F.sqrt2) (wl sigma : α) (hs : 0 < sigma) {x y : α} (h : x ≤ y) :
    tX F wl sigma x ≤ tX F wl sigma y := by
  unfold tX
  have : 0 < 1 / (F.sqrt2 * sigma) := by positivity
  nlinarith

theorem tX_cut_hi (F : Fns α) (h2 : 0 < F.sqrt2) (wl sigma cut : α) (hs : 0 < sigma) :
    tX F wl sigma (wl + cut * sigma) = cut / F.sqrt2 := by
  unfold tX; field_simp; ring

theorem tX_cut_lo (F : Fns α) (h2 : 0 < F.sqrt2) (wl sigma cut : α) (hs : 0 < sigma) :
    tX F wl sigma (wl - cut * sigma) = -(cut / F.sqrt2) := by
  unfold tX; field_simp; ring

/-- **the spectral integral added by one Gaussian call lies between `R × fraction of the profile in
`[min,max] ∩ cut-off interval`** and **`R × fraction in [min,max]`** -/
theorem gauss_integral_bounds (F : Fns α) (hf : FloorSpec F.floorI) (hc : CeilSpec F.ceilI) (he : ErfSpec F.erf)
    (h2 : 0 < F.sqrt2) (cut R wl sigma : α) (hcut : 0 ≤ cut) (hR : 0 ≤ R) (s : Spec α) (hs : WF s) (st en : Int)
    (h : gaussActive F cut wl sigma s = some (st, en)) :
    integral s + R * frac F wl sigma (max s.mn (wl - cut * sigma)) (min s.mx (wl + cut * sigma))
        ≤ integral (addGaussianLine F cut R wl sigma s) ∧
      integral (addGaussianLine F cut R wl sigma s) ≤ integral s + R * frac F wl sigma s.mn s.mx := by
  obtain ⟨hsig, hr⟩ := gaussActive_sigma_pos F cut wl sigma s _ h
  obtain ⟨h0, hle, hen, e1, e2, e3, e4⟩ := lineRange_some F hf hc cut wl sigma (by positivity) s hs st en hr
  rw [gauss_bins_telescope F hf hc cut R wl sigma hcut s hs st en h, tE_eq_tX, tE_eq_tX]
  unfold frac
  have m1 := he.mono (tX_mono F h2 wl sigma hsig e1)
  have m2 := he.mono (tX_mono F h2 wl sigma hsig e2)
  have m3 := he.mono (tX_mono F h2 wl sigma hsig e3)
  have m4 := he.mono (tX_mono F h2 wl sigma hsig e4)
  have half : (0.5 : α) = 1 / 2 := by norm_num
  rw [half]
  constructor <;> nlinarith

/-- the cut-off at `cut·σ` loses at most `1 − erf(cut/√2)` of the profile -/
theorem gauss_cutoff_loss (F : Fns α) (he : ErfSpec F.erf) (h2 : 0 < F.sqrt2) (cut wl sigma a b : α)
    (hsig : 0 < sigma) :
    frac F wl sigma a b - (1 - F.erf (cut / F.sqrt2))
      ≤ frac F wl sigma (max a (wl - cut * sigma)) (min b (wl + cut * sigma)) := by
  unfold frac
  have half : (0.5 : α) = 1 / 2 := by norm_num
  rw [half]
  have hb : F.erf (tX F wl sigma b) - (1 - F.erf (cut / F.sqrt2)) ≤ F.erf (tX F wl sigma (min b (wl + cut * sigma))) := by
    rcases le_total b (wl + cut * sigma) with hle | hle
    · rw [min_eq_left hle]; linarith [he.le_one (cut / F.sqrt2)]
    · rw [min_eq_right hle, tX_cut_hi F h2 wl sigma cut hsig]; linarith [he.le_one (tX F wl sigma b)]
  have ha : F.erf (tX F wl sigma (max a (wl - cut * sigma))) ≤ F.erf (tX F wl sigma a) + (1 - F.erf (cut / F.sqrt2)) := by
    rcases le_total a (wl - cut * sigma) with hle | hle
    · rw [max_eq_right hle, tX_cut_lo F h2 wl sigma cut hsig, he.odd]
      linarith [he.neg_one_le (tX F wl sigma a)]
    · rw [max_eq_left hle]; linarith [he.le_one (cut / F.sqrt2)]
  linarith

/-- **`Σ samples·Δ` grows by `R × (fraction of the normalised profile inside the window)`, up to the cut-off loss** -/
theorem gauss_integral_fraction (F : Fns α) (hf : FloorSpec F.floorI) (hc : CeilSpec F.ceilI) (he : ErfSpec F.erf)
    (h2 : 0 < F.sqrt2) (cut R wl sigma : α) (hcut : 0 ≤ cut) (hR : 0 ≤ R) (s : Spec α) (hs : WF s) (st en : Int)
    (h : gaussActive F cut wl sigma s = some (st, en)) :
    integral s + R * (frac F wl sigma s.mn s.mx - (1 - F.erf (cut / F.sqrt2)))
        ≤ integral (addGaussianLine F cut R wl sigma s) ∧
      integral (addGaussianLine F cut R wl sigma s) ≤ integral s + R * frac F wl sigma s.mn s.mx := by
  obtain ⟨hsig, -⟩ := gaussActive_sigma_pos F cut wl sigma s _ h
  obtain ⟨b1, b2⟩ := gauss_integral_bounds F hf hc he h2 cut R wl sigma hcut hR s hs st en h
  refine ⟨le_trans ?_ b1, b2⟩
  have := gauss_cutoff_loss F he h2 cut wl sigma s.mn s.mx hsig
  nlinarith

/-- when the call returns early although `σ > 0`, at most half the cut-off loss lay inside the window -/
theorem gauss_skipped_fraction (F : Fns α) (he : ErfSpec F.erf) (h2 : 0 < F.sqrt2) (cut wl sigma : α)
    (hsig : 0 < sigma) (s : Spec α) (h : gaussActive F cut wl sigma s = none) :
    frac F wl sigma s.mn s.mx ≤ 0.5 * (1 - F.erf (cut / F.sqrt2)) := by
  unfold gaussActive at h
  rw [if_neg (not_le.mpr hsig), lineRange_none_iff] at h
  unfold frac
  have half : (0.5 : α) = 1 / 2 := by norm_num
  rw [half]
  rcases h with h | h
  · have := he.mono (tX_mono F h2 wl sigma hsig h.le)
    rw [tX_cut_lo F h2 wl sigma cut hsig, he.odd] at this
    linarith [he.neg_one_le (tX F wl sigma s.mn)]
  · have := he.mono (tX_mono F h2 wl sigma hsig h.le)
    rw [tX_cut_hi F h2 wl sigma cut hsig] at this
    linarith [he.le_one (tX F wl sigma s.mx)]

/-- a window that contains the whole cut-off interval receives the whole radiance (up to the loss) -/
theorem gauss_whole_radiance (F : Fns α) (hf : FloorSpec F.floorI) (hc : CeilSpec F.ceilI) (he : ErfSpec F.erf)
    (h2 : 0 < F.sqrt2) (cut R wl sigma : α) (hcut : 0 ≤ cut) (hR : 0 ≤ R) (hsig : 0 < sigma) (s : Spec α) (hs : WF s)
    (hlo : s.mn ≤ wl - cut * sigma) (hhi : wl + cut * sigma ≤ s.mx) :
    integral s + R * F.erf (cut / F.sqrt2) ≤ integral (addGaussianLine F cut R wl sigma s) ∧
      integral (addGaussianLine F cut R wl sigma s) ≤ integral s + R := by
  cases h : gaussActive F cut wl sigma s with
  | none =>
    exfalso
    unfold gaussActive at h
    rw [if_neg (not_le.mpr hsig), lineRange_none_iff] at h
    have : 0 ≤ cut * sigma := by positivity
    rcases h with h | h <;> linarith
  | some r =>
    obtain ⟨st, en⟩ := r
    obtain ⟨b1, b2⟩ := gauss_integral_bounds F hf hc he h2 cut R wl sigma hcut hR s hs st en h
    rw [max_eq_right hlo, min_eq_right hhi] at b1
    unfold frac at b1 b2
    rw [tX_cut_hi F h2 wl sigma cut hsig, tX_cut_lo F h2 wl sigma cut hsig, he.odd] at b1
    have half : (0.5 : α) = 1 / 2 := by norm_num
    rw [half] at b1 b2
    constructor
    · linarith
    · have u1 := he.le_one (tX F wl sigma s.mx)
      have u2 := he.neg_one_le (tX F wl sigma s.mn)
      nlinarith

/-! ### linearity in the radiance -/

theorem gaussBin_add (F : Fns α) (cut R1 R2 wl sigma : α) (s : Spec α) (i : Nat) :
    gaussBin F cut (R1 + R2) wl sigma s i = gaussBin F cut R1 wl sigma s i + gaussBin F cut R2 wl sigma s i := by
  unfold gaussBin
  cases gaussActive F cut wl sigma s with
  | none => simp
  | some r => obtain ⟨st, en⟩ := r; simp only; split_ifs <;> ring

theorem gaussBin_smul (F : Fns α) (cut c R wl sigma : α) (s : Spec α) (i : Nat) :
    gaussBin F cut (c * R) wl sigma s i = c * gaussBin F cut R wl sigma s i := by
  unfold gaussBin
  cases gaussActive F cut wl sigma s with
  | none => simp
  | some r => obtain ⟨st, en⟩ := r; simp only; split_ifs <;> ring

/-- `gaussBin` sees the spectrum only through its grid -/
theorem gaussBin_grid (F : Fns α) (cut R wl sigma : α) (s s' : Spec α) (h1 : s'.mn = s.mn) (h2 : s'.mx = s.mx)
    (h3 : s'.dl = s.dl) (h4 : s'.bins = s.bins) (i : Nat) :
    gaussBin F cut R wl sigma s' i = gaussBin F cut R wl sigma s i := by
  unfold gaussBin gaussActive lineRange tE
  simp only [h1, h2, h3, h4]

/-- **adding `R₁` then `R₂` at the same (λ, σ) equals adding `R₁ + R₂`, bin by bin** -/
theorem add_line_additive (F : Fns α) (hf : FloorSpec F.floorI) (hc : CeilSpec F.ceilI) (cut R1 R2 wl sigma : α)
    (hcut : 0 ≤ cut) (s : Spec α) (hs : WF s) (i : Nat) :
    (addGaussianLine F cut R2 wl sigma (addGaussianLine F cut R1 wl sigma s)).samples.getD i 0 =
      (addGaussianLine F cut (R1 + R2) wl sigma s).samples.getD i 0 := by
  obtain ⟨g1, g2, g3, g4, -⟩ := addGaussianLine_grid F cut R1 wl sigma s
  rw [gauss_bin_value F hf hc cut R2 wl sigma hcut _ (addGaussianLine_wf F cut R1 wl sigma s hs),
    gauss_bin_value F hf hc cut R1 wl sigma hcut s hs, gauss_bin_value F hf hc cut (R1 + R2) wl sigma hcut s hs,
    gaussBin_grid F cut R2 wl sigma s _ g1 g2 g3 g4, gaussBin_add]
  ring

/-- a line of no width adds nothing -/
theorem zero_width_adds_nothing (F : Fns α) (cut R wl sigma : α) (s : Spec α) (h : sigma ≤ 0) :
    addGaussianLine F cut R wl sigma s = s := by
  unfold addGaussianLine; rw [if_pos h]

/-! ### `add_lorentzian_line` (abstract bin integrator) -/

theorem lorentzContrib_length (I : α → α → α) (R mn dl : α) (n : Nat) (i : Int) (lo : α) :
    (lorentzContrib I R mn dl n i lo).length = n := by
  induction n generalizing i lo with
  | zero => simp [lorentzContrib]
  | succ n ih => simp [lorentzContrib, ih]

/-- wavelength of bin edge `j` on a grid `(mn, dl)` -/
def eW (mn dl : α) (j : Int) : α := mn + dl * (j : α)

theorem lorentzContrib_step (I : α → α → α) (R mn dl : α) (n : Nat) (i : Int) (lo : α) :
    lorentzContrib I R mn dl (n + 1) i lo =
      (R * I lo (eW mn dl (i + 1)) / dl) :: lorentzContrib I R mn dl n (i + 1) (eW mn dl (i + 1)) := rfl

theorem lorentzContrib_getD (I : α → α → α) (R mn dl : α) (n : Nat) (i : Int) (lo : α) (hlo : lo = eW mn dl i)
    (k : Nat) (hk : k < n) :
    (lorentzContrib I R mn dl n i lo).getD k 0 = R * I (eW mn dl (i + k)) (eW mn dl (i + k + 1)) / dl := by
  induction n generalizing i lo k with
  | zero => omega
  | succ n ih =>
    rw [lorentzContrib_step]
    cases k with
    | zero => simp [hlo]
    | succ k =>
      rw [List.getD_cons_succ, ih (i + 1) _ rfl k (by omega)]
      have e1 : i + 1 + (k : Int) + 1 = i + ((k + 1 : Nat) : Int) + 1 := by push_cast; ring
      have e2 : i + 1 + (k : Int) = i + ((k + 1 : Nat) : Int) := by push_cast; ring
      rw [e1, e2]

/-- **telescoping under additivity of the bin integrator** (true of the exact integral) -/
theorem lorentzContrib_sum (I : α → α → α) (hadd : ∀ a b c, I a b + I b c = I a c) (R mn dl : α) (hdl : dl ≠ 0)
    (n : Nat) (i : Int) (lo : α) (hlo : lo = eW mn dl i) :
    (lorentzContrib I R mn dl n i lo).sum * dl = R * I (eW mn dl i) (eW mn dl (i + n)) := by
  have hzero : ∀ a, I a a = 0 := fun a => by have := hadd a a a; linarith
  induction n generalizing i lo with
  | zero => simp [lorentzContrib, hzero]
  | succ n ih =>
    rw [lorentzContrib_step, List.sum_cons, add_mul, ih (i + 1) _ rfl, hlo]
    have e1 : i + 1 + (n : Int) = i + ((n + 1 : Nat) : Int) := by push_cast; ring
    rw [e1, ← hadd (eW mn dl i) (eW mn dl (i + 1)) (eW mn dl (i + ((n + 1 : Nat) : Int)))]
    field_simp

def lorActive (F : Fns α) (cut wl fwhm : α) (s : Spec α) : Option (Int × Int) :=
  if fwhm ≤ 0 then none else lineRange F cut wl fwhm s

/-- what `add_lorentzian_line` adds to bin `i` -/
def lorBin (F : Fns α) (I : α → α → α → α → α) (cut R wl fwhm : α) (s : Spec α) (i : Nat) : α :=
  match lorActive F cut wl fwhm s with
  | none => 0
  | some (st, en) =>
    if st ≤ (i : Int) ∧ (i : Int) < en then R * I wl fwhm (edge s i) (edge s (i + 1)) / s.dl else 0

theorem addLorentzianLine_inactive (F : Fns α) (I : α → α → α → α → α) (cut R wl fwhm : α) (s : Spec α)
    (h : lorActive F cut wl fwhm s = none) : addLorentzianLine F I cut R wl fwhm s = s := by
  unfold lorActive at h
  unfold addLorentzianLine
  split_ifs at h ⊢ with h1
  · rfl
  · rw [h]

theorem addLorentzianLine_active (F : Fns α) (I : α → α → α → α → α) (cut R wl fwhm : α) (s : Spec α) (st en : Int)
    (h : lorActive F cut wl fwhm s = some (st, en)) :
    addLorentzianLine F I cut R wl fwhm s =
      { s with samples := (addAt st.toNat
          (lorentzContrib (I wl fwhm) R s.mn s.dl (en - st).toNat st (eW s.mn s.dl st)) s.samples) } := by
  unfold lorActive at h
  unfold addLorentzianLine
  split_ifs at h ⊢ with h1
  rw [h]
  simp only [eW]
  congr 3
  ring

theorem lorActive_pos (F : Fns α) (cut wl fwhm : α) (s : Spec α) (r : Int × Int)
    (h : lorActive F cut wl fwhm s = some r) : 0 < fwhm ∧ lineRange F cut wl fwhm s = some r := by
  unfold lorActive at h
  split_ifs at h with h1
  exact ⟨not_le.mp h1, h⟩

theorem addLorentzianLine_grid (F : Fns α) (I : α → α → α → α → α) (cut R wl fwhm : α) (s : Spec α) :
    let s' := addLorentzianLine F I cut R wl fwhm s
    s'.mn = s.mn ∧ s'.mx = s.mx ∧ s'.dl = s.dl ∧ s'.bins = s.bins ∧ s'.samples.length = s.samples.length := by
  cases h : lorActive F cut wl fwhm s with
  | none => simp [addLorentzianLine_inactive F I cut R wl fwhm s h]
  | some r =>
    obtain ⟨st, en⟩ := r
    simp [addLorentzianLine_active F I cut R wl fwhm s st en h, addAt_length]

theorem lorentz_bin_value (F : Fns α) (hf : FloorSpec F.floorI) (hc : CeilSpec F.ceilI) (I : α → α → α → α → α)
    (cut R wl fwhm : α) (hcut : 0 ≤ cut) (s : Spec α) (hs : WF s) (i : Nat) :
    (addLorentzianLine F I cut R wl fwhm s).samples.getD i 0 = s.samples.getD i 0 + lorBin F I cut R wl fwhm s i := by
  unfold lorBin
  cases h : lorActive F cut wl fwhm s with
  | none => simp [addLorentzianLine_inactive F I cut R wl fwhm s h]
  | some r =>
    obtain ⟨st, en⟩ := r
    obtain ⟨hsig, hr⟩ := lorActive_pos F cut wl fwhm s _ h
    obtain ⟨h0, hle, hen, -⟩ := lineRange_some F hf hc cut wl fwhm (by positivity) s hs st en hr
    rw [addLorentzianLine_active F I cut R wl fwhm s st en h]
    simp only
    rw [addAt_getD _ _ _ (by rw [lorentzContrib_length, hs.len]; omega)]
    congr 1
    by_cases hi : st.toNat ≤ i
    · rw [if_pos hi]
      by_cases hi2 : i - st.toNat < (en - st).toNat
      · rw [lorentzContrib_getD _ _ _ _ _ _ _ rfl _ hi2, if_pos (by omega)]
        have e1 : st + ((i - st.toNat : Nat) : Int) = (i : Int) := by omega
        rw [e1]; rfl
      · rw [if_neg (by omega)]
        apply List.getD_eq_default
        rw [lorentzContrib_length]; omega
    · rw [if_neg hi, if_neg (by omega)]

/-- **Lorentzian: `Σ_bins added·Δ = R · I(edge start, edge end)`** when the bin integrator is additive -/
theorem lorentz_bins_telescope (F : Fns α) (hf : FloorSpec F.floorI) (hc : CeilSpec F.ceilI) (I : α → α → α → α → α)
    (cut R wl fwhm : α) (hadd : ∀ a b c, I wl fwhm a b + I wl fwhm b c = I wl fwhm a c)
    (hcut : 0 ≤ cut) (s : Spec α) (hs : WF s) (st en : Int) (h : lorActive F cut wl fwhm s = some (st, en)) :
    integral (addLorentzianLine F I cut R wl fwhm s) = integral s + R * I wl fwhm (edge s st) (edge s en) := by
  obtain ⟨hsig, hr⟩ := lorActive_pos F cut wl fwhm s _ h
  obtain ⟨h0, hle, hen, -⟩ := lineRange_some F hf hc cut wl fwhm (by positivity) s hs st en hr
  rw [addLorentzianLine_active F I cut R wl fwhm s st en h]
  unfold integral
  simp only
  rw [addAt_sum _ _ _ (by rw [lorentzContrib_length, hs.len]; omega), add_mul,
    lorentzContrib_sum _ hadd _ _ _ hs.dl_pos.ne' _ _ _ rfl]
  have e1 : st + (((en - st).toNat : Nat) : Int) = en := by omega
  rw [e1]; rfl

theorem lorBin_add (F : Fns α) (I : α → α → α → α → α) (cut R1 R2 wl fwhm : α) (s : Spec α) (i : Nat) :
    lorBin F I cut (R1 + R2) wl fwhm s i = lorBin F I cut R1 wl fwhm s i + lorBin F I cut R2 wl fwhm s i := by
  unfold lorBin
  cases lorActive F cut wl fwhm s with
  | none => simp
  | some r => obtain ⟨st, en⟩ := r; simp only; split_ifs <;> ring

theorem lorBin_grid (F : Fns α) (I : α → α → α → α → α) (cut R wl fwhm : α) (s s' : Spec α) (h1 : s'.mn = s.mn)
    (h2 : s'.mx = s.mx) (h3 : s'.dl = s.dl) (h4 : s'.bins = s.bins) (i : Nat) :
    lorBin F I cut R wl fwhm s' i = lorBin F I cut R wl fwhm s i := by
  unfold lorBin lorActive lineRange edge
  simp only [h1, h2, h3, h4]

theorem lorentz_zero_width (F : Fns α) (I : α → α → α → α → α) (cut R wl fwhm : α) (s : Spec α) (h : fwhm ≤ 0) :
    addLorentzianLine F I cut R wl fwhm s = s := by
  unfold addLorentzianLine; rw [if_pos h]

/-! ### component lists -/

/-- what one component adds to bin `i` -/
def compBin (F : Fns α) (I : α → α → α → α → α) (cutG cutL : α) (c : Comp α) (s : Spec α) (i : Nat) : α :=
  if c.lor then lorBin F I cutL c.rad c.wl c.width s i else gaussBin F cutG c.rad c.wl c.width s i

/-- what a component list adds to bin `i` -/
def compsBin (F : Fns α) (I : α → α → α → α → α) (cutG cutL : α) (cs : List (Comp α)) (s : Spec α) (i : Nat) : α :=
  (cs.map fun c => compBin F I cutG cutL c s i).sum

/-- total radiance handed to the two primitives -/
def radSum (cs : List (Comp α)) : α := (cs.map fun c => c.rad).sum

theorem addComp_grid (F : Fns α) (I : α → α → α → α → α) (cutG cutL : α) (c : Comp α) (s : Spec α) :
    let s' := addComp F I cutG cutL s c
    s'.mn = s.mn ∧ s'.mx = s.mx ∧ s'.dl = s.dl ∧ s'.bins = s.bins ∧ s'.samples.length = s.samples.length := by
  unfold addComp
  split_ifs
  · exact addLorentzianLine_grid F I cutL c.rad c.wl c.width s
  · exact addGaussianLine_grid F cutG c.rad c.wl c.width s

theorem addComp_wf (F : Fns α) (I : α → α → α → α → α) (cutG cutL : α) (c : Comp α) (s : Spec α) (hs : WF s) :
    WF (addComp F I cutG cutL s c) := by
  obtain ⟨h1, h2, h3, h4, h5⟩ := addComp_grid F I cutG cutL c s
  exact ⟨by rw [h5, h4]; exact hs.len, by rw [h3]; exact hs.dl_pos, by rw [h1, h2, h3, h4]; exact hs.mx_eq⟩

theorem addComp_bin (F : Fns α) (hf : FloorSpec F.floorI) (hc : CeilSpec F.ceilI) (I : α → α → α → α → α)
    (cutG cutL : α) (hG : 0 ≤ cutG) (hL : 0 ≤ cutL) (c : Comp α) (s : Spec α) (hs : WF s) (i : Nat) :
    (addComp F I cutG cutL s c).samples.getD i 0 = s.samples.getD i 0 + compBin F I cutG cutL c s i := by
  unfold addComp compBin
  split_ifs
  · exact lorentz_bin_value F hf hc I cutL c.rad c.wl c.width hL s hs i
  · exact gauss_bin_value F hf hc cutG c.rad c.wl c.width hG s hs i

theorem compBin_grid (F : Fns α) (I : α → α → α → α → α) (cutG cutL : α) (c : Comp α) (s s' : Spec α)
    (h1 : s'.mn = s.mn) (h2 : s'.mx = s.mx) (h3 : s'.dl = s.dl) (h4 : s'.bins = s.bins) (i : Nat) :
    compBin F I cutG cutL c s' i = compBin F I cutG cutL c s i := by
  unfold compBin
  rw [lorBin_grid F I cutL c.rad c.wl c.width s s' h1 h2 h3 h4, gaussBin_grid F cutG c.rad c.wl c.width s s' h1 h2 h3 h4]

theorem compsBin_grid (F : Fns α) (I : α → α → α → α → α) (cutG cutL : α) (cs : List (Comp α)) (s s' : Spec α)
    (h1 : s'.mn = s.mn) (h2 : s'.mx = s.mx) (h3 : s'.dl = s.dl) (h4 : s'.bins = s.bins) (i : Nat) :
    compsBin F I cutG cutL cs s' i = compsBin F I cutG cutL cs s i := by
  unfold compsBin
  congr 1
  apply List.map_congr_left
  intro c _
  exact compBin_grid F I cutG cutL c s s' h1 h2 h3 h4 i

/-- **every model: each bin of the result = the bin before + Σ over the components of their bin averages** -/
theorem addComps_bin (F : Fns α) (hf : FloorSpec F.floorI) (hc : CeilSpec F.ceilI) (I : α → α → α → α → α)
    (cutG cutL : α) (hG : 0 ≤ cutG) (hL : 0 ≤ cutL) (cs : List (Comp α)) (s : Spec α) (hs : WF s) (i : Nat) :
    (addComps F I cutG cutL cs s).samples.getD i 0 = s.samples.getD i 0 + compsBin F I cutG cutL cs s i := by
  induction cs generalizing s with
  | nil => simp [addComps, compsBin]
  | cons c cs ih =>
    obtain ⟨g1, g2, g3, g4, -⟩ := addComp_grid F I cutG cutL c s
    have := ih (addComp F I cutG cutL s c) (addComp_wf F I cutG cutL c s hs)
    unfold addComps at this ⊢
    rw [List.foldl_cons, this, addComp_bin F hf hc I cutG cutL hG hL c s hs,
      compsBin_grid F I cutG cutL cs s _ g1 g2 g3 g4]
    simp only [compsBin, List.map_cons, List.sum_cons]
    ring

theorem compsBin_append (F : Fns α) (I : α → α → α → α → α) (cutG cutL : α) (a b : List (Comp α)) (s : Spec α)
    (i : Nat) : compsBin F I cutG cutL (a ++ b) s i = compsBin F I cutG cutL a s i + compsBin F I cutG cutL b s i := by
  simp [compsBin]

theorem addComps_grid (F : Fns α) (I : α → α → α → α → α) (cutG cutL : α) (cs : List (Comp α)) (s : Spec α) :
    let s' := addComps F I cutG cutL cs s
    s'.mn = s.mn ∧ s'.mx = s.mx ∧ s'.dl = s.dl ∧ s'.bins = s.bins ∧ s'.samples.length = s.samples.length := by
  induction cs generalizing s with
  | nil => simp [addComps]
  | cons c cs ih =>
    obtain ⟨g1, g2, g3, g4, g5⟩ := addComp_grid F I cutG cutL c s
    obtain ⟨k1, k2, k3, k4, k5⟩ := ih (addComp F I cutG cutL s c)
    unfold addComps at k1 k2 k3 k4 k5 ⊢
    simp only [List.foldl_cons]
    exact ⟨k1.trans g1, k2.trans g2, k3.trans g3, k4.trans g4, k5.trans g5⟩

/-- no components (the models' zero-width returns): the spectrum is returned unchanged -/
theorem addComps_nil (F : Fns α) (I : α → α → α → α → α) (cutG cutL : α) (s : Spec α) :
    addComps F I cutG cutL [] s = s := rfl

/-- one Gaussian call, active or skipped: integral grows by `R × window fraction` up to the cut-off loss -/
theorem gauss_step_bounds (F : Fns α) (hf : FloorSpec F.floorI) (hc : CeilSpec F.ceilI) (he : ErfSpec F.erf)
    (h2 : 0 < F.sqrt2) (cut R wl sigma : α) (hcut : 0 ≤ cut) (hR : 0 ≤ R) (hsig : 0 < sigma) (s : Spec α) (hs : WF s) :
    integral s + R * (frac F wl sigma s.mn s.mx - (1 - F.erf (cut / F.sqrt2)))
        ≤ integral (addGaussianLine F cut R wl sigma s) ∧
      integral (addGaussianLine F cut R wl sigma s) ≤ integral s + R * frac F wl sigma s.mn s.mx := by
  cases h : gaussActive F cut wl sigma s with
  | some r => obtain ⟨st, en⟩ := r; exact gauss_integral_fraction F hf hc he h2 cut R wl sigma hcut hR s hs st en h
  | none =>
    rw [addGaussianLine_inactive F cut R wl sigma s h]
    have k1 := gauss_skipped_fraction F he h2 cut wl sigma hsig s h
    have k2 := he.le_one (cut / F.sqrt2)
    have hmm : s.mn ≤ s.mx := by
      rw [hs.mx_eq]; have := hs.dl_pos; have : (0 : α) ≤ (s.bins : α) * s.dl := by positivity
      linarith
    have k3 : 0 ≤ frac F wl sigma s.mn s.mx := by
      unfold frac
      have := he.mono (tX_mono F h2 wl sigma hsig hmm)
      have half : (0.5 : α) = 1 / 2 := by norm_num
      rw [half]; linarith
    have half : (0.5 : α) = 1 / 2 := by norm_num
    rw [half] at k1
    constructor <;> nlinarith

/-- **any Gaussian model: `Σ samples·Δ` grows by `Σ_c R_c × (fraction of component c inside the window)`**,
i.e. the supplied radiance times the fraction of the (weighted) normalised profile inside the window, up to
the cut-off loss `1 − erf(cut/√2)` per unit radiance -/
theorem model_integral_bounds (F : Fns α) (hf : FloorSpec F.floorI) (hc : CeilSpec F.ceilI) (he : ErfSpec F.erf)
    (h2 : 0 < F.sqrt2) (I : α → α → α → α → α) (cutG cutL : α) (hG : 0 ≤ cutG) (cs : List (Comp α))
    (hall : ∀ c ∈ cs, c.lor = false ∧ 0 ≤ c.rad ∧ 0 < c.width) (s : Spec α) (hs : WF s) :
    integral s + (cs.map fun c => c.rad * (frac F c.wl c.width s.mn s.mx - (1 - F.erf (cutG / F.sqrt2)))).sum
        ≤ integral (addComps F I cutG cutL cs s) ∧
      integral (addComps F I cutG cutL cs s)
        ≤ integral s + (cs.map fun c => c.rad * frac F c.wl c.width s.mn s.mx).sum := by
  induction cs generalizing s with
  | nil => simp [addComps]
  | cons c cs ih =>
    obtain ⟨hl, hr, hw⟩ := hall c (by simp)
    have hstep : addComp F I cutG cutL s c = addGaussianLine F cutG c.rad c.wl c.width s := by
      unfold addComp; rw [hl]; simp
    obtain ⟨g1, g2, g3, g4, -⟩ := addGaussianLine_grid F cutG c.rad c.wl c.width s
    obtain ⟨b1, b2⟩ := gauss_step_bounds F hf hc he h2 cutG c.rad c.wl c.width hG hr hw s hs
    obtain ⟨i1, i2⟩ := ih (fun c' hc' => hall c' (by simp [hc'])) (addGaussianLine F cutG c.rad c.wl c.width s)
      (addGaussianLine_wf F cutG c.rad c.wl c.width s hs)
    rw [g1, g2] at i1 i2
    unfold addComps at i1 i2 ⊢
    simp only [List.foldl_cons, List.map_cons, List.sum_cons, hstep]
    constructor <;> linarith

/-! ### polarisation: π + σ = unpolarised, bin by bin -/

theorem lit05 : (0.5 : α) = 1 / 2 := by norm_num
theorem lit025 : (0.25 : α) = 1 / 4 := by norm_num
theorem lit10 : (1.0 : α) = 1 := by norm_num

theorem zeemanSplit_no (p q : List (Comp α)) : zeemanSplit Pol.no p q = p ++ q := by simp [zeemanSplit]
theorem zeemanSplit_pi (p q : List (Comp α)) : zeemanSplit Pol.pi p q = p := by simp [zeemanSplit]
theorem zeemanSplit_sigma (p q : List (Comp α)) : zeemanSplit Pol.sigma p q = q := by simp [zeemanSplit]

/-- "spectrum(pi) + spectrum(sigma) = spectrum(no)", bin by bin, on top of any base spectrum `s`:
`no − s = (pi − s) + (sigma − s)`, written without subtraction -/
def PiPlusSigma (F : Fns α) (I : α → α → α → α → α) (cutG cutL : α) (cNo cPi cSig : List (Comp α)) : Prop :=
  ∀ s : Spec α, WF s → ∀ i : Nat,
    (addComps F I cutG cutL cNo s).samples.getD i 0 + s.samples.getD i 0 =
      (addComps F I cutG cutL cPi s).samples.getD i 0 + (addComps F I cutG cutL cSig s).samples.getD i 0

theorem piPlusSigma_of_bins (F : Fns α) (hf : FloorSpec F.floorI) (hc : CeilSpec F.ceilI) (I : α → α → α → α → α)
    (cutG cutL : α) (hG : 0 ≤ cutG) (hL : 0 ≤ cutL) (cNo cPi cSig : List (Comp α))
    (h : ∀ s i, compsBin F I cutG cutL cNo s i = compsBin F I cutG cutL cPi s i + compsBin F I cutG cutL cSig s i) :
    PiPlusSigma F I cutG cutL cNo cPi cSig := by
  intro s hs i
  rw [addComps_bin F hf hc I cutG cutL hG hL cNo s hs, addComps_bin F hf hc I cutG cutL hG hL cPi s hs,
    addComps_bin F hf hc I cutG cutL hG hL cSig s hs, h]
  ring

/-- one unsplit Gaussian component `R` against two halves (the `|B| = 0` branch of the Zeeman models) -/
theorem half_half_bins (F : Fns α) (I : α → α → α → α → α) (cutG cutL R wl sigma : α) (s : Spec α) (i : Nat) :
    compsBin F I cutG cutL [gcomp R wl sigma] s i =
      compsBin F I cutG cutL [gcomp (0.5 * R) wl sigma] s i + compsBin F I cutG cutL [gcomp (0.5 * R) wl sigma] s i := by
  simp only [compsBin, compBin, gcomp, List.map_cons, List.map_nil, List.sum_cons, List.sum_nil, add_zero,
    Bool.false_eq_true, if_false]
  rw [← gaussBin_add]
  congr 1
  rw [lit05]; ring

theorem split_bins (F : Fns α) (I : α → α → α → α → α) (cutG cutL : α) (p q : List (Comp α)) (s : Spec α) (i : Nat) :
    compsBin F I cutG cutL (zeemanSplit Pol.no p q) s i =
      compsBin F I cutG cutL (zeemanSplit Pol.pi p q) s i + compsBin F I cutG cutL (zeemanSplit Pol.sigma p q) s i := by
  rw [zeemanSplit_no, zeemanSplit_pi, zeemanSplit_sigma, compsBin_append]

theorem nil_bins (F : Fns α) (I : α → α → α → α → α) (cutG cutL : α) (s : Spec α) (i : Nat) :
    compsBin F I cutG cutL [] s i = compsBin F I cutG cutL [] s i + compsBin F I cutG cutL [] s i := by
  simp [compsBin]

theorem zeemanTriplet_pi_plus_sigma (F : Fns α) (hf : FloorSpec F.floorI) (hc : CeilSpec F.ceilI)
    (I : α → α → α → α → α) (cutG cutL : α) (hG : 0 ≤ cutG) (hL : 0 ≤ cutL) (K : Consts α) (R : α) (e : Env α) :
    PiPlusSigma F I cutG cutL (zeemanTripletComps F K Pol.no R e) (zeemanTripletComps F K Pol.pi R e)
      (zeemanTripletComps F K Pol.sigma R e) := by
  apply piPlusSigma_of_bins F hf hc I cutG cutL hG hL
  intro s i
  by_cases hts : e.ts ≤ 0.0
  · simp only [zeemanTripletComps, hts, if_true]; exact nil_bins ..
  · by_cases hb : (vlen F e.b == 0) = true
    · simp only [zeemanTripletComps, hts, hb, if_true, if_false, reduceCtorEq]
      exact half_half_bins ..
    · simp only [zeemanTripletComps, hts, hb, if_false]; exact split_bins ..

theorem paramZeeman_pi_plus_sigma (F : Fns α) (hf : FloorSpec F.floorI) (hc : CeilSpec F.ceilI)
    (I : α → α → α → α → α) (cutG cutL : α) (hG : 0 ≤ cutG) (hL : 0 ≤ cutL) (K : Consts α) (al be ga R : α) (e : Env α) :
    PiPlusSigma F I cutG cutL (paramZeemanComps F K al be ga Pol.no R e) (paramZeemanComps F K al be ga Pol.pi R e)
      (paramZeemanComps F K al be ga Pol.sigma R e) := by
  apply piPlusSigma_of_bins F hf hc I cutG cutL hG hL
  intro s i
  by_cases hts : e.ts ≤ 0.0
  · simp only [paramZeemanComps, hts, if_true]; exact nil_bins ..
  · by_cases hb : (vlen F e.b == 0) = true
    · simp only [paramZeemanComps, hts, hb, if_true, if_false, reduceCtorEq]
      exact half_half_bins ..
    · simp only [paramZeemanComps, hts, hb, if_false]; exact split_bins ..

theorem zeemanMultiplet_pi_plus_sigma (F : Fns α) (hf : FloorSpec F.floorI) (hc : CeilSpec F.ceilI)
    (I : α → α → α → α → α) (cutG cutL : α) (hG : 0 ≤ cutG) (hL : 0 ≤ cutL) (K : Consts α)
    (rawPi rawSp rawSm : List (α × α)) (R : α) (e : Env α) :
    PiPlusSigma F I cutG cutL (zeemanMultipletComps F K rawPi rawSp rawSm Pol.no R e)
      (zeemanMultipletComps F K rawPi rawSp rawSm Pol.pi R e)
      (zeemanMultipletComps F K rawPi rawSp rawSm Pol.sigma R e) := by
  apply piPlusSigma_of_bins F hf hc I cutG cutL hG hL
  intro s i
  by_cases hts : e.ts ≤ 0.0
  · simp only [zeemanMultipletComps, hts, if_true]; exact nil_bins ..
  · by_cases hb : (vlen F e.b == 0) = true
    · simp only [zeemanMultipletComps, hts, hb, if_true, if_false, reduceCtorEq]
      exact half_half_bins ..
    · simp only [zeemanMultipletComps, hts, hb, if_false]; exact split_bins ..

theorem pair_half_bins (F : Fns α) (I : α → α → α → α → α) (cutG cutL gw lw R w sigma ff : α) (s : Spec α) (i : Nat) :
    compsBin F I cutG cutL [gcomp (gw * R) w sigma, lcomp (lw * R) w ff] s i =
      compsBin F I cutG cutL [gcomp (gw * (R * 0.5)) w sigma, lcomp (lw * (R * 0.5)) w ff] s i +
        compsBin F I cutG cutL [gcomp (gw * (R * 0.5)) w sigma, lcomp (lw * (R * 0.5)) w ff] s i := by
  simp only [compsBin, compBin, gcomp, lcomp, List.map_cons, List.map_nil, List.sum_cons, List.sum_nil, add_zero,
    Bool.false_eq_true, if_false, if_true]
  have g : gaussBin F cutG (gw * R) w sigma s i =
      gaussBin F cutG (gw * (R * 0.5)) w sigma s i + gaussBin F cutG (gw * (R * 0.5)) w sigma s i := by
    rw [← gaussBin_add]; congr 1; rw [lit05]; ring
  have l : lorBin F I cutL (lw * R) w ff s i =
      lorBin F I cutL (lw * (R * 0.5)) w ff s i + lorBin F I cutL (lw * (R * 0.5)) w ff s i := by
    rw [← lorBin_add]; congr 1; rw [lit05]; ring
  rw [g, l]; ring

theorem stark_pi_plus_sigma (F : Fns α) (hf : FloorSpec F.floorI) (hc : CeilSpec F.ceilI)
    (I : α → α → α → α → α) (cutG cutL : α) (hG : 0 ≤ cutG) (hL : 0 ≤ cutL) (K : Consts α) (cij aij bij R : α)
    (e : Env α) :
    PiPlusSigma F I cutG cutL (starkComps F K cij aij bij Pol.no R e) (starkComps F K cij aij bij Pol.pi R e)
      (starkComps F K cij aij bij Pol.sigma R e) := by
  apply piPlusSigma_of_bins F hf hc I cutG cutL hG hL
  intro s i
  unfold starkComps
  generalize starkWidths F _ _ = w
  cases w with
  | none => simp only [starkTail]; exact nil_bins ..
  | some t =>
    obtain ⟨lw, ff, sigma⟩ := t
    by_cases hb : (vlen F e.b == 0) = true
    · simp only [starkTail, hb, if_true, ne_eq, reduceCtorEq, not_true_eq_false, not_false_eq_true, if_false]
      exact pair_half_bins ..
    · simp only [starkTail, hb, if_false]; exact split_bins ..

/-! ### component weights -/

theorem gaussianLine_weights_sum (F : Fns α) (K : Consts α) (R : α) (e : Env α) (hts : 0 < e.ts) :
    radSum (gaussianLineComps F K R e) = R := by
  have : ¬ e.ts ≤ 0.0 := by rw [show (0.0 : α) = 0 by norm_num]; exact not_le.mpr hts
  simp [gaussianLineComps, this, radSum, gcomp]

/-- the multiplet components carry `R × ratio` each … -/
theorem multiplet_ratios (F : Fns α) (K : Consts α) (mult : List (α × α)) (R : α) (e : Env α) (hts : 0 < e.ts) :
    (multipletComps F K mult R e).map (fun c => c.rad) = mult.map (fun m => R * m.2) := by
  have : ¬ e.ts ≤ 0.0 := by rw [show (0.0 : α) = 0 by norm_num]; exact not_le.mpr hts
  simp [multipletComps, this, gcomp]

/-- … which add up to `R` when the ratios sum to one (enforced by the constructor) -/
theorem multiplet_weights_sum (F : Fns α) (K : Consts α) (mult : List (α × α)) (R : α) (e : Env α) (hts : 0 < e.ts)
    (hsum : (mult.map Prod.snd).sum = 1) : radSum (multipletComps F K mult R e) = R := by
  unfold radSum
  rw [multiplet_ratios F K mult R e hts, List.sum_map_mul_left, hsum, mul_one]

theorem ts_pos_not (e : Env α) (hts : 0 < e.ts) : ¬ e.ts ≤ 0.0 := by
  rw [show (0.0 : α) = 0 by norm_num]; exact not_le.mpr hts

/-- `0.5 sin² + 2 (0.25 sin² + 0.5 cos²) = 1` with `sin² = 1 − cos²` — for *any* value of `cos²` -/
theorem triplet_weights (c R : α) : 0.5 * (1.0 - c) * R + ((0.25 * (1.0 - c) + 0.5 * c) * R + (0.25 * (1.0 - c) + 0.5 * c) * R) = R := by
  rw [lit05, lit025, lit10]; ring

theorem zeemanTriplet_weights_sum (F : Fns α) (K : Consts α) (R : α) (e : Env α) (hts : 0 < e.ts) :
    radSum (zeemanTripletComps F K Pol.no R e) = R := by
  by_cases hb : (vlen F e.b == 0) = true
  · simp [zeemanTripletComps, ts_pos_not e hts, hb, radSum, gcomp]
  · simp only [zeemanTripletComps, ts_pos_not e hts, hb, Bool.false_eq_true, if_false, zeemanSplit_no, radSum, gcomp, List.cons_append,
      List.nil_append, List.map_cons, List.map_nil, List.sum_cons, List.sum_nil, add_zero]
    exact triplet_weights _ R

/-- π share + σ share = the whole radiance (both for `|B| = 0`: ½ + ½, and `|B| ≠ 0`) -/
theorem zeemanTriplet_pol_shares (F : Fns α) (K : Consts α) (R : α) (e : Env α) (hts : 0 < e.ts) :
    radSum (zeemanTripletComps F K Pol.pi R e) + radSum (zeemanTripletComps F K Pol.sigma R e) = R := by
  by_cases hb : (vlen F e.b == 0) = true
  · simp only [zeemanTripletComps, ts_pos_not e hts, hb, if_true, if_false, reduceCtorEq, radSum, gcomp,
      List.map_cons, List.map_nil, List.sum_cons, List.sum_nil, add_zero]
    rw [lit05]; ring
  · simp only [zeemanTripletComps, ts_pos_not e hts, hb, Bool.false_eq_true, if_false, zeemanSplit_pi, zeemanSplit_sigma, radSum, gcomp,
      List.map_cons, List.map_nil, List.sum_cons, List.sum_nil, add_zero]
    exact triplet_weights _ R

theorem paramZeeman_weights_sum (F : Fns α) (K : Consts α) (al be ga R : α) (e : Env α) (hts : 0 < e.ts) :
    radSum (paramZeemanComps F K al be ga Pol.no R e) = R := by
  by_cases hb : (vlen F e.b == 0) = true
  · simp [paramZeemanComps, ts_pos_not e hts, hb, radSum, gcomp]
  · simp only [paramZeemanComps, ts_pos_not e hts, hb, Bool.false_eq_true, if_false, zeemanSplit_no, radSum, gcomp, List.cons_append,
      List.nil_append, List.map_cons, List.map_nil, List.sum_cons, List.sum_nil, add_zero]
    exact triplet_weights _ R

theorem paramZeeman_pol_shares (F : Fns α) (K : Consts α) (al be ga R : α) (e : Env α) (hts : 0 < e.ts) :
    radSum (paramZeemanComps F K al be ga Pol.pi R e) + radSum (paramZeemanComps F K al be ga Pol.sigma R e) = R := by
  by_cases hb : (vlen F e.b == 0) = true
  · simp only [paramZeemanComps, ts_pos_not e hts, hb, if_true, if_false, reduceCtorEq, radSum, gcomp,
      List.map_cons, List.map_nil, List.sum_cons, List.sum_nil, add_zero]
    rw [lit05]; ring
  · simp only [paramZeemanComps, ts_pos_not e hts, hb, Bool.false_eq_true, if_false, zeemanSplit_pi, zeemanSplit_sigma, radSum, gcomp,
      List.map_cons, List.map_nil, List.sum_cons, List.sum_nil, add_zero]
    exact triplet_weights _ R

theorem foldl_add_snd (raw : List (α × α)) (acc : α) :
    raw.foldl (fun a m => a + m.2) acc = acc + (raw.map Prod.snd).sum := by
  induction raw generalizing acc with
  | nil => simp
  | cons m raw ih => simp only [List.foldl_cons, ih, List.map_cons, List.sum_cons]; ring

/-- **`ZeemanStructure.evaluate` renormalises: the ratios it returns add to 1 whenever their raw sum is positive** -/
theorem zeemanNormalise_sum (raw : List (α × α)) (h : 0 < (raw.map Prod.snd).sum) :
    ((zeemanNormalise raw).map Prod.snd).sum = 1 := by
  unfold zeemanNormalise
  simp only [foldl_add_snd, zero_add]
  rw [if_pos h, List.map_map]
  have : (Prod.snd ∘ fun m : α × α => (m.1, m.2 / (raw.map Prod.snd).sum)) =
      fun m : α × α => m.2 * ((raw.map Prod.snd).sum)⁻¹ := by
    funext m; simp [div_eq_mul_inv]
  rw [this, List.sum_map_mul_right]
  exact mul_inv_cancel₀ h.ne'

/-- wavelengths are left alone by the renormalisation -/
theorem zeemanNormalise_wavelengths (raw : List (α × α)) : (zeemanNormalise raw).map Prod.fst = raw.map Prod.fst := by
  simp only [zeemanNormalise]
  split_ifs <;> simp [List.map_map, Function.comp_def]

theorem radSum_append (a b : List (Comp α)) : radSum (a ++ b) = radSum a + radSum b := by simp [radSum]

theorem radSum_mk (cr : α) (w : α → α) (sigma : α) (l : List (α × α)) :
    radSum (l.map fun m => gcomp (cr * m.2) (w m.1) sigma) = cr * (l.map Prod.snd).sum := by
  unfold radSum
  rw [List.map_map, ← List.sum_map_mul_left]
  rfl

theorem zeemanMultiplet_weights_sum (F : Fns α) (K : Consts α) (rawPi rawSp rawSm : List (α × α)) (R : α) (e : Env α)
    (hts : 0 < e.ts) (hpi : 0 < (rawPi.map Prod.snd).sum) (hsp : 0 < (rawSp.map Prod.snd).sum)
    (hsm : 0 < (rawSm.map Prod.snd).sum) :
    radSum (zeemanMultipletComps F K rawPi rawSp rawSm Pol.no R e) = R := by
  by_cases hb : (vlen F e.b == 0) = true
  · simp [zeemanMultipletComps, ts_pos_not e hts, hb, radSum, gcomp]
  · simp only [zeemanMultipletComps, ts_pos_not e hts, hb, Bool.false_eq_true, if_false, zeemanSplit_no, radSum_append]
    simp only [radSum_mk _ (fun x => dopplerShift F K x e.dir e.vel)]
    rw [zeemanNormalise_sum _ hpi, zeemanNormalise_sum _ hsp,
      zeemanNormalise_sum _ hsm]
    have := triplet_weights (cosSqr F e) R
    linarith

theorem zeemanMultiplet_pol_shares (F : Fns α) (K : Consts α) (rawPi rawSp rawSm : List (α × α)) (R : α) (e : Env α)
    (hts : 0 < e.ts) (hpi : 0 < (rawPi.map Prod.snd).sum) (hsp : 0 < (rawSp.map Prod.snd).sum)
    (hsm : 0 < (rawSm.map Prod.snd).sum) :
    radSum (zeemanMultipletComps F K rawPi rawSp rawSm Pol.pi R e) +
      radSum (zeemanMultipletComps F K rawPi rawSp rawSm Pol.sigma R e) = R := by
  by_cases hb : (vlen F e.b == 0) = true
  · simp only [zeemanMultipletComps, ts_pos_not e hts, hb, if_true, if_false, reduceCtorEq, radSum, gcomp,
      List.map_cons, List.map_nil, List.sum_cons, List.sum_nil, add_zero]
    rw [lit05]; ring
  · simp only [zeemanMultipletComps, ts_pos_not e hts, hb, Bool.false_eq_true, if_false, zeemanSplit_pi, zeemanSplit_sigma, radSum_append]
    simp only [radSum_mk _ (fun x => dopplerShift F K x e.dir e.vel)]
    rw [zeemanNormalise_sum _ hpi, zeemanNormalise_sum _ hsp,
      zeemanNormalise_sum _ hsm]
    have := triplet_weights (cosSqr F e) R
    linarith

/-! ### Stark-broadened line -/

/-- Lorentzian and Gaussian weights of the pseudo-Voigt share the radiance, and with the Zeeman weights the
whole radiance is handed out in mode "no" -/
theorem stark_weights_sum (F : Fns α) (K : Consts α) (lw ff sigma R : α) (e : Env α) :
    radSum (starkTail F K (some (lw, ff, sigma)) Pol.no R e) = R := by
  by_cases hb : (vlen F e.b == 0) = true
  · simp only [starkTail, hb, if_true, ne_eq, not_true_eq_false, if_false, radSum, gcomp, lcomp, List.map_cons,
      List.map_nil, List.sum_cons, List.sum_nil, add_zero]
    ring
  · simp only [starkTail, hb, Bool.false_eq_true, if_false, zeemanSplit_no, radSum, gcomp, lcomp, List.cons_append,
      List.nil_append, List.map_cons, List.map_nil, List.sum_cons, List.sum_nil, add_zero]
    have := triplet_weights (cosSqr F e) R
    rw [lit05, lit025, lit10] at this ⊢
    linear_combination this

theorem stark_pol_shares (F : Fns α) (K : Consts α) (lw ff sigma R : α) (e : Env α) :
    radSum (starkTail F K (some (lw, ff, sigma)) Pol.pi R e) +
      radSum (starkTail F K (some (lw, ff, sigma)) Pol.sigma R e) = R := by
  by_cases hb : (vlen F e.b == 0) = true
  · simp only [starkTail, hb, if_true, ne_eq, reduceCtorEq, not_false_eq_true, radSum, gcomp, lcomp, List.map_cons,
      List.map_nil, List.sum_cons, List.sum_nil, add_zero]
    rw [lit05]; ring
  · simp only [starkTail, hb, Bool.false_eq_true, if_false, zeemanSplit_pi, zeemanSplit_sigma, radSum, gcomp, lcomp,
      List.map_cons, List.map_nil, List.sum_cons, List.sum_nil, add_zero]
    have := triplet_weights (cosSqr F e) R
    rw [lit05, lit025, lit10] at this ⊢
    linear_combination this

/-- no Doppler width (`T_s ≤ 0`) and no electron broadening (`n_e ≤ 0` or `T_e ≤ 0`): nothing is added -/
theorem stark_zero_width (F : Fns α) (K : Consts α) (cij aij bij : α) (pol : Pol) (R : α) (e : Env α)
    (hts : e.ts ≤ 0) (hel : e.ne ≤ 0 ∨ e.te ≤ 0) : starkComps F K cij aij bij pol R e = [] := by
  have h1 : starkFl F cij aij bij e = 0 := by
    unfold starkFl
    rw [if_neg]
    rintro ⟨a, b⟩
    rcases hel with h | h
    · exact absurd a (not_lt.mpr h)
    · exact absurd b (not_lt.mpr h)
  have h2 : starkFg F K e = 0 := by
    unfold starkFg; rw [if_neg (not_lt.mpr hts)]
  unfold starkComps
  rw [h1, h2]
  simp [starkWidths, starkTail]

theorem polyGo_zero (F : Fns α) (hpow : ∀ n : Nat, 0 < n → F.pow 0 (n : α) = 0) (cs : List α) (i : Nat) (hi : 0 < i)
    (acc : α) : polyGo F 0 cs i acc = acc := by
  induction cs generalizing i acc with
  | nil => rfl
  | cons c cs ih => simp only [polyGo]; rw [hpow i hi, mul_zero, add_zero]; exact ih (i + 1) (by omega) acc

/-- only electron broadening: weight 1 on the Lorentzian of width `fwhm_L`, the Gaussian call has σ = 0 -/
theorem stark_lorentz_only (F : Fns α) (hpow : ∀ n : Nat, 0 < n → F.pow 0 (n : α) = 0) (fl : α) (hfl : 0 < fl) :
    starkWidths F fl 0 = some (1, fl, 0) := by
  have hne : (fl == 0) = false := by simpa using hfl.ne'
  have hp : polyPow F fwhmPolyGauss (0 / fl) = 1 := by
    rw [zero_div]; simp only [polyPow, fwhmPolyGauss]; rw [polyGo_zero F hpow _ 1 (by omega)]; norm_num
  simp only [starkWidths, hne, Bool.false_and, Bool.false_eq_true, if_false, hfl.le, if_true, hp, one_mul,
    div_self hfl.ne']
  rw [if_neg (by norm_num), if_pos (by norm_num)]

/-- only Doppler broadening: weight 0 and width 0 for the Lorentzian, σ = `fwhm_G / (2√(2 ln 2))` -/
theorem stark_gauss_only (F : Fns α) (hpow : ∀ n : Nat, 0 < n → F.pow 0 (n : α) = 0) (fg : α) (hfg : 0 < fg) :
    starkWidths F 0 fg = some (0, 0, fg / sigma2fwhm F) := by
  have hne : (fg == 0) = false := by simpa using hfg.ne'
  have hp : polyPow F fwhmPolyLorentz 0 = 1 := by
    simp only [polyPow, fwhmPolyLorentz]; rw [polyGo_zero F hpow _ 1 (by omega)]; norm_num
  simp only [starkWidths, hne, Bool.and_false, Bool.false_eq_true, if_false, not_le.mpr hfg, zero_div, hp, one_mul]
  rw [if_pos (by norm_num)]

/-! ### beam emission (MSE) multiplet -/

/-- σ₀ + 2σ₁ = 1 and 2(π₂ + π₃ + π₄) with the ½ of `intensity_pi` = 1; the σ/π split `d = 1/(1 + σ/π)` hands
out the whole radiance -/
theorem mse_weights_sum (F : Fns α) (K : Consts α) (R : α) (e : BeamEnv α) (hte : 0 < e.te) (hne : 0 < e.ne)
    (h1 : 1 + e.s2p ≠ 0) (h2 : e.s1s0 + 1 ≠ 0) (h3 : 1 + e.p2p3 + e.p4p3 ≠ 0) :
    radSum (mseComps F K R e) = R := by
  have t1 : ¬ e.te ≤ 0.0 := by rw [show (0.0 : α) = 0 by norm_num]; exact not_le.mpr hte
  have t2 : ¬ e.ne ≤ 0.0 := by rw [show (0.0 : α) = 0 by norm_num]; exact not_le.mpr hne
  simp only [mseComps, t1, t2, if_false, radSum, gcomp, List.map_cons, List.map_nil, List.sum_cons, List.sum_nil,
    add_zero]
  rw [lit05]
  field_simp
  ring

/-- the σ group (3 lines) carries `σ/π · d · R`, the π group (6 lines) `d · R` -/
theorem mse_sigma_pi_split (F : Fns α) (K : Consts α) (R : α) (e : BeamEnv α) (hte : 0 < e.te) (hne : 0 < e.ne)
    (h2 : e.s1s0 + 1 ≠ 0) (h3 : 1 + e.p2p3 + e.p4p3 ≠ 0) :
    radSum ((mseComps F K R e).take 3) = e.s2p * (1 / (1 + e.s2p)) * R ∧
      radSum ((mseComps F K R e).drop 3) = 1 / (1 + e.s2p) * R := by
  have t1 : ¬ e.te ≤ 0.0 := by rw [show (0.0 : α) = 0 by norm_num]; exact not_le.mpr hte
  have t2 : ¬ e.ne ≤ 0.0 := by rw [show (0.0 : α) = 0 by norm_num]; exact not_le.mpr hne
  simp only [mseComps, t1, t2, if_false, radSum, gcomp, List.take, List.drop, List.map_cons, List.map_nil,
    List.sum_cons, List.sum_nil, add_zero]
  rw [lit05]
  constructor
  · field_simp; ring
  · field_simp; ring

/-! ### zero width: the five Gaussian models return the spectrum unchanged when `T_s ≤ 0` -/

theorem ts_nonpos (e : Env α) (hts : e.ts ≤ 0) : e.ts ≤ 0.0 := by
  rw [show (0.0 : α) = 0 by norm_num]; exact hts

theorem models_zero_width (F : Fns α) (K : Consts α) (pol : Pol) (R : α) (e : Env α) (hts : e.ts ≤ 0)
    (mult rawPi rawSp rawSm : List (α × α)) (al be ga : α) :
    gaussianLineComps F K R e = [] ∧ multipletComps F K mult R e = [] ∧ zeemanTripletComps F K pol R e = [] ∧
      paramZeemanComps F K al be ga pol R e = [] ∧ zeemanMultipletComps F K rawPi rawSp rawSm pol R e = [] := by
  have := ts_nonpos e hts
  simp [gaussianLineComps, multipletComps, zeemanTripletComps, paramZeemanComps, zeemanMultipletComps, this]

/-! ### Zeeman weights are non-negative (Cauchy–Schwarz) -/

def SqrtSpec (sqrt : α → α) : Prop := ∀ t, 0 ≤ t → 0 ≤ sqrt t ∧ sqrt t * sqrt t = t

theorem cosSqr_range (F : Fns α) (hs : SqrtSpec F.sqrt) (e : Env α) (hd : dot e.dir e.dir ≠ 0) (hb : dot e.b e.b ≠ 0) :
    0 ≤ cosSqr F e ∧ cosSqr F e ≤ 1 := by
  rcases hde : e.dir with ⟨d1, d2, d3⟩
  rcases hbe : e.b with ⟨b1, b2, b3⟩
  simp only [dot, hde, hbe] at hd hb
  have hdd : 0 < d1 * d1 + d2 * d2 + d3 * d3 := by
    have : 0 ≤ d1 * d1 + d2 * d2 + d3 * d3 := by nlinarith [mul_self_nonneg d1, mul_self_nonneg d2, mul_self_nonneg d3]
    exact lt_of_le_of_ne this (Ne.symm hd)
  have hbb : 0 < b1 * b1 + b2 * b2 + b3 * b3 := by
    have : 0 ≤ b1 * b1 + b2 * b2 + b3 * b3 := by nlinarith [mul_self_nonneg b1, mul_self_nonneg b2, mul_self_nonneg b3]
    exact lt_of_le_of_ne this (Ne.symm hb)
  obtain ⟨sd0, sd2⟩ := hs _ hdd.le
  obtain ⟨sb0, sb2⟩ := hs _ hbb.le
  set sd := F.sqrt (d1 * d1 + d2 * d2 + d3 * d3) with hsd
  set sb := F.sqrt (b1 * b1 + b2 * b2 + b3 * b3) with hsb
  have sdpos : 0 < sd := lt_of_le_of_ne sd0 (fun h => by rw [← h] at sd2; linarith)
  have sbpos : 0 < sb := lt_of_le_of_ne sb0 (fun h => by rw [← h] at sb2; linarith)
  have hq : cosSqr F e = (b1 * d1 + b2 * d2 + b3 * d3) ^ 2 / ((sd * sd) * (sb * sb)) := by
    simp only [cosSqr, dot, normalise, smul, vlen, hde, hbe]
    rw [← hsd, ← hsb, lit10]
    field_simp
  rw [hq, sd2, sb2]
  constructor
  · positivity
  · rw [div_le_one (by positivity)]
    nlinarith [sq_nonneg (b1 * d2 - b2 * d1), sq_nonneg (b1 * d3 - b3 * d1), sq_nonneg (b2 * d3 - b3 * d2)]

/-- so every Zeeman component radiance is non-negative for `R ≥ 0` -/
theorem zeeman_weights_nonneg (c R : α) (h0 : 0 ≤ c) (h1 : c ≤ 1) (hR : 0 ≤ R) :
    0 ≤ 0.5 * (1.0 - c) * R ∧ 0 ≤ (0.25 * (1.0 - c) + 0.5 * c) * R := by
  rw [lit05, lit025, lit10]
  constructor <;> apply mul_nonneg _ hR <;> nlinarith

/-! ### post-fix Lorentzian (closed-form cumulative, clipped at the cut-offs) -/

theorem maxv_eq (a b : α) : maxv a b = max a b := by
  unfold maxv; split_ifs with h
  · exact (max_eq_right h.le).symm
  · exact (max_eq_left (not_lt.mp h)).symm

theorem minv_eq (a b : α) : minv a b = min a b := by
  unfold minv; split_ifs with h
  · exact (min_eq_right h.le).symm
  · exact (min_eq_left (not_lt.mp h)).symm

theorem lorentzCdfContrib_length (C : α → α) (R norm mn dl cu : α) (n : Nat) (i : Int) (lo : α) :
    (lorentzCdfContrib C R norm mn dl cu n i lo).length = n := by
  induction n generalizing i lo with
  | zero => simp [lorentzCdfContrib]
  | succ n ih => simp [lorentzCdfContrib, ih]

theorem lorentzCdfContrib_step (C : α → α) (R norm mn dl cu : α) (n : Nat) (i : Int) (lo : α) :
    lorentzCdfContrib C R norm mn dl cu (n + 1) i lo =
      (R * (norm * (C (minv (eW mn dl (i + 1)) cu) - lo)) / dl) ::
        lorentzCdfContrib C R norm mn dl cu n (i + 1) (C (minv (eW mn dl (i + 1)) cu)) := rfl

theorem lorentzCdfContrib_sum (C : α → α) (R norm mn dl cu : α) (hdl : dl ≠ 0) (n : Nat) (i : Int) (lo : α) :
    (lorentzCdfContrib C R norm mn dl cu n i lo).sum * dl =
      R * (norm * ((if n = 0 then lo else C (minv (eW mn dl (i + n)) cu)) - lo)) := by
  induction n generalizing i lo with
  | zero => simp [lorentzCdfContrib]
  | succ n ih =>
    rw [lorentzCdfContrib_step, List.sum_cons, add_mul, ih (i + 1)]
    have e1 : i + 1 + (n : Int) = i + ((n + 1 : Nat) : Int) := by push_cast; ring
    rw [e1]
    simp only [Nat.succ_ne_zero, if_false]
    by_cases hn : n = 0
    · subst hn; simp only [if_true]; field_simp; ring
    · simp only [hn, if_false]; field_simp; ring

theorem addLorentzianLineCdf_active (F : Fns α) (G : α → α → α → α) (normC cut R wl fwhm : α) (s : Spec α) (st en : Int)
    (h : lorActive F cut wl fwhm s = some (st, en)) :
    addLorentzianLineCdf F G normC cut R wl fwhm s =
      { s with samples := (addAt st.toNat (lorentzCdfContrib (G wl (0.5 * fwhm)) R (1.0 / normC) s.mn s.dl
          (wl + cut * fwhm) (en - st).toNat st (G wl (0.5 * fwhm) (maxv (s.mn + (st : α) * s.dl) (wl - cut * fwhm))))
          s.samples) } := by
  unfold lorActive at h
  unfold addLorentzianLineCdf
  split_ifs at h ⊢ with h1
  rw [h]

/-- **post-fix Lorentzian, full strength: `Σ added·Δ = R × (cumulative(min(max_λ, cut-off⁺)) − cumulative(max(min_λ,
cut-off⁻)))/norm`** — exactly the fraction of the truncated normalised profile inside the window -/
theorem lorentz_cdf_exact (F : Fns α) (hf : FloorSpec F.floorI) (hc : CeilSpec F.ceilI) (G : α → α → α → α)
    (normC cut R wl fwhm : α) (hcut : 0 ≤ cut) (s : Spec α) (hs : WF s) (st en : Int)
    (h : lorActive F cut wl fwhm s = some (st, en)) :
    integral (addLorentzianLineCdf F G normC cut R wl fwhm s) =
      integral s + R * (1 / normC * (G wl (0.5 * fwhm) (min s.mx (wl + cut * fwhm)) -
        G wl (0.5 * fwhm) (max s.mn (wl - cut * fwhm)))) := by
  obtain ⟨hsig, hr⟩ := lorActive_pos F cut wl fwhm s _ h
  obtain ⟨h0, hle, hen, e1, e2, e3, e4⟩ := lineRange_some F hf hc cut wl fwhm (by positivity) s hs st en hr
  have hcw : 0 ≤ cut * fwhm := by positivity
  unfold lorActive at h
  rw [if_neg (not_le.mpr hsig)] at h
  have hnone : ¬ (s.mx < wl - cut * fwhm ∨ wl + cut * fwhm < s.mn) := by
    rw [← lineRange_none_iff F cut wl fwhm s, h]; simp
  push Not at hnone
  have hmm : max s.mn (wl - cut * fwhm) ≤ min s.mx (wl + cut * fwhm) := by
    have : s.mn ≤ s.mx := by
      rw [hs.mx_eq]; have := hs.dl_pos; have : (0 : α) ≤ (s.bins : α) * s.dl := by positivity
      linarith
    apply max_le <;> apply le_min <;> linarith [hnone.1, hnone.2]
  -- the clipped end points are exactly the window ∩ cut-off end points
  have hhi : min (edge s en) (wl + cut * fwhm) = min s.mx (wl + cut * fwhm) := by
    apply le_antisymm
    · exact min_le_min e4 le_rfl
    · exact le_min e3 (min_le_right _ _)
  have hlo : max (edge s st) (wl - cut * fwhm) = max s.mn (wl - cut * fwhm) := by
    apply le_antisymm
    · exact max_le e2 (le_max_right _ _)
    · exact max_le_max e1 le_rfl
  have hact : lorActive F cut wl fwhm s = some (st, en) := by
    unfold lorActive; rw [if_neg (not_le.mpr hsig)]; exact h
  rw [addLorentzianLineCdf_active F G normC cut R wl fwhm s st en hact]
  unfold integral
  simp only
  rw [addAt_sum _ _ _ (by rw [lorentzCdfContrib_length, hs.len]; omega), add_mul,
    lorentzCdfContrib_sum _ _ _ _ _ _ hs.dl_pos.ne']
  have elo : s.mn + (st : α) * s.dl = edge s st := by unfold edge; ring
  rw [elo, maxv_eq, hlo, lit10]
  by_cases hn : (en - st).toNat = 0
  · -- no bins: the window meets the cut-off interval in a single point
    have hse : st = en := by omega
    have : min s.mx (wl + cut * fwhm) = max s.mn (wl - cut * fwhm) := by
      apply le_antisymm _ hmm
      calc min s.mx (wl + cut * fwhm) ≤ edge s en := e3
        _ = edge s st := by rw [hse]
        _ ≤ max s.mn (wl - cut * fwhm) := e2
    simp only [hn, if_true, this, sub_self, mul_zero]
  · simp only [hn, if_false]
    have e5 : st + (((en - st).toNat : Nat) : Int) = en := by omega
    rw [e5, minv_eq]
    have : eW s.mn s.dl en = edge s en := rfl
    rw [this, hhi]

/-- … hence a window that spans the cut-off interval receives exactly `R`, however wide the bins are -/
theorem lorentz_cdf_whole_radiance (F : Fns α) (hf : FloorSpec F.floorI) (hc : CeilSpec F.ceilI) (G : α → α → α → α)
    (normC cut R wl fwhm : α) (hcut : 0 ≤ cut) (hfw : 0 < fwhm) (hC : normC ≠ 0) (s : Spec α) (hs : WF s)
    (hlo : s.mn ≤ wl - cut * fwhm) (hhi : wl + cut * fwhm ≤ s.mx)
    (hnorm : G wl (0.5 * fwhm) (wl + cut * fwhm) - G wl (0.5 * fwhm) (wl - cut * fwhm) = normC) :
    integral (addLorentzianLineCdf F G normC cut R wl fwhm s) = integral s + R := by
  cases h : lorActive F cut wl fwhm s with
  | none =>
    exfalso
    unfold lorActive at h
    rw [if_neg (not_le.mpr hfw), lineRange_none_iff] at h
    have : 0 ≤ cut * fwhm := by positivity
    rcases h with h | h <;> linarith
  | some r =>
    obtain ⟨st, en⟩ := r
    rw [lorentz_cdf_exact F hf hc G normC cut R wl fwhm hcut s hs st en h, min_eq_right hhi, max_eq_right hlo, hnorm]
    field_simp

/-! ### the shipped integrator is not additive over adjacent intervals -/

/-- witness: one-point Gauss–Legendre rule (the `max_order = 1` configuration) on `f x = x²`:
`I(0,1) + I(1,2) = 5/2 ≠ 2 = I(0,2)` — the hypothesis of `lorentz_bins_telescope` is not met by `GaussianQuadrature` -/
theorem gaussQuad_not_additive_witness :
    gaussQuad (fun x : ℚ => x * x) (1 / 100000) [[(0, 2)]] 0 1 + gaussQuad (fun x : ℚ => x * x) (1 / 100000) [[(0, 2)]] 1 2
      ≠ gaussQuad (fun x : ℚ => x * x) (1 / 100000) [[(0, 2)]] 0 2 := by
  decide +kernel

/-! ### `GaussianQuadrature` as an object: setter histories -/

theorem zip_fst_snd {β γ : Type} (r : List (β × γ)) : (r.map Prod.fst).zip (r.map Prod.snd) = r := by
  induction r with
  | nil => rfl
  | cons x xs ih => simp [ih]

/-- reading the flat cache with a moving offset is reading the rules one by one, provided rule `i` has `order + i`
nodes (orders are consecutive and `roots_legendre(k)` returns `k` nodes) -/
theorem gqEvalGo_eq_gqGo (f : α → α) (rtol c d : α) (rules : List (List (α × α))) (order : Nat)
    (hlen : ∀ i (h : i < rules.length), (rules[i]).length = order + i) (old : Option α) (nv : α) :
    gqEvalGo f rtol c d ((rules.map fun r => r.map Prod.fst).flatten) ((rules.map fun r => r.map Prod.snd).flatten)
      order rules.length old nv = gqGo f rtol c d rules old nv := by
  induction rules generalizing order old nv with
  | nil => simp [gqEvalGo, gqGo]
  | cons r rs ih =>
    have hr : r.length = order := by
      have := hlen 0 (by simp)
      simp only [List.getElem_cons_zero] at this
      omega
    have hrs : ∀ i (h : i < rs.length), (rs[i]).length = order + 1 + i := by
      intro i h
      have := hlen (i + 1) (by simp; omega)
      simp only [List.getElem_cons_succ] at this
      omega
    simp only [List.map_cons, List.flatten_cons, List.length_cons, gqEvalGo, gqGo]
    have t1 : (r.map Prod.fst ++ (rs.map fun r => r.map Prod.fst).flatten).take order = r.map Prod.fst := by
      rw [List.take_left' (by simp [hr])]
    have t2 : (r.map Prod.snd ++ (rs.map fun r => r.map Prod.snd).flatten).take order = r.map Prod.snd := by
      rw [List.take_left' (by simp [hr])]
    have d1 : (r.map Prod.fst ++ (rs.map fun r => r.map Prod.fst).flatten).drop order
        = (rs.map fun r => r.map Prod.fst).flatten := by
      rw [List.drop_left' (by simp [hr])]
    have d2 : (r.map Prod.snd ++ (rs.map fun r => r.map Prod.snd).flatten).drop order
        = (rs.map fun r => r.map Prod.snd).flatten := by
      rw [List.drop_left' (by simp [hr])]
    rw [t1, t2, d1, d2, zip_fst_snd]
    cases old with
    | none => simp only; exact ih (order + 1) hrs _ _
    | some o =>
      simp only
      split_ifs
      · rfl
      · exact ih (order + 1) hrs _ _

/-- the object invariant: valid parameters and a cache laid out for exactly the current order range -/
structure GQInv (table : Nat → List (α × α)) (g : GQ α) : Prop where
  min_pos : 1 ≤ g.minO
  min_le_max : g.minO ≤ g.maxO
  rtol_pos : 0 < g.rtol
  roots_eq : g.roots = buildRoots table g.minO g.maxO
  weights_eq : g.weights = buildWeights table g.minO g.maxO

theorem gqNew_inv (table : Nat → List (α × α)) (mn mx : Nat) (rtol : α) (h1 : 1 ≤ mn) (h2 : mn ≤ mx) (h3 : 0 < rtol) :
    GQInv table (gqNew table mn mx rtol) := ⟨h1, h2, h3, rfl, rfl⟩

theorem gqSet_inv (table : Nat → List (α × α)) (g : GQ α) (hg : GQInv table g) (op : GQOp α) :
    GQInv table (gqSet table g op).1 := by
  cases op with
  | setMin n =>
    simp only [gqSet]
    split_ifs with h1 h2
    · exact hg
    · exact hg
    · push Not at h1 h2
      exact ⟨by simp only; omega, by simp only; omega, hg.rtol_pos, rfl, rfl⟩
  | setMax n =>
    simp only [gqSet]
    split_ifs with h1 h2
    · exact hg
    · exact hg
    · push Not at h1 h2
      exact ⟨hg.min_pos, by simp only; omega, hg.rtol_pos, rfl, rfl⟩
  | setRtol r =>
    simp only [gqSet]
    split_ifs with h1
    · exact hg
    · exact ⟨hg.min_pos, hg.min_le_max, not_le.mp h1, hg.roots_eq, hg.weights_eq⟩

/-- a setter that raises leaves the object untouched -/
theorem gqSet_rejects_atomically (table : Nat → List (α × α)) (g : GQ α) (op : GQOp α)
    (h : (gqSet table g op).2 = true) : (gqSet table g op).1 = g := by
  cases op <;> simp only [gqSet] at h ⊢ <;> split_ifs at h ⊢ <;> simp_all

/-- state after a history of setter calls -/
def gqRun (table : Nat → List (α × α)) (g : GQ α) (ops : List (GQOp α)) : GQ α :=
  ops.foldl (fun g op => (gqSet table g op).1) g

theorem gq_history_inv (table : Nat → List (α × α)) (g : GQ α) (hg : GQInv table g) (ops : List (GQOp α)) :
    GQInv table (gqRun table g ops) := by
  induction ops generalizing g with
  | nil => exact hg
  | cons op ops ih => exact ih _ (gqSet_inv table g hg op)

theorem gq_eq_fresh_of_inv (table : Nat → List (α × α)) (g : GQ α) (hg : GQInv table g) :
    g = gqNew table g.minO g.maxO g.rtol := by
  cases g
  simp only [gqNew, GQ.mk.injEq, true_and]
  exact ⟨hg.roots_eq, hg.weights_eq⟩

/-- **construct → set\* → use = fresh(final): after any history of `min_order` / `max_order` / `relative_tolerance`
setter calls (accepted or rejected) the integrator is the freshly constructed one with the final parameters** -/
theorem gq_history_eq_fresh (table : Nat → List (α × α)) (g : GQ α) (hg : GQInv table g) (ops : List (GQOp α)) :
    gqRun table g ops =
      gqNew table (gqRun table g ops).minO (gqRun table g ops).maxO (gqRun table g ops).rtol :=
  gq_eq_fresh_of_inv table _ (gq_history_inv table g hg ops)

theorem rulesFor_length (table : Nat → List (α × α)) (mn mx : Nat) : (rulesFor table mn mx).length = mx + 1 - mn := by
  simp [rulesFor]

/-- … and its `evaluate` is the order-stepping rule over the orders `min … max` of the *current* parameters -/
theorem gqEval_eq_gaussQuad (table : Nat → List (α × α)) (htab : ∀ k, (table k).length = k) (f : α → α) (g : GQ α)
    (hg : GQInv table g) (a b : α) :
    gqEval f g a b = gaussQuad f g.rtol (rulesFor table g.minO g.maxO) a b := by
  unfold gqEval gaussQuad
  rw [hg.roots_eq, hg.weights_eq]
  unfold buildRoots buildWeights
  have := gqEvalGo_eq_gqGo f g.rtol (0.5 * (a + b)) (0.5 * (b - a)) (rulesFor table g.minO g.maxO) g.minO
    (by intro i h; simp [rulesFor, htab]) none 0
  rw [rulesFor_length] at this
  exact this

theorem gqGo_const (f : α → α) (rtol c d J : α) (rules : List (List (α × α)))
    (h : ∀ r ∈ rules, glRule f c d r = J) (old : Option α) (nv : α) :
    gqGo f rtol c d rules old nv = if rules = [] then nv else J := by
  induction rules generalizing old nv with
  | nil => simp [gqGo]
  | cons r rs ih =>
    have hr : glRule f c d r = J := h r (by simp)
    have hrs : ∀ r' ∈ rs, glRule f c d r' = J := fun r' hr' => h r' (by simp [hr'])
    simp only [gqGo, hr, reduceCtorEq, if_false]
    cases old with
    | none =>
      simp only; rw [ih hrs]; split_ifs <;> rfl
    | some o =>
      simp only
      split_ifs
      · rfl
      · rw [ih hrs]; split_ifs <;> rfl

/-- when every rule in the range integrates `f` exactly (Gauss–Legendre: polynomials of degree ≤ 2·min_order − 1),
`evaluate` returns that exact value whatever the tolerance and wherever the order stepping stops -/
theorem gaussQuad_exact (f : α → α) (rtol a b J : α) (rules : List (List (α × α))) (hne : rules ≠ [])
    (h : ∀ r ∈ rules, glRule f (0.5 * (a + b)) (0.5 * (b - a)) r = J) : gaussQuad f rtol rules a b = J := by
  unfold gaussQuad
  rw [gqGo_const f rtol _ _ J rules h, if_neg hne]

/-! ### proof-deepening pass: end-to-end normalisation per model, zero width for every model -/

/-- all components are Gaussian calls with non-negative radiance and positive width -/
def GoodComps (cs : List (Comp α)) : Prop := ∀ c ∈ cs, c.lor = false ∧ 0 ≤ c.rad ∧ 0 < c.width

/-- the window contains the cut-off interval of every component -/
def Spans (cut : α) (cs : List (Comp α)) (s : Spec α) : Prop :=
  ∀ c ∈ cs, s.mn ≤ c.wl - cut * c.width ∧ c.wl + cut * c.width ≤ s.mx

theorem radSum_cons (c : Comp α) (cs : List (Comp α)) : radSum (c :: cs) = c.rad + radSum cs := by simp [radSum]

/-- any Gaussian component list whose cut-off intervals lie inside the window delivers its whole radiance -/
theorem model_whole_radiance (F : Fns α) (hf : FloorSpec F.floorI) (hc : CeilSpec F.ceilI) (he : ErfSpec F.erf)
    (h2 : 0 < F.sqrt2) (I : α → α → α → α → α) (cutG cutL : α) (hG : 0 ≤ cutG) (cs : List (Comp α)) (hgood : GoodComps cs)
    (s : Spec α) (hs : WF s) (hsp : Spans cutG cs s) :
    integral s + radSum cs * F.erf (cutG / F.sqrt2) ≤ integral (addComps F I cutG cutL cs s) ∧
      integral (addComps F I cutG cutL cs s) ≤ integral s + radSum cs := by
  induction cs generalizing s with
  | nil => simp [addComps, radSum]
  | cons c cs ih =>
    obtain ⟨hl, hr, hw⟩ := hgood c (by simp)
    obtain ⟨s1, s2⟩ := hsp c (by simp)
    have hstep : addComp F I cutG cutL s c = addGaussianLine F cutG c.rad c.wl c.width s := by
      unfold addComp; rw [hl]; simp
    obtain ⟨g1, g2, g3, g4, -⟩ := addGaussianLine_grid F cutG c.rad c.wl c.width s
    obtain ⟨b1, b2⟩ := gauss_whole_radiance F hf hc he h2 cutG c.rad c.wl c.width hG hr hw s hs s1 s2
    obtain ⟨i1, i2⟩ := ih (fun c' hc' => hgood c' (by simp [hc'])) (addGaussianLine F cutG c.rad c.wl c.width s)
      (addGaussianLine_wf F cutG c.rad c.wl c.width s hs)
      (fun c' hc' => by rw [g1, g2]; exact hsp c' (by simp [hc']))
    unfold addComps at i1 i2 ⊢
    simp only [List.foldl_cons, hstep, radSum_cons]
    constructor <;> nlinarith

/-- … in particular a model whose component radiances add up to `R` is normalised: `R·erf(cut/√2) ≤ Σ added·Δ ≤ R` -/
theorem comps_normalised (F : Fns α) (hf : FloorSpec F.floorI) (hc : CeilSpec F.ceilI) (he : ErfSpec F.erf)
    (h2 : 0 < F.sqrt2) (I : α → α → α → α → α) (cutG cutL : α) (hG : 0 ≤ cutG) (cs : List (Comp α)) (R : α)
    (hgood : GoodComps cs) (hsum : radSum cs = R) (s : Spec α) (hs : WF s) (hsp : Spans cutG cs s) :
    integral s + R * F.erf (cutG / F.sqrt2) ≤ integral (addComps F I cutG cutL cs s) ∧
      integral (addComps F I cutG cutL cs s) ≤ integral s + R := by
  rw [← hsum]; exact model_whole_radiance F hf hc he h2 I cutG cutL hG cs hgood s hs hsp

/-- the physical constants are positive -/
structure ConstsPos (K : Consts α) : Prop where
  amu : 0 < K.amu
  echarge : 0 < K.echarge
  c : 0 < K.c

theorem sqrt_pos_of_spec (sqrt : α → α) (hs : SqrtSpec sqrt) (t : α) (ht : 0 < t) : 0 < sqrt t := by
  obtain ⟨h0, h1⟩ := hs t ht.le
  exact lt_of_le_of_ne h0 (fun h => by rw [← h] at h1; linarith)

/-- the Doppler width is positive for a positive temperature, mass and wavelength -/
theorem thermal_pos (F : Fns α) (hs : SqrtSpec F.sqrt) (K : Consts α) (hK : ConstsPos K) (wl t aw : α) (hwl : 0 < wl)
    (ht : 0 < t) (haw : 0 < aw) : 0 < thermalBroadening F K wl t aw := by
  unfold thermalBroadening
  have := hK.amu; have := hK.echarge; have := hK.c
  have hq : 0 < t * K.echarge / (aw * K.amu) := by positivity
  have := sqrt_pos_of_spec F.sqrt hs _ hq
  positivity

theorem gaussianLine_good (F : Fns α) (hs : SqrtSpec F.sqrt) (K : Consts α) (hK : ConstsPos K) (R : α) (e : Env α)
    (hR : 0 ≤ R) (hwl : 0 < e.wl) (haw : 0 < e.aw) (hts : 0 < e.ts) : GoodComps (gaussianLineComps F K R e) := by
  intro c hc
  simp only [gaussianLineComps, ts_pos_not e hts, if_false, List.mem_singleton] at hc
  subst hc
  exact ⟨rfl, hR, thermal_pos F hs K hK e.wl e.ts e.aw hwl hts haw⟩

/-- multiplet of *any* length with non-negative ratios -/
theorem multiplet_good (F : Fns α) (hs : SqrtSpec F.sqrt) (K : Consts α) (hK : ConstsPos K) (mult : List (α × α)) (R : α)
    (e : Env α) (hR : 0 ≤ R) (hwl : 0 < e.wl) (haw : 0 < e.aw) (hts : 0 < e.ts) (hr : ∀ m ∈ mult, 0 ≤ m.2) :
    GoodComps (multipletComps F K mult R e) := by
  intro c hc
  simp only [multipletComps, ts_pos_not e hts, if_false, List.mem_map] at hc
  obtain ⟨m, hm, rfl⟩ := hc
  exact ⟨rfl, mul_nonneg hR (hr m hm), thermal_pos F hs K hK e.wl e.ts e.aw hwl hts haw⟩

theorem bnorm_ne_zero (F : Fns α) (hs : SqrtSpec F.sqrt) (e : Env α) (hb : ¬ (vlen F e.b == 0) = true) : dot e.b e.b ≠ 0 := by
  intro h0
  apply hb
  have : vlen F e.b = 0 := by
    unfold vlen
    unfold dot at h0
    rw [h0]
    obtain ⟨_, h1⟩ := hs 0 le_rfl
    exact mul_self_eq_zero.mp h1
  simp [this]

/-- shared by the three Zeeman models: π and σ component radiances are non-negative for a non-zero field -/
theorem zeeman_rads_nonneg (F : Fns α) (hs : SqrtSpec F.sqrt) (e : Env α) (R : α) (hR : 0 ≤ R) (hd : dot e.dir e.dir ≠ 0)
    (hb : ¬ (vlen F e.b == 0) = true) :
    0 ≤ 0.5 * (1.0 - cosSqr F e) * R ∧ 0 ≤ (0.25 * (1.0 - cosSqr F e) + 0.5 * cosSqr F e) * R := by
  obtain ⟨c0, c1⟩ := cosSqr_range F hs e hd (bnorm_ne_zero F hs e hb)
  exact zeeman_weights_nonneg _ R c0 c1 hR

theorem zeemanTriplet_good (F : Fns α) (hs : SqrtSpec F.sqrt) (K : Consts α) (hK : ConstsPos K) (pol : Pol) (R : α) (e : Env α)
    (hR : 0 ≤ R) (hwl : 0 < e.wl) (haw : 0 < e.aw) (hts : 0 < e.ts) (hd : dot e.dir e.dir ≠ 0) :
    GoodComps (zeemanTripletComps F K pol R e) := by
  have hw := thermal_pos F hs K hK e.wl e.ts e.aw hwl hts haw
  have h05 : (0 : α) ≤ 0.5 * R := by rw [lit05]; positivity
  by_cases hb : (vlen F e.b == 0) = true
  · intro c hc
    simp only [zeemanTripletComps, ts_pos_not e hts, hb, if_true, if_false] at hc
    split_ifs at hc <;> simp only [List.mem_singleton] at hc <;> subst hc
    · exact ⟨rfl, hR, hw⟩
    · exact ⟨rfl, h05, hw⟩
  · obtain ⟨r1, r2⟩ := zeeman_rads_nonneg F hs e R hR hd hb
    intro c hc
    simp only [zeemanTripletComps, ts_pos_not e hts, hb, Bool.false_eq_true, if_false, zeemanSplit, List.mem_append] at hc
    rcases hc with hc | hc <;> split_ifs at hc <;> simp only [List.mem_cons, List.mem_singleton, List.not_mem_nil, or_false] at hc
    · subst hc; exact ⟨rfl, r1, hw⟩
    · rcases hc with hc | hc <;> subst hc <;> exact ⟨rfl, r2, hw⟩

theorem zeemanNormalise_nonneg (raw : List (α × α)) (hr : ∀ m ∈ raw, 0 ≤ m.2) : ∀ m ∈ zeemanNormalise raw, 0 ≤ m.2 := by
  intro m hm
  simp only [zeemanNormalise] at hm
  split_ifs at hm with hpos
  · simp only [List.mem_map] at hm
    obtain ⟨m', hm', rfl⟩ := hm
    exact div_nonneg (hr m' hm') (le_of_lt hpos)
  · exact hr m hm

/-- Zeeman multiplet with component tables of *any* length and non-negative ratios -/
theorem zeemanMultiplet_good (F : Fns α) (hs : SqrtSpec F.sqrt) (K : Consts α) (hK : ConstsPos K)
    (rawPi rawSp rawSm : List (α × α)) (pol : Pol) (R : α) (e : Env α) (hR : 0 ≤ R) (hwl : 0 < e.wl) (haw : 0 < e.aw)
    (hts : 0 < e.ts) (hd : dot e.dir e.dir ≠ 0) (hpi : ∀ m ∈ rawPi, 0 ≤ m.2) (hsp : ∀ m ∈ rawSp, 0 ≤ m.2)
    (hsm : ∀ m ∈ rawSm, 0 ≤ m.2) : GoodComps (zeemanMultipletComps F K rawPi rawSp rawSm pol R e) := by
  have hw := thermal_pos F hs K hK e.wl e.ts e.aw hwl hts haw
  have h05 : (0 : α) ≤ 0.5 * R := by rw [lit05]; positivity
  by_cases hb : (vlen F e.b == 0) = true
  · intro c hc
    simp only [zeemanMultipletComps, ts_pos_not e hts, hb, if_true, if_false] at hc
    split_ifs at hc <;> simp only [List.mem_singleton] at hc <;> subst hc
    · exact ⟨rfl, hR, hw⟩
    · exact ⟨rfl, h05, hw⟩
  · obtain ⟨r1, r2⟩ := zeeman_rads_nonneg F hs e R hR hd hb
    have npi := zeemanNormalise_nonneg rawPi hpi
    have nsp := zeemanNormalise_nonneg rawSp hsp
    have nsm := zeemanNormalise_nonneg rawSm hsm
    intro c hc
    simp only [zeemanMultipletComps, ts_pos_not e hts, hb, Bool.false_eq_true, if_false, zeemanSplit, List.mem_append] at hc
    rcases hc with hc | hc <;> split_ifs at hc
    · simp only [List.mem_map] at hc
      obtain ⟨m, hm, rfl⟩ := hc
      exact ⟨rfl, mul_nonneg r1 (npi m hm), hw⟩
    · simp at hc
    · simp only [List.mem_append, List.mem_map] at hc
      rcases hc with ⟨m, hm, rfl⟩ | ⟨m, hm, rfl⟩
      · exact ⟨rfl, mul_nonneg r2 (nsp m hm), hw⟩
      · exact ⟨rfl, mul_nonneg r2 (nsm m hm), hw⟩
    · simp at hc

theorem mse_good (F : Fns α) (hs : SqrtSpec F.sqrt) (K : Consts α) (hK : ConstsPos K) (R : α) (e : BeamEnv α) (hR : 0 ≤ R)
    (hwl : 0 < e.wl) (hm : 0 < e.mass) (hT : 0 < e.temp) (hte : 0 < e.te) (hne : 0 < e.ne) (h1 : 0 ≤ e.s2p) (h2 : 0 ≤ e.s1s0)
    (h3 : 0 ≤ e.p2p3) (h4 : 0 ≤ e.p4p3) : GoodComps (mseComps F K R e) := by
  have hw := thermal_pos F hs K hK e.wl e.temp e.mass hwl hT hm
  have t1 : ¬ e.te ≤ 0.0 := by rw [show (0.0 : α) = 0 by norm_num]; exact not_le.mpr hte
  have t2 : ¬ e.ne ≤ 0.0 := by rw [show (0.0 : α) = 0 by norm_num]; exact not_le.mpr hne
  have d0 : 0 ≤ 1 / (1 + e.s2p) := by positivity
  have s00 : 0 ≤ 1 / (e.s1s0 + 1) := by positivity
  have p30 : 0 ≤ 1 / (1 + e.p2p3 + e.p4p3) := by positivity
  have isig : 0 ≤ e.s2p * (1 / (1 + e.s2p)) * R := by positivity
  have ipi : 0 ≤ 0.5 * (1 / (1 + e.s2p)) * R := by rw [lit05]; positivity
  have s1 : 0 ≤ 0.5 * e.s1s0 * (1 / (e.s1s0 + 1)) := by rw [lit05]; positivity
  intro c hc
  simp only [mseComps, t1, t2, if_false, List.mem_cons, List.mem_singleton, List.not_mem_nil, or_false] at hc
  rcases hc with hc | hc | hc | hc | hc | hc | hc | hc | hc <;> subst hc <;> refine ⟨rfl, ?_, hw⟩ <;> simp only [gcomp] <;>
    positivity

/-- components of no width leave the spectrum alone, whatever their radiance -/
theorem addComps_zero_width (F : Fns α) (I : α → α → α → α → α) (cutG cutL : α) (cs : List (Comp α))
    (h : ∀ c ∈ cs, c.width ≤ 0) (s : Spec α) : addComps F I cutG cutL cs s = s := by
  induction cs generalizing s with
  | nil => rfl
  | cons c cs ih =>
    have hc := h c (by simp)
    have hstep : addComp F I cutG cutL s c = s := by
      unfold addComp
      split_ifs
      · exact lorentz_zero_width F I cutL c.rad c.wl c.width s hc
      · exact zero_width_adds_nothing F cutG c.rad c.wl c.width s hc
    unfold addComps at ih ⊢
    rw [List.foldl_cons, hstep]
    exact ih (fun c' hc' => h c' (by simp [hc'])) s

/-- beam emission: no electrons / cold electrons ⇒ no components … -/
theorem mse_no_emission (F : Fns α) (K : Consts α) (R : α) (e : BeamEnv α) (h : e.te ≤ 0 ∨ e.ne ≤ 0) :
    mseComps F K R e = [] := by
  have z : (0.0 : α) = 0 := by norm_num
  unfold mseComps
  rcases h with h | h
  · rw [z, if_pos h]
  · rw [z]; split_ifs <;> rfl

/-- … and a beam of zero temperature (`sqrt 0 = 0`) has nine components of zero width: the spectrum is unchanged -/
theorem mse_zero_beam_temperature (F : Fns α) (hs : SqrtSpec F.sqrt) (K : Consts α) (I : α → α → α → α → α) (cutG cutL R : α)
    (e : BeamEnv α) (hT : e.temp = 0) (s : Spec α) : addComps F I cutG cutL (mseComps F K R e) s = s := by
  apply addComps_zero_width
  have hsq : F.sqrt 0 = 0 := by
    obtain ⟨_, h1⟩ := hs 0 le_rfl
    exact mul_self_eq_zero.mp h1
  have hw : thermalBroadening F K e.wl e.temp e.mass = 0 := by
    unfold thermalBroadening; rw [hT]; simp [hsq]
  intro c hc
  unfold mseComps at hc
  split_ifs at hc
  · simp at hc
  · simp at hc
  · simp only [List.mem_cons, List.mem_singleton, List.not_mem_nil, or_false] at hc
    rcases hc with hc | hc | hc | hc | hc | hc | hc | hc | hc <;> subst hc <;> simp only [gcomp, hw] <;> exact le_rfl

end Cherab.Lemmas.LineShape
