"""C06 — rate repository: last write wins per key, other keys untouched, no stray files.

T  lean/Cherab/Props/C06.lean  (generic theory over arbitrary `Tables`: refinement to a key->value map, path injectivity,
   transition keys, rejected updates, writes under the root)  +  lean/Cherab/Props/C06Table.lean (`decide` over the tables
   generated from /repo's current source by harness/translators/repo_paths.py).
K  histories of add_*/update_*/install_*/get_* calls are run on the real functions (temporary repository roots, temporary
   $HOME) and on the model (native driver drv_c06 = Model/Repository.lean + Gen/RepoPaths.lean); after every call the
   outcome, the complete file listing (roots and $HOME/.cherab) and get_* of every tracked key are compared, values bit
   for bit.
S  oracle without the model: a last-write-wins Python dict keyed by (family, symbols, charges, lower-cased transition).
"""
import copy
import json
import os
import shutil
import sys
import tempfile
import warnings

import numpy as np

from harness.translators import repo_paths
from harness.vlib.core import InfraError
from harness.vlib.util import VERIF, exc_kind, hexs

# --------------------------------------------------------------------------------------------------------------------
# safe import: DEFAULT_REPOSITORY_PATH is computed from `~` at import time
# --------------------------------------------------------------------------------------------------------------------
_HOME = None


def prepare_home():
    global _HOME
    if _HOME is not None:
        return _HOME
    if 'cherab.openadas' in sys.modules:
        from cherab.openadas.repository import utility
        d = utility.DEFAULT_REPOSITORY_PATH
        if not d.startswith(tempfile.gettempdir()):
            raise InfraError('cherab.openadas was imported before HOME was redirected (default repository %s)' % d)
        _HOME = d[:-len('/.cherab/openadas/repository')]
        return _HOME
    _HOME = tempfile.mkdtemp(prefix='c06home_')
    os.environ['HOME'] = _HOME
    import atexit
    atexit.register(shutil.rmtree, _HOME, True)
    from cherab.openadas.repository import utility
    if utility.DEFAULT_REPOSITORY_PATH != os.path.join(_HOME, '.cherab/openadas/repository'):
        raise InfraError('DEFAULT_REPOSITORY_PATH %s is not under the temporary HOME' % utility.DEFAULT_REPOSITORY_PATH)
    return _HOME


# --------------------------------------------------------------------------------------------------------------------
# families (the key structure of the property; nesting order of the update_* dictionaries)
# --------------------------------------------------------------------------------------------------------------------
# sig: kinds of the file-selecting levels, inner: kinds of the keys inside the file, rate: which dictionary layout
UPD = {
    'ionisation': dict(fn='update_ionisation_rates', sig=['sym'], inner=['num'], rate='adf11'),
    'recombination': dict(fn='update_recombination_rates', sig=['sym'], inner=['num'], rate='adf11'),
    'thermalCx': dict(fn='update_thermal_cx_rates', sig=['sym', 'num', 'sym'], inner=['num'], rate='adf11'),
    'linePower': dict(fn='update_line_power_rates', sig=['sym'], inner=['num'], rate='adf11'),
    'continuumPower': dict(fn='update_continuum_power_rates', sig=['sym'], inner=['num'], rate='adf11'),
    'cxPower': dict(fn='update_cx_power_rates', sig=['sym'], inner=['num'], rate='adf11'),
    'pec': dict(fn='update_pec_rates', sig=['str', 'sym', 'num'], inner=['tr'], rate='pec'),
    'pecThermalCx': dict(fn='update_pec_thermal_cx_rates', sig=['sym', 'num', 'sym', 'num'], inner=['tr'], rate='pec3'),
    'wavelength': dict(fn='update_wavelengths', sig=['sym', 'num'], inner=['tr'], rate='wl'),
    'beamCx': dict(fn='update_beam_cx_rates', sig=['sym', 'sym', 'num'], inner=['tr', 'num'], rate='bcx'),
    'beamStopping': dict(fn='update_beam_stopping_rates', sig=['sym', 'sym', 'num'], inner=[], rate='beam'),
    'beamPopulation': dict(fn='update_beam_population_rates', sig=['sym', 'num', 'sym', 'num'], inner=[], rate='beam'),
    'beamEmission': dict(fn='update_beam_emission_rates', sig=['sym', 'sym', 'num'], inner=['tr'], rate='beam'),
}
# getter families: (python getter, python adder, update family, short name used in signatures)
GETF = {
    'ionisation': ('get_ionisation_rate', 'add_ionisation_rate', 'ionisation', 'ionisation'),
    'recombination': ('get_recombination_rate', 'add_recombination_rate', 'recombination', 'recombination'),
    'thermalCx': ('get_thermal_cx_rate', 'add_thermal_cx_rate', 'thermalCx', 'thermal-cx'),
    'linePower': ('get_line_radiated_power_rate', 'add_line_power_rate', 'linePower', 'line'),
    'continuumPower': ('get_continuum_radiated_power_rate', 'add_continuum_power_rate', 'continuumPower', 'continuum'),
    'cxPower': ('get_cx_radiated_power_rate', 'add_cx_power_rate', 'cxPower', 'cx'),
    'pecExcitation': ('get_pec_excitation_rate', 'add_pec_excitation_rate', 'pec', 'pec-excitation'),
    'pecRecombination': ('get_pec_recombination_rate', 'add_pec_recombination_rate', 'pec', 'pec-recombination'),
    'pecThermalCx': ('get_pec_thermal_cx_rate', 'add_pec_thermal_cx_rate', 'pecThermalCx', 'pec-thermal-cx'),
    'wavelength': ('get_wavelength', 'add_wavelength', 'wavelength', 'wavelength'),
    'beamCx': ('get_beam_cx_rates', 'add_beam_cx_rate', 'beamCx', 'beam-cx'),
    'beamStopping': ('get_beam_stopping_rate', 'add_beam_stopping_rate', 'beamStopping', 'beam-stopping'),
    'beamPopulation': ('get_beam_population_rate', 'add_beam_population_rate', 'beamPopulation', 'beam-population'),
    'beamEmission': ('get_beam_emission_rate', 'add_beam_emission_rate', 'beamEmission', 'beam-emission'),
}
# families whose getters take the same kinds of arguments: a write to one is always checked against the others
SIBLINGS = [['ionisation', 'recombination', 'linePower', 'continuumPower', 'cxPower'],
            ['pecExcitation', 'pecRecombination', 'wavelength'],
            ['beamStopping'], ['beamEmission', 'beamCx'], ['thermalCx', 'beamPopulation'], ['pecThermalCx']]
# directory each family's files live in, as documented in the update_* docstrings (used only to name a misrouting)
DOC_DIR = {'ionisation': 'ionisation/', 'recombination': 'recombination/', 'thermalCx': 'thermal_cx/',
           'linePower': 'radiated_power/line/', 'continuumPower': 'radiated_power/continuum/', 'cxPower': 'radiated_power/cx/',
           'pecExcitation': 'pec/excitation/', 'pecRecombination': 'pec/recombination/', 'pecThermalCx': 'pec/thermal_cx/',
           'wavelength': 'wavelength/', 'beamCx': 'beam/cx/', 'beamStopping': 'beam/stopping/',
           'beamPopulation': 'beam/population/', 'beamEmission': 'beam/emission/'}
PEC_CLASS = {'pecExcitation': 'excitation', 'pecRecombination': 'recombination'}
INSTALLS = {v: k for k, v in repo_paths.INSTALL.items()}     # lean name -> python name

SPECIES = ['hydrogen', 'deuterium', 'tritium', 'helium', 'helium3', 'lithium', 'carbon', 'carbon13', 'neon', 'argon',
           'protium', 'tungsten']


def species(name):
    from cherab.core.atomic import elements
    return getattr(elements, name)


# ---- argument descriptors (JSON-able) -> python objects / protocol tokens -------------------------------------------
# ['E', name] element or isotope of the registry; ['X', s] a string where a species is expected; ['I', n]; ['C', s];
# ['T', upper, lower] (levels int or str)

def mat(a):
    k = a[0]
    if k == 'E':
        return species(a[1])
    if k in ('X', 'C'):
        return a[1]
    if k == 'I':
        return np.int64(a[1]) if len(a) > 2 and a[2] == 'i64' else a[1]
    if k == 'T':
        return (a[1], a[2])
    raise ValueError(a)


def lvl_tok(x):
    return 'i%d' % x if isinstance(x, (int, np.integer)) and not isinstance(x, bool) else 's' + hexs(str(x))


def obj_tok(o, kind):
    """protocol token(s) of a python object that sits at a position of the given kind"""
    from cherab.core.atomic import Element
    if kind == 'sym':
        if isinstance(o, Element):
            # last token: distinguishes registry objects that share symbol and Z (hydrogen / protium)
            return 'S 1 %s %d %d' % (hexs(o.symbol), o.atomic_number, getattr(o, 'mass_number', 0) or 0)
        return 'S 0 %s 0 0' % hexs(str(o))
    if kind == 'num':
        if isinstance(o, (int, np.integer)) and not isinstance(o, bool):
            return 'I %d' % o
        return 'C ' + hexs(str(o))
    if kind == 'str':
        return 'C ' + hexs(str(o))
    if kind == 'tr':
        return 'T %s %s' % (lvl_tok(o[0]), lvl_tok(o[1]))
    raise ValueError(kind)


_ERRS = ('TypeError', 'ValueError', 'KeyError', 'AttributeError', 'RuntimeError')


def _ek(e):
    k = exc_kind(e)
    return k if k in _ERRS else 'TypeError'


def arr_tok(a):
    bits = a.reshape(-1).view(np.uint64).tolist() if a.size else []
    return '%d %s %d %s' % (a.ndim, ' '.join(str(s) for s in a.shape), len(bits), ' '.join(str(b) for b in bits))


def raw_tok(x):
    """one object of a rate dictionary as the model receives it: the outcome of np.array(x, float64) and of float(x)
    (NumPy / float are external to the model; *where* the code applies them is what the model transcribes)"""
    with warnings.catch_warnings():
        warnings.simplefilter('ignore')
        try:
            at = 'A ' + arr_tok(np.array(x, np.float64))
        except Exception as e:  # noqa
            at = 'E ' + _ek(e)
        try:
            ft = 'F %d' % np.array(float(x), np.float64).reshape(1).view(np.uint64)[0]
        except Exception as e:  # noqa
            ft = 'E ' + _ek(e)
    return at + ' ' + ft


def rate_tok(rate, layout):
    if layout == 'wl':
        rate = {'value': rate}
    if not isinstance(rate, dict):
        return '0'
    return '%d %s' % (len(rate), ' '.join('%s %s' % (hexs(str(k)), raw_tok(v)) for k, v in rate.items()))


# descriptors of values that JSON cannot carry (replay files): {'__': tag, 'v': payload}
def mat_val(v):
    if isinstance(v, dict) and '__' in v:
        t, x = v['__'], v.get('v')
        if t == 'f32':
            return np.float32(x)
        if t == 'i64':
            return np.int64(x)
        if t == 'nd0':
            return np.array(x)
        if t == 'nd':
            return np.array(x, dtype=v.get('dtype'))
        if t == 'obj':
            return np.array(x, dtype=object)
        if t == 'set':
            return set(x)
        if t == 'cplx':
            return [complex(a, b) for a, b in x]
        if t == 'bytes':
            return x.encode()
        raise ValueError(v)
    return v


def mat_rate(rate):
    if isinstance(rate, dict) and '__' not in rate:
        return {k: mat_val(v) for k, v in rate.items()}
    return mat_val(rate)


def canon_arr(x):
    with warnings.catch_warnings():
        warnings.simplefilter('ignore')
        try:
            a = np.array(x, np.float64)
        except Exception:  # noqa   (only for entries the repository stores verbatim: extra keys of beam stopping files)
            return ('verbatim', repr(x))
    return (tuple(a.shape), tuple(a.reshape(-1).view(np.uint64).tolist()) if a.size else ())


def canon_val(d):
    if not isinstance(d, dict):
        d = {'value': d}
    return {k: canon_arr(v) for k, v in d.items()}


# what the matching getter is expected to return for a rate dictionary that was written (the property's "arrays most
# recently written"): arrays as float64 arrays, scalars as floats; the adf11 writers take the table under 'rates' and the
# readers return it under 'rate'; beam stopping / population files hold the whole dictionary that was passed
LAYOUT = {'adf11': (['ne', 'te', 'rates'], []), 'pec': (['ne', 'te', 'rate'], []), 'pec3': (['ne', 'te', 'td', 'rate'], []),
          'bcx': (['eb', 'ti', 'ni', 'z', 'b', 'qeb', 'qti', 'qni', 'qz', 'qb'], ['qref']),
          'beam': (['e', 'n', 't', 'sen', 'st'], ['eref', 'nref', 'tref', 'sref'])}


def stored(rate, layout, whole=False):
    with warnings.catch_warnings():
        warnings.simplefilter('ignore')
        if layout == 'wl':
            return canon_val(float(rate))
        arrays, scalars = LAYOUT[layout]
        out = {}
        for k in arrays:
            out['rate' if k == 'rates' else k] = canon_arr(np.array(rate[k], np.float64))
        for k in scalars:
            out[k] = canon_arr(float(rate[k]))
        if whole:
            for k, v in rate.items():
                if k not in out:
                    out[k] = canon_arr(json.loads(json.dumps(v)))
        return out


# --------------------------------------------------------------------------------------------------------------------
# nested dictionaries <-> flat entries
# --------------------------------------------------------------------------------------------------------------------

def set_nested(d, path, value):
    for p in path[:-1]:
        d = d.setdefault(p, {})
    d[path[-1]] = value


def flatten(ufam, nested):
    """entries of a nested update dictionary in true iteration order: [(args, [(innerkey, rate)])]"""
    depth = len(UPD[ufam]['sig'])
    inner = UPD[ufam]['inner']
    out = []

    def walk(d, args):
        if len(args) == depth:
            if not inner:
                items = [([], d)]
            elif len(inner) == 1:
                items = [([k], r) for k, r in d.items()] if isinstance(d, dict) else []
            else:
                items = [([t, m], r) for t, ms in d.items() for m, r in ms.items()]
            out.append((args, items))
            return
        for k, v in d.items():
            walk(v, args + [k])
    walk(nested, [])
    return out


def input_tok(ufam, nested):
    u = UPD[ufam]
    ents = flatten(ufam, nested)
    parts = [str(len(ents))]
    for args, items in ents:
        parts.append(str(len(args)))
        parts += [obj_tok(a, k) for a, k in zip(args, u['sig'])]
        parts.append(str(len(items)))
        for key, rate in items:
            parts.append(str(len(key)))
            parts += [obj_tok(a, k) for a, k in zip(key, u['inner'])]
            parts.append(rate_tok(rate, u['rate']))
    return ' '.join(parts)


def tkey(t):
    return (str(t[0]).lower(), str(t[1]).lower())


def okey(o):
    from cherab.core.atomic import Element
    if isinstance(o, Element):
        return o.symbol
    if isinstance(o, tuple):
        return tkey(o)
    return o


def targets(ufam, nested):
    """[(getter family, key parts (python objects, getter order[, metastable]), rate)] addressed by an update dictionary"""
    out = []
    for args, items in flatten(ufam, nested):
        for key, rate in items:
            path = list(args) + list(key)
            if ufam == 'pec':
                cls = str(path[0]).lower()
                gf = {'excitation': 'pecExcitation', 'recombination': 'pecRecombination'}.get(cls)
                if gf is None:
                    continue
                out.append((gf, path[1:], rate))
            else:
                out.append((ufam, path, rate))
    return out


# --------------------------------------------------------------------------------------------------------------------
# one repository universe: two explicit roots + the default root under the temporary HOME
# --------------------------------------------------------------------------------------------------------------------

class World:
    def __init__(self):
        self.home = prepare_home()
        self.dirs = {'A': tempfile.mkdtemp(prefix='c06A_'), 'B': tempfile.mkdtemp(prefix='c06B_')}
        shutil.rmtree(os.path.join(self.home, '.cherab'), ignore_errors=True)

    def path(self, root):
        return None if root is None else self.dirs[root]

    def close(self):
        for d in self.dirs.values():
            shutil.rmtree(d, ignore_errors=True)
        shutil.rmtree(os.path.join(self.home, '.cherab'), ignore_errors=True)

    def listing(self):
        """all files, as the model names them: '<root name>/rel' and '~/.cherab/...'; with (bytes, mtime) for diffing"""
        out = {}
        for name, d in self.dirs.items():
            for r, _, fs in os.walk(d):
                for f in fs:
                    p = os.path.join(r, f)
                    out[name + '/' + os.path.relpath(p, d)] = (open(p, 'rb').read(), os.stat(p).st_mtime_ns)
        ch = os.path.join(self.home, '.cherab')
        for r, _, fs in os.walk(ch):
            for f in fs:
                p = os.path.join(r, f)
                out['~/' + os.path.relpath(p, self.home)] = (open(p, 'rb').read(), os.stat(p).st_mtime_ns)
        return out


def root_tok(root):
    return '-' if root is None else hexs(root)


# --------------------------------------------------------------------------------------------------------------------
# operations
# --------------------------------------------------------------------------------------------------------------------
# op descriptor (JSON-able):
#   dict(kind='upd', fam=<update family>, root='A'|'B'|None, entries=[(path argdescs, rate)])
#   dict(kind='add', fam=<getter family>, root=..., path=[argdescs in update nesting order], rate=..., documented=bool)
#   dict(kind='ins', fn=<lean install name>, root=..., parsed=<fake parser output descriptor>)

def build_nested(ufam, entries):
    nested = {}
    for path, rate in entries:
        objs = [mat(a) for a in path]
        set_nested(nested, objs, mat_rate(copy.deepcopy(rate)))
    return nested


def add_call(gfam, path_objs, rate):
    """positional arguments of add_<family> for a write entry given in update nesting order"""
    if gfam == 'beamCx':
        d, r, q, t, m = path_objs
        return [d, m, r, q, t, rate]
    if gfam == 'thermalCx':
        d, dq, r, rq = path_objs
        return [d, dq, r, {rq: rate}]
    if gfam in PEC_CLASS:
        return list(path_objs[1:]) + [rate]
    return list(path_objs) + [rate]


NO_RATE = object()


def add_tok(gfam, path_objs, rate, documented=False):
    """model line payload: <n> {arg} <items>; arguments in the python positional order of add_<family>"""
    ufam = GETF[gfam][2]
    u = UPD[ufam]
    kinds = u['sig'] + u['inner']
    if gfam == 'beamCx':
        d, r, q, t, m = path_objs
        args = [(d, 'sym'), (m, 'num'), (r, 'sym'), (q, 'num'), (t, 'tr')]
        items = [([], rate)]
    elif gfam == 'thermalCx':
        d, dq, r, rq = path_objs
        args = [(d, 'sym'), (dq, 'num'), (r, 'sym')]
        if documented:      # the documented call passes the rate dictionary itself: its keys play the role of charges
            items = [([(k, 'num')], NO_RATE) for k in rate]
        else:
            items = [([(rq, 'num')], rate)]
    elif gfam in PEC_CLASS:
        args = list(zip(path_objs[1:], kinds[1:]))
        items = [([], rate)]
    else:
        args = list(zip(path_objs, kinds))
        items = [([], rate)]
    parts = [str(len(args))] + [obj_tok(o, k) for o, k in args] + [str(len(items))]
    for key, r in items:
        parts.append(str(len(key)))
        parts += [obj_tok(o, k) for o, k in key]
        parts.append(rate_tok(r, u['rate']) if r is not NO_RATE else '0')
    return ' '.join(parts)


def get_call_and_tok(gfam, keyparts):
    """keyparts: python objects in getter order (beam cx: donor, receiver, charge, transition)"""
    ufam = GETF[gfam][2]
    u = UPD[ufam]
    kinds = (u['sig'] + u['inner'])
    if gfam in PEC_CLASS:
        kinds = kinds[1:]
    if gfam == 'beamCx':
        kinds = kinds[:4]
    tok = '%d %s' % (len(keyparts), ' '.join(obj_tok(o, k) for o, k in zip(keyparts, kinds)))
    return tok


def real_get(repository, gfam, keyparts, root_path):
    """-> ('ok', canonical) | (exception kind, message); canonical: {'': val} or {metastable: val} for beam cx"""
    fn = getattr(repository, GETF[gfam][0])
    try:
        r = fn(*keyparts, repository_path=root_path)
    except Exception as e:  # noqa
        return exc_kind(e), str(e)[:120]
    if gfam == 'beamCx':
        return 'ok', {int(m): canon_val(v) for m, v in r}
    return 'ok', {'': canon_val(r)}


def parse_model_get(out, gfam):
    """driver output of a get line -> same canonical form"""
    ts = out.split()
    if not ts or ts[0] != 'ok':
        return out, None
    i = 1
    n = int(ts[i]); i += 1
    res = {}
    for _ in range(n):
        assert ts[i] == 'k'; i += 1
        nk = int(ts[i]); i += 1
        ik = [bytes.fromhex(t).decode() if t != '-' else '' for t in ts[i:i + nk]]; i += nk
        assert ts[i] == 'v'; i += 1
        nf = int(ts[i]); i += 1
        val = {}
        for _ in range(nf):
            name = bytes.fromhex(ts[i]).decode(); i += 1
            nd = int(ts[i]); i += 1
            shape = tuple(int(t) for t in ts[i:i + nd]); i += nd
            m = int(ts[i]); i += 1
            bits = tuple(int(t) for t in ts[i:i + m]); i += m
            val[name] = (shape, bits)
        res[int(ik[1]) if gfam == 'beamCx' else ''] = val
    return 'ok', res


# ---- fake parser outputs for the install_* front-ends (the parsers belong to C08) ------------------------------------

def fake_parsed(fn, a):
    """the object parse_adfXX would return, built from a small descriptor `a` (JSON-able)"""
    from cherab.core.utility import RecursiveDict
    el = species(a['element'])
    q = a['charge']
    if fn.startswith('adf11'):
        n, m = a['shape']
        base = a['base']
        return {el: {q: {'ne': np.array([13.0 + i for i in range(n)]), 'te': np.array([0.5 * j for j in range(m)]),
                         'rates': np.array([[base - 10.0 - i - 0.25 * j for j in range(m)] for i in range(n)])}}}
    if fn == 'adf12':
        don = species(a['donor'])
        return {don: {el: {q: {tuple(a['transition']): {a['metastable']: mk_rate('bcx', a['base'], (2, 2))}}}}}
    if fn == 'adf15':
        r = RecursiveDict()
        w = RecursiveDict()
        for cls in a['classes']:
            for t in a['transitions']:
                rr = mk_rate('pec', a['base'] + len(cls), tuple(a['shape']))
                rr = {k: np.array(v) for k, v in rr.items()}
                r[cls][el][q][tuple(t)] = rr
                w[el][q][tuple(t)] = 400.0 + a['base'] + t[0]
        return r, w.freeze()
    beam = species(a['donor'])
    if fn == 'adf21':
        return {beam: {el: {q: mk_rate('beam', a['base'], (2, 3))}}}
    if fn == 'adf22bmp':
        return {beam: {a['metastable']: {el: {q: mk_rate('beam', a['base'], (2, 3))}}}}
    if fn == 'adf22bme':
        return {beam: {el: {q: {tuple(a['transition']): mk_rate('beam', a['base'], (2, 3))}}}}
    raise ValueError(fn)


def install_args(fn, a, path='dummy.dat'):
    el = species(a['element'])
    q = a['charge']
    if fn == 'adf11ccd':
        return [species(a['donor']), a['donor_charge'], el, path]
    if fn.startswith('adf11'):
        return [el, path]
    if fn == 'adf12':
        return [species(a['donor']), a['metastable'], el, q, path]
    if fn == 'adf15':
        return [el, q, path]
    if fn == 'adf21':
        return [species(a['donor']), el, q, path]
    if fn == 'adf22bmp':
        return [species(a['donor']), a['metastable'], el, q, path]
    if fn == 'adf22bme':
        return [species(a['donor']), el, q, tuple(a['transition']), path]
    raise ValueError(fn)


PARSER_OF = {'adf11scd': 'parse_adf11', 'adf11acd': 'parse_adf11', 'adf11ccd': 'parse_adf11', 'adf11plt': 'parse_adf11',
             'adf11prb': 'parse_adf11', 'adf11prc': 'parse_adf11', 'adf12': 'parse_adf12', 'adf15': 'parse_adf15',
             'adf21': 'parse_adf21', 'adf22bmp': 'parse_adf22bmp', 'adf22bme': 'parse_adf22bme'}


class Patched:
    """repository.update_* wrapped by recorders; with `parsed_for`, install.py's parsers and file locator are replaced too"""

    def __init__(self, parsed_for):
        self.parsed_for = parsed_for      # callable(parser name, args) -> object, or None: real parsers
        self.calls = []

    def __enter__(self):
        from cherab.openadas import install, repository
        self.install, self.repository = install, repository
        self.saved = {}
        if self.parsed_for is not None:
            for p in set(PARSER_OF.values()):
                self.saved[('i', p)] = getattr(install, p)
                setattr(install, p, (lambda name: lambda *a, **k: self.parsed_for(name, a, k))(p))
            self.saved[('i', '_locate_adas_file')] = install._locate_adas_file
            install._locate_adas_file = lambda file_path, download=False, adas_path=None, repository_path=None: file_path
        for name in repo_paths.UPD:
            real = getattr(repository, name)
            self.saved[('r', name)] = real

            def rec(rates, repository_path=None, _real=real, _name=name):
                self.calls.append((_name, copy.deepcopy(rates), repository_path))
                return _real(rates, repository_path)
            setattr(repository, name, rec)
        return self

    def __exit__(self, *exc):
        for (w, name), v in self.saved.items():
            setattr(self.install if w == 'i' else self.repository, name, v)
        return False


# --------------------------------------------------------------------------------------------------------------------
# rate generators
# --------------------------------------------------------------------------------------------------------------------
EDGE = [0.0, -0.0, 5e-324, 1e-300, 1e300, -1e300, 1.0, 0.1, 1e19, 2.2250738585072014e-308, 1.7976931348623157e308,
        float('inf'), float('-inf'), float('nan')]


def mk_rate(layout, base, shape):
    """deterministic well-formed rate dictionary (lists), values distinct per base"""
    n = shape[0]
    m = shape[1] if len(shape) > 1 else 1
    ne = [1e18 * (i + 1) for i in range(n)]
    te = [1.5 * (j + 1) for j in range(m)]
    tab = [[base + i + 0.125 * j for j in range(m)] for i in range(n)]
    if layout == 'adf11':
        return {'ne': ne, 'te': te, 'rates': tab}
    if layout == 'pec':
        return {'ne': ne, 'te': te, 'rate': tab}
    if layout == 'pec3':
        k = shape[2] if len(shape) > 2 else 2
        return {'ne': ne, 'te': te, 'td': [0.5 * (c + 1) for c in range(k)],
                'rate': [[[base + i + 0.125 * j + 0.001 * c for c in range(k)] for j in range(m)] for i in range(n)]}
    if layout == 'wl':
        return 400.0 + base
    if layout == 'bcx':
        d = {'qref': base * 1e-15}
        for x, y, ln in (('eb', 'qeb', n), ('ti', 'qti', m), ('ni', 'qni', n + 1), ('z', 'qz', 1), ('b', 'qb', m + 1)):
            d[x] = [float(i + 1) for i in range(ln)]
            d[y] = [base + 0.5 * i for i in range(ln)]
        return d
    if layout == 'beam':
        return {'e': ne, 'n': te, 't': [10.0 * (i + 1) for i in range(n + 1)], 'sen': tab,
                'st': [base + 0.25 * i for i in range(n + 1)],
                'eref': 1.0 + base, 'nref': 2.0 + base, 'tref': 3.0 + base, 'sref': 4.0 + base}
    raise ValueError(layout)


def rnd_rate(rng, layout, bad=None):
    shape = (rng.choice([1, 1, 2, 3]), rng.choice([1, 1, 2, 3]), rng.choice([1, 2]))
    r = mk_rate(layout, rng.choice([rng.uniform(-5, 5), float(rng.randint(0, 9))]), shape)
    if layout == 'wl':
        if rng.random() < 0.3:
            r = rng.choice(EDGE)
        if bad == 'shape':
            r = [1.0, 2.0]
        return r
    # sprinkle edge values
    if rng.random() < 0.4:
        for k, v in r.items():
            if isinstance(v, list) and v and not isinstance(v[0], list) and rng.random() < 0.5:
                v[rng.randrange(len(v))] = rng.choice(EDGE)
        tabk = 'rates' if layout == 'adf11' else ('rate' if layout in ('pec', 'pec3') else None)
        if tabk and layout != 'pec3':
            r[tabk][0][0] = rng.choice(EDGE)
    if bad == 'shape':
        key = {'adf11': 'rates', 'pec': 'rate', 'pec3': 'rate', 'bcx': rng.choice(['qeb', 'qz', 'qb']),
               'beam': rng.choice(['sen', 'st'])}[layout]
        v = np.array(r[key], np.float64)
        r[key] = np.concatenate([v, v[:1]], axis=0).tolist()
    elif bad == 'ndim':
        key = {'adf11': 'ne', 'pec': 'te', 'pec3': 'td', 'bcx': 'ti', 'beam': 'n'}[layout]
        r[key] = [list(np.array(r[key], np.float64).tolist())]
    elif bad == 'missing':
        key = {'adf11': rng.choice(['rates', 'te']), 'pec': rng.choice(['rate', 'ne']), 'pec3': 'td',
               'bcx': rng.choice(['qref', 'qni']), 'beam': rng.choice(['sref', 'st'])}[layout]
        del r[key]
    elif bad == 'scalar' and layout in ('bcx', 'beam'):
        r['qref' if layout == 'bcx' else 'tref'] = [1.0, 2.0]
    return r


LEVELS_INT = [1, 2, 3, 10]
LEVELS_STR = ['2s1 3p1 3P4.0', '2S1 3P1 3p4.0', '2s1 3s1 3S1.0', '2S1 3s1 3s1.0', 'n=3', 'N=3', '3', '2', 'a', 'A',
              # near-collisions: the documented key is str().lower() and nothing else
              ' n=3', 'n=3 ', 'n= 3', ' a', 'a ', 'a b', 'a  b', '03', '3.0', ' 3', '2s1  3p1 3P4.0', '2s1 3p1 3P4.0 ']


def level_variants(x):
    """[(variant, aliases x under the documented encoding str().lower())] -- every normalisation a key helper might be
    tempted to apply: padding, inner spacing, case, int <-> numeric string, numeric re-formatting"""
    sx = str(x)
    out = [(' ' + sx, False), (sx + ' ', False), (' ' + sx + ' ', False), ('\t' + sx, False), (sx + '\n', False)]
    if ' ' in sx:
        out += [(sx.replace(' ', '  ', 1), False), (sx.replace(' ', '', 1), False), (sx.replace(' ', '\t', 1), False),
                (sx.replace(' ', '_', 1), False)]
    if sx.lower() != sx.upper():
        out += [(sx.swapcase(), True), (sx.upper(), True), (sx.lower(), sx.lower() != sx or True)]
    if isinstance(x, int):
        out += [(sx, True), ('0' + sx, False), (sx + '.0', False), (float(x), False), ('+' + sx, False)]
    seen, res = set(), []
    for v, alias in out:
        if (repr(v)) not in seen and v != x:
            seen.add(repr(v))
            res.append((v, str(v).lower() == sx.lower()))
    return res


_pool = {'species': None, 'trans': None}


def rnd_transition(rng, fresh=False):
    if _pool['trans'] and not fresh:
        return list(rng.choice(_pool['trans']))
    k = rng.random()
    if k < 0.4:
        return ['T', rng.choice(LEVELS_INT), rng.choice(LEVELS_INT)]
    if k < 0.9:
        return ['T', rng.choice(LEVELS_STR), rng.choice(LEVELS_STR)]
    return ['T', rng.choice(LEVELS_INT), rng.choice(LEVELS_STR)]


def rnd_species(rng, bad=False):
    if bad:
        return ['X', rng.choice(['c', 'H', 'neon'])]
    return ['E', rng.choice(_pool['species'] or SPECIES)]


# index (in update nesting order) of the charge that valid_charge() checks against the preceding species
CHARGE_POS = {'ionisation': 1, 'recombination': 1, 'thermalCx': 3, 'linePower': 1, 'continuumPower': 1, 'cxPower': 1,
              'pec': 2, 'pecThermalCx': 3, 'wavelength': 1, 'beamCx': 2, 'beamStopping': 2, 'beamPopulation': 3,
              'beamEmission': 2}
METASTABLE_POS = {'beamCx': 4, 'beamPopulation': 1}


def rnd_path(rng, ufam, bad=None):
    """argument descriptors for one write entry, in update nesting order"""
    u = UPD[ufam]
    kinds = u['sig'] + u['inner']
    path = []
    last_sp = None
    badpos = None
    if bad == 'species':
        badpos = rng.choice([i for i, k in enumerate(u['sig']) if k == 'sym'])
    for i, k in enumerate(kinds):
        if k == 'sym':
            a = rnd_species(rng, bad=(i == badpos))
            last_sp = a
            path.append(a)
        elif k == 'num':
            z = species(last_sp[1]).atomic_number if last_sp and last_sp[0] == 'E' else 2
            if METASTABLE_POS.get(ufam) == i:
                n = rng.choice([0, 1, 1, 2, 3, 10, 11])
                if bad == 'metastable':
                    n = -rng.choice([1, 2])
            elif CHARGE_POS[ufam] == i:
                n = rng.randint(0, min(z, 3)) if rng.random() < 0.8 else z
                if z >= 10 and rng.random() < 0.4:
                    n = rng.choice([1, 10, 11 if z >= 11 else 10, z])        # '1' / '10' / '11': prefixes of each other
                if bad == 'charge':
                    n = z + rng.choice([1, 2, 5])
            else:                                                # donor charge
                n = rng.randint(0, max(0, z - 1))
                if bad == 'donor-charge' :
                    n = z
            path.append(['I', n])
        elif k == 'str':
            c = rng.choice(['excitation', 'recombination'])
            if bad == 'class':
                c = rng.choice(['thermal_cx', 'Excitation', 'RECOMBINATION', 'foo'])
            path.append(['C', c])
        elif k == 'tr':
            path.append(rnd_transition(rng))
    return path


# --------------------------------------------------------------------------------------------------------------------
# synthesised ADF15 file (hydrogen-style metadata), so that install_adf15 also runs with the real parser
# --------------------------------------------------------------------------------------------------------------------

def write_adf15(path, blocks):
    """blocks: [(upper n, lower n, 'EXCIT'|'RECOM'|'CHEXC', wavelength A, ne[], te[], table[ne][te])]"""
    out = ['   %d    /SYNTHETIC ADF15 FOR C06/' % len(blocks)]
    for i, (u, l, typ, wl, ne, te, tab) in enumerate(blocks, 1):
        out.append(' %9.1f A %4d %4d /FILMEM = bnd     /TYPE = %s  /INDM = T/ISEL =  %4d' % (wl, len(ne), len(te), typ, i))
        out.append(' '.join('%.5E' % v for v in ne))
        out.append(' '.join('%.5E' % v for v in te))
        for row in tab:
            out.append(' '.join('%.5E' % v for v in row))
    out.append('C' + '-' * 70)
    out.append('C')
    out.append('C  ISEL  WAVELENGTH      TRANSITION          TYPE')
    out.append('C  ----  ----------      ----------          ----')
    for i, (u, l, typ, wl, ne, te, tab) in enumerate(blocks, 1):
        out.append('C %4d.  %9.1f       N=%2d - N=%2d        %s' % (i, wl, u, l, typ))
    out.append('C')
    with open(path, 'w') as f:
        f.write('\n'.join(out) + '\n')


# --------------------------------------------------------------------------------------------------------------------
# minimal synthetic ADF files for every install_* (fixed-column text the real parsers accept)
# --------------------------------------------------------------------------------------------------------------------

def _cols(vals, per_line, fmt='%9.3E'):
    """lines of 10-character fields: one ignored character, then 9 characters of value"""
    out = []
    for i in range(0, len(vals), per_line):
        out.append(''.join(' ' + (fmt % v) for v in vals[i:i + per_line]))
    return out


def write_adf11(path, element, charges, n, m, base):
    lines = ['%5d%5d%5d%5d%5d     /%-18s  /SYNTHETIC C06' % (element.atomic_number, n, m, min(charges), max(charges), element.name.upper()),
             '-' * 60,
             ' ' + ' '.join('%8.5f' % (8.0 + i) for i in range(n)),
             ' ' + ' '.join('%8.5f' % (0.5 * j) for j in range(m))]
    for z1 in charges:
        lines.append('-' * 20 + '/ IPRT= 1  / IGRD= 1  / Z1= %d   / DATE= 01/01/01' % z1)
        for j in range(m):
            lines.append(' ' + ' '.join('%9.5f' % (-(10.0 + base + z1 + 0.25 * j + 0.0625 * i)) for i in range(n)))
    lines += ['C' + '-' * 60, 'C', 'C  synthetic', 'C' + '-' * 60]
    _write(path, lines)


def write_adf12(path, transitions, base):
    lines = ['%5d' % len(transitions)]
    for k, (up, lo) in enumerate(transitions):
        lines.append(' ' * 38 + '%2d-%2d' % (up, lo))
        lines += _cols([(base + 1 + k) * 1e-9], 6)
        lines += _cols([40000.0, 100.0, 1e13, 2.0, 3.0], 6)
        nb, nt, nd, nz, nm = 3, 2, 2, 1, 2
        lines += _cols([nb, nt, nd, nz, nm], 6, '%9d')
        pad = lambda v, n: list(v) + [0.0] * (n - len(v))
        lines += _cols(pad([1e4 * (i + 1) for i in range(nb)], 24), 6)
        lines += _cols(pad([(base + 1 + i) * 1e-9 for i in range(nb)], 24), 6)
        lines += _cols(pad([10.0 * (i + 1) for i in range(nt)], 12), 6)
        lines += _cols(pad([(base + 2 + i) * 1e-9 for i in range(nt)], 12), 6)
        lines += _cols(pad([1e12 * (i + 1) for i in range(nd)], 24), 6)
        lines += _cols(pad([(base + 3 + i) * 1e-9 for i in range(nd)], 24), 6)
        lines += _cols(pad([1.0 + i for i in range(nz)], 12), 6)
        lines += _cols(pad([(base + 4 + i) * 1e-9 for i in range(nz)], 12), 6)
        lines += _cols(pad([1.0 + i for i in range(nm)], 12), 6)
        lines += _cols(pad([(base + 5 + i) * 1e-9 for i in range(nm)], 12), 6)
    _write(path, lines)


def _place(width, items):
    l = [' '] * width
    for col, text in items:
        l[col:col + len(text)] = list(text)
    return ''.join(l)


def write_adf2x(path, charge, base, neb=3, ndt=2, ntt=3):
    lines = [_place(60, [(3, '%2d' % charge), (13, '%9.3E' % ((base + 1) * 1e-7)), (29, 'XX'), (38, '01/01/01'), (53, 'C06')]),
             '-' * 60,
             _place(40, [(1, '%4d' % neb), (6, '%4d' % ndt), (17, '%9.3E' % 2000.0)]),
             '-' * 60]
    lines += _cols([5e3 * (i + 1) for i in range(neb)], 8)
    lines += _cols([1e13 * (i + 1) for i in range(ndt)], 8)
    lines.append('-' * 60)
    for j in range(ndt):
        lines += _cols([(base + 1 + i + 0.5 * j) * 1e-7 for i in range(neb)], 8)
    lines.append('-' * 60)
    lines.append(_place(50, [(1, '%4d' % ntt), (12, '%9.3E' % 65000.0), (28, '%9.3E' % 6e13)]))
    lines.append('-' * 60)
    lines += _cols([100.0 * (i + 1) for i in range(ntt)], 8)
    lines.append('-' * 60)
    lines += _cols([(base + 2 + i) * 1e-7 for i in range(ntt)], 8)
    _write(path, lines)


def write_adf15_any(path, element, charge, blocks):
    """blocks as for write_adf15; the index in the comment section is written in the format parse_adf15 will look for:
    hydrogen (N= u - N= l), hydrogen-like (u - l) or full (configuration table + level ids)"""
    from cherab.core.atomic import hydrogen
    out = ['   %d    /SYNTHETIC ADF15 FOR C06/' % len(blocks)]
    for i, (u, l, typ, wl, ne, te, tab) in enumerate(blocks, 1):
        out.append(' %9.1f A %4d %4d /FILMEM = bnd     /TYPE = %s  /INDM = T/ISEL =  %4d' % (wl, len(ne), len(te), typ, i))
        out.append(' '.join('%.5E' % v for v in ne))
        out.append(' '.join('%.5E' % v for v in te))
        for row in tab:
            out.append(' '.join('%.5E' % v for v in row))
    out.append('C' + '-' * 70)
    out.append('C')
    if element == hydrogen:
        fmt = 'h'
    elif element.atomic_number - charge == 1:
        fmt = 'hl'
    else:
        fmt = 'full'
        out.append('C  Configuration          (2S+1)L(w-1/2)  Energy (cm**-1)')
        out.append('C  -------------          --------------  ---------------')
        for lev in sorted({b[0] for b in blocks} | {b[1] for b in blocks}):
            out.append('C %5d    1S2 2S%d              (%d)%d( %3.1f)      %10.1f' % (lev, lev % 9 + 1, 2, lev % 4, 0.5, 1000.0 * lev))
        out.append('C')
    out.append('C  ISEL  WAVELENGTH      TRANSITION          TYPE')
    out.append('C  ----  ----------      ----------          ----')
    for i, (u, l, typ, wl, ne, te, tab) in enumerate(blocks, 1):
        if fmt == 'h':
            out.append('C %4d.  %9.1f       N=%2d - N=%2d        %s' % (i, wl, u, l, typ))
        else:
            out.append('C %4d.  %9.1f     %3d -%3d          %s' % (i, wl, u, l, typ))
    out.append('C')
    _write(path, out)


def _write(path, lines):
    os.makedirs(os.path.dirname(path), exist_ok=True)
    with open(path, 'w') as f:
        f.write('\n'.join(lines) + '\n')


def synth_from_args(fn, args, path, base):
    """a synthetic file for `install_<fn>(*args)`; args as install_files passes them (last one: the file path)"""
    if fn.startswith('adf11'):
        el = args[2] if fn == 'adf11ccd' else args[0]
        z = el.atomic_number
        write_adf11(path, el, [1] if z == 1 else [1, 2], 2 + int(base) % 2, 2, base)
    elif fn == 'adf12':
        write_adf12(path, [(3, 2), (8, 7)][: 1 + int(base) % 2], base)
    elif fn == 'adf15':
        el, q = args[0], int(args[1])
        blocks = []
        for k, (u, l, typ) in enumerate([(3, 2, 'EXCIT'), (3, 2, 'RECOM'), (4, 2, 'EXCIT'), (4, 2, 'CHEXC')][: 2 + int(base) % 3]):
            blocks.append((u, l, typ, 1000.0 * u + 10 * k, [1e8, 1e9], [1.0, 10.0][: 1 + k % 2],
                           [[(base + 1 + i + 0.25 * j + k) * 1e-9 for j in range(1 + k % 2)] for i in range(2)]))
        write_adf15_any(path, el, q, blocks)
    elif fn == 'adf21':
        write_adf2x(path, args[2], base)
    elif fn == 'adf22bmp':
        write_adf2x(path, args[3], base, neb=2, ndt=2, ntt=2)
    elif fn == 'adf22bme':
        write_adf2x(path, args[2], base, neb=2, ndt=3, ntt=2)
    else:
        raise ValueError(fn)


# --------------------------------------------------------------------------------------------------------------------
# running a history on the real implementation, with the property oracle (S) and the model lines (K)
# --------------------------------------------------------------------------------------------------------------------
MISSING = '<missing>'
UNREADABLE = '<unreadable: getter raises something else than RuntimeError>'


def gettable(keyparts):
    from cherab.core.atomic import Element
    for o in keyparts:
        if isinstance(o, str) or isinstance(o, (list, dict)):
            return False
        if not isinstance(o, (Element, int, tuple)):
            return False
    return True


class History:
    """executes ops on the real repository functions; accumulates protocol lines + observations and oracle verdicts"""

    def __init__(self, facts, max_other=1000, rng=None):
        self.facts = facts
        self.max_other = max_other
        self.rng = rng
        self.lines = ['reset']
        self.obs = [('reset', 'ok', None)]
        self.failures = []          # dict(signature, description, at)
        self.tracked = {}           # key -> (gfam, root, getter keyparts)   (beam cx: without the metastable)
        self.oracle = {}            # key(+m) -> canonical value
        self.amb = {}               # key(+m) -> allowed values after a rejected write
        self.stats = {}
        self.nops = 0
        self.statuses = []
        self.unreadable = set()

    def count(self, k):
        self.stats[k] = self.stats.get(k, 0) + 1

    # ---- keys -----------------------------------------------------------------------------------------------------
    @staticmethod
    def key_of(root, gfam, keyparts):
        return (root, gfam) + tuple(okey(o) for o in keyparts)

    def track(self, root, gfam, keyparts, siblings=True):
        gp = list(keyparts[:4]) if gfam == 'beamCx' else list(keyparts)
        if not gettable(gp):
            return []
        new = []
        fams = [gfam] + ([g for grp in SIBLINGS if gfam in grp for g in grp if g != gfam] if siblings else [])
        for g in fams:
            k = self.key_of(root, g, gp)
            if k not in self.tracked:
                self.tracked[k] = (g, root, gp)
                new.append(k)
        return new

    def pre_read(self, world, root, tg):
        """keys that become tracked by this call: what do they hold *before* it?  The oracle says nothing was ever
        written to them.  If an earlier call of this history already failed, a stored value is an echo of that failure
        (adopted); otherwise it is a failure of its own."""
        from cherab.openadas import repository
        for gfam, kp, _ in tg:
            for k in self.track(root, gfam, kp):
                g, kroot, gp = self.tracked[k]
                st, res = real_get(repository, g, gp, world.path(kroot))
                if self.judge(k, g, st, res) is None:
                    continue
                if self.failures:
                    self.count('echo-of-earlier-failure-adopted')
                    self.adopt(k, g, st, res)
                else:
                    self.failures.append(dict(signature='C06:history:untracked-key-holds-a-value', at=self.nops - 1,
                                              description='%s(%s) returns a value although no call wrote that key' %
                                              (GETF[g][0], ', '.join(str(okey(o)) for o in gp))))
                    self.adopt(k, g, st, res)

    def adopt(self, k, gfam, st, res):
        if st not in ('ok', 'RuntimeError'):
            self.unreadable.add(k)        # already reported; not reported again while it lasts
        else:
            self.unreadable.discard(k)
        if gfam == 'beamCx':
            for kk in [kk for kk in list(self.oracle) + list(self.amb) if kk[:6] == k]:
                self.oracle.pop(kk, None)
                self.amb.pop(kk, None)
            if st == 'ok':
                for m, v in res.items():
                    self.oracle[k + (m,)] = v
        else:
            self.amb.pop(k, None)
            if st == 'ok':
                self.oracle[k] = res['']
            else:
                self.oracle.pop(k, None)

    # ---- one operation -----------------------------------------------------------------------------------------------
    def execute(self, world, op, before_call=lambda tg: None):
        from cherab.openadas import repository, install
        root = op['root']
        rp = world.path(root)
        tg = []
        pyfn = None
        if op['kind'] == 'upd':
            ufam = op['fam']
            nested = build_nested(ufam, op['entries'])
            pyfn = UPD[ufam]['fn']
            line = 'upd %s %s %s' % (ufam, root_tok(root), input_tok(ufam, nested))
            tg = [(g, kp, copy.deepcopy(r)) for g, kp, r in targets(ufam, nested)]
            f = getattr(repository, pyfn)
            before_call(tg)
            status = _status(lambda: f(nested, rp) if op.get('positional') else f(nested, repository_path=rp))
        elif op['kind'] == 'add':
            gfam = op['fam']
            objs = [mat(a) for a in op['path']]
            rate = mat_rate(copy.deepcopy(op['rate']))
            if op.get('numpy') and isinstance(rate, dict):
                rate = {k: (np.array(v) if isinstance(v, list) else v) for k, v in rate.items()}
            pyfn = GETF[gfam][1]
            doc = bool(op.get('documented'))
            line = 'add %s %s %s' % (gfam, root_tok(root), add_tok(gfam, objs, rate, doc))
            kp = objs[1:] if gfam in PEC_CLASS else objs
            if doc and gfam == 'thermalCx':
                args = [objs[0], objs[1], objs[2], rate]
                tg = []
            else:
                args = add_call(gfam, objs, rate)
                tg = [(gfam, kp, copy.deepcopy(rate))]
            f = getattr(repository, pyfn)
            before_call(tg)
            status = _status(lambda: f(*args, repository_path=rp))
        elif op['kind'] == 'ins':
            fn = op['fn']
            pyfn = INSTALLS[fn]
            a = op['parsed']
            tmp = None
            if op.get('real_file'):
                tmp = tempfile.mkdtemp(prefix='c06adas_')
                write_adf15(os.path.join(tmp, 'synth.dat'), a['blocks'])
                patch = Patched(None)
            else:
                patch = Patched(lambda name, args, kw: fake_parsed(fn, a))
            with patch as P:
                if op.get('real_file'):
                    call = lambda: install.install_adf15(species(a['element']), a['charge'], 'synth.dat',
                                                          repository_path=rp, adas_path=tmp,
                                                          header_format=a.get('header_format'))
                else:
                    call = lambda: getattr(install, pyfn)(*install_args(fn, a), repository_path=rp)
                status = _status(call)
                calls = list(P.calls)
            if tmp:
                shutil.rmtree(tmp, ignore_errors=True)
            table = self.facts['installCalls'].get(fn, [])
            inputs = []
            rest = list(calls)
            for c in table:
                hit = next((r for r in rest if r[0] == c[2]), None)
                if hit is not None:
                    rest.remove(hit)
                    inputs.append(input_tok(c[0], hit[1]))
                else:
                    inputs.append('0')
            line = 'ins %s %s %d %s' % (fn, root_tok(root), len(inputs), ' '.join(inputs))
            if rest:
                line = 'ins-unmodelled-call ' + rest[0][0]
            for name, rates, _ in calls:
                tg += targets(repo_paths.UPD[name], rates)
        elif op['kind'] in ('files', 'populate'):
            from cherab.openadas.repository import create
            tmp = tempfile.mkdtemp(prefix='c06adas_')
            seq = []          # (lean install name) in dispatch order
            try:
                with Patched(None) as P:
                    if op['kind'] == 'files':
                        pyfn = 'install_files'
                        config = {}
                        for i, (fn, a) in enumerate(op['entries']):
                            rel = 'd%d/f%d.dat' % (i % 3, i)
                            args = install_args(fn, a, rel)
                            synth_from_args(fn, args, os.path.join(tmp, rel), a.get('base', 1.0) + i)
                            key = fn.upper() if op.get('upper') and i % 2 else fn
                            config.setdefault(key, []).append(tuple(args))
                        config = {k: tuple(v) for k, v in config.items()}
                        seq = [k.lower() for k, v in config.items() for _ in v]
                        call = lambda: install.install_files(config, download=False, repository_path=rp, adas_path=tmp)
                        status = _status(call)
                    else:
                        pyfn = 'populate'
                        real_files = create.install_files

                        def synth_then_install(configuration, download=False, repository_path=None, adas_path=None):
                            n = 0
                            for key, entries in configuration.items():
                                for args in entries:
                                    n += 1
                                    seq.append(key.lower())
                                    synth_from_args(key.lower(), list(args), os.path.join(adas_path, args[-1]), float(n % 9))
                            return real_files(configuration, download=download, repository_path=repository_path, adas_path=adas_path)
                        create.install_files = synth_then_install
                        try:
                            status = _status(lambda: create.populate(download=False, repository_path=rp, adas_path=tmp))
                        finally:
                            create.install_files = real_files
                    calls = list(P.calls)
            finally:
                shutil.rmtree(tmp, ignore_errors=True)
            rest = list(calls)
            parts = []
            for fn in seq:
                inputs = []
                for c in self.facts['installCalls'].get(fn, []):
                    # the calls of one install_* are consecutive: take the next recorded call if it is this one
                    if rest and rest[0][0] == c[2]:
                        inputs.append(input_tok(c[0], rest.pop(0)[1]))
                    else:
                        inputs.append('0')
                parts.append('%s %d %s' % (fn, len(inputs), ' '.join(inputs)))
            if op['kind'] == 'files':
                line = 'insfiles %s %d %s' % (root_tok(root), len(parts), ' '.join(parts))
            else:
                wl = input_tok('wavelength', rest.pop(0)[1]) if rest and rest[0][0] == 'update_wavelengths' else '0'
                line = 'populate %s %d %s %s' % (root_tok(root), len(parts), ' '.join(parts), wl)
            if rest:
                line = 'unmodelled-call ' + rest[0][0]
            for name, rates, _ in calls:
                tg += targets(repo_paths.UPD[name], rates)
        else:
            raise ValueError(op)
        return pyfn, status, line, tg

    def step(self, world, op, probe_all=False):
        from cherab.openadas import repository
        at = self.nops
        self.nops += 1
        root = op['root']
        before = world.listing()
        pyfn, status, line, tg = self.execute(world, op, before_call=lambda tg0: self.pre_read(world, root, tg0))
        self.count('op:' + pyfn)
        self.count('status:' + status)
        self.statuses.append(status)
        self.lines.append(line)
        self.obs.append(('status', status, pyfn))
        after = world.listing()
        self.lines.append('ls')
        self.obs.append(('ls', sorted(after), pyfn))
        changed = sorted(p for p in set(before) | set(after) if before.get(p) != after.get(p))
        self.last_changed = changed
        # K: content of every changed file (model `cat`)
        for p in changed:
            self.lines.append('cat ' + hexs(p))
            self.obs.append(('cat', file_canon(p, after[p][0] if p in after else None), pyfn))
        # S0: every file of the repository is valid JSON after the call, accepted or rejected
        badjson = [p for p in changed if p in after and file_canon(p, after[p][0]) == 'unparsable']
        if badjson:
            self.failures.append(dict(signature='C06:%s:file-left-invalid-json:%s' % (pyfn, bad_label(op)), at=at,
                                      description='%s -> %s left %s truncated / not valid JSON: keys stored in it are unreadable'
                                      % (pyfn, status, badjson[:2])))
        # S1: every file created/modified lies under the repository path that was passed
        allowed = (root + '/') if root is not None else '~/.cherab/openadas/repository/'
        stray = [p for p in changed if not p.startswith(allowed)]
        if stray:
            self.failures.append(dict(signature='C06:%s:file-outside-repository-path' % pyfn, at=at,
                                      description='%s(repository_path=<%s>) created/modified %s' % (pyfn, root, stray[:3])))
        # oracle update
        own = []
        for gfam, kp, rate in tg:
            fresh = self.track(root, gfam, kp)
            k = self.key_of(root, gfam, kp)
            if fresh and status != 'ok' and op['kind'] == 'ins' and gettable(list(kp[:4]) if gfam == 'beamCx' else list(kp)):
                # a rejected front-end call addressing keys never observed before: their pre-state is unknown
                for kf in fresh:
                    g, kroot, gp = self.tracked[kf]
                    self.adopt(kf, g, *real_get(repository, g, gp, world.path(kroot)))
            own.append(k)
            layout = UPD[GETF[gfam][2]]['rate']
            try:
                new = stored(rate, layout, whole=gfam in ('beamStopping', 'beamPopulation'))
            except Exception:  # noqa  (malformed rate: nothing can have been stored for it)
                new = None
            if status == 'ok':
                if new is not None:
                    self.oracle[k] = new
                    self.amb.pop(k, None)
                elif k[:6] in self.tracked or k in self.tracked:
                    # accepted although the oracle cannot say what the conversions yield: unjudgeable, adopt
                    self.count('accepted-unpredictable-value-adopted')
                    kk = k[:6] if gfam == 'beamCx' else k
                    g, kroot, gp = self.tracked[kk]
                    self.adopt(kk, g, *real_get(repository, g, gp, world.path(kroot)))
            else:
                al = self.amb.get(k, [self.oracle.get(k, MISSING)])
                if new is not None and new not in al:
                    al = al + [new]
                self.amb[k] = al
        # gets: targets first, then the other tracked keys
        ownset = set(k[:6] if k[1] == 'beamCx' else k for k in own)
        keys = list(self.tracked)
        others = [k for k in keys if k not in ownset]
        if not probe_all and len(others) > self.max_other and self.rng is not None:
            others = self.rng.sample(others, self.max_other)
        for k in [k for k in keys if k in ownset] + others:
            gfam, kroot, gp = self.tracked[k]
            st, res = real_get(repository, gfam, gp, world.path(kroot))
            self.lines.append('get %s %s %s' % (gfam, root_tok(kroot), get_call_and_tok(gfam, gp)))
            self.obs.append(('get', (st, res if st == 'ok' else None), (gfam, k)))
            self.count('get:' + ('ok' if st == 'ok' else st))
            why = self.judge(k, gfam, st, res)
            if why and not any(f['at'] == at for f in self.failures):
                self.failures.append(self.classify(world, at, pyfn, status, op, k, gfam, gp, kroot, k in ownset, why))
        if any(f['at'] == at for f in self.failures):
            self.resync(world)
        return status

    def resync(self, world):
        """after a reported failure the oracle adopts what the repository actually holds for the tracked keys, so that
        the rest of the history is judged on its own (a later discrepancy is a new failure, not an echo)"""
        from cherab.openadas import repository
        for k, (gfam, kroot, gp) in list(self.tracked.items()):
            st, res = real_get(repository, gfam, gp, world.path(kroot))
            self.adopt(k, gfam, st, res)


    # ---- S: verdict on one get ------------------------------------------------------------------------------------
    def allowed(self, k):
        return self.amb.get(k, [self.oracle.get(k, MISSING)])

    def judge(self, k, gfam, st, res):
        if st not in ('ok', 'RuntimeError'):
            if k in self.unreadable:
                return None
            return 'getter raised %s (%s)' % (st, res)
        if gfam != 'beamCx':
            got = res[''] if st == 'ok' else MISSING
            if got in self.allowed(k):
                return None
            exp = self.allowed(k)
            if got is MISSING:
                return 'RuntimeError for a key that was written'
            if exp == [MISSING]:
                return 'a value is returned for a key that was never written'
            return 'returned value differs from the value last written'
        # beam cx: the getter returns every metastable of the transition
        ms = set(kk[6] for kk in list(self.oracle) + list(self.amb) if kk[:6] == k)
        got = res if st == 'ok' else {}
        for m in ms | set(got):
            g = got.get(m, MISSING)
            if g not in self.allowed(k + (m,)):
                return 'metastable %r: %s' % (m, 'missing' if g is MISSING else 'unexpected or wrong value')
        if st == 'ok' and not got:
            return 'empty result without RuntimeError'
        return None

    def classify(self, world, at, pyfn, status, op, k, gfam, gp, kroot, own, why):
        from cherab.openadas import repository
        sym = 'wrong-read'
        if own and status == 'ok':
            sym = 'written-key-not-readable' if 'RuntimeError' in why else 'written-key-wrong-value'
            # where did it go?  The file the call touched lies in the directory documented for another family
            for p in self.last_changed:
                rel = p.split('/', 1)[1] if not p.startswith('~/') else p[len('~/.cherab/openadas/repository/'):]
                dest = [g for g, d in DOC_DIR.items() if rel.startswith(d)]
                if dest and gfam not in dest:
                    sym = 'routes-to-%s-file' % GETF[dest[0]][3]
                    break
            if pyfn == 'update_pec_rates' and mixed_case_classes(op):
                # one call carrying 'recombination' and 'RECOMBINATION': the data of the upper-case entry is fetched from
                # the lower-case one (rates[cls] after cls = cls.lower())
                sym = MIXED_CASE_SYM
        elif not own and status == 'ok':
            sym = 'other-key-changed' if self.allowed(k) != [MISSING] else 'unwritten-key-readable'
        elif status != 'ok':
            sym = 'rejected-update-loses-key' if 'RuntimeError' in why else 'rejected-update-corrupts-key'
        if 'getter raised' in why:
            sym = 'stored-key-unreadable-after-%s-call' % ('accepted' if status == 'ok' else 'rejected')
        return dict(signature='C06:%s:%s' % (pyfn, sym), at=at, own=bool(own),
                    description='after %s -> %s: %s(%s) : %s' % (pyfn, status, GETF[gfam][0],
                                                               ', '.join(str(okey(o)) for o in gp), why))


MIXED_CASE_SYM = 'mixed-case-class-key-stores-lower-case-entry-data'


def mixed_case_classes(op):
    cl = [p[0][1] for p, _ in op.get('entries', []) if p and p[0][0] == 'C']
    return any(c != c.lower() and c.lower() in cl for c in cl)


def bad_label(op):
    b = op.get('bad')
    if isinstance(b, list):
        b = next((x for x in b if x), None)
    return str(b or 'well-formed-input')


def _status(f):
    try:
        f()
        return 'ok'
    except Exception as e:  # noqa
        return exc_kind(e)


def file_canon(p, raw):
    """canonical content of a repository file as the model stores it: {inner key tuple: value}"""
    if raw is None:
        return None
    try:
        d = json.loads(raw)
    except Exception:  # noqa
        return 'unparsable'
    rel = p.split('/')
    rel = rel[1:] if rel[0] != '~' else rel[4:]
    if rel[:2] in (['beam', 'stopping'], ['beam', 'population']):
        return {(): canon_val(d)}
    if rel[:2] == ['beam', 'cx']:
        return {(t, str(m)): canon_val(v) for t, ms in d.items() for m, v in ms.items()}
    return {(k,): canon_val(v) for k, v in d.items()}


def parse_model_cat(out):
    ts = out.split()
    if not ts or ts[0] != 'ok':
        return None if out.strip() == 'missing' else out
    st, res = 'ok', {}
    i = 1
    n = int(ts[i]); i += 1
    for _ in range(n):
        i += 1
        nk = int(ts[i]); i += 1
        ik = tuple(bytes.fromhex(t).decode() if t != '-' else '' for t in ts[i:i + nk]); i += nk
        i += 1
        nf = int(ts[i]); i += 1
        val = {}
        for _ in range(nf):
            name = bytes.fromhex(ts[i]).decode(); i += 1
            nd = int(ts[i]); i += 1
            shape = tuple(int(t) for t in ts[i:i + nd]); i += nd
            m = int(ts[i]); i += 1
            val[name] = (shape, tuple(int(t) for t in ts[i:i + m])); i += m
        res[ik] = val
    return res


def run_history(facts, ops, probes=(), rng=None, max_other=1000, stop_at_first=False, full=False):
    """-> History (lines/obs for K, failures for S)"""
    h = History(facts, max_other=max_other, rng=rng)
    w = World()
    try:
        for gfam, root, path in probes:          # keys that are never written
            objs = [mat(a) for a in path]
            h.track(root, gfam, objs[1:] if gfam in PEC_CLASS else objs)
        for i, op in enumerate(ops):
            h.step(w, op, probe_all=(full or i == len(ops) - 1 or i % 10 == 9))
            if stop_at_first and h.failures:
                break
    finally:
        w.close()
    return h


# --------------------------------------------------------------------------------------------------------------------
# history generators
# --------------------------------------------------------------------------------------------------------------------
RATE_BADS = ('shape', 'ndim', 'missing', 'scalar')


def pick_bad(rng, ufam, p):
    if rng.random() >= p:
        return None
    c = ['charge', 'species', 'shape', 'ndim', 'missing']
    if UPD[ufam]['rate'] in ('bcx', 'beam'):
        c.append('scalar')
    if ufam in METASTABLE_POS:
        c.append('metastable')
    if ufam == 'pec':
        c.append('class')
    if ufam == 'pecThermalCx':
        c.append('donor-charge')
    if UPD[ufam]['rate'] == 'wl':
        c = ['charge', 'species', 'shape']
    return rng.choice(c)


def gen_entry(rng, ufam, bad=None, cls=None):
    path = rnd_path(rng, ufam, bad)
    if cls is not None and bad != 'class':
        path[0] = ['C', cls]
    rate = rnd_rate(rng, UPD[ufam]['rate'], bad if bad in RATE_BADS else None)
    return path, rate


def gen_install(rng):
    fn = rng.choice(sorted(INSTALLS))
    sp = [s for s in (_pool['species'] or SPECIES)]
    el = rng.choice(sp)
    z = species(el).atomic_number
    a = dict(element=el, donor=rng.choice(['hydrogen', 'deuterium']), donor_charge=0, base=float(rng.randint(0, 9)),
             shape=[rng.choice([1, 2, 3]), rng.choice([1, 2])], metastable=rng.choice([1, 2]),
             transition=[rng.choice([3, 4, 8]), rng.choice([1, 2, 7])])
    if fn in ('adf11scd', 'adf11plt'):
        a['charge'] = rng.randint(1, z)           # ADAS numbering, shifted by -1
    elif fn == 'adf15':
        a['charge'] = rng.randint(0, z - 1)
        a['classes'] = rng.choice([['excitation'], ['excitation', 'recombination'], ['excitation', 'thermalcx'],
                                   ['thermalcx'], ['excitation', 'recombination', 'thermalcx']])
        a['transitions'] = [[3, 2], [4, 2]][:rng.choice([1, 2])]
    else:
        a['charge'] = rng.randint(0, z) if fn.startswith('adf11') else rng.randint(1, z)
    op = dict(kind='ins', fn=fn, parsed=a)
    if fn == 'adf15' and rng.random() < 0.5:
        n, m = a['shape']
        blocks = []
        for ci, cls in enumerate(a['classes']):
            for t in a['transitions']:
                typ = {'excitation': 'EXCIT', 'recombination': 'RECOM', 'thermalcx': 'CHEXC'}[cls]
                blocks.append((t[0], t[1], typ, 1000.0 * t[0] + 10 * ci + a['base'],
                               [1e8 * 10 ** i for i in range(n)], [1.0 + 2.0 * j for j in range(m)],
                               [[(a['base'] + 1 + i + 0.25 * j + ci) * 1e-9 for j in range(m)] for i in range(n)]))
        a['blocks'] = blocks
        a['header_format'] = None if el == 'hydrogen' else 'hydrogen'
        op['real_file'] = True
    return op


def gen_history(rng, length, default_root=False, pbad=0.15):
    _pool['species'] = rng.sample(SPECIES, 3)
    tr = [rnd_transition(rng, fresh=True) for _ in range(3)]
    # a spelling variant of the first one (same key by the property): swap case / int <-> str
    t0 = tr[0]
    var = ['T'] + [(str(x).swapcase() if isinstance(x, str) else str(x)) for x in t0[1:]]
    pad = ['T'] + [(rng.choice([' %s', '%s ', ' %s ']) % x if i == rng.randrange(2) or isinstance(x, str) else x)
                   for i, x in enumerate(t0[1:])]
    _pool['trans'] = tr + [var, pad]
    ops = []
    for _ in range(length):
        root = None if default_root else rng.choice(['A', 'A', 'A', 'B'])
        k = rng.random()
        if k < 0.45:
            gfam = rng.choice(sorted(GETF))
            ufam = GETF[gfam][2]
            bad = pick_bad(rng, ufam, pbad)
            if bad == 'class':
                bad = None
            path, rate = gen_entry(rng, ufam, bad, PEC_CLASS.get(gfam))
            ops.append(dict(kind='add', fam=gfam, root=root, path=path, rate=rate, bad=bad, numpy=rng.random() < 0.3))
        elif k < 0.87:
            ufam = rng.choice(sorted(UPD))
            n = rng.choice([1, 1, 2, 3, 4])
            badat = rng.randrange(n) if rng.random() < 1.5 * pbad else None
            entries = []
            bads = []
            first = None
            for i in range(n):
                bad = pick_bad(rng, ufam, 1.0) if i == badat else None
                path, rate = gen_entry(rng, ufam, bad)
                if first is not None and rng.random() < 0.5 and bad in (None,) + RATE_BADS:
                    # share the file-selecting prefix with the first entry: several keys of one file
                    ns = len(UPD[ufam]['sig'])
                    if UPD[ufam]['inner']:
                        path = first[:ns] + path[ns:]
                    else:
                        path = first[:ns - 1] + path[ns - 1:]
                if first is None:
                    first = path
                entries.append((path, rate))
                bads.append(bad)
            if UPD[ufam]['inner'] and rng.random() < 0.08:
                # an empty innermost dictionary
                path, _ = gen_entry(rng, ufam)
                entries.append((path[:len(UPD[ufam]['sig'])], {}))
                bads.append('empty')
            ops.append(dict(kind='upd', fam=ufam, root=root, entries=entries, bad=bads, positional=rng.random() < 0.3))
        elif k < 0.96:
            op = gen_install(rng)
            op['root'] = root
            ops.append(op)
        else:
            ents = []
            for _ in range(rng.randint(1, 4)):
                o = gen_install(rng)
                a = dict(o['parsed'])
                if o['fn'] == 'adf15' and a['element'] != 'hydrogen' and species(a['element']).atomic_number - a['charge'] != 1:
                    a['charge'] = species(a['element']).atomic_number - 1
                if o['fn'].startswith('adf11') and a['element'] in ('deuterium', 'tritium', 'protium', 'helium3', 'carbon13'):
                    a['element'] = 'carbon'            # ADF11 headers name elements
                ents.append((o['fn'], a))
            ops.append(dict(kind='files', root=root, entries=ents, upper=rng.random() < 0.3))
    probes = []
    for _ in range(4):
        gfam = rng.choice(sorted(GETF))
        path, _ = gen_entry(rng, GETF[gfam][2], None, PEC_CLASS.get(gfam))
        probes.append((gfam, None if default_root else rng.choice(['A', 'B']), path))
    _pool['species'] = _pool['trans'] = None
    return ops, probes


def path_for(ufam, q, t, m=1, cls='excitation', sp=('E', 'carbon'), qkind=None):
    D = ['E', 'deuterium']
    sp = list(sp)
    u = UPD[ufam]
    out = []
    syms = iter([D, sp] if u['sig'].count('sym') == 2 else [sp])
    for i, k in enumerate(u['sig'] + u['inner']):
        if k == 'sym':
            out.append(next(syms))
        elif k == 'str':
            out.append(['C', cls])
        elif k == 'tr':
            out.append(['T'] + list(t))
        elif METASTABLE_POS.get(ufam) == i:
            out.append(['I', m])
        elif CHARGE_POS[ufam] == i:
            out.append(['I', q] + ([qkind] if qkind else []))
        else:
            out.append(['I', 0])
    return out



def targeted_histories():
    """deterministic histories: every add_*, update_*, install_* once with valid data, overwrite, spelling variants of a
    transition, rejected updates, the default root"""
    hs = []
    C, NE, D, H = ['E', 'carbon'], ['E', 'neon'], ['E', 'deuterium'], ['E', 'hydrogen']

    for gfam in sorted(GETF):
        ufam = GETF[gfam][2]
        lay = UPD[ufam]['rate']
        cls = PEC_CLASS.get(gfam, 'excitation')
        ops = [dict(kind='add', fam=gfam, root='A', path=path_for(ufam, 2, (3, 2), cls=cls), rate=mk_rate(lay, 1.0, (2, 3, 2))),
               dict(kind='add', fam=gfam, root='A', path=path_for(ufam, 3, (4, 2), m=2, cls=cls), rate=mk_rate(lay, 2.0, (1, 1, 1))),
               dict(kind='add', fam=gfam, root='A', path=path_for(ufam, 2, (3, 2), cls=cls), rate=mk_rate(lay, 3.0, (3, 1, 2))),
               dict(kind='add', fam=gfam, root='B', path=path_for(ufam, 2, (3, 2), cls=cls, sp=NE), rate=mk_rate(lay, 4.0, (1, 2, 1)))]
        hs.append(('add:' + gfam, ops, []))
    for ufam in sorted(UPD):
        lay = UPD[ufam]['rate']
        e = [(path_for(ufam, 1, (3, 2)), mk_rate(lay, 5.0, (2, 2, 2))), (path_for(ufam, 2, ('2S', '1s')), mk_rate(lay, 6.0, (1, 3, 1))),
             (path_for(ufam, 2, (5, 4), sp=NE, cls='recombination'), mk_rate(lay, 7.0, (2, 1, 2)))]
        e2 = [(path_for(ufam, 2, ('2s', '1S')), mk_rate(lay, 8.0, (2, 2, 1)))]
        # third call: valid first entry, then a charge above Z (rejected part-way)
        e3 = [(path_for(ufam, 1, (3, 2)), mk_rate(lay, 9.0, (1, 1, 1))), (path_for(ufam, 9, (3, 2)), mk_rate(lay, 9.5, (1, 1, 1)))]
        hs.append(('upd:' + ufam, [dict(kind='upd', fam=ufam, root='A', entries=e), dict(kind='upd', fam=ufam, root='A', entries=e2),
                                   dict(kind='upd', fam=ufam, root='A', entries=e3),
                                   dict(kind='upd', fam=ufam, root=None, entries=e2)], []))
    for fn in sorted(INSTALLS):
        a = dict(element='carbon', donor='deuterium', donor_charge=0, base=1.0, shape=[2, 2], metastable=1,
                 transition=[3, 2], charge=3, classes=['excitation', 'recombination', 'thermalcx'], transitions=[[3, 2], [4, 2]])
        hs.append(('ins:' + fn, [dict(kind='ins', fn=fn, root='A', parsed=a), dict(kind='ins', fn=fn, root='B', parsed=dict(a, base=2.0))], []))
    # install_adf15 with the real parser on a synthesised file
    blocks = [(3, 2, 'EXCIT', 6562.8, [1e8, 1e9], [1.0, 10.0, 100.0], [[1e-9, 2e-9, 3e-9], [4e-9, 5e-9, 6e-9]]),
              (3, 2, 'RECOM', 6562.8, [1e8], [1.0], [[7e-9]]),
              (4, 2, 'CHEXC', 4861.3, [1e8, 1e9], [1.0, 10.0], [[1e-10, 2e-10], [3e-10, 4e-10]])]
    hs.append(('ins:adf15-real-file', [dict(kind='ins', fn='adf15', root='A', real_file=True,
                                            parsed=dict(element='hydrogen', charge=0, blocks=blocks, header_format=None))], []))
    # spelling variants of one transition are one key; int and str levels too
    W = 'wavelength'
    hs.append(('transition-spelling', [
        dict(kind='add', fam=W, root='A', path=[C, ['I', 1], ['T', '2S1 3P', '1s2 1S']], rate=1.0),
        dict(kind='add', fam=W, root='A', path=[C, ['I', 1], ['T', '2s1 3p', '1S2 1s']], rate=2.0),
        dict(kind='add', fam=W, root='A', path=[C, ['I', 1], ['T', 3, 2]], rate=3.0),
        dict(kind='add', fam=W, root='A', path=[C, ['I', 1], ['T', '3', '2']], rate=4.0),
        dict(kind='add', fam='pecExcitation', root='A', path=[['C', 'excitation'], C, ['I', 1], ['T', 'N=3', 'n=2']], rate=mk_rate('pec', 1.0, (2, 2))),
        dict(kind='add', fam='pecExcitation', root='A', path=[['C', 'excitation'], C, ['I', 1], ['T', 'n=3', 'N=2']], rate=mk_rate('pec', 2.0, (1, 1)))],
        [(W, 'A', [C, ['I', 1], ['T', 2, 3]]), (W, 'A', [C, ['I', 2], ['T', 3, 2]]), (W, 'B', [C, ['I', 1], ['T', 3, 2]])]))
    # rejected calls of every kind after keys were stored
    rej = [dict(kind='upd', fam='ionisation', root='A', entries=[([C, ['I', 1]], mk_rate('adf11', 1.0, (2, 2))), ([C, ['I', 2]], mk_rate('adf11', 2.0, (1, 1)))]),
           dict(kind='upd', fam='ionisation', root='A', entries=[([C, ['I', 1]], mk_rate('adf11', 3.0, (1, 2))), ([C, ['I', 7]], mk_rate('adf11', 4.0, (1, 1)))]),
           dict(kind='upd', fam='ionisation', root='A', entries=[([C, ['I', 2]], dict(mk_rate('adf11', 5.0, (2, 2)), rates=[1.0]))]),
           dict(kind='upd', fam='ionisation', root='A', entries=[([['X', 'c'], ['I', 2]], mk_rate('adf11', 5.0, (2, 2)))]),
           dict(kind='add', fam='ionisation', root='A', path=[C, ['I', 1]], rate={'ne': [1.0], 'te': [1.0], 'rate': [[1.0]]}),
           dict(kind='add', fam='thermalCx', root='A', path=[H, ['I', 0], C, ['I', 1]], rate=mk_rate('adf11', 1.0, (1, 1)), documented=True),
           dict(kind='add', fam='thermalCx', root='A', path=[H, ['I', 0], C, ['I', 1]], rate=mk_rate('adf11', 1.5, (1, 1))),
           dict(kind='upd', fam='pec', root='A', entries=[([['C', 'excitation'], C, ['I', 1], ['T', 3, 2]], mk_rate('pec', 1.0, (2, 2)))]),
           dict(kind='upd', fam='pec', root='A', entries=[([['C', 'excitation'], C, ['I', 1], ['T', 4, 2]], mk_rate('pec', 2.0, (2, 2))),
                                                          ([['C', 'excitation'], C, ['I', 1], ['T', 3, 2]], dict(mk_rate('pec', 3.0, (2, 2)), te=[[1.0]]))]),
           dict(kind='upd', fam='pec', root='A', entries=[([['C', 'Excitation'], C, ['I', 1], ['T', 5, 2]], mk_rate('pec', 4.0, (1, 1)))]),
           dict(kind='upd', fam='pec', root='A', entries=[([['C', 'thermal_cx'], C, ['I', 1], ['T', 5, 2]], mk_rate('pec', 4.0, (1, 1)))]),
           dict(kind='upd', fam='beamCx', root='A', entries=[([D, C, ['I', 6], ['T', 8, 7], ['I', 1]], mk_rate('bcx', 1.0, (2, 2)))]),
           dict(kind='upd', fam='beamCx', root='A', entries=[([D, C, ['I', 6], ['T', 8, 7], ['I', 2]], mk_rate('bcx', 2.0, (2, 2))),
                                                             ([D, C, ['I', 6], ['T', 8, 7], ['I', -1]], mk_rate('bcx', 3.0, (2, 2)))]),
           dict(kind='upd', fam='beamCx', root='A', entries=[([D, C, ['I', 6], ['T', 8, 7], ['I', 10]], mk_rate('bcx', 4.0, (1, 1))),
                                                             ([D, C, ['I', 6], ['T', 8, 7], ['I', 2]], mk_rate('bcx', 5.0, (1, 1)))]),
           dict(kind='add', fam='beamStopping', root='A', path=[D, C, ['I', 6]], rate=mk_rate('beam', 1.0, (2, 2))),
           dict(kind='add', fam='beamStopping', root='A', path=[D, C, ['I', 6]], rate=dict(mk_rate('beam', 2.0, (2, 2)), sref=[1.0, 2.0])),
           dict(kind='add', fam='beamStopping', root='A', path=[D, C, ['I', 7]], rate=mk_rate('beam', 2.0, (2, 2))),
           dict(kind='upd', fam='wavelength', root='A', entries=[([C, ['I', 1]], {})]),
           dict(kind='upd', fam='pecThermalCx', root='A', entries=[([H, ['I', 1], C, ['I', 1], ['T', 3, 2]], mk_rate('pec3', 1.0, (1, 1, 1)))])]
    hs.append(('rejected', rej, [('wavelength', 'A', [C, ['I', 1], ['T', 3, 2]])]))
    # install_files: every dispatch key (also upper-case keys), populate-style tuples of several entries, every root;
    # repository.populate itself -- synthetic files, real parsers
    a0 = dict(element='carbon', donor='deuterium', donor_charge=0, base=1.0, metastable=1, transition=[3, 2], charge=3)
    ents = [(fn, dict(a0, charge=(5 if fn == 'adf15' else 3))) for fn in sorted(INSTALLS)]
    more = [('adf15', dict(a0, element='hydrogen', charge=0)), ('adf15', dict(a0, charge=1)), ('adf11scd', dict(a0, element='neon')),
            ('adf22bmp', dict(a0, metastable=2, element='helium', charge=2)), ('adf12', dict(a0, metastable=2, charge=6)),
            ('adf21', dict(a0, element='neon', charge=10)), ('adf22bme', dict(a0, element='helium', charge=2, transition=[4, 2]))]
    hs.append(('install_files:every-key', [dict(kind='files', root='A', entries=ents),
                                           dict(kind='files', root='B', entries=ents + more, upper=True),
                                           dict(kind='files', root=None, entries=more)], []))
    hs.append(('populate', [dict(kind='populate', root='A')], []))
    # key space with near-collisions of the transition component, every transition-keyed family: distinct keys (per the
    # documented str().lower()) stay distinct -- the others untouched, the never-written ones raise -- and aliases alias
    for gfam in ('wavelength', 'pecExcitation', 'pecRecombination', 'pecThermalCx', 'beamCx', 'beamEmission'):
        ufam = GETF[gfam][2]
        lay = UPD[ufam]['rate']
        cls = PEC_CLASS.get(gfam, 'excitation')
        for bi, base in enumerate([('2s2 1S0.0', '2p1 2P0.5'), (3, 2)]):
            keys = [base]
            for i in range(2):
                for v, _alias in level_variants(base[i]):
                    keys.append((v, base[1]) if i == 0 else (base[0], v))
            probes = [(gfam, 'A', path_for(ufam, 2, t, m=1, cls=cls)) for t in keys]
            ops = [dict(kind='add', fam=gfam, root='A', path=path_for(ufam, 2, t, m=1, cls=cls),
                        rate=mk_rate(lay, 1.0 + j, (1 + j % 2, 1, 1)), bad='near-collision-key') for j, t in enumerate(keys)]
            hs.append(('key-near-collisions:%s:%d' % (gfam, bi), ops, probes))
    # one update_pec_rates call with both spellings of a class key
    T3 = ['T', 3, 2]
    hs.append(('pec-mixed-case-class', [
        dict(kind='upd', fam='pec', root='A', entries=[([['C', 'recombination'], C, ['I', 1], T3], mk_rate('pec', 1.0, (1, 1))),
                                                       ([['C', 'RECOMBINATION'], C, ['I', 1], T3], mk_rate('pec', 2.0, (2, 2)))]),
        dict(kind='upd', fam='pec', root='A', entries=[([['C', 'Excitation'], C, ['I', 1], T3], mk_rate('pec', 3.0, (1, 1))),
                                                       ([['C', 'excitation'], C, ['I', 2], T3], mk_rate('pec', 4.0, (1, 1)))]),
        dict(kind='upd', fam='pec', root='A', entries=[([['C', 'excitation'], H, ['I', 1], T3], mk_rate('pec', 5.0, (1, 1))),
                                                       ([['C', 'excitation'], ['E', 'protium'], ['I', 1], T3], mk_rate('pec', 6.0, (1, 2))),
                                                       ([['C', 'EXCITATION'], ['E', 'protium'], ['I', 1], T3], mk_rate('pec', 7.0, (2, 1)))])],
        []))
    return hs


# --------------------------------------------------------------------------------------------------------------------
# rejected-write stream: a populated file, then writes the code may reject (early or late) -- every family
# --------------------------------------------------------------------------------------------------------------------
INF, NAN = float('inf'), float('nan')


def _like(v, fill):
    """same nesting as v with every leaf replaced by fill(i)"""
    c = [0]

    def go(x):
        if isinstance(x, list):
            return [go(y) for y in x]
        c[0] += 1
        return fill(c[0])
    return go(v)


def array_variants(v):
    """(label, replacement) for an array-valued field whose well-formed value is the nested list v"""
    flat = np.array(v, np.float64)
    first = lambda x: _like(v, lambda i: x if i == 1 else float(i))
    out = [('nonfinite-inf', first(INF)), ('nonfinite-neg-inf', first(-INF)), ('nonfinite-nan', first(NAN)),
           ('string-elements', _like(v, lambda i: 'a')), ('numeric-string-elements', _like(v, lambda i: '%d.5' % i)),
           ('none-element', first(None)), ('bool-elements', _like(v, lambda i: True)),
           ('object-array', {'__': 'obj', 'v': _like(v, lambda i: 'x' if i == 1 else i)}),
           ('complex-elements', {'__': 'cplx', 'v': [[1.0, 2.0]] * len(flat.reshape(-1))}),
           ('float32-array', {'__': 'nd', 'v': _like(v, lambda i: 0.1 * i), 'dtype': 'float32'}),
           ('int64-array', {'__': 'nd', 'v': _like(v, lambda i: i), 'dtype': 'int64'}),
           ('zero-d-array', {'__': 'nd0', 'v': 2.0}), ('none-instead-of-array', None), ('string-instead-of-array', 'abc'),
           ('scalar-instead-of-array', 3.0), ('empty-array', [])]
    if flat.ndim == 1 and flat.size >= 1:
        out.append(('ragged', [[1.0], [2.0, 3.0]]))
        out.append(('one-longer', list(flat.tolist()) + [9.0]))
        out.append(('two-dimensional', [flat.tolist()]))
    else:
        out.append(('ragged', [[1.0], [2.0, 3.0]]))
        out.append(('extra-row', (flat.tolist() + flat.tolist()[:1]) if flat.ndim >= 1 and flat.size else [[1.0]]))
        out.append(('flattened', flat.reshape(-1).tolist()))
    return out


SCALAR_VARIANTS = [('float32-scalar', {'__': 'f32', 'v': 0.1}), ('int64-scalar', {'__': 'i64', 'v': 3}),
                   ('zero-d-array-scalar', {'__': 'nd0', 'v': 2.5}), ('numeric-string-scalar', '1.5'),
                   ('string-scalar', 'abc'), ('none-scalar', None), ('list-scalar', [1.0]), ('bool-scalar', True),
                   ('int-scalar', 7), ('inf-scalar', INF), ('nan-scalar', NAN), ('one-element-array-scalar', {'__': 'nd', 'v': [4.0], 'dtype': 'float64'})]

# which fields of each layout are varied (first 1-D coordinate, the dependent table, one more) / which scalar
VARIED = {'adf11': (['ne', 'rates', 'te'], []), 'pec': (['te', 'rate', 'ne'], []), 'pec3': (['td', 'rate'], []),
          'bcx': (['eb', 'qz', 'qti'], ['qref']), 'beam': (['e', 'sen', 'st'], ['tref', 'sref']), 'wl': ([], [None])}


def family_keys(gfam):
    """three keys that live in one file of the family (where a file holds several), one key in another file"""
    ufam = GETF[gfam][2]
    cls = PEC_CLASS.get(gfam, 'excitation')
    inner = UPD[ufam]['inner']
    if inner == ['num']:
        ks = [path_for(ufam, q, (3, 2), cls=cls) for q in (1, 2, 3)]
    elif inner == ['tr']:
        ks = [path_for(ufam, 2, t, cls=cls) for t in ((3, 2), (4, 2), ('2S', '1s'))]
    elif inner == ['tr', 'num']:
        ks = [path_for(ufam, 2, (3, 2), m=1), path_for(ufam, 2, (3, 2), m=2), path_for(ufam, 2, (4, 2), m=1)]
    else:
        ks = [path_for(ufam, 2, (3, 2), m=1), path_for(ufam, 3, (3, 2), m=1), path_for(ufam, 2, (3, 2), m=2)]
    other = path_for(ufam, 1, (5, 4), m=3, cls=cls, sp=('E', 'neon'))
    return ks, other


def rejected_write_histories():
    """-> [(label, ops, probes, modelled)]"""
    hs = []
    for gfam in sorted(GETF):
        ufam = GETF[gfam][2]
        lay = UPD[ufam]['rate']
        ks, other = family_keys(gfam)
        whole = not UPD[ufam]['inner']
        pre = [dict(kind='upd', fam=ufam, root='A', entries=[(k, mk_rate(lay, 1.0 + i, (2, 2, 2))) for i, k in enumerate(ks)] +
                    [(other, mk_rate(lay, 5.0, (1, 1, 1)))])]
        base = mk_rate(lay, 7.0, (2, 3, 2))
        arrays, scalars = VARIED[lay]
        attempts = []
        for f in arrays:
            for label, val in array_variants(base[f]):
                attempts.append(('%s-in-%s' % (label, f), dict(base, **{f: val})))
        for f in scalars:
            for label, val in SCALAR_VARIANTS:
                attempts.append(('%s-in-%s' % (label, f or 'wavelength'), val if f is None else dict(base, **{f: val})))
        if lay != 'wl':
            attempts.append(('missing-field', {k: v for k, v in base.items() if k != list(base)[-1]}))
        ops = list(pre)
        for i, (label, rate) in enumerate(attempts):
            target = ks[1] if i % 3 else (path_for(ufam, 2, (6, 5), m=4, cls=PEC_CLASS.get(gfam, 'excitation')) if not whole else ks[1])
            if i % 2:
                ops.append(dict(kind='add', fam=gfam, root='A', path=target, rate=rate, bad=label))
            else:
                # inside an update call, after a valid entry for another key of the same file
                first = (ks[2], mk_rate(lay, 20.0 + i, (1, 1, 1)))
                ops.append(dict(kind='upd', fam=ufam, root='A', entries=[first, (target, rate)], bad=[None, label]))
        # NumPy integers as charge (every family) -- accepted, same key as the Python int
        ops.append(dict(kind='add', fam=gfam, root='A', path=[(a + ['i64'] if a[0] == 'I' and i == CHARGE_POS[ufam] else a)
                                                              for i, a in enumerate(ks[0])], rate=mk_rate(lay, 40.0, (1, 1, 1)),
                        bad='numpy-integer-charge'))
        hs.append(('rejected-write:' + gfam, ops, [], True))
        # --- inputs the model does not represent: checked by the oracle only -----------------------------------------
        sops = list(pre)
        if lay != 'wl':
            sops.append(dict(kind='add', fam=gfam, root='A', path=ks[1], rate=[1.0, 2.0], bad='not-a-dictionary'))
        if whole:
            sops.append(dict(kind='add', fam=gfam, root='A', path=ks[0], rate=dict(base, comment='text', extra=[1, 2]),
                             bad='serialisable-extra-entry'))
            sops.append(dict(kind='add', fam=gfam, root='A', path=ks[0], rate=dict(base, extra={'__': 'set', 'v': [1, 2]}),
                             bad='unserialisable-extra-entry'))
            sops.append(dict(kind='add', fam=gfam, root='A', path=ks[1], rate=dict(base, extra={'__': 'nd', 'v': [1.0], 'dtype': 'float64'}),
                             bad='unserialisable-extra-entry'))
        if ufam in METASTABLE_POS:
            mp = METASTABLE_POS[ufam]
            # an existing metastable (the stored int key is kept) and a new one
            sops.append(dict(kind='add', fam=gfam, root='A', path=[(a + ['i64'] if i == mp else a) for i, a in enumerate(ks[1])],
                             rate=mk_rate(lay, 41.0, (1, 1, 1)), bad='numpy-integer-metastable-existing'))
            sops.append(dict(kind='add', fam=gfam, root='A', path=[(['I', 7, 'i64'] if i == mp else a) for i, a in enumerate(ks[1])],
                             rate=mk_rate(lay, 41.5, (1, 1, 1)), bad='numpy-integer-metastable'))
        if len(sops) > len(pre):
            sops.append(dict(kind='add', fam=gfam, root='A', path=ks[2], rate=mk_rate(lay, 42.0, (1, 1, 1))))
            hs.append(('rejected-write-unmodelled:' + gfam, sops, [], False))
    return hs


SEPARATOR_HISTORY = [
    dict(kind='add', fam='wavelength', root='A', path=[['E', 'carbon'], ['I', 1], ['T', 'a -> b', 'c']], rate=1.0),
    dict(kind='add', fam='wavelength', root='A', path=[['E', 'carbon'], ['I', 1], ['T', 'a', 'b -> c']], rate=2.0)]


# --------------------------------------------------------------------------------------------------------------------
# K: compare the driver's outputs with the observations
# --------------------------------------------------------------------------------------------------------------------

def compare(ctx, hist, outs, label):
    """returns number of disagreements"""
    bad = 0
    for (kind, obs, meta), out, line in zip(hist.obs, outs, hist.lines):
        if kind == 'reset':
            continue
        if kind == 'status':
            agree = obs == out
        elif kind == 'ls':
            mod = [] if out.strip() == '-' else sorted(bytes.fromhex(t).decode() for t in out.split())
            agree = mod == obs
            out = mod
        elif kind == 'cat':
            mod = parse_model_cat(out)
            agree = mod == obs
        else:
            st, res = parse_model_get(out, meta[0])
            agree = (st, res) == (obs[0], obs[1]) if obs[0] == 'ok' else st == obs[0]
        ctx.traces += 1
        if not agree:
            bad += 1
            ctx.disagreements += 1
            ctx.count('disagreement:' + kind)
            if bad <= 2 and sum(1 for b in ctx.broken if b['kind'] == 'correspondence') < 6:
                ctx.broke('correspondence', 'C06 %s stream (%s)' % (kind, label),
                          dict(line=line[:400], model=str(out)[:400], implementation=str(obs)[:400], after=str(meta)[:100]))
    return bad


def shrink(facts, ops, probes, sig):
    """smallest prefix/suffix that still yields the same signature"""
    best = list(ops)
    # drop leading ops while the signature persists
    changed = True
    while changed and len(best) > 1:
        changed = False
        for i in range(len(best) - 1):
            cand = best[:i] + best[i + 1:]
            h = run_history(facts, cand, probes)
            if any(f['signature'] == sig for f in h.failures):
                best = cand
                changed = True
                break
    return best


def run(ctx):
    prepare_home()
    rng = ctx.rng
    ctx.rule = ('histories (<= 40 calls) of the 14 add_*, 13 update_*, 11 install_* functions, install_files and populate over 12 '
                'elements/isotopes, two repository roots or the default root, int/str transitions incl. spelling variants, class-key '
                'spelling variants, table shapes from 1x1, values incl. inf/nan/-0.0/subnormals, 15% malformed calls; a rejected-write '
                'stream per family (a populated file, then ~60 writes with non-finite values, wrong dtypes, 0-d / ragged / object / '
                'complex arrays, inconsistent shapes, missing fields, NumPy scalars, unserialisable extras); install_files with every '
                'dispatch key and populate on synthetic ADF files through the real parsers; distinct = (function, outcome, '
                'malformation kind, number of entries); after each call: full file listing (roots and $HOME/.cherab, content+mtime), '
                'JSON validity and content of every changed file, get_* of the written keys and of sampled/all other tracked keys '
                '(all of them every 10th call, at the end, and after every call of the targeted and rejected-write streams)')
    ctx.trusted += ['translator harness/translators/repo_paths.py (syntactic; its tables are interpreted by the model and '
                    'compared with the running code in every history)',
                    'python json float round trip (repr/shortest, exact for finite doubles; NaN/Infinity tokens), os.path.join, os.makedirs',
                    'np.array(x, float64) and float(x): their outcome on every object of a rate dictionary is computed by the harness '
                    'with the real NumPy and handed to the model (the model decides where the conversion is requested)',
                    'install_* are exercised with stand-in parser outputs (parsers are property C08), and -- install_adf15, '
                    'install_files, populate -- with synthesised ADF files through the real parsers; download=False (no _download_cache)']
    ctx.assumptions += ['ASCII symbols and level strings (model lower-cases ASCII only)', 'species are registry '
                        'Elements/Isotopes (unique symbols up to case: checked on every run) or a plain string',
                        'outside the model, covered by the oracle only: rate dictionaries that are not dictionaries or carry extra '
                        'entries (beam stopping/population store them verbatim), NumPy-integer metastables, level strings '
                        'containing the separator', 'crash-atomicity of open(path, "w") is outside the property']
    facts, _ = repo_paths.generate()
    ctx.extra['translator_notes'] = facts['notes']
    segs, _ = repo_paths.generate_writes()
    ctx.extra['write_segments'] = {n: st for n, st in segs}
    # generic theory (any tables), then the obligations on the tables generated from the current source, one module each
    # so that a violated table obligation does not hide the others
    cmds, ok_mod = [], {}
    for mod in ('C06', 'C06Table', 'C06TableAdd', 'C06TableRoot', 'C06TableAll', 'C06TablePec', 'C06TableEnc', 'C06Write'):
        ok_mod[mod] = ctx.lean_check(['Cherab.Props.' + mod], 'Cherab/Audit/%s.lean' % mod)
        cmds.append(ctx.checker_cmd)
    ctx.checker_cmd = ' ; '.join(cmds)
    ok_table = all(ok_mod[m] for m in ('C06Table', 'C06TableAdd', 'C06TableRoot', 'C06TableAll'))
    ctx.traces = 0
    import time
    t0 = time.time()
    ctx.extra['seconds'] = dict(lean=round(t0 - ctx.t0, 1))

    registry_monitor(ctx)

    runs = []        # (label, History)
    reported = set()

    def do(label, ops, probes, sig_override=None, max_other=1000, model=True, full=False):
        h = run_history(facts, ops, probes, rng=rng, max_other=max_other, full=full)
        if model:
            runs.append((label, h))
        for k, v in h.stats.items():
            ctx.count(k, v)
        for op, st in zip(ops[:h.nops], h.statuses):
            b = op.get('bad')
            fn = op.get('fn') or op.get('fam') or op['kind']
            ctx.case(key=(op['kind'], fn, st, str(b), len(op.get('entries', [])), op['root'] is None),
                     sample=dict(history=label, op=_brief(op)) if (len(ctx.samples) < 3 or rng.random() < 0.002) else None)
        fails = h.failures
        if max_other < 1000 and any(not f.get('own', True) and (sig_override or f['signature']) not in reported for f in fails):
            # found on a sampled key: the culprit may be an earlier call -- rerun with every key probed after every call
            fails = run_history(facts, ops, probes, full=True).failures
        for f in fails:
            sig = sig_override or f['signature']
            if sig in reported:
                ctx.count('failure-repeat:' + sig)
                continue
            reported.add(sig)
            small = shrink(facts, ops[:f['at'] + 1], probes, f['signature'])
            ctx.fail(sig, f['description'], dict(ops=small, probes=probes, found_in=label))
        return h

    # 0. corpus
    cdir = os.path.join(VERIF, 'corpus', 'C06')
    if os.path.isdir(cdir):
        for fn in sorted(os.listdir(cdir)):
            if fn.endswith('.json'):
                c = json.load(open(os.path.join(cdir, fn)))
                do('corpus:' + fn, c['ops'], [tuple(p) for p in c.get('probes', [])], c.get('signature'), model=c.get('model', True))
    # 1. targeted
    for label, ops, probes in targeted_histories():
        do(label, ops, probes)
    # non-ASCII case pairs: one key by python's str.lower(); the model lower-cases ASCII only -> oracle only
    Cn = ['E', 'carbon']
    uni = [('\u00c91', 'x'), ('\u00e91', 'x'), ('e1', 'x'), ('\u00c91 ', 'x'), ('\u03a3a', 'B'), ('\u03c3a', 'b')]
    do('key-near-collisions:unicode-case',
       [dict(kind='add', fam='wavelength', root='A', path=[Cn, ['I', 1], ['T', u, l]], rate=100.0 + j, bad='unicode-case-key')
        for j, (u, l) in enumerate(uni)] +
       [dict(kind='add', fam='pecExcitation', root='A', path=[['C', 'excitation'], Cn, ['I', 1], ['T', u, l]],
             rate=mk_rate('pec', 1.0 + j, (1, 1)), bad='unicode-case-key') for j, (u, l) in enumerate(uni)],
       [('wavelength', 'A', [Cn, ['I', 1], ['T', u + ' ', l]]) for u, l in uni], model=False, full=True)
    list_transition_monitor(ctx)
    for label, ops, probes, modelled in rejected_write_histories():
        do(label, ops, probes, model=modelled, full=True)
    # S only: level strings containing the separator are outside what the model is tied on
    do('separator', SEPARATOR_HISTORY, [], sig_override='C06:encode_transition:separator-in-level-collides', model=False)
    # 2. random interleavings
    n = ctx.n(100, 2500)
    for i in range(n):
        default_root = i % 8 == 7
        ops, probes = gen_history(rng, rng.randint(5, 40), default_root=default_root)
        do('random-%d' % i, ops, probes, max_other=8)

    ctx.extra['seconds']['implementation'] = round(time.time() - t0, 1)
    t0 = time.time()
    # the table obligation `pec_reads_passed_data` is explained by the finding it predicts, if that finding is listed
    pec_sig = 'C06:update_pec_rates:' + MIXED_CASE_SYM
    if not ok_mod['C06TablePec'] and pec_sig in [k['signature'] for k in ctx.known_hits]:
        for b in ctx.broken:
            if b['kind'] == 'theorem' and (b['name'].endswith('C06TablePec') or b['name'] == 'pec_reads_passed_data'):
                b['explained_by_known'] = True
    # K: all histories through the driver in one go
    lines = [l for _, h in runs for l in h.lines]
    enc = encode_stream(ctx, rng)
    wseg = write_segment_stream(ctx, segs)
    outs = ctx.driver(lines + ['wf'] + [e[0] for e in enc] + [e[0] for e in wseg])
    ctx.extra['seconds']['driver'] = round(time.time() - t0, 1)
    pos = 0
    for label, h in runs:
        compare(ctx, h, outs[pos:pos + len(h.lines)], label)
        pos += len(h.lines)
    flags = outs[pos].split()
    ctx.extra['tables_wellformed_flags'] = dict(zip(['addMatches', 'getMatches', 'shapesOk', 'disjointOk', 'rootPassed'], flags))
    if (flags == ['1'] * 5) != bool(ok_table):
        ctx.broke('correspondence', 'driver well-formedness flags vs Props/C06Table', dict(flags=flags, lean=ok_table))
    pos += 1
    for (line, real), out in zip(enc, outs[pos:]):
        ctx.traces += 1
        if out != hexs(real):
            ctx.disagreements += 1
            ctx.broke('correspondence', 'C06 encode_transition stream', dict(line=line, model=out, implementation=real))
    pos += len(enc)
    for (line, real, what), out in zip(wseg, outs[pos:]):
        ctx.traces += 1
        if out.split()[:2] != real.split():
            ctx.disagreements += 1
            ctx.broke('correspondence', 'C06 write-segment stream (Model/RepoWrite vs the writers)',
                      dict(line=line, call=what, model=out, implementation=real))


def _brief(op):
    o = {k: v for k, v in op.items() if k not in ('rate', 'entries', 'parsed')}
    if 'entries' in op:
        o['paths'] = [p for p, _ in op['entries']]
    return o


def write_segment_stream(ctx, segs):
    """K for Model/RepoWrite.lean: every writer of the generated table, on a file that already holds a rate, is called with
    (none) a good rate, (validate) a rate one conversion of which raises, (json) a rate with an entry JSON cannot serialise;
    observed: returned / raised, and the stored file unchanged / replaced by valid JSON / left invalid.  The model runs the
    statement sequence the translator read off the source with the first statement of that kind raising."""
    from cherab.openadas import repository
    C, D, H = species('carbon'), species('deuterium'), species('hydrogen')
    recipes = {
        'atomic.py:_update_and_write_adf11': ('adf11', lambda r, R: repository.add_ionisation_rate(C, 1, r, repository_path=R)),
        'radiated_power.py:_update_and_write_adf11': ('adf11', lambda r, R: repository.add_line_power_rate(C, 1, r, repository_path=R)),
        'pec.py:update_pec_rates': ('pec', lambda r, R: repository.add_pec_excitation_rate(C, 1, (3, 2), r, repository_path=R)),
        'pec.py:update_pec_thermal_cx_rates': ('pec3', lambda r, R: repository.add_pec_thermal_cx_rate(H, 0, C, 1, (3, 2), r, repository_path=R)),
        'wavelength.py:update_wavelengths': ('wl', lambda r, R: repository.add_wavelength(C, 1, (3, 2), r, repository_path=R)),
        'beam/cx.py:update_beam_cx_rates': ('bcx', lambda r, R: repository.add_beam_cx_rate(D, 1, C, 6, (8, 7), r, repository_path=R)),
        'beam/emission.py:update_beam_emission_rates': ('beam', lambda r, R: repository.add_beam_emission_rate(D, C, 6, (3, 2), r, repository_path=R)),
        'beam/stopping.py:add_beam_stopping_rate': ('beam', lambda r, R: repository.add_beam_stopping_rate(D, C, 6, r, repository_path=R)),
        'beam/population.py:add_beam_population_rate': ('beam', lambda r, R: repository.add_beam_population_rate(D, 1, C, 6, r, repository_path=R)),
    }
    out = []
    for name, _steps in segs:
        if name not in recipes:
            ctx.count('write-segment:no-recipe:' + name)
            continue
        layout, call = recipes[name]
        for kind in ('none', 'validate', 'json'):
            if layout == 'wl' and kind == 'json':
                continue
            R = tempfile.mkdtemp(prefix='c06W_')
            try:
                if _status(lambda: call(mk_rate(layout, 1.0, (2, 2, 2)), R)) != 'ok':
                    ctx.broke('correspondence', 'C06 write-segment stream: set-up call rejected', dict(writer=name))
                    continue
                files = [os.path.join(r, f) for r, _, fs in os.walk(R) for f in fs]
                if len(files) != 1:
                    ctx.broke('correspondence', 'C06 write-segment stream: set-up call wrote %d files' % len(files), dict(writer=name))
                    continue
                before = open(files[0], 'rb').read()
                rate = mk_rate(layout, 2.0, (2, 2, 2))
                if kind == 'validate':
                    rate = 'not-a-number' if layout == 'wl' else dict(rate, **{sorted(k for k in rate if isinstance(rate[k], list))[0]: 'abc'})
                elif kind == 'json':
                    rate = dict(rate, extra={1, 2})
                st = _status(lambda: call(rate, R))
                after = open(files[0], 'rb').read()
                try:
                    json.loads(after.decode())
                    state = 'old' if after == before else 'new'
                except ValueError:
                    state = 'truncated'
                if state == 'truncated':
                    ctx.fail('C06:%s:file-left-invalid-json:write-segment-%s' % (name.split(':')[1], kind),
                             '%s on a stored file with a %s failure -> %s, file is no longer JSON' % (name, kind, st),
                             dict(writer=name, kind=kind))
                ctx.case(key=('wseg', name, kind, st, state))
                # the oracle "which statement raises" is an input of the model: an entry JSON cannot serialise makes a
                # statement raise only where the caller's dictionary itself is serialised; if the call returned, none did
                sent = kind if st != 'ok' else 'none'
                out.append(('wseg %s %s' % (hexs(name), sent), '%s %s' % ('ok' if st == 'ok' else 'err', state), '%s/%s -> %s' % (name, kind, st)))
            finally:
                shutil.rmtree(R, ignore_errors=True)
    return out


def encode_stream(ctx, rng):
    """encode_transition: model vs implementation, and the property's key equality on the implementation"""
    from cherab.openadas.repository.utility import encode_transition
    lv = LEVELS_INT + LEVELS_STR + ['1S2 2P', '1s2 2p', '-1', -1, 0, '0', 'X Y', 'x y', '']
    out = []
    for it in range(ctx.n(400, 4000)):
        a = (rng.choice(lv), rng.choice(lv))
        b = (rng.choice(lv), rng.choice(lv))
        if it % 2:
            # a near-collision of a: one level replaced by one of its variants
            i = rng.randrange(2)
            v = rng.choice(level_variants(a[i]))[0]
            b = (v, a[1]) if i == 0 else (a[0], v)
        ea, eb = encode_transition(a), encode_transition(b)
        if (ea == eb) != (tkey(a) == tkey(b)):
            ctx.fail('C06:encode_transition:key-equality', 'encode_transition(%r)=%r, encode_transition(%r)=%r' % (a, ea, b, eb),
                     dict(a=a, b=b))
        ctx.case(key=('enc', str(a)))
        out.append(('enc %s %s' % (lvl_tok(a[0]), lvl_tok(a[1])), ea))
    return out


def list_transition_monitor(ctx):
    """a transition given as a list is the key of the same transition given as a tuple (the getters only unpack it); as a
    dictionary key in add_* it is unhashable: TypeError, nothing written"""
    from cherab.openadas import repository
    w = World()
    try:
        R = w.path('A')
        C = species('carbon')
        repository.add_wavelength(C, 1, (3, 2), 500.0, repository_path=R)
        repository.add_pec_excitation_rate(C, 1, ('2S', '1s'), mk_rate('pec', 1.0, (1, 1)), repository_path=R)
        for t in ([3, 2], ['3', '2'], ('3', '2')):
            try:
                v = repository.get_wavelength(C, 1, t, repository_path=R)
            except Exception as e:  # noqa
                v = exc_kind(e)
            ctx.case(key=('list-transition', repr(t)))
            if v != 500.0:
                ctx.fail('C06:get_wavelength:list-or-string-spelling-of-a-transition-not-aliased',
                         'get_wavelength(C, 1, %r) -> %r after add_wavelength(C, 1, (3, 2), 500.0)' % (t, v), dict(transition=t))
        for t in ([4, 2], [' 3', 2]):
            try:
                v = repository.get_wavelength(C, 1, t, repository_path=R)
            except RuntimeError:
                v = 'RuntimeError'
            except Exception as e:  # noqa
                v = exc_kind(e)
            if v != 'RuntimeError':
                ctx.fail('C06:get_wavelength:never-written-list-transition-readable',
                         'get_wavelength(C, 1, %r) -> %r, never written' % (t, v), dict(transition=t))
        before = w.listing()
        st = _status(lambda: repository.add_wavelength(C, 1, [4, 2], 1.0, repository_path=R))
        if st == 'ok' or w.listing() != before:
            if _status(lambda: repository.get_wavelength(C, 1, (4, 2), repository_path=R)) != 'ok' or w.listing().keys() != before.keys():
                ctx.fail('C06:add_wavelength:list-transition-half-written', 'add_wavelength(C, 1, [4, 2]) -> %s changed the '
                         'repository without making (4, 2) readable' % st, dict(transition=[4, 2]))
        ctx.count('list-transition-add:' + st)
    finally:
        w.close()


def registry_monitor(ctx):
    """the key of the property is the species *symbol*; the files are named by the lower-cased symbol: no two distinct
    symbols of the registry may coincide after lower-casing, and a symbol must be a single safe path component"""
    import re
    from cherab.core.atomic import elements, Element
    syms = sorted({getattr(elements, n).symbol for n in dir(elements) if isinstance(getattr(elements, n), Element)})
    low = {}
    for s in syms:
        low.setdefault(s.lower(), []).append(s)
        if not re.fullmatch(r'[A-Za-z0-9]+', s):
            ctx.fail('C06:registry:symbol-not-a-path-component', 'symbol %r' % s, dict(symbol=s))
    for k, v in low.items():
        if len(v) > 1:
            ctx.fail('C06:registry:symbols-collide-after-lower', 'symbols %r share the file name %r' % (v, k), dict(symbols=v))
    ctx.count('registry-symbols', len(syms))
    ctx.case(key=('registry', len(syms)))


def replay(ctx, path):
    prepare_home()
    r = json.load(open(path))
    rp = r.get('replay', r)
    facts = repo_paths.extract()
    ops = rp['ops']
    probes = [tuple(p) for p in rp.get('probes', [])]
    h = run_history(facts, ops, probes)
    print('replaying %d calls' % len(ops))
    for op in ops:
        print('  ', json.dumps(_brief(op)))
    for f in h.failures:
        print('FAILS:', f['signature'], '--', f['description'])
        ctx.fail(r.get('signature') or f['signature'], f['description'], dict(ops=ops, probes=probes))
    if not h.failures:
        print('no failure on the current tree')
    ctx.rule = 'replay of ' + path
    ctx.case(key=('replay', path))
    return ctx.finish()
