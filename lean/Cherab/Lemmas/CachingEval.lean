import Cherab.Lemmas.CachingInterp
import Cherab.Lemmas.CachingMl3

/-!
Helper lemmas for C14, part 6: from `evalPure` of the three concrete `Spec`s to the algebra of part 3–5.
-/
namespace Cherab.Caching
set_option linter.unusedSectionVars false
set_option linter.unusedSimpArgs false

variable {α : Type} [Field α] [LinearOrder α] [IsStrictOrderedRing α]

/-- hypotheses on the external functions: C `pow`, and `numpy.linalg.solve` returns (when it returns) a vector that
satisfies every equation of the system it was given -/
structure ExtOK (E : Ext α) : Prop where
  powi : ∀ x n, E.powi x n = x ^ n
  solve : ∀ A b c, E.solve A b = some c → Solves A b c

/-- what the constructor establishes for an axis (`mkAxis_ok`) -/
structure AxisOK (ax : Axis α) : Prop where
  sorted : ax.Sorted
  top : 3 ≤ ax.top
  xn_eq : ∀ i, ax.xn i = (ax.dom i - ax.xmin) * ax.dinv
  dinv_ne : ax.dinv ≠ 0

theorem mkAxis_ok (trunc : α → Nat) (mn mx dx : α) (h : mn < mx) (hd : EPS < dx) : AxisOK (mkAxis trunc mn mx dx) :=
  ⟨mkAxis_sorted trunc mn mx dx h hd, mkAxis_top trunc mn mx dx, mkAxis_xn trunc mn mx dx,
    mkAxis_dinv_ne trunc mn mx dx h hd⟩

/-- what the constructor establishes for the value normalisation (`mkNorm_ok`) -/
structure NormOK (nm : Norm α) : Prop where
  delta_ne : nm.delta ≠ 0
  inv : nm.deltaInv = 1 / nm.delta

theorem mkNorm_ok (b : Option (α × α)) : NormOK (mkNorm b) := by
  cases b with
  | none => exact ⟨by simp [mkNorm], by simp [mkNorm]⟩
  | some lh =>
    obtain ⟨lo, hi⟩ := lh
    by_cases h : hi - lo = 0
    · exact ⟨by simp [mkNorm, h], by simp [mkNorm, h]⟩
    · exact ⟨by simp [mkNorm, h], by simp [mkNorm, h]⟩

/-- the float environment seen from an ordered field: no NaN, and a wrapped function that returns everywhere -/
def envOf {P : Type} (f : P → α) (nm : Norm α) : Env α P :=
  { f := fun p => some (f p), isnan := fun _ => false, nan := 0, norm := nm.apply }

theorem envOf_all {P ν : Type} (f : P → α) (nm : Norm α) (coord : ν → P) (L : List ν) :
    L.all (fun u => ((envOf f nm).f (coord u)).isSome) = true := by
  simp [envOf]

theorem AxisOK.xn_ne {ax : Axis α} (h : AxisOK ax) (i j : Nat) (hij : i < j) (hj : j ≤ ax.top) :
    ax.xn j ≠ ax.xn i := by
  rw [h.xn_eq, h.xn_eq]
  intro e
  have := mul_right_cancel₀ h.dinv_ne e
  have h2 := h.sorted i j hij hj
  linarith

theorem AxisOK.dom_eq {ax : Axis α} (h : AxisOK ax) (i : Nat) : ax.dom i = ax.xn i / ax.dinv + ax.xmin := by
  rw [h.xn_eq]; field_simp [h.dinv_ne]; ring

theorem NormOK.unapply {nm : Norm α} (h : NormOK nm) (v : α) : nm.delta * nm.apply v + nm.dmin = v := by
  unfold Norm.apply; rw [h.inv]; field_simp [h.delta_ne]; ring

/-! ### 1-D -/

/-- normalised stencil data of cell `i`, indexed by stencil position -/
def d1 (ax : Axis α) (nm : Norm α) (f : α → α) (i : Nat) : Nat → α :=
  fun k => ((stencil1 i).map (fun u => nm.apply (f (ax.dom u)))).getD k 0

theorem nodeVal1 (E : Ext α) (ax : Axis α) (nm : Norm α) (f : α → α) :
    nodeVal (spec1 E ax nm) (envOf f nm) = fun u => nm.apply (f (ax.dom u)) := by
  funext u; simp [nodeVal, envOf, spec1]

theorem d1_eq (ax : Axis α) (nm : Norm α) (f : α → α) (i' k : Nat) (hk : k < 4) :
    d1 ax nm f (i' + 1) k = nm.apply (f (ax.dom (i' + k))) := by
  interval_cases k <;> simp [d1, stencil1, Nat.add_assoc]

theorem isSol1_congr (ax : Axis α) (i : Nat) (d d' c : Nat → α) (h : ∀ k, k < 4 → d k = d' k)
    (hs : IsSol1 ax i d c) : IsSol1 ax i d' c := by
  intro l hl
  have := hs l hl
  interval_cases l <;> simp [row1] at this ⊢ <;>
    simp only [← h 0 (by norm_num), ← h 1 (by norm_num), ← h 2 (by norm_num), ← h 3 (by norm_num)] <;> exact this

/-- a value returned inside cell `i` is the denormalised polynomial of *some* solution of the cell's system -/
theorem evalPure1_val (E : Ext α) (hE : ExtOK E) (ax : Axis α) (nm : Norm α) (f : α → α) (nbe : Bool) (p v : α)
    (i : Nat) (hc : cellOf ax p = some i)
    (h : evalPure (spec1 E ax nm) (envOf f nm) nbe p = .val v) :
    ∃ c, IsSol1 ax i (d1 ax nm f i) c ∧ v = poly1 (finish1 E ax nm c) p := by
  have h' := h
  unfold evalPure at h'
  rw [show (spec1 E ax nm).locate p = some i from hc] at h'
  dsimp only at h'
  rw [envOf_all, if_pos rfl] at h'
  rw [nodeVal1] at h'
  simp only [spec1, build1] at h'
  generalize hs : E.solve (system1 ax i fun k => ((stencil1 i).map fun u => nm.apply (f (ax.dom u))).getD k 0).1
    (system1 ax i fun k => ((stencil1 i).map fun u => nm.apply (f (ax.dom u))).getD k 0).2 = r at h'
  cases r with
  | none => simp at h'
  | some c =>
    simp only [Option.map_some, Out.val.injEq] at h'
    exact ⟨c, (solves_system1 ax i _ c).mp (hE.solve _ _ c hs), h'.symm⟩

theorem isSol2_congr (ax ay : Axis α) (cell : Nat × Nat) (D D' : Nat → Nat → α) (c : Nat → α)
    (h : ∀ a b, a < 4 → b < 4 → D a b = D' a b) (hs : IsSol2 ax ay cell D c) : IsSol2 ax ay cell D' c := by
  intro l hl
  have := hs l hl
  rw [row2_fst ax ay cell D' D, this]
  interval_cases l <;> simp [row2, h]

theorem isSol3_congr (ax ay az : Axis α) (cell : Nat × Nat × Nat) (D D' : Nat → Nat → Nat → α) (c : Nat → α)
    (h : ∀ a b k, a < 4 → b < 4 → k < 4 → D a b k = D' a b k) (hs : IsSol3 ax ay az cell D c) :
    IsSol3 ax ay az cell D' c := by
  intro l hl
  have := hs l hl
  rw [row3_fst ax ay az cell D' D, this]
  interval_cases l <;> simp [row3, h]

/-! ### polynomial evaluation only reads its 4^d coefficients and is linear in them -/

theorem poly1_congr (c c' : Nat → α) (q : α) (h : ∀ k, k < 4 → c k = c' k) : poly1 c q = poly1 c' q := by
  simp [poly1, h]
theorem poly2_congr (c c' : Nat → α) (q : α × α) (h : ∀ k, k < 16 → c k = c' k) : poly2 c q = poly2 c' q := by
  simp [poly2, h]
theorem poly3_congr (c c' : Nat → α) (q : α × α × α) (h : ∀ k, k < 64 → c k = c' k) : poly3 c q = poly3 c' q := by
  simp [poly3, cub, h]

theorem poly1_lin_e0 (c : Nat → α) (t u : α) (q : α) : poly1 (fun n => t * c n + u * e0 n) q = t * poly1 c q + u := by
  simp [poly1, e0]; ring
theorem poly2_lin_e0 (c : Nat → α) (t u : α) (q : α × α) :
    poly2 (fun n => t * c n + u * e0 n) q = t * poly2 c q + u := by
  simp [poly2, e0]; ring
theorem poly3_lin_e0 (c : Nat → α) (t u : α) (q : α × α × α) :
    poly3 (fun n => t * c n + u * e0 n) q = t * poly3 c q + u := by
  simp [poly3, cub, e0]; ring

theorem poly2_embed (m : Nat → Nat → α) (x y : α) : poly2 (embed2 m) (x, y) = ml2 m x y := by
  simp [poly2, embed2, ml2]; ring
theorem poly3_embed (m : Nat → Nat → Nat → α) (x y z : α) : poly3 (embed3 m) (x, y, z) = ml3 m x y z := by
  simp [poly3, cub, embed3, ml3]; ring

/-! ### 2-D -/

def d2 (ax ay : Axis α) (nm : Norm α) (f : α × α → α) (cell : Nat × Nat) : Nat → Nat → α :=
  fun a b => ((stencil2 cell).map (fun u => nm.apply (f (ax.dom u.1, ay.dom u.2)))).getD (4 * a + b) 0

theorem nodeVal2 (E : Ext α) (ax ay : Axis α) (nm : Norm α) (f : α × α → α) :
    nodeVal (spec2 E ax ay nm) (envOf f nm) = fun u => nm.apply (f (ax.dom u.1, ay.dom u.2)) := by
  funext u; simp [nodeVal, envOf, spec2]

theorem d2_eq (ax ay : Axis α) (nm : Norm α) (f : α × α → α) (i' j' a b : Nat) (ha : a < 4) (hb : b < 4) :
    d2 ax ay nm f (i' + 1, j' + 1) a b = nm.apply (f (ax.dom (i' + a), ay.dom (j' + b))) := by
  interval_cases a <;> interval_cases b <;> simp [d2, stencil2, stencil1, Nat.add_assoc]

theorem cellOf2_some (ax ay : Axis α) (p : α × α) (cell : Nat × Nat) (h : cellOf2 ax ay p = some cell) :
    cellOf ax p.1 = some cell.1 ∧ cellOf ay p.2 = some cell.2 := by
  unfold cellOf2 at h
  cases hx : cellOf ax p.1 <;> cases hy : cellOf ay p.2 <;> simp [hx, hy] at h
  subst h; exact ⟨rfl, rfl⟩

theorem evalPure2_val (E : Ext α) (hE : ExtOK E) (ax ay : Axis α) (nm : Norm α) (f : α × α → α) (nbe : Bool)
    (p : α × α) (v : α) (cell : Nat × Nat) (hc : cellOf2 ax ay p = some cell)
    (h : evalPure (spec2 E ax ay nm) (envOf f nm) nbe p = .val v) :
    ∃ c, IsSol2 ax ay cell (d2 ax ay nm f cell) c ∧ v = poly2 (finish2 E ax ay nm c) p := by
  have h' := h
  unfold evalPure at h'
  rw [show (spec2 E ax ay nm).locate p = some cell from hc] at h'
  dsimp only at h'
  rw [envOf_all, if_pos rfl] at h'
  rw [nodeVal2] at h'
  simp only [spec2, build2] at h'
  generalize hs : E.solve
    (system2 ax ay cell fun a b =>
      ((stencil2 cell).map fun u => nm.apply (f (ax.dom u.1, ay.dom u.2))).getD (4 * a + b) 0).1
    (system2 ax ay cell fun a b =>
      ((stencil2 cell).map fun u => nm.apply (f (ax.dom u.1, ay.dom u.2))).getD (4 * a + b) 0).2 = r at h'
  cases r with
  | none => simp at h'
  | some c =>
    simp only [Option.map_some, Out.val.injEq] at h'
    exact ⟨c, (solves_system2 ax ay cell _ c).mp (hE.solve _ _ c hs), h'.symm⟩

/-! ### 3-D -/

def d3 (ax ay az : Axis α) (nm : Norm α) (f : α × α × α → α) (cell : Nat × Nat × Nat) : Nat → Nat → Nat → α :=
  fun a b k => ((stencil3 cell).map (fun u => nm.apply (f (ax.dom u.1, ay.dom u.2.1, az.dom u.2.2)))).getD
    (16 * a + 4 * b + k) 0

theorem nodeVal3 (E : Ext α) (ax ay az : Axis α) (nm : Norm α) (f : α × α × α → α) :
    nodeVal (spec3 E ax ay az nm) (envOf f nm) = fun u => nm.apply (f (ax.dom u.1, ay.dom u.2.1, az.dom u.2.2)) := by
  funext u; simp [nodeVal, envOf, spec3]

theorem d3_eq (ax ay az : Axis α) (nm : Norm α) (f : α × α × α → α) (i' j' k' a b k : Nat) (ha : a < 4) (hb : b < 4)
    (hk : k < 4) :
    d3 ax ay az nm f (i' + 1, j' + 1, k' + 1) a b k =
      nm.apply (f (ax.dom (i' + a), ay.dom (j' + b), az.dom (k' + k))) := by
  interval_cases a <;> interval_cases b <;> interval_cases k <;> simp [d3, stencil3, stencil1, Nat.add_assoc]

theorem cellOf3_some (ax ay az : Axis α) (p : α × α × α) (cell : Nat × Nat × Nat)
    (h : cellOf3 ax ay az p = some cell) :
    cellOf ax p.1 = some cell.1 ∧ cellOf ay p.2.1 = some cell.2.1 ∧ cellOf az p.2.2 = some cell.2.2 := by
  unfold cellOf3 at h
  cases hx : cellOf ax p.1 <;> cases hy : cellOf ay p.2.1 <;> cases hz : cellOf az p.2.2 <;> simp [hx, hy, hz] at h
  subst h; exact ⟨rfl, rfl, rfl⟩

theorem evalPure3_val (E : Ext α) (hE : ExtOK E) (ax ay az : Axis α) (nm : Norm α) (f : α × α × α → α) (nbe : Bool)
    (p : α × α × α) (v : α) (cell : Nat × Nat × Nat) (hc : cellOf3 ax ay az p = some cell)
    (h : evalPure (spec3 E ax ay az nm) (envOf f nm) nbe p = .val v) :
    ∃ c, IsSol3 ax ay az cell (d3 ax ay az nm f cell) c ∧ v = poly3 (finish3 E ax ay az nm c) p := by
  have h' := h
  unfold evalPure at h'
  rw [show (spec3 E ax ay az nm).locate p = some cell from hc] at h'
  dsimp only at h'
  rw [envOf_all, if_pos rfl] at h'
  rw [nodeVal3] at h'
  simp only [spec3, build3] at h'
  generalize hs : E.solve
    (system3 ax ay az cell fun a b k =>
      ((stencil3 cell).map fun u => nm.apply (f (ax.dom u.1, ay.dom u.2.1, az.dom u.2.2))).getD
        (16 * a + 4 * b + k) 0).1
    (system3 ax ay az cell fun a b k =>
      ((stencil3 cell).map fun u => nm.apply (f (ax.dom u.1, ay.dom u.2.1, az.dom u.2.2))).getD
        (16 * a + 4 * b + k) 0).2 = r at h'
  cases r with
  | none => simp at h'
  | some c =>
    simp only [Option.map_some, Out.val.injEq] at h'
    exact ⟨c, (solves_system3 ax ay az cell _ c).mp (hE.solve _ _ c hs), h'.symm⟩


end Cherab.Caching
