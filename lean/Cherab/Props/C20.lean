import Cherab.Model.Admt
namespace Cherab.Props.C20
open Cherab.Admt
theorem placeholder : (1 : Nat) = 1 := rfl
end Cherab.Props.C20
