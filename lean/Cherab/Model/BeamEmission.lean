/-
C05 — beam charge-exchange and beam-emission radiance
(cherab/core/model/beam/charge_exchange.pyx, cherab/core/model/beam/beam_emission.pyx,
 cherab/core/plasma/node.pyx `z_effective`, `ion_density`; raysect `Vector3D.normalise/mul/sub/get_length`).

Mathlib-free; polymorphic over notation so that the same definitions run at `Float` in the driver and are reasoned
about over an ordered field.  Transcribed from the code as it is:

* every accumulation is a left fold in the code's order (`acc += term`), see `sumL`/`sumFrom`;
* `sqrt` is a parameter; the physical constants (`ELEMENTARY_CHARGE`, `ATOMIC_MASS`, `RECIP_4_PI`) are a parameter
  record, the reciprocals `1/e`, `1/amu` are formed exactly as the module-level `cdef double RECIP_… = 1 / …`;
* rate coefficients (`BeamCXPEC.evaluate`, `BeamPopulationRate.evaluate`, `BeamEmissionPEC.evaluate`) are function
  parameters; the plasma is given by the values its distribution functions take at the plasma point, in
  composition order;
* `Plasma.ion_density` sums the density of *every* species of the composition, neutrals included (node.pyx:460,
  and its docstring example);  `z_effective` skips `charge = 0` and raises when `Σ n Z² = 0`;
* a neutral species in the composition makes `_beam_population` / `_beam_emission_rate` divide by `target_z = 0`
  under `cdivision(True)`; the model performs the same division (at `Float`: `inf`/`nan`), nothing is guarded.
-/
namespace Cherab.BeamEmission

/-- raysect `Vector3D` -/
structure V3 (α : Type) where
  x : α
  y : α
  z : α

/-- one plasma species sampled at the plasma point: `species.charge`, `distribution.density`,
`distribution.effective_temperature`, `distribution.bulk_velocity` -/
structure Species (α : Type) where
  charge : Nat
  density : α
  temperature : α
  velocity : V3 α

/-- `cherab.core.utility.constants` -/
structure Consts (α : Type) where
  e : α          -- ELEMENTARY_CHARGE
  amu : α        -- ATOMIC_MASS
  recip4pi : α   -- RECIP_4_PI

/-- the five arguments of `BeamCXPEC.evaluate(energy, temperature, density, z_effective, b_field)` -/
structure CXArgs (α : Type) where
  energy : α
  temperature : α
  density : α
  zEffective : α
  bField : α

/-- what `emission()` did with the spectrum -/
inductive Out (α : Type) where
  | skip                     -- returned the spectrum untouched (early exit), `add_line` not called
  | line (radiance : α)      -- `self._lineshape.add_line(radiance, …)`
  | zeroDivision             -- `beam_direction.normalise()` of a zero vector
  | valueError               -- `z_effective`: plasma does not contain any ionised species
  | indexError               -- receiver species not in the composition (`_populate_cache` raises RuntimeError)

section
variable {α : Type} [Add α] [Sub α] [Mul α] [Div α] [Neg α] [Zero α] [One α] [OfScientific α] [NatCast α]
  [LT α] [LE α] [DecidableLT α] [DecidableLE α] [BEq α]

/-- `acc = init; for s in l: acc += f(s)` -/
def sumFrom {σ : Type} (init : α) (f : σ → α) (l : List σ) : α := l.foldl (fun acc s => acc + f s) init

/-- `acc = 0; for s in l: acc += f(s)` -/
def sumL {σ : Type} (f : σ → α) (l : List σ) : α := sumFrom 0 f l

def V3.sub (a b : V3 α) : V3 α := ⟨a.x - b.x, a.y - b.y, a.z - b.z⟩
def V3.mul (a : V3 α) (m : α) : V3 α := ⟨a.x * m, a.y * m, a.z * m⟩
def V3.normSq (a : V3 α) : α := a.x * a.x + a.y * a.y + a.z * a.z
/-- `Vector3D.get_length` -/
def V3.length (sqrt : α → α) (a : V3 α) : α := sqrt a.normSq
/-- `Vector3D.normalise` (raises ZeroDivisionError on a zero vector) -/
def V3.normalise (sqrt : α → α) (a : V3 α) : Option (V3 α) :=
  let t := a.normSq
  if t == 0 then none else
    let t' := 1 / sqrt t
    some ⟨a.x * t', a.y * t', a.z * t'⟩

/-- `evamu_to_ms`: `sqrt(2 * x * ELEMENTARY_CHARGE * RECIP_ATOMIC_MASS)` -/
def evamuToMs (c : Consts α) (sqrt : α → α) (x : α) : α := sqrt (2.0 * x * c.e * (1 / c.amu))

/-- `ms_to_evamu`: `0.5 * (x ** 2) * RECIP_ELEMENTARY_CHARGE * ATOMIC_MASS` -/
def msToEvamu (c : Consts α) (x : α) : α := 0.5 * (x * x) * (1 / c.e) * c.amu

/-- `beam_direction.normalise().mul(evamu_to_ms(self._beam.get_energy()))` -/
def beamVelocity (c : Consts α) (sqrt : α → α) (energy : α) (dir : V3 α) : Option (V3 α) :=
  (dir.normalise sqrt).map fun d => d.mul (evamuToMs c sqrt energy)

/-- `ms_to_evamu(beam_velocity.sub(target_velocity).get_length())` -/
def interactionEnergy (c : Consts α) (sqrt : α → α) (vb vt : V3 α) : α :=
  msToEvamu c ((vb.sub vt).length sqrt)

/-! ### `Plasma.ion_density`, `Plasma.z_effective` -/

/-- node.pyx:437 — sum of the densities of all species of the composition -/
def ionDensity (sp : List (Species α)) : α := sumL (fun s => s.density) sp

def chargedOnly (sp : List (Species α)) : List (Species α) := sp.filter fun s => decide (s.charge > 0)

/-- `sum_nz` of node.pyx:427 -/
def sumNZ (sp : List (Species α)) : α := sumL (fun s => s.density * (s.charge : α)) (chargedOnly sp)
/-- `sum_nz2` of node.pyx:428 -/
def sumNZ2 (sp : List (Species α)) : α :=
  sumL (fun s => s.density * (s.charge : α) * (s.charge : α)) (chargedOnly sp)

/-- node.pyx:396 — `none` = ValueError('Plasma does not contain any ionised species.') -/
def zEffective (sp : List (Species α)) : Option α :=
  if sumNZ2 sp == 0 then none else some (sumNZ2 sp / sumNZ sp)

/-! ### charge-density weighted sums shared by `_beam_population` and `_beam_emission_rate` -/

/-- `density_sum += species.charge**2 * species.distribution.density(x, y, z)` -/
def densitySum (sp : List (Species α)) : α :=
  sumL (fun s => ((s.charge * s.charge : Nat) : α) * s.density) sp

/-- `target_ne = density * target_z` -/
def targetNe (s : Species α) : α := s.density * (s.charge : α)

/-- `target_equiv_ne = density_sum / target_z` (C division: `target_z = 0` gives inf/nan at `Float`) -/
def equivNe (dsum : α) (s : Species α) : α := dsum / (s.charge : α)

/-- one term `target_ne * coeff.evaluate(interaction_energy, target_equiv_ne, target_ti)` -/
def weightedTerm (c : Consts α) (sqrt : α → α) (vb : V3 α) (dsum : α) (sc : Species α × (α → α → α → α)) : α :=
  targetNe sc.1 * sc.2 (interactionEnergy c sqrt vb sc.1.velocity) (equivNe dsum sc.1) sc.1.temperature

/-- `Σ target_ne * coeff(E_int, density_sum / Z, T)` over (species, coefficient) pairs in list order -/
def weightedSum (c : Consts α) (sqrt : α → α) (vb : V3 α) (data : List (Species α × (α → α → α → α))) : α :=
  let dsum := densitySum (data.map Prod.fst)
  sumL (weightedTerm c sqrt vb dsum) data

/-- charge_exchange.pyx:241 `_beam_population` -/
def beamPopulation (c : Consts α) (sqrt : α → α) (vb : V3 α) (data : List (Species α × (α → α → α → α))) : α :=
  weightedSum c sqrt vb data / sumL (fun sc => targetNe sc.1) data

/-- beam_emission.pyx:131 `_beam_emission_rate` -/
def beamEmissionRate (c : Consts α) (sqrt : α → α) (vb : V3 α) (data : List (Species α × (α → α → α → α))) : α :=
  weightedSum c sqrt vb data

/-! ### charge exchange -/

/-- charge_exchange.pyx:209-236: `rate = q1; total = 1; for (k, q): rate += k*q; total += k; rate /= total` -/
def compositeCXRate (q1 : α) (ex : List (α × α)) : α :=
  sumFrom q1 (fun kq => kq.1 * kq.2) ex / sumFrom 1 (fun kq => kq.1) ex

def CXArgs.apply (a : CXArgs α) (f : α → α → α → α → α → α) : α :=
  f a.energy a.temperature a.density a.zEffective a.bField

/-- everything `BeamCXLine.emission` reads: beam energy, direction, density at the beam point; the composition sampled
at the plasma point; the index of the receiver species in the composition; the magnetic field vector -/
structure CXScene (α : Type) where
  beamEnergy : α
  beamDirection : V3 α
  beamDensity : α
  species : List (Species α)
  receiver : Nat
  bField : V3 α

/-- `_composite_cx_rate`: argument tuple (`none` when `z_effective` raises) -/
def cxArgs (sqrt : α → α) (sp : List (Species α)) (b : V3 α) (energy temperature : α) : Option (CXArgs α) :=
  (zEffective sp).map fun ze => ⟨energy, temperature, ionDensity sp, ze, b.length sqrt⟩

/-- `_composite_cx_rate` given the argument tuple -/
def compositeAt (c : Consts α) (sqrt : α → α) (vb : V3 α) (sp : List (Species α)) (a : CXArgs α)
    (ground : α → α → α → α → α → α)
    (excited : List ((α → α → α → α → α → α) × List (α → α → α → α))) : α :=
  compositeCXRate (a.apply ground)
    (excited.map fun e => (beamPopulation c sqrt vb (sp.zip e.2), a.apply e.1))

/-- charge_exchange.pyx:117 `BeamCXLine.emission`.
`excited` = `_excited_beam_data`: for every metastable > 1 its rate and one population coefficient per species
(composition order). -/
def cxEmission (c : Consts α) (sqrt : α → α) (s : CXScene α)
    (ground : α → α → α → α → α → α)
    (excited : List ((α → α → α → α → α → α) × List (α → α → α → α))) : Out α :=
  match s.species[s.receiver]? with
  | none => .indexError
  | some r =>
    if s.beamDensity == 0 then .skip else
    if r.density == 0 then .skip else
    if r.temperature == 0 then .skip else
    match beamVelocity c sqrt s.beamEnergy s.beamDirection with
    | none => .zeroDivision
    | some vd =>
      let eInt := interactionEnergy c sqrt vd r.velocity
      match cxArgs sqrt s.species s.bField eInt r.temperature with
      | none => .valueError
      | some a =>
        .line (c.recip4pi * s.beamDensity * r.density * compositeAt c sqrt vd s.species a ground excited)

/-! ### beam emission -/

structure BESScene (α : Type) where
  beamEnergy : α
  beamDirection : V3 α
  beamDensity : α
  species : List (Species α)

/-- beam_emission.pyx:100 `BeamEmissionLine.emission`; `rates` = one `BeamEmissionPEC` per species -/
def besEmission (c : Consts α) (sqrt : α → α) (s : BESScene α) (rates : List (α → α → α → α)) : Out α :=
  if s.beamDensity == 0 then .skip else
  match beamVelocity c sqrt s.beamEnergy s.beamDirection with
  | none => .zeroDivision
  | some vb => .line (c.recip4pi * s.beamDensity * beamEmissionRate c sqrt vb (s.species.zip rates))

end
/-! ### `Composition` (node.pyx:33-164): the species dictionary behind `Plasma.composition`

Keys `(element, charge)` are numbers here, the payload is the identity of the `Species` object.  A Python `dict`
keeps insertion order and an assignment to an existing key keeps its position.  `none` results = the call raised;
the caller's dictionary is then what it was (the functions return the new dictionary only on success) and no
notification is sent. -/

/-- an element of the list handed to `set` / the argument of `add` -/
inductive Item where
  | species (key : Nat) (obj : Nat)   -- a `Species` object
  | other                             -- anything else (wrong type, `None` inside a list)
  deriving Repr, DecidableEq

def Item.isSpecies : Item → Bool
  | .species _ _ => true
  | .other => false

/-- `self._species[key] = obj` -/
def dictAssign (d : List (Nat × Nat)) (key obj : Nat) : List (Nat × Nat) :=
  if d.any (fun e => e.1 == key) then d.map (fun e => if e.1 == key then (key, obj) else e) else d ++ [(key, obj)]

def insertItem (d : List (Nat × Nat)) : Item → List (Nat × Nat)
  | .species k o => dictAssign d k o
  | .other => d

/-- result of a mutator: the dictionary afterwards, whether it raised, whether `notifier.notify()` ran -/
structure CompResult where
  dict : List (Nat × Nat)
  raised : Bool
  notified : Bool
  deriving Repr, DecidableEq

/-- `Composition.set`: every item is type-checked *before* the dictionary is reset -/
def compositionSet (d : List (Nat × Nat)) (items : List Item) : CompResult :=
  if items.all Item.isSpecies then ⟨items.foldl insertItem [], false, true⟩ else ⟨d, true, false⟩

/-- `Composition.add(species)`: `None` → ValueError, a non-Species → TypeError (argument typing), both before any change -/
def compositionAdd (d : List (Nat × Nat)) (item : Option Item) : CompResult :=
  match item with
  | some (.species k o) => ⟨dictAssign d k o, false, true⟩
  | _ => ⟨d, true, false⟩

/-- `Composition.clear` -/
def compositionClear (_d : List (Nat × Nat)) : CompResult := ⟨[], false, true⟩

end Cherab.BeamEmission
