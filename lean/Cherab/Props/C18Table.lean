import Cherab.Props.C18
import Cherab.Gen.LaserEdges

/-!
# C18 — theorems about the class tables generated from /repo's *current* source (`Gen/LaserEdges.lean`)

This module holds the structural obligations (the translator understood every statement; the tables are well formed;
the constructors call every setter; geometry changes notify).  The obligations that correspond to known defects of
the unchanged tree live in their own modules so that each is attributed separately:
`C18TableProfiles` (covered_profiles), `C18TableSpectra` (covered_spectra), `C18TableGetters`
(getter_returns_own_field), `C18TableAtomic` (rejected_assignments_atomic), `C18TableFresh` (history_eq_fresh for
the six classes; needs all of the others).
-/
namespace Cherab.Props.C18Table
open Cherab.Laser Cherab.Props.C18 Cherab.Gen.LaserEdges

def ctorOpKnown : CtorOp → Bool
  | .unknown _ => false
  | _ => true

/-- nothing in the class was beyond the translator: guards, right-hand sides, getters, geometry call, constructor -/
def understoodB (t : Cls) : Bool :=
  (t.setters.all fun s => s.guard != .unknown && s.writes.all fun w => w.2 != .unknown) &&
  (t.getters.all fun g => g.field != "?") &&
  (t.geometryReads.all fun f => f != "?") && (t.rebuildPositive.all fun f => f != "?") &&
  t.ctor.all ctorOpKnown && t.binPsd != .unknown && t.evaluate != .unknown &&
  (t.isSpectrum == (t.binPsd != .none)) && (t.isSpectrum == (t.evaluate != .none)) &&
  (t.isSpectrum || t.geometryReads.length == 2)

theorem six_classes : classes.map (·.name) =
    ["UniformEnergyDensity", "ConstantBivariateGaussian", "TrivariateGaussian", "GaussianBeamAxisymmetric",
     "ConstantSpectrum", "GaussianSpectrum"] := by decide

theorem tables_understood : classes.all understoodB = true := by decide

theorem tables_well_formed :
    classes.all (fun t => propsUniqueB t && singleWriterB t && positiveWrittenB t && gettersOwnB t && observedOkB t) = true := by
  decide

theorem constructors_complete : classes.all ctorOkB = true := by decide

/-- range handling has the expected shape, every positivity-guarded setter is run by the constructor, and at every
rebuild inside a constructor the fields the inner function insists on are already positive -/
theorem constructors_accept_valid_parameters :
    classes.all (fun t => rangeShapeB t && ctorSetsPositiveB t && ctorPosCheck t t.ctor []) = true := by decide

/-- laser_radius / laser_length setters of every profile notify the listeners (the Laser node rebuilds its segments) -/
theorem geometry_changes_notify : profiles.all geometryCoveredB = true := by decide

/-- SPEED_OF_LIGHT as read from constants.pyx is the exact SI value -/
theorem speed_of_light_exact : speedOfLight = (2997924580, 1) := by decide

/-! ### non-vacuity: the hypotheses of `history_eq_fresh` are satisfiable on the generated tables -/

def triArgs : String → ℚ := fun a =>
  if a = "pulse_energy" then 2 else if a = "pulse_length" then 1/1000 else if a = "mean_z" then 1/2
  else if a = "laser_length" then 3 else if a = "laser_radius" then 1/20 else if a = "stddev_x" then 1/100
  else if a = "stddev_y" then 1/50 else 0

example : coveredB clsTrivariateGaussian = true ∧ atomicB clsTrivariateGaussian = true := by decide
example : (runCtor qExt clsTrivariateGaussian triArgs).2 = .ok := by decide +kernel
-- a rejected assignment …
example : (setProp qExt clsTrivariateGaussian (runCtor qExt clsTrivariateGaussian triArgs).1 "stddev_x" (-1)).2
    = .valueError := by decide +kernel
-- … and an accepted one that also updates the derived field `_stddev_z = pulse_length · c`
example : ((runOps qExt clsTrivariateGaussian (runCtor qExt clsTrivariateGaussian triArgs).1
    [("pulse_length", 1/500), ("stddev_x", -1)]).snap "_stddev_z") = 299792458 / 500 := by decide +kernel
-- the object reports what was assigned, and a fresh construction from the report is accepted
example : reported clsTrivariateGaussian (runOps qExt clsTrivariateGaussian (runCtor qExt clsTrivariateGaussian triArgs).1
    [("pulse_length", 1/500), ("stddev_x", -1)]) "pulse_length" = 1/500 := by decide +kernel
example : (runCtor qExt clsTrivariateGaussian (reported clsTrivariateGaussian
    (runOps qExt clsTrivariateGaussian (runCtor qExt clsTrivariateGaussian triArgs).1
      [("pulse_length", 1/500), ("stddev_x", -1)]))).2 = .ok := by decide +kernel

end Cherab.Props.C18Table
