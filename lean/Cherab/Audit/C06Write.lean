import Cherab.Props.C06Write
#print axioms Cherab.Props.C06Write.safe_write_all_or_nothing
#print axioms Cherab.Props.C06Write.safe_write_refines_fs_write
#print axioms Cherab.Props.C06Write.dump_after_open_truncates
#print axioms Cherab.Props.C06Write.dumps_before_open_is_safe
#print axioms Cherab.Props.C06Write.writers_never_truncate_current
#print axioms Cherab.Props.C06Write.writers_all_or_nothing_current
