/-
C01 — notification graph: bounded reachability over the edge list generated from /repo's sources
(`Cherab/Gen/NotifyEdges.lean`).  Mathlib-free.
-/
namespace Cherab.NotifyGraph

def succs (es : List (Nat × Nat)) (n : Nat) : List Nat := (es.filter (·.1 == n)).map (·.2)

/-- one breadth-first step: keep what we have, add all successors -/
def stepSet (es : List (Nat × Nat)) (s : List Nat) : List Nat := (s ++ s.flatMap (succs es)).eraseDups

/-- everything reachable in at most `fuel` steps -/
def reachWithin (es : List (Nat × Nat)) : Nat → List Nat → List Nat
  | 0, s => s
  | f + 1, s => reachWithin es f (stepSet es s)

def idOf (names : List String) (n : String) : Option Nat :=
  let i := names.idxOf n
  if i < names.length then some i else none

/-- `b` is reached from `a` within `fuel` notification/call steps -/
def reaches (names : List String) (es : List (Nat × Nat)) (fuel : Nat) (a b : String) : Bool :=
  match idOf names a, idOf names b with
  | some i, some j => (reachWithin es fuel [i]).contains j
  | _, _ => false

/-- dependency table: cache ↦ parameters (mutators) it depends on -/
abbrev DepTable := List (String × List String)

def depsOf (t : DepTable) (c : String) : List String := (t.filter (·.1 == c)).flatMap (·.2)

def cachesOf (t : DepTable) : List String := (t.map (·.1)).eraseDups

def clearsOf (names : List String) (es : List (Nat × Nat)) (fuel : Nat) (t : DepTable) (p : String) : List String :=
  (cachesOf t).filter fun c => reaches names es fuel p c

/-- executable coverage check -/
def coveredBy (names : List String) (es : List (Nat × Nat)) (fuel : Nat) (t : DepTable) : Bool :=
  t.all fun e => e.2.all fun p => reaches names es fuel p e.1

/-- the uncovered (cache, parameter) pairs — what a failed coverage obligation hands to the search -/
def uncovered (names : List String) (es : List (Nat × Nat)) (fuel : Nat) (t : DepTable) : List (String × String) :=
  t.flatMap fun e => (e.2.filter fun p => !reaches names es fuel p e.1).map fun p => (e.1, p)

end Cherab.NotifyGraph
