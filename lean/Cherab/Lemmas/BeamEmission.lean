import Cherab.Model.BeamEmission
import Mathlib.Tactic.Ring
import Mathlib.Tactic.Linarith
import Mathlib.Tactic.FieldSimp
import Mathlib.Tactic.Positivity
import Mathlib.Tactic.NormNum
import Mathlib.Algebra.Order.Field.Basic
import Mathlib.Algebra.BigOperators.Group.List.Basic

/-!
Helper lemmas for C05: left-fold accumulation = list sum; weighted sums between bounds.
-/
namespace Cherab.Lemmas.BeamEmission
open Cherab.BeamEmission
set_option linter.unusedSectionVars false

section
variable {α : Type} [Field α] [LinearOrder α] [IsStrictOrderedRing α]

theorem sumFrom_eq {σ : Type} (init : α) (f : σ → α) (l : List σ) :
    sumFrom init f l = init + (l.map f).sum := by
  unfold sumFrom
  induction l generalizing init with
  | nil => simp
  | cons a t ih => simp only [List.foldl_cons, List.map_cons, List.sum_cons]; rw [ih]; ring

theorem sumL_eq {σ : Type} (f : σ → α) (l : List σ) : sumL f l = (l.map f).sum := by
  unfold sumL; rw [sumFrom_eq]; ring

theorem sum_nonneg' {σ : Type} (l : List σ) (w : σ → α) (hw : ∀ s ∈ l, 0 ≤ w s) : 0 ≤ (l.map w).sum := by
  induction l with
  | nil => simp
  | cons a t ih =>
    simp only [List.map_cons, List.sum_cons]
    have h1 := hw a (by simp)
    have h2 := ih (fun s hs => hw s (by simp [hs]))
    linarith

/-- `lo · Σ w ≤ Σ w·x` when `w ≥ 0` and `lo ≤ x` wherever the weight is positive -/
theorem sum_mul_ge {σ : Type} (l : List σ) (w x : σ → α) (lo : α) (hw : ∀ s ∈ l, 0 ≤ w s)
    (hx : ∀ s ∈ l, 0 < w s → lo ≤ x s) : lo * (l.map w).sum ≤ (l.map fun s => w s * x s).sum := by
  induction l with
  | nil => simp
  | cons a t ih =>
    simp only [List.map_cons, List.sum_cons]
    have h2 := ih (fun s hs => hw s (by simp [hs])) (fun s hs => hx s (by simp [hs]))
    have ha : lo * w a ≤ w a * x a := by
      rcases (hw a (by simp)).eq_or_lt with h | h
      · rw [← h]; simp
      · have := hx a (by simp) h
        nlinarith
    linarith

theorem sum_mul_le {σ : Type} (l : List σ) (w x : σ → α) (hi : α) (hw : ∀ s ∈ l, 0 ≤ w s)
    (hx : ∀ s ∈ l, 0 < w s → x s ≤ hi) : (l.map fun s => w s * x s).sum ≤ hi * (l.map w).sum := by
  induction l with
  | nil => simp
  | cons a t ih =>
    simp only [List.map_cons, List.sum_cons]
    have h2 := ih (fun s hs => hw s (by simp [hs])) (fun s hs => hx s (by simp [hs]))
    have ha : w a * x a ≤ hi * w a := by
      rcases (hw a (by simp)).eq_or_lt with h | h
      · rw [← h]; simp
      · have := hx a (by simp) h
        nlinarith
    linarith

/-- a weighted mean with non-negative weights of positive total lies between bounds of the weighted values -/
theorem weighted_mean_bounds {σ : Type} (l : List σ) (w x : σ → α) (lo hi : α) (hw : ∀ s ∈ l, 0 ≤ w s)
    (hpos : 0 < (l.map w).sum) (hx : ∀ s ∈ l, 0 < w s → lo ≤ x s ∧ x s ≤ hi) :
    lo ≤ (l.map fun s => w s * x s).sum / (l.map w).sum ∧ (l.map fun s => w s * x s).sum / (l.map w).sum ≤ hi := by
  constructor
  · rw [le_div_iff₀ hpos]; exact sum_mul_ge l w x lo hw (fun s hs h => (hx s hs h).1)
  · rw [div_le_iff₀ hpos]; exact sum_mul_le l w x hi hw (fun s hs h => (hx s hs h).2)

/-- a non-empty list has a least and a greatest element -/
theorem exists_min_max (a : α) (l : List α) :
    (∃ m ∈ a :: l, ∀ x ∈ a :: l, m ≤ x) ∧ (∃ M ∈ a :: l, ∀ x ∈ a :: l, x ≤ M) := by
  induction l with
  | nil => exact ⟨⟨a, by simp, by simp⟩, ⟨a, by simp, by simp⟩⟩
  | cons b t ih =>
    obtain ⟨⟨m, hm, hmin⟩, ⟨M, hM, hmax⟩⟩ := ih
    constructor
    · rcases le_total m b with h | h
      · refine ⟨m, ?_, ?_⟩
        · simp only [List.mem_cons] at hm ⊢; tauto
        · intro x hx
          simp only [List.mem_cons] at hx
          rcases hx with rfl | rfl | hx
          · exact hmin _ (by simp)
          · exact h
          · exact hmin _ (by simp [hx])
      · refine ⟨b, by simp, ?_⟩
        intro x hx
        simp only [List.mem_cons] at hx
        rcases hx with rfl | rfl | hx
        · exact le_trans h (hmin _ (by simp))
        · exact le_refl _
        · exact le_trans h (hmin _ (by simp [hx]))
    · rcases le_total b M with h | h
      · refine ⟨M, ?_, ?_⟩
        · simp only [List.mem_cons] at hM ⊢; tauto
        · intro x hx
          simp only [List.mem_cons] at hx
          rcases hx with rfl | rfl | hx
          · exact hmax _ (by simp)
          · exact h
          · exact hmax _ (by simp [hx])
      · refine ⟨b, by simp, ?_⟩
        intro x hx
        simp only [List.mem_cons] at hx
        rcases hx with rfl | rfl | hx
        · exact le_trans (hmax _ (by simp)) h
        · exact le_refl _
        · exact le_trans (hmax _ (by simp [hx])) h

theorem two_lit : (2.0 : α) = 2 := by norm_num

theorem sum_filter_of_zero {σ : Type} (l : List σ) (p : σ → Bool) (g : σ → α)
    (h : ∀ s ∈ l, p s = false → g s = 0) : (l.map g).sum = ((l.filter p).map g).sum := by
  induction l with
  | nil => simp
  | cons a t ih =>
    have ih' := ih (fun s hs => h s (by simp [hs]))
    cases hp : p a
    · simp only [List.map_cons, List.sum_cons, List.filter_cons, hp]
      rw [h a (by simp) hp, ih']; simp
    · simp only [List.map_cons, List.sum_cons, List.filter_cons, hp, if_true]
      rw [ih']

end
end Cherab.Lemmas.BeamEmission
