#!/bin/bash
# usage: tools/evalmut.sh <Cxx> <patch.diff> [tier] [tag]
# Evaluates a seeded change WITHOUT touching /repo or /verif: a scratch worktree of /repo gets the patch, a scratch copy of
# /verif is rewritten to point at that worktree, and the check runs there.  (For use while other work shares /repo; the
# registered checks themselves always run against /repo.)
P=$1; PATCH=$(readlink -f "$2"); TIER=${3:-quick}; TAG=${4:-$$}
WT=/tmp/ev_wt_$TAG; EV=/tmp/ev_verif_$TAG
D="$(cd "$(dirname "${BASH_SOURCE[0]}")/.." && pwd)"
$D/tools/mut/mkwt.sh $WT >/dev/null || exit 3
if ! git -C $WT apply "$PATCH"; then echo "PATCH DOES NOT APPLY"; $D/tools/mut/rmwt.sh $WT; exit 3; fi
if git -C $WT diff --name-only | grep -q '\.px[di]$'; then
  git -C $WT diff --name-only | grep '\.pxd$' >/dev/null && find $WT/cherab -name '*.pyx' -exec touch {} +
fi
(cd $WT && /venv/bin/python setup.py build_ext --inplace -j16 > /tmp/ev_build_$TAG.log 2>&1) || { echo "MUTANT DOES NOT COMPILE"; tail -5 /tmp/ev_build_$TAG.log; $D/tools/mut/rmwt.sh $WT; exit 3; }
mkdir -p $EV
rsync -a --delete --exclude .git --exclude replays --exclude seeded --exclude .work/repo_build.json "$D"/ $EV/
grep -rl "/repo" $EV/harness $EV/setup.sh 2>/dev/null | xargs -r sed -i -E "s#/repo([^a-zA-Z0-9_]|$)#$WT\\1#g"
cd $EV
timeout 3000 env PYTHONPATH=$D/tools/mut/wtsite CHERAB_WT=$WT VERIF_SEED=${VERIF_SEED:-0} ./check $P --tier $TIER > /tmp/ev_out_$TAG.log 2>&1
RC=$?
echo "exit=$RC"
grep -E "^VIOLATION|^KNOWN-FINDING|^INFRA|FAILING INPUT|BROKEN" /tmp/ev_out_$TAG.log | cut -c1-300 | head -12
$D/tools/mut/rmwt.sh $WT >/dev/null 2>&1
rm -rf $EV
exit $RC
