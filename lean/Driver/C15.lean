import Cherab.Drv.Proto
import Cherab.Model.Groups
import Cherab.Gen.GroupTable
open Cherab.Drv Cherab.Groups Cherab.Gen.GroupTable

/-!
C15 driver: interprets the *generated* descriptor table on histories sent by the harness.

  new <class> <gid>                       fresh empty group
  mk <uid> <t1,t2,…|-> <a=id,…|->         object on the heap (types = names in its MRO; initial attribute contents)
  add <uid>                               group.add_observer / add_foil_detector
  ctor <gid> <uid>*                       group = Cls(observers=[…]) on the current heap (Observer0DGroup family): a new
                                          group node <gid> replaces the current one; on an exception the half-built group stays
  set <name> <obj> <item>*                group.<name> = value        obj/item = stored:rej:kind:engine
  setm <name> <kind> <uid>*               group.<name> = [observers]  (observers / sight_lines / foil_detectors)
  get <name>                              group.<name>
  item i <int> | s <a> <b> <c> | n <id> | x      group[key]
  len | observe
  poke <uid> <attr> <id>                  observer.<attr> changed directly
  parent <uid> <node id|->                observer.parent changed directly (behind the group's back)
  snap <a1,a2,…>                          members with parent flag and the listed attributes
  obj <uid> <a1,a2,…>                     one heap object (also non-members)
-/

structure St where
  ci : Option ClassInfo := none
  w : World := ⟨0, fun _ => { attrs := fun _ => 0 }, []⟩
  /-- objects created since `new` and attribute names in play: the finite support of the heap -/
  uids : List Nat := []
  anames : List String := []

/-- Re-materialise the heap (a chain of closures after a few hundred updates) as a finite table.  Extensionally the
same function on the known objects / attribute names; everything else keeps the default of a fresh heap.  Pure
performance measure of the driver; the operations themselves are the model's definitions. -/
def St.normalise (st : St) : St :=
  let rows := st.uids.map fun u =>
    let o := st.w.heap u
    (u, st.anames.map (fun a => (a, o.attrs a)), o.parent, o.types)
  let heap : Heap := fun u =>
    match rows.find? (·.1 == u) with
    | some (_, kv, p, t) => { attrs := fun a => ((kv.find? (·.1 == a)).map (·.2)).getD 0, parent := p, types := t }
    | none => { attrs := fun _ => 0 }
  { st with w := { st.w with heap := heap } }

def descAttrs (cls : String) : List String :=
  (table.filter (·.cls == cls)).foldl (fun acc d =>
    let g := match d.getter with
      | .each a => [a]
      | _ => []
    let s := match d.setter with
      | some (.broadcast s) => s.seqAttr :: (match s.orelse with
          | .broadcast a _ _ => [a]
          | _ => [])
      | _ => []
    (g ++ s).foldl (fun acc a => if acc.contains a then acc else a :: acc) acc) ["name"]

def addNames (xs : List String) (ys : List String) : List String :=
  ys.foldl (fun acc a => if acc.contains a then acc else a :: acc) xs

def errName : Err → String
  | .valueError => "ValueError"
  | .typeError => "TypeError"
  | .attributeError => "AttributeError"
  | .indexError => "IndexError"
  | .other => "Other"

def pErr (s : String) : Option Err :=
  match s with
  | "V" => some .valueError
  | "T" => some .typeError
  | "A" => some .attributeError
  | "I" => some .indexError
  | "O" => some .other
  | _ => none

def pKind (s : String) : Option SeqKind :=
  match s with
  | "L" => some .list
  | "T" => some .tuple
  | "N" => some .ndarray
  | _ => none

def pObj (s : String) : Obj :=
  match s.splitOn ":" with
  | [a, r, k, e] => { stored := pN a, rej := pErr r, kind := pKind k, engine := pB e }
  | _ => { stored := 0, rej := some .other }

def pOptI (s : String) : Option Int := if s == "-" then none else some (pI s)

def csv (s : String) : List String := if s == "-" then [] else (s.splitOn ",").filter (· ≠ "")

def res (r : World × Option Err) : String :=
  match r.2 with
  | none => "ok"
  | some e => errName e

def showOut : Out → String
  | .vals xs => "vals " ++ " ".intercalate (xs.map toString)
  | .objs us => "objs " ++ " ".intercalate (us.map toString)
  | .err e => "err " ++ errName e

def showObj (w : World) (attrs : List String) (u : Nat) : String :=
  let o := w.heap u
  toString u ++ ":" ++ (if o.parent == some w.gid then "1" else "0") ++ ":" ++
    ",".intercalate (attrs.map fun a => toString (o.attrs a))

def step' (st : St) (ts : List String) : St × String :=
  match ts with
  | ["new", c, g] =>
    match classes.find? (·.name == c) with
    | some ci => ({ ci := some ci, w := ⟨pN g, fun _ => { attrs := fun _ => 0 }, []⟩, uids := [], anames := descAttrs ci.name }, "ok")
    | none => (st, "nocls")
  | ["mk", u, tys, ats] =>
    let kv := (csv ats).filterMap fun p =>
      match p.splitOn "=" with
      | [a, x] => some (a, pN x)
      | _ => none
    let o : Obs := { attrs := fun a => ((kv.find? (·.1 == a)).map (·.2)).getD 0, parent := none, types := csv tys }
    let uu := pN u
    let st' : St := { st with w := { st.w with heap := fun x => if x = uu then o else st.w.heap x },
                              uids := if st.uids.contains uu then st.uids else uu :: st.uids,
                              anames := addNames st.anames (kv.map (·.1)) }
    (st'.normalise, "ok")
  | _ =>
    match st.ci with
    | none => (st, "nogroup")
    | some ci =>
      match ts with
      | ["add", u] =>
        let r := addObserver ci st.w (pN u)
        (({ st with w := r.1 } : St).normalise, res r)
      | "ctor" :: g :: us =>
        let r := construct ci (pN g) st.w.heap (us.map pN)
        (({ st with w := r.1 } : St).normalise, res r)
      | "set" :: name :: o :: items =>
        match findDesc table ci.name name with
        | none => (st, "nodesc")
        | some d =>
          let r := setAttr d st.w { obj := pObj o, items := items.map pObj }
          (({ st with w := r.1 } : St).normalise, res r)
      | "setm" :: name :: k :: us =>
        match findDesc table ci.name name with
        | none => (st, "nodesc")
        | some d =>
          let r := setMembers table ci d st.w (pKind k) (us.map pN)
          (({ st with w := r.1 } : St).normalise, res r)
      | ["get", name] =>
        match findDesc table ci.name name with
        | none => (st, "nodesc")
        | some d => (st, showOut (getAttr d st.w))
      | ["item", "i", i] => (st, showOut (getItem ci st.w (.int (pI i))))
      | ["item", "s", a, b, c] => (st, showOut (getItem ci st.w (.slice (pOptI a) (pOptI b) (pOptI c))))
      | ["item", "n", x] => (st, showOut (getItem ci st.w (.str (pN x))))
      | ["item", "x"] => (st, showOut (getItem ci st.w .other))
      | ["len"] => (st, toString (groupLen st.w))
      | ["observe"] => (st, showOut (.objs (observe st.w)))
      | ["poke", u, a, x] =>
        (({ st with w := { st.w with heap := st.w.heap.setAttr (pN u) a (pN x) }, anames := addNames st.anames [a] } : St).normalise, "ok")
      | ["parent", u, g] =>
        -- observer.parent changed behind the group's back ("-" = None, otherwise the id of the new parent node)
        let p : Option Nat := if g == "-" then none else some (pN g)
        (({ st with w := { st.w with heap := st.w.heap.setParent (pN u) p } } : St).normalise, "ok")
      | ["snap", ats] =>
        (st, "n=" ++ toString (groupLen st.w) ++ " " ++ " ".intercalate (st.w.members.map (showObj st.w (csv ats))))
      | ["obj", u, ats] => (st, showObj st.w (csv ats) (pN u))
      | _ => (st, "bad-op")

def main : IO UInt32 := do
  loop step' (← IO.getStdin) (← IO.getStdout) ({} : St)
  return 0
