import Cherab.Props.C01
import Cherab.Model.CherabDeps
import Cherab.Gen.NotifyEdges

/-!
# C01 — the notification graph extracted from /repo covers the dependency table

`Cherab.Gen.NotifyEdges` is regenerated from the sources on every run; these theorems are re-checked against it.
-/
namespace Cherab.Props.C01
open Cherab.NotifyGraph Cherab.CherabDeps Cherab.Gen.NotifyEdges

/-- every (cache, parameter) dependency of plasma, beam, attenuator and laser state is invalidated by the code's
call/notification chains -/
theorem covered_cherab : coveredBy nodeNames edges fuel deps = true := by decide +kernel

/-- no subscription or scene-graph dispatch in the sources is unable to fire (e.g. a `cdef` callback) -/
theorem no_broken_subscriptions : brokenSubscriptions = [] := by decide

/-- every model's `_change` clears the sentinel its `emission` tests -/
theorem no_uncleared_sentinels : notes = [] := by decide

/-- C01 for the model of the current tree: any history, any derived state -/
theorem no_stale_cherab (ops : List (Inval.Op String String)) (c : String) :
    let pr := protoOf nodeNames edges fuel deps
    let s := Inval.run pr Inval.init ops
    (Inval.step pr s (.obs c)).2 = some ((pr.deps c).map s.ver) :=
  no_stale_of_coveredBy nodeNames edges fuel deps covered_cherab ops c

end Cherab.Props.C01
