#!/bin/bash
# usage: tools/seedevalall.sh Cxx [Cyy...] -- evaluates /tmp/mut_Cxx/_out/{1,2,3} sequentially
for P in "$@"; do
  for i in 1 2 3; do
    d=${MUT_PREFIX:-/tmp/mut_}$P/_out/$i
    [ -f $d/patch.diff ] || continue
    [ -f $d/eval.json ] && continue
    echo "== $P $i: $(cd /verif && tools/seedeval.sh $P $d 2>&1 | tail -1)"
  done
done
