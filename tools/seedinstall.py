#!/usr/bin/env python3
"""seedinstall.py Cxx [Cyy ...]: copies confirmed seeded changes /tmp/mut_Cxx/_out/<i> into /verif/seeded/Cxx-<i>/
(patch.diff, demo.py, meta.json).  A change is kept only if my own evaluation (eval.json written by tools/seedeval.sh)
confirms: demo passes on the clean tree, fails with the patch, the test suite still passes."""
import json, os, shutil, sys
D = os.path.dirname(os.path.dirname(os.path.abspath(__file__)))
HIST = json.load(open(os.path.join(D, 'tools', 'seed_history.json')))
PREFIX = os.environ.get('MUT_PREFIX', '/tmp/mut_')
OFFSET = int(os.environ.get('MUT_ID_OFFSET', '0'))
for P in sys.argv[1:]:
    for i in ('1', '2', '3'):
        src = '%s%s/_out/%s' % (PREFIX, P, i)
        sid = '%s-%d' % (P, int(i) + OFFSET)
        ev = os.path.join(src, 'eval.json')
        if not os.path.exists(ev):
            continue
        e = json.load(open(ev))
        ok = (e.get('status') == 'evaluated' and e.get('demo_clean_exit') == '0' and e.get('demo_patched_exit') not in ('0', None)
              and '579_passed' in e.get('tests', ''))
        dst = os.path.join(D, 'seeded', sid)
        if not ok:
            print('%s NOT CONFIRMED: %s' % (sid, {k: e.get(k) for k in ('status', 'demo_clean_exit', 'demo_patched_exit', 'tests')}))
            continue
        os.makedirs(dst, exist_ok=True)
        shutil.copy(os.path.join(src, 'patch.diff'), dst)
        shutil.copy(os.path.join(src, 'demo.py'), dst)
        try:
            m = json.load(open(os.path.join(src, 'meta.json')))
        except Exception:
            m = {}
        caught = e.get('check_exit') == '1'
        how = 'not caught'
        if caught:
            how = 'failing input reported' if int(e.get('violations', '0')) > int(e.get('no_failing_input_found', '0')) else 'broken obligation/correspondence only (no-failing-input-found)'
        meta = dict(id=sid, property=P, summary=m.get('summary'), needs_to_manifest=m.get('needs_to_manifest') or m.get('what_it_needs_to_manifest'),
                    files_changed=m.get('files_changed'),
                    confirmed=dict(how='tools/seedeval.sh in a scratch worktree of /repo HEAD + scratch copy of /verif', demo_on_clean_tree_exit=0,
                                   demo_with_patch_exit=int(e['demo_patched_exit']), test_suite=e['tests'].replace('_', ' ')),
                    check=dict(command='./check %s --tier quick (VERIF_SEED=0)' % P, exit=int(e['check_exit']), violation_lines=int(e.get('violations', 0)),
                               no_failing_input_found_lines=int(e.get('no_failing_input_found', 0)), broken_obligations=int(e.get('broken', 0)),
                               signatures=[s for s in e.get('signatures', '').split(';') if s], verdict=how))
        if sid in HIST:
            meta['history'] = HIST[sid]
        json.dump(meta, open(os.path.join(dst, 'meta.json'), 'w'), indent=1)
        print('%s installed: check exit %s (%s)' % (sid, e.get('check_exit'), how))
