import Cherab.Model.Wrappers
import Mathlib.Tactic.Ring
import Mathlib.Tactic.Linarith
import Mathlib.Tactic.FieldSimp
import Mathlib.Tactic.Push
import Mathlib.Algebra.Order.Field.Basic
import Mathlib.Algebra.Order.Floor.Ring
import Mathlib.Algebra.Order.Ring.Rat
import Mathlib.Data.List.Rotate
import Mathlib.Algebra.Order.Floor.Semiring
import Mathlib.Tactic.Positivity
import Mathlib.Algebra.Order.Archimedean.Basic

/-!
# C13 — function wrappers and samplers are exact pointwise compositions

Property theorems only.  `fmod`, `sqrt`, `atan2` are parameters; `FmodSpec` is the C99 contract of `fmod`
(result = x − k·p for an integer k, magnitude < |p|, sign of x).
-/
namespace Cherab.Props.C13
set_option linter.unusedSectionVars false
open Cherab.Wrappers

variable {α : Type} [Field α] [LinearOrder α] [IsStrictOrderedRing α]

/-- C99 `fmod` contract for a positive modulus. -/
def FmodSpec (fmod : α → α → α) : Prop :=
  ∀ x p : α, 0 < p → (∃ k : ℤ, fmod x p = x - k * p) ∧ |fmod x p| < p ∧ (0 ≤ x → 0 ≤ fmod x p) ∧ (x ≤ 0 → fmod x p ≤ 0)

theorem remainder_pos (fmod : α → α → α) (x p : α) (hp : 0 < p) :
    remainder fmod x p = if fmod x p < 0 then fmod x p + p else fmod x p := by
  simp only [remainder, beq_iff_eq, hp.ne', if_false]
  split_ifs with h1 h2
  · exact absurd h2 (not_le.mpr (by linarith))
  · rfl
  · rfl

/-- inner argument of every periodic wrapper lies in `[0, period)` -/
theorem remainder_range (fmod : α → α → α) (h : FmodSpec fmod) (x p : α) (hp : 0 < p) :
    0 ≤ remainder fmod x p ∧ remainder fmod x p < p := by
  obtain ⟨_, habs, _, _⟩ := h x p hp
  rw [remainder_pos fmod x p hp]
  have := abs_lt.mp habs
  split_ifs with h1
  · constructor <;> linarith
  · exact ⟨le_of_not_gt h1, this.2⟩

/-- … and differs from the outer argument by an integer number of periods -/
theorem remainder_congruent (fmod : α → α → α) (h : FmodSpec fmod) (x p : α) (hp : 0 < p) :
    ∃ k : ℤ, remainder fmod x p = x - k * p := by
  obtain ⟨⟨k, hk⟩, _, _, _⟩ := h x p hp
  rw [remainder_pos fmod x p hp]
  split_ifs
  · exact ⟨k - 1, by rw [hk]; push_cast; ring⟩
  · exact ⟨k, hk⟩

/-- two points of `[0,p)` that differ by a multiple of `p` are equal -/
theorem unique_rep (p a b : α) (hp : 0 < p) (ha : 0 ≤ a ∧ a < p) (hb : 0 ≤ b ∧ b < p)
    (k : ℤ) (hk : a - b = k * p) : a = b := by
  have h1 : (k : α) * p < p := by linarith [ha.2, hb.1]
  have h2 : -p < (k : α) * p := by linarith [ha.1, hb.2]
  have hk1 : (k : α) < 1 := by
    by_contra hc
    have : p ≤ (k : α) * p := by nlinarith [not_lt.mp hc]
    linarith
  have hk2 : (-1 : α) < k := by
    by_contra hc
    have : (k : α) * p ≤ -p := by nlinarith [not_lt.mp hc]
    linarith
  have hk0 : k = 0 := by
    have a1 : k < 1 := by exact_mod_cast hk1
    have a2 : -1 < k := by exact_mod_cast hk2
    omega
  subst hk0; simp at hk; linarith

/-- periodic extension: the wrapper agrees with `f` on `[0,p)` … -/
theorem periodic_on_base (fmod : α → α → α) (h : FmodSpec fmod) {β : Type} (f : α → β) (x p : α)
    (hp : 0 < p) (hx : 0 ≤ x ∧ x < p) : periodic1 fmod f p x = f x := by
  unfold periodic1
  obtain ⟨k, hk⟩ := remainder_congruent fmod h x p hp
  have := unique_rep p (remainder fmod x p) x hp (remainder_range fmod h x p hp) hx (-k)
    (by rw [hk]; push_cast; ring)
  rw [this]

/-- … and is `p`-periodic, for every integer number of periods -/
theorem periodic_shift (fmod : α → α → α) (h : FmodSpec fmod) {β : Type} (f : α → β) (x p : α)
    (hp : 0 < p) (n : ℤ) : periodic1 fmod f p (x + n * p) = periodic1 fmod f p x := by
  unfold periodic1
  obtain ⟨k, hk⟩ := remainder_congruent fmod h x p hp
  obtain ⟨k', hk'⟩ := remainder_congruent fmod h (x + n * p) p hp
  have := unique_rep p (remainder fmod (x + n * p) p) (remainder fmod x p) hp
    (remainder_range fmod h _ p hp) (remainder_range fmod h x p hp) (n - k' + k)
    (by rw [hk, hk']; push_cast; ring)
  rw [this]

/-- for a non-negative argument the inner argument is `fmod x p` itself: no addition, hence (at `Float`) no rounding
beyond the exact `fmod` -- the S oracle "inner argument is the exact image" relies on this shape -/
theorem remainder_nonneg (fmod : α → α → α) (h : FmodSpec fmod) (x p : α) (hp : 0 < p) (hx : 0 ≤ x) :
    remainder fmod x p = fmod x p := by
  obtain ⟨_, _, hpos, _⟩ := h x p hp
  rw [remainder_pos fmod x p hp, if_neg (not_lt.mpr (hpos hx))]

/-- an exact multiple of the period is mapped to 0, from either side -/
theorem remainder_multiple (fmod : α → α → α) (h : FmodSpec fmod) (p : α) (hp : 0 < p) (n : ℤ) :
    remainder fmod (n * p) p = 0 := by
  obtain ⟨k, hk⟩ := remainder_congruent fmod h (n * p) p hp
  exact unique_rep p _ 0 hp (remainder_range fmod h _ p hp) ⟨le_refl 0, hp⟩ (n - k) (by rw [hk]; push_cast; ring)

/-- a general congruence form: any two arguments that differ by an integer number of periods are mapped to the same
inner argument -/
theorem remainder_eq_of_congruent (fmod : α → α → α) (h : FmodSpec fmod) (x y p : α) (hp : 0 < p) (n : ℤ)
    (hxy : x = y + n * p) : remainder fmod x p = remainder fmod y p := by
  obtain ⟨k, hk⟩ := remainder_congruent fmod h y p hp
  obtain ⟨k', hk'⟩ := remainder_congruent fmod h x p hp
  exact unique_rep p _ _ hp (remainder_range fmod h x p hp) (remainder_range fmod h y p hp) (n - k' + k)
    (by rw [hk, hk', hxy]; push_cast; ring)

/-- per-axis inner argument of the 2-D/3-D wrappers: identity for a zero period, the `[0,p)` image otherwise -/
theorem remainder_axis (fmod : α → α → α) (h : FmodSpec fmod) (x p : α) (hp : 0 ≤ p) :
    (p = 0 ∧ remainder fmod x p = x) ∨ (0 < p ∧ 0 ≤ remainder fmod x p ∧ remainder fmod x p < p) := by
  rcases hp.lt_or_eq with hlt | heq
  · exact Or.inr ⟨hlt, remainder_range fmod h x p hlt⟩
  · exact Or.inl ⟨heq.symm, by rw [← heq]; simp [remainder]⟩

/-- 2-D periodic extension: independent shifts by whole periods on each periodic axis leave the value unchanged -/
theorem periodic2_shift (fmod : α → α → α) (h : FmodSpec fmod) {β : Type} (f : α → α → β) (x y px py : α)
    (hpx : 0 < px) (hpy : 0 < py) (n m : ℤ) :
    periodic2 fmod f px py (x + n * px) (y + m * py) = periodic2 fmod f px py x y := by
  unfold periodic2
  rw [remainder_eq_of_congruent fmod h (x + n * px) x px hpx n rfl,
      remainder_eq_of_congruent fmod h (y + m * py) y py hpy m rfl]

/-- … and an axis with period 0 is passed through untouched while the other one is still periodic -/
theorem periodic2_mixed (fmod : α → α → α) (h : FmodSpec fmod) {β : Type} (f : α → α → β) (x y px : α)
    (hpx : 0 < px) (n : ℤ) :
    periodic2 fmod f px 0 (x + n * px) y = f (remainder fmod x px) y := by
  unfold periodic2
  rw [remainder_eq_of_congruent fmod h (x + n * px) x px hpx n rfl]
  simp [remainder]

/-- 3-D periodic extension, all three axes -/
theorem periodic3_shift (fmod : α → α → α) (h : FmodSpec fmod) {β : Type} (f : α → α → α → β)
    (x y z px py pz : α) (hpx : 0 < px) (hpy : 0 < py) (hpz : 0 < pz) (n m k : ℤ) :
    periodic3 fmod f px py pz (x + n * px) (y + m * py) (z + k * pz) = periodic3 fmod f px py pz x y z := by
  unfold periodic3
  rw [remainder_eq_of_congruent fmod h (x + n * px) x px hpx n rfl,
      remainder_eq_of_congruent fmod h (y + m * py) y py hpy m rfl,
      remainder_eq_of_congruent fmod h (z + k * pz) z pz hpz k rfl]

/-- on the base cell the 3-D wrapper is the wrapped function -/
theorem periodic3_on_base (fmod : α → α → α) (h : FmodSpec fmod) {β : Type} (f : α → α → α → β)
    (x y z px py pz : α) (hpx : 0 < px) (hpy : 0 < py) (hpz : 0 < pz)
    (hx : 0 ≤ x ∧ x < px) (hy : 0 ≤ y ∧ y < py) (hz : 0 ≤ z ∧ z < pz) :
    periodic3 fmod f px py pz x y z = f x y z := by
  unfold periodic3
  have e1 : remainder fmod x px = x := periodic_on_base fmod h (fun t => t) x px hpx hx
  have e2 : remainder fmod y py = y := periodic_on_base fmod h (fun t => t) y py hpy hy
  have e3 : remainder fmod z pz = z := periodic_on_base fmod h (fun t => t) z pz hpz hz
  rw [e1, e2, e3]

/-- a zero period switches periodicity off for that axis (2-D/3-D wrappers) -/
theorem remainder_zero_period (fmod : α → α → α) (x : α) : remainder fmod x 0 = x := by
  simp [remainder]

/-- clamp lands in `[mn,mx]` and is the identity there -/
theorem clamp_range (v mn mx : α) (h : mn ≤ mx) : mn ≤ clamp v mn mx ∧ clamp v mn mx ≤ mx := by
  unfold clamp; split_ifs <;> constructor <;> linarith

theorem clamp_id (v mn mx : α) (h1 : mn ≤ v) (h2 : v ≤ mx) : clamp v mn mx = v := by
  unfold clamp; split_ifs <;> first | rfl | linarith

theorem clamp_input_eq {β : Type} (f : α → β) (xmin xmax x : α) :
    clampInput1 f xmin xmax x = f (max xmin (min x xmax)) ∨ xmax < xmin := by
  unfold clampInput1 clamp
  by_cases h : xmax < xmin
  · exact Or.inr h
  · left; push Not at h
    split_ifs with h1 h2
    · congr 1; rw [max_eq_left]; exact le_trans (min_le_left _ _) h1.le
    · congr 1; rw [min_eq_right h2.le, max_eq_right h]
    · push Not at h1 h2; congr 1; rw [min_eq_left h2, max_eq_right h1]

/-- the argument selected by a valid selector -/
def pick (s : Nat) (x y z : α) : α := if s = 0 then x else if s = 1 then y else z

theorem sel3_lt (s : Nat) (x y z : α) (h : s < 3) : sel3 s x y z = some (pick s x y z) := by
  unfold sel3 pick; split_ifs <;> first | rfl | omega

theorem sel3_none (s : Nat) (x y z : α) (h : 2 < s) : sel3 s x y z = none := by
  unfold sel3; split_ifs <;> first | rfl | omega

/-- all 27 shapes of Swizzle3D -/
theorem swizzle_all_shapes {β : Type} (f : α → α → α → β) (x y z : α) (s0 s1 s2 : Nat)
    (h0 : s0 < 3) (h1 : s1 < 3) (h2 : s2 < 3) :
    swizzle3 f s0 s1 s2 x y z = some (f (pick s0 x y z) (pick s1 x y z) (pick s2 x y z)) := by
  simp [swizzle3, sel3_lt, h0, h1, h2]

/-- the index picked by an outer shape out of the tuple an inner shape picks: `pick` composes by index composition -/
theorem pick_pick (i o0 o1 o2 : Nat) (x y z : α) (hi : i < 3) :
    pick i (pick o0 x y z) (pick o1 x y z) (pick o2 x y z) = pick (pick i o0 o1 o2) x y z := by
  have : i = 0 ∨ i = 1 ∨ i = 2 := by omega
  rcases this with h | h | h <;> subst h <;> simp [pick]

/-- **nested swizzles**: a swizzle (inner shape `i`) wrapped in a swizzle (outer shape `o`) hands the innermost function
`x[o[i[k]]]` — the composition of the index maps in that order (the seeded "collapse" composed them the other way round) -/
theorem swizzle_nested {β : Type} (f : α → α → α → β) (x y z : α) (i0 i1 i2 o0 o1 o2 : Nat)
    (hi0 : i0 < 3) (hi1 : i1 < 3) (hi2 : i2 < 3) (ho0 : o0 < 3) (ho1 : o1 < 3) (ho2 : o2 < 3) :
    swizzle3 (fun a b c => (swizzle3 f i0 i1 i2 a b c)) o0 o1 o2 x y z
      = some (some (f (pick (pick i0 o0 o1 o2) x y z) (pick (pick i1 o0 o1 o2) x y z) (pick (pick i2 o0 o1 o2) x y z))) := by
  rw [swizzle_all_shapes _ x y z o0 o1 o2 ho0 ho1 ho2, swizzle_all_shapes f _ _ _ i0 i1 i2 hi0 hi1 hi2,
      pick_pick i0 o0 o1 o2 x y z hi0, pick_pick i1 o0 o1 o2 x y z hi1, pick_pick i2 o0 o1 o2 x y z hi2]

/-- non-commuting shapes: inner (1,0,2) under outer (0,2,1) hands `f` the tuple (x[2], x[0], x[1]) -/
example : (swizzle3 (fun a b c => swizzle3 (fun p q r => (p, q, r)) 1 0 2 a b c) 0 2 1 (10 : ℚ) 20 30)
    = some (some (30, 10, 20)) := by decide +kernel

theorem swizzle_bad_shape {β : Type} (f : α → α → α → β) (x y z : α) (s0 s1 s2 : Nat)
    (h : 2 < s0 ∨ 2 < s1 ∨ 2 < s2) : swizzle3 f s0 s1 s2 x y z = none := by
  unfold swizzle3
  rcases h with h | h | h
  · simp [sel3_none _ x y z h]
  · rw [sel3_none s1 x y z h]; split <;> simp_all
  · rw [sel3_none s2 x y z h]; split <;> simp_all

theorem slice3_axes {β : Type} (f : α → α → α → β) (v x y : α) :
    slice3 f 0 v x y = f v x y ∧ slice3 f 1 v x y = f x v y ∧ slice3 f 2 v x y = f x y v := by
  simp [slice3]

theorem slice2_axes {β : Type} (f : α → α → β) (v x : α) :
    slice2 f 0 v x = f v x ∧ slice2 f 1 v x = f x v := by
  simp [slice2]

/-- the axisymmetric map depends on `(x,y)` only through `x² + y²` -/
theorem axisymmetric_invariant {β : Type} (sqrt : α → α) (f : α → α → β) (x y x' y' z : α)
    (h : x * x + y * y = x' * x' + y' * y') : axisymmetric sqrt f x y z = axisymmetric sqrt f x' y' z := by
  unfold axisymmetric; rw [h]

/-- with a true square root the first argument is the cylindrical radius -/
theorem axisymmetric_radius {β : Type} (sqrt : α → α) (hs : ∀ t, 0 ≤ t → 0 ≤ sqrt t ∧ sqrt t * sqrt t = t)
    (f : α → α → β) (x y z : α) :
    ∃ r, 0 ≤ r ∧ r * r = x * x + y * y ∧ axisymmetric sqrt f x y z = f r z :=
  ⟨sqrt (x * x + y * y), (hs _ (by nlinarith [mul_self_nonneg x, mul_self_nonneg y])).1,
    (hs _ (by nlinarith [mul_self_nonneg x, mul_self_nonneg y])).2, rfl⟩

/-- rotation about z by the toroidal angle: length and z-component preserved; the radial unit vector of the
poloidal plane is carried to the radial direction at (x,y) -/
theorem rotateZ_norm (c s : α) (h : c * c + s * s = 1) (v : α × α × α) :
    let w := rotateZ c s v
    w.1 * w.1 + w.2.1 * w.2.1 + w.2.2 * w.2.2 = v.1 * v.1 + v.2.1 * v.2.1 + v.2.2 * v.2.2 := by
  obtain ⟨a, b, d⟩ := v
  simp only [rotateZ]
  have : (c * a + -s * b + 0 * d) * (c * a + -s * b + 0 * d) + (s * a + c * b + 0 * d) * (s * a + c * b + 0 * d)
      = (c * c + s * s) * (a * a + b * b) := by ring
  rw [this, h]; ring

/-- rotations about z compose by angle addition (cos/sin addition formulas as hypotheses-free algebra) -/
theorem rotateZ_comp (c1 s1 c2 s2 : α) (v : α × α × α) :
    rotateZ c1 s1 (rotateZ c2 s2 v) = rotateZ (c1 * c2 - s1 * s2) (s1 * c2 + c1 * s2) v := by
  obtain ⟨a, b, d⟩ := v
  simp only [rotateZ, Prod.mk.injEq]
  refine ⟨by ring, by ring, by ring⟩

/-- the rotation by the opposite angle undoes it (for a unit (c, s)) -/
theorem rotateZ_inverse (c s : α) (h : c * c + s * s = 1) (v : α × α × α) :
    rotateZ c (-s) (rotateZ c s v) = v := by
  obtain ⟨a, b, d⟩ := v
  simp only [rotateZ, Prod.mk.injEq]
  refine ⟨?_, ?_, by ring⟩
  · have : c * (c * a + -s * b + 0 * d) + - -s * (s * a + c * b + 0 * d) + 0 * (0 * a + 0 * b + 1 * d) = (c * c + s * s) * a := by ring
    rw [this, h, one_mul]
  · have : -s * (c * a + -s * b + 0 * d) + c * (s * a + c * b + 0 * d) + 0 * (0 * a + 0 * b + 1 * d) = (c * c + s * s) * b := by ring
    rw [this, h, one_mul]

/-- the z component is never touched, and the identity rotation is the identity -/
theorem rotateZ_z (c s : α) (v : α × α × α) : (rotateZ c s v).2.2 = v.2.2 := by
  obtain ⟨a, b, d⟩ := v; simp [rotateZ]

theorem rotateZ_id (v : α × α × α) : rotateZ 1 0 v = v := by
  obtain ⟨a, b, d⟩ := v; simp [rotateZ]

theorem rotateZ_radial (c s : α) : rotateZ c s (1, 0, 0) = (c, s, 0) := by
  simp [rotateZ]

theorem rotateZ_toroidal (c s : α) : rotateZ c s (0, 1, 0) = (-s, c, 0) := by
  simp [rotateZ]

/-- evenly spaced grid including both end points -/
theorem linspace_first (mn mx : α) (n : Nat) (_hn : 1 ≤ n) : linspace mn mx n 0 = mn := by
  unfold linspace
  split_ifs with h1 h2
  · rfl
  · have : n = 1 := by omega
    omega
  · simp

theorem linspace_last (mn mx : α) (n : Nat) (hn : 2 ≤ n) : linspace mn mx n (n - 1) = mx := by
  unfold linspace
  split_ifs with h1 h2
  · omega
  · rfl
  · exact absurd rfl h2

theorem linspace_formula (mn mx : α) (n i : Nat) (hn : 2 ≤ n) (_hi : i < n) :
    linspace mn mx n i = mn + (i : α) * (mx - mn) / ((n : α) - 1) := by
  unfold linspace
  have hn1 : ((n - 1 : Nat) : α) = (n : α) - 1 := by
    rw [Nat.cast_sub (by omega)]; simp
  have hpos : (0 : α) < (n : α) - 1 := by
    have : (2 : α) ≤ (n : α) := by exact_mod_cast hn
    linarith
  split_ifs with h1 h2
  · omega
  · rw [h2, hn1]; field_simp; ring
  · rw [hn1]; field_simp; ring

theorem linspace_even (mn mx : α) (n i : Nat) (hn : 2 ≤ n) (hi : i + 1 < n) :
    linspace mn mx n (i + 1) - linspace mn mx n i = (mx - mn) / ((n : α) - 1) := by
  rw [linspace_formula mn mx n (i + 1) hn hi, linspace_formula mn mx n i hn (by omega)]
  push_cast; ring

theorem grid_length (mn mx : α) (n : Nat) : (grid mn mx n).length = n := by simp [grid]

/-- sampler index order: entry `[i][j][k]` is `f (x_i, y_j, z_k)` -/
theorem sample3_index {β : Type} (f : α → α → α → β) (xs ys zs : List α) (i j k : Nat)
    (hi : i < xs.length) (hj : j < ys.length) (hk : k < zs.length) :
    (((sample3 f xs ys zs)[i]?.bind (·[j]?)).bind (·[k]?)) = some (f xs[i] ys[j] zs[k]) := by
  simp [sample3, hi, hj, hk]

theorem sample2_index {β : Type} (f : α → α → β) (xs ys : List α) (i j : Nat)
    (hi : i < xs.length) (hj : j < ys.length) :
    ((sample2 f xs ys)[i]?.bind (·[j]?)) = some (f xs[i] ys[j]) := by
  simp [sample2, hi, hj]

theorem sample1_index {β : Type} (f : α → β) (xs : List α) (i : Nat) (hi : i < xs.length) :
    (sample1 f xs)[i]? = some (f xs[i]) := by
  simp [sample1, hi]

/-! ### polygon mask: the crossing-number spec is independent of vertex order -/

theorem crosses_symm (px py : α) (a b : α × α) : crosses px py a b = crosses px py b a := by
  unfold crosses
  by_cases h : decide (a.2 > py) = decide (b.2 > py)
  · simp [h]
  · have hne : a.2 ≠ b.2 := by intro e; apply h; rw [e]
    have h1 : b.2 - a.2 ≠ 0 := sub_ne_zero.mpr hne.symm
    have h2 : a.2 - b.2 ≠ 0 := sub_ne_zero.mpr hne
    have : (b.1 - a.1) * (py - a.2) / (b.2 - a.2) + a.1 = (a.1 - b.1) * (py - b.2) / (a.2 - b.2) + b.1 := by
      field_simp; ring
    rw [this]
    have hs : (decide (a.2 > py) != decide (b.2 > py)) = (decide (b.2 > py) != decide (a.2 > py)) := by
      cases decide (a.2 > py) <;> cases decide (b.2 > py) <;> rfl
    rw [hs]

theorem edges_eq (l : List (α × α)) : edges l = List.zipWith Prod.mk l (l.rotate 1) := by
  cases l with
  | nil => simp [edges]
  | cons v vs => simp [edges, List.rotate_cons_succ, List.zip]

theorem edges_rotate (l : List (α × α)) (n : Nat) : edges (l.rotate n) = (edges l).rotate n := by
  rw [edges_eq, edges_eq, List.zipWith_rotate_distrib _ _ _ _ (by simp), List.rotate_rotate,
    List.rotate_rotate, Nat.add_comm]

/-- the crossing number does not depend on which vertex the polygon starts at -/
theorem crossings_rotate (px py : α) (l : List (α × α)) (n : Nat) :
    crossings px py (l.rotate n) = crossings px py l := by
  unfold crossings
  rw [edges_rotate]
  exact ((List.rotate_perm _ n).filter _).length_eq

theorem edges_reverse (l : List (α × α)) :
    edges l.reverse = ((edges (l.rotate (l.length - 1 % l.length))).map Prod.swap).reverse := by
  rw [edges_eq, edges_eq, List.rotate_reverse, ← List.reverse_zipWith (by simp)]
  congr 1
  rw [List.rotate_rotate]
  have hrot : l.rotate (l.length - 1 % l.length + 1) = l := by
    rcases Nat.lt_or_ge l.length 2 with h | h
    · match l, h with
      | [], _ => simp
      | [a], _ => simp
    · rw [Nat.mod_eq_of_lt (by omega), Nat.sub_add_cancel (by omega), List.rotate_length]
  rw [hrot, List.map_zipWith]
  rw [List.zipWith_comm]
  rfl

/-- … nor on the orientation in which the vertices are listed -/
theorem crossings_reverse (px py : α) (l : List (α × α)) :
    crossings px py l.reverse = crossings px py l := by
  rw [← crossings_rotate px py l (l.length - 1 % l.length)]
  unfold crossings
  rw [edges_reverse, List.filter_reverse, List.length_reverse, List.filter_map, List.length_map]
  congr 1
  apply List.filter_congr
  intro e _
  simp [Function.comp, crosses_symm px py e.2 e.1]

theorem inPolygon_rotate (px py : α) (l : List (α × α)) (n : Nat) :
    inPolygon px py (l.rotate n) = inPolygon px py l := by
  unfold inPolygon; rw [crossings_rotate]

theorem inPolygon_reverse (px py : α) (l : List (α × α)) :
    inPolygon px py l.reverse = inPolygon px py l := by
  unfold inPolygon; rw [crossings_reverse]

/-! ### the `fmod` contract is satisfiable: truncated-division remainder over any floor ring -/
section
variable [FloorRing α]
/-- truncated-division remainder: the mathematical `fmod` -/
def fmodT (x p : α) : α := x - (if 0 ≤ x / p then ⌊x / p⌋ else ⌈x / p⌉ : ℤ) * p

theorem fmodT_spec : FmodSpec (fmodT : α → α → α) := by
  intro x p hp
  unfold fmodT
  split_ifs with h
  · have h1 := Int.floor_le (x / p)
    have h2 := Int.lt_floor_add_one (x / p)
    have hx : 0 ≤ x := by
      have := mul_nonneg h hp.le; rwa [div_mul_cancel₀ _ hp.ne'] at this
    have e : x = x / p * p := by field_simp
    have a1 : (⌊x / p⌋ : α) * p ≤ x := by
      calc (⌊x / p⌋ : α) * p ≤ x / p * p := by gcongr
        _ = x := e.symm
    have a2 : x < ((⌊x / p⌋ : α) + 1) * p := by
      calc x = x / p * p := e
        _ < ((⌊x / p⌋ : α) + 1) * p := by gcongr
    refine ⟨⟨_, rfl⟩, ?_, ?_, ?_⟩
    · rw [abs_lt]; constructor <;> nlinarith
    · intro _; linarith
    · intro hx0
      have : x = 0 := le_antisymm hx0 hx
      subst this; simp
  · push Not at h
    have h1 := Int.le_ceil (x / p)
    have h2 := Int.ceil_lt_add_one (x / p)
    have hx : x < 0 := by
      have := mul_neg_of_neg_of_pos h hp; rwa [div_mul_cancel₀ _ hp.ne'] at this
    have e : x = x / p * p := by field_simp
    have a1 : x ≤ (⌈x / p⌉ : α) * p := by
      calc x = x / p * p := e
        _ ≤ (⌈x / p⌉ : α) * p := by gcongr
    have a2 : (⌈x / p⌉ : α) * p < (x / p + 1) * p := by gcongr
    have a3 : (x / p + 1) * p = x + p := by field_simp
    refine ⟨⟨_, rfl⟩, ?_, ?_, ?_⟩
    · rw [abs_lt]; constructor <;> nlinarith
    · intro h0; exact absurd h0 (not_le.mpr hx)
    · intro _; linarith

end

/-! ### non-vacuity: concrete instances over ℚ -/

example : FmodSpec (fmodT : ℚ → ℚ → ℚ) := fmodT_spec
example : 0 ≤ remainder fmodT (-7/2 : ℚ) 1 ∧ remainder fmodT (-7/2 : ℚ) 1 < 1 :=
  remainder_range fmodT fmodT_spec _ _ one_pos


/-- a concrete `fmod` (truncated division) satisfying the contract is what the examples use -/
example : clamp (5 : ℚ) 0 3 = 3 ∧ clamp (-1 : ℚ) 0 3 = 0 ∧ clamp (2 : ℚ) 0 3 = 2 := by
  refine ⟨?_, ?_, ?_⟩ <;> norm_num [clamp]

example : inPolygon (1 : ℚ) 1 [(0, 0), (4, 0), (4, 4), (0, 4)] = true ∧
    inPolygon (5 : ℚ) 1 [(0, 0), (4, 0), (4, 4), (0, 4)] = false := by
  constructor <;> decide +kernel

example : linspace (0 : ℚ) 1 5 2 = 1 / 2 := by norm_num [linspace]

end Cherab.Props.C13
