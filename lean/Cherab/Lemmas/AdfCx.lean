import Cherab.Model.AdfCx

/-! Helper lemmas for the thermal-CX 2D→3D converter (C08). Core Lean only. -/
namespace Cherab.Adf
variable {α β γ : Type}

theorem bcastAxis_exact (n : Nat) (xs : List β) (h : xs.length = n) : bcastAxis n xs = .ok xs := by
  simp [bcastAxis, h]

theorem bcastAxis_reject (n : Nat) (xs : List β) (h : xs.length ≠ n) (h1 : xs.length ≠ 1) :
    bcastAxis n xs = .error .value := by
  unfold bcastAxis
  have : (xs.length == n) = false := by simpa using h
  rw [this]
  match xs, h1 with
  | [], _ => rfl
  | [x], h1 => exact absurd rfl h1
  | _ :: _ :: _, _ => rfl

theorem bcastAxis_one (n : Nat) (x : β) (h : n ≠ 1) : bcastAxis n [x] = .ok (List.replicate n x) := by
  unfold bcastAxis
  have : (([x] : List β).length == n) = false := by simpa using fun e => h e.symm
  rw [this]; rfl

/-- `mapM` in `Except` of a function that succeeds on every element is `map` -/
theorem mapM_ok_of_forall {ε : Type} (f : β → Except ε γ) (g : β → γ) :
    ∀ (l : List β), (∀ x ∈ l, f x = .ok (g x)) → l.mapM f = .ok (l.map g) := by
  intro l
  induction l with
  | nil => intro _; rfl
  | cons x l ih =>
    intro h
    rw [List.mapM_cons, h x (List.mem_cons_self ..), ih (fun y hy => h y (List.mem_cons_of_mem _ hy))]
    rfl

/-- `mapM` in `Except` fails as soon as the head fails -/
theorem mapM_error_head {ε : Type} (f : β → Except ε γ) (x : β) (l : List β) (e : ε) (h : f x = .error e) :
    (x :: l).mapM f = .error e := by
  rw [List.mapM_cons, h]; rfl

theorem dupTd_get (x : α) (k : Nat) (hk : k < 2) : (dupTd x)[k]? = some x := by
  match k, hk with
  | 0, _ => rfl
  | 1, _ => rfl

theorem dupTd_length (x : α) : (dupTd x).length = 2 := rfl

/-- specification side: the converted entry of a table whose shape matches its grids -/
def cx3dSpec (r : Rate15 α) : Rate15x3 α :=
  { ne := r.ne, te := r.te, td := tdGrid, rate := r.rate.map fun row => row.map dupTd }

/-- the table has one row per density and one column per temperature -/
def Rect (r : Rate15 α) : Prop := r.rate.length = r.ne.length ∧ ∀ row ∈ r.rate, row.length = r.te.length

end Cherab.Adf
