import Cherab.Props.C18
import Cherab.Props.C18Real
open Cherab.Props.C18 Cherab.Props.C18Real
-- segments tile the laser length exactly once
#print axioms segments_closed_form
#print axioms segments_tile
#print axioms segments_cover_unique
#print axioms segments_height_bounds
-- binned spectrum
#print axioms bins_closed_form
#print axioms wavelengths_are_bin_centres
#print axioms spectrum_bins_telescope
#print axioms gauss_bin_power_is_cdf_increment
#print axioms const_bins_inside
#print axioms const_bin_power_is_integral
#print axioms const_total_power_one
#print axioms const_density_total_power_one
-- Gaussian beam width, normalisation
#print axioms rayleigh_formula
#print axioms gbm_sigma_formula
#print axioms gbm_sigma_waist
#print axioms gbm_sigma_ge_waist
#print axioms gbm_sigma_symm
#print axioms normalisation_spec
#print axioms bivEval_formula
#print axioms gbmEval_formula
-- histories (value level, any class table)
#print axioms setWith_inv
#print axioms history_clean
#print axioms rejected_assignment_unchanged
#print axioms ctor_sound
#print axioms ctor_establishes
#print axioms history_agrees
#print axioms reported_eq
#print axioms obs_congr
#print axioms history_eq_fresh
#print axioms ctor_params_ok
#print axioms history_agrees_ok
#print axioms ctor_succeeds
#print axioms fresh_constructible
#print axioms history_eq_fresh_total
#print axioms uncovered_setter_goes_stale
-- histories (generic invalidation theory)
#print axioms covered_of_table
#print axioms no_stale_histories
#print axioms stale_of_uncovered
-- proof-deepening pass
#print axioms segments_tile_any_count
#print axioms power_is_psd_times_delta
#print axioms scattered_flat_response
#print axioms scattered_constant_total
#print axioms scattered_gauss_total
#print axioms gauss_bin_power_nonneg
#print axioms gauss_total_power_le_one
#print axioms history_path_independent
#print axioms attach_inv
#print axioms attach_history_inv
#print axioms notified_iff_holds
#print axioms notify_reaches_every_live_observer
#print axioms surviving_holder_is_notified_once
-- integrals over ℝ
#print axioms transverse_integral_unit
#print axioms cbg_cross_section
#print axioms gbm_transverse_integral_unit
#print axioms gba_cross_section
#print axioms trivariate_unit
#print axioms trivariate_volume_integral
#print axioms gauss_density_integral
#print axioms gauss_density_total
