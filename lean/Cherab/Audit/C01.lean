import Cherab.Props.C01Table
import Cherab.Props.C01Notifier
import Cherab.Props.C01Subscription
import Cherab.Props.C01Reads
open Cherab.Props.C01
#print axioms Inval.inv_run
#print axioms Inval.no_stale
#print axioms Inval.stale_witness
#print axioms reachWithin_sound
#print axioms reaches_sound
#print axioms coveredBy_sound
#print axioms no_stale_of_coveredBy
#print axioms obs_irrelevant
#print axioms covered_cherab
#print axioms no_broken_subscriptions
#print axioms no_uncleared_sentinels
#print axioms no_stale_cherab
#print axioms notifier_exact
#print axioms setter_inv
#print axioms run_inv
#print axioms run_cur
#print axioms add_then_remove_breaks
#print axioms add_then_remove_ok_if_distinct
#print axioms add_then_remove_old_breaks
#print axioms add_if_none_breaks
#print axioms all_setters_canonical
#print axioms no_setter_problems
#print axioms setter_table_nonempty
#print axioms no_stale_subscription
#print axioms coveredBy_of_rows_subset
#print axioms no_read_problems
#print axioms reads_table_nonempty
#print axioms reads_subset_deps
#print axioms reads_covered
#print axioms reads_covered_via_deps
#print axioms no_stale_reads
