/-
C04 — beam density (cherab/core/model/attenuator/singleray.pyx, cherab/core/beam/node.pyx `Beam.density`,
`Beam.direction`, cherab/core/utility/conversion.py `EvAmuToMS`, `EvToJ`).

Mathlib-free; polymorphic over notation so that the same definitions run at `Float` in the driver and are reasoned
about over an ordered field.  `sqrt`, `exp`, `tan`, `ceil`, `π` and the physical constants are parameters.
The code is transcribed statement by statement (operation order included); see the line references.
-/
namespace Cherab.BeamDensity

section
variable {α : Type} [Add α] [Sub α] [Mul α] [Div α] [Neg α] [Zero α] [One α] [OfScientific α] [NatCast α]
  [LT α] [LE α] [DecidableLT α] [DecidableLE α] [BEq α]

/-- raysect `Vector3D` / `Point3D` as a triple -/
abbrev Vec (α : Type) := α × α × α

def vsub (a b : Vec α) : Vec α := (a.1 - b.1, a.2.1 - b.2.1, a.2.2 - b.2.2)

/-- `Vector3D.__mul__(double)` -/
def vscale (a : Vec α) (s : α) : Vec α := (a.1 * s, a.2.1 * s, a.2.2 * s)

def normSqr (a : Vec α) : α := a.1 * a.1 + a.2.1 * a.2.1 + a.2.2 * a.2.2

/-- `Vector3D.length` -/
def vlen (sqrt : α → α) (a : Vec α) : α := sqrt (normSqr a)

/-- `Vector3D.normalise()` (raysect raises for a zero vector; callers here never pass one) -/
def vnormalise (sqrt : α → α) (a : Vec α) : Vec α :=
  let t := 1 / sqrt (normSqr a)
  (a.1 * t, a.2.1 * t, a.2.2 * t)

/-! ### conversion.py -/

/-- `EvAmuToMS.conversion_factor = 2 * elementary_charge / atomic_mass` -/
def evAmuFactor (echarge amu : α) : α := 2.0 * echarge / amu

/-- `EvAmuToMS.to` -/
def evAmuToMS (sqrt : α → α) (cf x : α) : α := sqrt (x * cf)

/-- `EvAmuToMS.inv` -/
def evAmuToMSInv (cf x : α) : α := (x * x) / cf

/-- `EvToJ.to` -/
def evToJ (echarge x : α) : α := x * echarge

/-! ### `_beam_stopping` (singleray.pyx:267-313) -/

/-- what the loop reads from one `(species, coeff)` entry of `_stopping_data` at one point of the beam axis -/
structure Target (α : Type) where
  charge : Nat
  n : α
  t : α
  v : Vec α
  rate : α → α → α → α

/-- first loop: `density_sum += species.charge**2 * density` -/
def densitySum (ts : List (Target α)) : α :=
  ts.foldl (fun acc s => acc + ((s.charge * s.charge : Nat) : α) * s.n) 0

/-- arguments handed to `coeff.evaluate` for one species: interaction energy, equivalent electron density, ion temperature -/
def rateArgs (sqrt : α → α) (cf : α) (bv : Vec α) (ds : α) (s : Target α) : α × α × α :=
  let interactionSpeed := vlen sqrt (vsub bv s.v)
  (evAmuToMSInv cf interactionSpeed, ds / (s.charge : α), s.t)

/-- one term of the second loop: `target_ne * coeff.evaluate(interaction_energy, target_equiv_ne, target_ti)` -/
def stoppingTerm (sqrt : α → α) (cf : α) (bv : Vec α) (ds : α) (s : Target α) : α :=
  let a := rateArgs sqrt cf bv ds s
  (s.n * (s.charge : α)) * s.rate a.1 a.2.1 a.2.2

def beamStopping (sqrt : α → α) (cf : α) (bv : Vec α) (ts : List (Target α)) : α :=
  let ds := densitySum ts
  ts.foldl (fun acc s => acc + stoppingTerm sqrt cf bv ds s) 0

/-! ### sample points (singleray.pyx:202-203) -/

/-- `max(1 + int(np.ceil(length / step)), 4)` -/
def sampleCount (ceilNat : α → Nat) (length step : α) : Nat := max (1 + ceilNat (length / step)) 4

/-- `np.linspace(0.0, length, n)[i]` : `arange(n) * (length / (n-1)) + 0.0`, last element forced to `length` -/
def node (length : α) (n i : Nat) : α :=
  if n ≤ 1 then 0
  else if i = n - 1 then length
  else (i : α) * ((length - 0) / ((n - 1 : Nat) : α)) + 0

def nodes (length : α) (n : Nat) : List α := (List.range n).map (node length n)

/-! ### `scipy.integrate.cumulative_trapezoid(y, x, initial=0)` : `cumsum(diff(x) * (y[1:] + y[:-1]) / 2.0)` -/

def cumtrapzFrom (acc x0 y0 : α) : List (α × α) → List α
  | [] => []
  | (x1, y1) :: rest =>
      let acc' := acc + (x1 - x0) * (y1 + y0) / 2.0
      acc' :: cumtrapzFrom acc' x1 y1 rest

def cumtrapz : List (α × α) → List α
  | [] => []
  | (x0, y0) :: rest => 0 :: cumtrapzFrom 0 x0 y0 rest

/-! ### `_beam_attenuation` (singleray.pyx:229-264) -/

/-- `speed = EvAmuToMS.to(energy)` -/
def beamSpeed (sqrt : α → α) (echarge amu energy : α) : α := evAmuToMS sqrt (evAmuFactor echarge amu) energy

/-- `beam_particle_rate = power / EvToJ.to(energy * mass)` -/
def particleRate (echarge energy power mass : α) : α := power / evToJ echarge (energy * mass)

/-- `beam_density = beam_particle_rate / speed` (stored as `_source_density`) -/
def sourceDensity (sqrt : α → α) (echarge amu energy power mass : α) : α :=
  particleRate echarge energy power mass / beamSpeed sqrt echarge amu energy

/-- `beam_density * np.exp(-cumulative_trapezoid(stopping_coeff, axis, initial=0) / speed)` -/
def attenuate (exp : α → α) (n0 speed : α) (cum : List α) : List α :=
  cum.map fun c => n0 * exp (-c / speed)

/-- line density (m⁻¹) at the sample points, given the stopping coefficient at each of them -/
def beamAttenuation (sqrt exp : α → α) (echarge amu energy power mass : α) (zs ss : List α) : List α :=
  attenuate exp (sourceDensity sqrt echarge amu energy power mass) (beamSpeed sqrt echarge amu energy)
    (cumtrapz (zs.zip ss))

/-- `beam_velocity = direction.normalise() * speed` -/
def beamVelocity (sqrt : α → α) (dir : Vec α) (speed : α) : Vec α := vscale (vnormalise sqrt dir) speed

/-- `_calc_attenuation`: knots `(z_k, lineDensity_k)` of the interpolator; `targets k` is what the species
distributions return at the k-th axis point (already transformed to plasma space) -/
def calcAttenuation (sqrt exp : α → α) (echarge amu energy power mass : α) (dir : Vec α) (zs : List α)
    (targets : List (List (Target α))) : List (α × α) :=
  let speed := beamSpeed sqrt echarge amu energy
  let bv := beamVelocity sqrt dir speed
  let ss := targets.map (beamStopping sqrt (evAmuFactor echarge amu) bv)
  zs.zip (beamAttenuation sqrt exp echarge amu energy power mass zs ss)

/-! ### raysect `Interpolator1DArray(x, f, 'linear', 'nearest', extrapolation_range)` -/

/-- raysect `linear1d` -/
def linear1d (x0 x1 f0 f1 x : α) : α := ((f1 - f0) / (x1 - x0)) * (x - x0) + f0

/-- evaluation for `x ≥ x0`: bins are `[x_i, x_{i+1})`, the last knot belongs to the last bin, beyond it the
nearest (last) value -/
def interpFrom (x0 f0 : α) : List (α × α) → α → α
  | [], _ => f0
  | [(x1, f1)], x => if x ≤ x1 then linear1d x0 x1 f0 f1 x else f1
  | (x1, f1) :: p :: rest, x => if x < x1 then linear1d x0 x1 f0 f1 x else interpFrom x1 f1 (p :: rest) x

def lastX (x0 : α) : List (α × α) → α
  | [] => x0
  | (x1, _) :: rest => lastX x1 rest

/-- `Interpolator1DArray.evaluate`; `none` = ValueError (outside the extrapolation range) -/
def interpEval (range : α) : List (α × α) → α → Option α
  | [], _ => none
  | (x0, f0) :: rest, x =>
      if x < x0 then (if x < x0 - range then none else some f0)
      else if x > lastX x0 rest + range then none
      else some (interpFrom x0 f0 rest x)

/-! ### `SingleRayAttenuator.density` (singleray.pyx:107-168) -/

/-- `tan(DEGREES_TO_RADIANS * divergence)` -/
def tanDiv (tan : α → α) (degToRad divergence : α) : α := tan (degToRad * divergence)

/-- `sqrt(sigma0_sqr + (z * tandiv)**2)` -/
def sigmaZ (sqrt : α → α) (sigma tandiv z : α) : α := sqrt (sigma * sigma + (z * tandiv) * (z * tandiv))

/-- `(x / sigma_x)**2 + (y / sigma_y)**2` -/
def normRadiusSqr (sx sy x y : α) : α := (x / sx) * (x / sx) + (y / sy) * (y / sy)

/-- `exp(-0.5 * norm_radius_sqr) / (2 * M_PI * sigma_x * sigma_y)` -/
def gaussianSample (exp : α → α) (pi sx sy x y : α) : α :=
  exp (-0.5 * normRadiusSqr sx sy x y) / (2.0 * pi * sx * sy)

def attDensity (sqrt exp : α → α) (pi sigma tanx tany : α) (clamp : Bool) (clampSqr : α)
    (line : α → Option α) (x y z : α) : Option α :=
  let sx := sigmaZ sqrt sigma tanx z
  let sy := sigmaZ sqrt sigma tany z
  if clamp && decide (normRadiusSqr sx sy x y > clampSqr) then some 0
  else (line z).map fun l => l * gaussianSample exp pi sx sy x y

/-! ### `Beam.density`, `Beam.direction` (node.pyx:214-279) -/

def beamDensity (sqrt exp : α → α) (pi sigma tanx tany length : α) (clamp : Bool) (clampSqr : α)
    (line : α → Option α) (x y z : α) : Option α :=
  if z < 0 ∨ z > length then some 0
  else attDensity sqrt exp pi sigma tanx tany clamp clampSqr line x y z

/-- un-normalised direction for `z > 0` -/
def directionRaw (sigma tanx tany x y z : α) : Vec α :=
  let zTanxSqr := z * z * tanx * tanx
  let zTanySqr := z * z * tany * tany
  let sigmaSqr := sigma * sigma
  let sigmaXSqr := sigmaSqr + zTanxSqr
  let sigmaYSqr := sigmaSqr + zTanySqr
  (x * zTanxSqr / sigmaXSqr, y * zTanySqr / sigmaYSqr, z)

def beamDirection (sqrt : α → α) (sigma tanx tany x y z : α) : Vec α :=
  if z ≤ 0 then (0, 0, 1) else vnormalise sqrt (directionRaw sigma tanx tany x y z)

/-- the whole `Beam.density` pipeline for a fresh beam: attenuation table, interpolator, z-range clamp, Gaussian -/
def beamDensityFull (sqrt exp : α → α) (pi echarge amu energy power mass : α) (dir : Vec α)
    (sigma tanx tany length : α) (n : Nat) (clamp : Bool) (clampSqr : α)
    (targets : List (List (Target α))) (x y z : α) : Option α :=
  let knots := calcAttenuation sqrt exp echarge amu energy power mass dir (nodes length n) targets
  beamDensity sqrt exp pi sigma tanx tany length clamp clampSqr (interpEval 1e-9 knots) x y z

end
end Cherab.BeamDensity
