"""C08 — ADF parsers return the file's numbers under the documented conventions.

T  lean/Cherab/Props/C08.lean over lean/Cherab/Model/Adf.lean (layer 2: structure of the parsers over abstract lines and
   tokens; writers render11/12/15/2x beside them) — round trips for all grid sizes / block counts, axis order, charge
   convention, rejection theorems.
K  translator harness/translators/adf_lex.py re-reads every regular expression, column slice and conversion constant of
   the anchored sources into Gen/AdfLex.lean (the text layer is a transcription of exactly those literals; a theorem
   pins them).  Correspondence: Python generates tables as opaque Fortran-formatted tokens, the Lean driver renders the
   file *text* with the model's writers and parses it back (text views and canonical views must agree); the same text
   is parsed by the real parse_adf*, installed with install_adf* into a temporary repository and read back with get_*.
S  direct oracle, no model: what the real parser / repository returns must equal the generated tables after the
   documented conversions; wrong element header / absent block must raise; install_files(configuration dict with every key)
   must put each file into its own repository family and leave the others empty; for every installer and install_files the
   copy of the file that the documented lookup order designates (adas_path tree, then — with download — the cache) is the
   one installed; the network is stubbed and must only be reached when the file is nowhere and download=True; install
   SEQUENCES into one repository (files sharing keys partially) read back completely after every step (last write per key
   wins); every parse / install entry point gives the same result with equal-but-not-identical species objects.
"""
import copy
import json
import math
import os
import re
import shutil
import sys
import tempfile

# the code under test computes DEFAULT_REPOSITORY_PATH from ~ at import: redirect HOME first
_HOME = tempfile.mkdtemp(prefix='c08home_')
os.environ['HOME'] = _HOME

import numpy as np  # noqa: E402

from harness.vlib.util import call  # noqa: E402

REL_POW = 1e-13      # 10**x through numpy vs Python's pow
CONV = {
    'id': lambda x: x,
    'pcm3': lambda x: x * 1e6,
    'cm3': lambda x: x * 1e-6,
    'p10': lambda x: 10 ** x,
    'p10pcm3': lambda x: (10 ** x) * 1e6,
    'p10cm3': lambda x: (10 ** x) * 1e-6,
    'ang': lambda x: x / 10,
}


def tokf(t):
    return float(t.replace('D', 'E'))


def same(a, b, tag):
    a = float(a); b = float(b)
    if tag.startswith('p10'):
        return abs(a - b) <= REL_POW * max(abs(a), abs(b))
    return a == b


def cmp_field(real, tag, toks):
    """real: scalar / 1-D / 2-D array-like from the implementation; toks: same nesting of token strings.
    returns None if equal else a short description"""
    f = CONV[tag]
    if isinstance(toks, str):
        try:
            r = float(real)
        except Exception:
            return 'not a scalar: %r' % (real,)
        return None if same(r, f(tokf(toks)), tag) else 'got %r want %r' % (r, f(tokf(toks)))
    arr = np.asarray(real, dtype=float)
    if toks and isinstance(toks[0], list):
        shape = (len(toks), len(toks[0]))
        if arr.shape != shape:
            return 'shape %r want %r' % (arr.shape, shape)
        for i, row in enumerate(toks):
            for j, t in enumerate(row):
                if not same(arr[i, j], f(tokf(t)), tag):
                    return '[%d][%d] got %r want %r' % (i, j, float(arr[i, j]), f(tokf(t)))
        return None
    if arr.shape != (len(toks),):
        return 'shape %r want %r' % (arr.shape, (len(toks),))
    for i, t in enumerate(toks):
        if not same(arr[i], f(tokf(t)), tag):
            return '[%d] got %r want %r' % (i, float(arr[i]), f(tokf(t)))
    return None


def cmp_struct(real, struct, fields=None):
    """struct: {name: (tag, toks)}; real: mapping name -> value.  First difference or None."""
    for name, (tag, toks) in struct.items():
        if fields is not None and name not in fields:
            continue
        if name not in real:
            return '%s: missing' % name
        d = cmp_field(real[name], tag, toks)
        if d:
            return '%s: %s' % (name, d)
    return None


def parse_model_struct(s, tags):
    """'name:a,b;name2:a,b/c,d;…' -> {name: (tag, toks)} with the tag table of the format"""
    out = {}
    for part in s.split(';'):
        name, _, body = part.partition(':')
        if '/' in body or name in tags.get('_matrix', ()):
            val = [row.split(',') if row else [] for row in body.split('/')] if body else []
        elif name in tags.get('_scalar', ()):
            val = body
        else:
            val = body.split(',') if body else []
        out[name] = (tags[name], val)
    return out


_FIELD = re.compile(r"\b(ne|te|rates|rate|sen|st|eref|nref|tref|sref|eb|ti|ni|qeb|qti|qni|qz|qb|ebref|tiref|niref|zref|bref|qref|wl|e|n|t|z|b): ")
_EXC = re.compile(r"raised (\w+)")


def sigcat(msg):
    """stable category of a difference message: the table field it concerns, or what kind of structural difference —
    never indices, values or randomly chosen keys"""
    msg = msg or ''
    if 'keys' in msg or 'transitions ' in msg:
        return 'keys'
    m = _EXC.search(msg)
    if m:
        return 'raised-' + m.group(1)
    m = _FIELD.search(msg)
    if m:
        return 'shape-' + m.group(1) if 'shape' in msg else m.group(1)
    if 'metastable missing' in msg:
        return 'metastable-missing'
    if 'absent' in msg:
        return 'absent-key-readable'
    if 'unshifted' in msg:
        return 'unshifted-charge-readable'
    return 'other'


def de(x):
    """normalise Fortran D exponents in a nested token structure (the parsers replace D by E before float())"""
    if isinstance(x, str):
        return x.replace('D', 'E')
    if isinstance(x, dict):
        return {k: de(v) for k, v in x.items()}
    if isinstance(x, tuple):
        return tuple(de(v) for v in x)
    if isinstance(x, list):
        return [de(v) for v in x]
    return x


# ------------------------------------------------------------------------------------------------ number formats
def e3(x):
    """1PE9.3-style token, 9 characters for positive numbers"""
    return '%.3E' % x


def rnd_pos(rng, lo, hi):
    return 10 ** rng.uniform(lo, hi)


def grid_size(rng, ctx, big=30):
    """sizes 1..big with the residues mod 8 (and mod 6) spread deliberately"""
    k = rng.random()
    if k < 0.15:
        return rng.choice([1, 2, 7, 8, 9, 15, 16, 17, 23, 24, 25, 30])
    return rng.randint(1, big)


def increasing(rng, n, lo, hi):
    xs = sorted(rng.uniform(lo, hi) for _ in range(n))
    return xs


class World:
    """temporary ADAS tree + repository"""

    def __init__(self):
        self.root = tempfile.mkdtemp(prefix='c08_')
        self.adas = os.path.join(self.root, 'adas')
        self.repo = os.path.join(self.root, 'repo')
        os.makedirs(self.adas)
        os.makedirs(self.repo)
        self.n = 0

    def write(self, text, name=None):
        self.n += 1
        rel = name or ('f%05d.dat' % self.n)
        p = os.path.join(self.adas, rel)
        os.makedirs(os.path.dirname(p), exist_ok=True)
        with open(p, 'w') as f:
            f.write(text)
        return rel, p

    def fresh_repo(self):
        shutil.rmtree(self.repo, ignore_errors=True)
        os.makedirs(self.repo)

    def close(self):
        shutil.rmtree(self.root, ignore_errors=True)


def quiet(f, *a, **k):
    """install_* print progress lines; keep the check's output readable"""
    old = sys.stdout
    sys.stdout = open(os.devnull, 'w')
    try:
        return call(f, *a, **k)
    finally:
        sys.stdout.close()
        sys.stdout = old


# ------------------------------------------------------------------------------------------------ ADF21 / ADF22
TAGS2X = {k: {'e': 'id', 'n': 'pcm3', 't': 'id', 'sen': nrm, 'st': nrm, 'eref': 'id', 'nref': 'pcm3', 'tref': 'id', 'sref': nrm,
              '_scalar': ('eref', 'nref', 'tref', 'sref'), '_matrix': ('sen',)}
          for k, nrm in (('adf21', 'cm3'), ('bmp', 'id'), ('bme', 'cm3'))}


def gen_2x(ctx, rng, kind=None):
    from cherab.core.atomic import hydrogen, deuterium, helium, carbon, neon, beryllium
    kind = kind or rng.choice(['adf21', 'bmp', 'bme'])
    neb, ndt, ntt = grid_size(rng, ctx), grid_size(rng, ctx), grid_size(rng, ctx)
    eb = [e3(x) for x in increasing(rng, neb, 5e3, 2e5)]
    dt = [e3(10 ** x) for x in increasing(rng, ndt, 10, 15)]
    tt = [e3(10 ** x) for x in increasing(rng, ntt, 0, 4)]
    scale = 1e-7 if kind != 'bmp' else 1e-2
    sv = [[e3(scale * rng.uniform(0.1, 9)) for _ in range(ndt)] for _ in range(neb)]      # sv[i_e][i_n]
    svt = [e3(scale * rng.uniform(0.1, 9)) for _ in range(ntt)]
    target, zt = rng.choice([(hydrogen, 1), (helium, 2), (carbon, 6), (neon, 10), (beryllium, 4), (deuterium, 1)])
    beam = rng.choice([hydrogen, deuterium])
    hdr = dict(zt=zt, spec=target.symbol.upper(), svref=e3(scale * rng.uniform(0.1, 9)), tref=e3(rnd_pos(rng, 1, 4)),
               eref=e3(rnd_pos(rng, 4, 5)), dref=e3(rnd_pos(rng, 12, 14)))
    flat = [sv[i][j] for j in range(ndt) for i in range(neb)]
    line = ' '.join(['adf2x', str(zt), hdr['spec'], hdr['svref'], hdr['tref'], hdr['eref'], hdr['dref'],
                     str(neb), str(ndt), str(ntt)] + eb + dt + tt + svt + flat)
    t = TAGS2X[kind]
    struct = {'e': (t['e'], eb), 'n': (t['n'], dt), 't': (t['t'], tt), 'sen': (t['sen'], sv), 'st': (t['st'], svt),
              'eref': (t['eref'], hdr['eref']), 'nref': (t['nref'], hdr['dref']), 'tref': (t['tref'], hdr['tref']),
              'sref': (t['sref'], hdr['svref'])}
    return dict(fmt='2x', kind=kind, line=line, struct=struct, sizes=(neb, ndt, ntt), counts=(neb, ndt, ntt), beam=beam, target=target, zt=zt,
                meta=rng.choice([1, 2, 3]), transition=rng.choice([(3, 2), (4, 2), (2, 1)]),
                desc=dict(format=kind, neb=neb, ndt=ndt, ntt=ntt, target=target.symbol, charge=zt))


def run_2x(ctx, w, c, text, model, extra=None):
    from cherab.openadas import parse as P, install as I, repository as R
    kind = c['kind']
    rel, path = w.write(text)
    beam, target, zt = c['beam'], c['target'], c['zt']
    sig = 'C08:%s' % kind
    # ---- parse
    if kind == 'adf21':
        st, r = call(P.parse_adf21, beam, target, zt, path)
        got = r[beam][target][zt] if st == 'ok' else None
    elif kind == 'bmp':
        st, r = call(P.parse_adf22bmp, beam, c['meta'], target, zt, path)
        got = r[beam][c['meta']][target][zt] if st == 'ok' else None
    else:
        st, r = call(P.parse_adf22bme, beam, target, zt, c['transition'], path)
        got = r[beam][target][zt][c['transition']] if st == 'ok' else None
    res = dict(parse_status=st)
    if st != 'ok':
        res['oracle'] = (False, sig + ':parse:raised-' + st, 'parse raised %s: %s' % (st, r))
        res['impl_vs_model'] = 'impl raised %s, model %s' % (st, model[:40])
        return res
    d = cmp_struct(got, c['struct'])
    res['oracle'] = (d is None, sig + ':parse:' + sigcat(d), 'parse_%s: %s' % (kind, d))
    if model.startswith('ok '):
        ms = parse_model_struct(model[3:], TAGS2X[kind])
        res['impl_vs_model'] = cmp_struct(got, ms)
        res['model_vs_tables'] = None if ms == c['struct'] else 'model parse differs from the generated tables'
    else:
        res['impl_vs_model'] = 'model says %s, implementation parsed the file' % model
    # observation only (not judged, see notes/C08.md): the ZT= / SPEC= header of ADF21/22 is decoded but never compared
    # with the target species the caller names
    if kind == 'adf21' and c['zt'] != 2:
        from cherab.core.atomic import helium
        sto, _ = call(P.parse_adf21, beam, helium, 2, path)
        ctx.count('observation:adf21-file-for-%s-accepted-as-He2+' % ('other-species' if sto == 'ok' else 'REJECTED'))
    # ---- install + read back
    if kind == 'adf21':
        st2, e = quiet(I.install_adf21, beam, target, zt, rel, repository_path=w.repo, adas_path=w.adas)
        st3, back = call(R.get_beam_stopping_rate, beam, target, zt, w.repo)
    elif kind == 'bmp':
        st2, e = quiet(I.install_adf22bmp, beam, c['meta'], target, zt, rel, repository_path=w.repo, adas_path=w.adas)
        st3, back = call(R.get_beam_population_rate, beam, c['meta'], target, zt, w.repo)
    else:
        st2, e = quiet(I.install_adf22bme, beam, target, zt, c['transition'], rel, repository_path=w.repo, adas_path=w.adas)
        st3, back = call(R.get_beam_emission_rate, beam, target, zt, c['transition'], w.repo)
    if st2 != 'ok' or st3 != 'ok':
        res['install'] = (False, sig + ':install:raised-%s-%s' % (st2, st3), 'install %s / get %s: %s %s' % (st2, st3, e, back if st3 != 'ok' else ''))
    else:
        d2 = cmp_struct(back, c['struct'])
        res['install'] = (d2 is None, sig + ':install:' + sigcat(d2), 'install_%s -> get: %s' % (kind, d2))
    return res


# ------------------------------------------------------------------------------------------------ ADF12
TAGS12 = {'eb': 'id', 'ti': 'id', 'ni': 'pcm3', 'z': 'id', 'b': 'id', 'qeb': 'cm3', 'qti': 'cm3', 'qni': 'cm3', 'qz': 'cm3', 'qb': 'cm3',
          'ebref': 'id', 'tiref': 'id', 'niref': 'pcm3', 'zref': 'id', 'bref': 'id', 'qref': 'cm3',
          '_scalar': ('ebref', 'tiref', 'niref', 'zref', 'bref', 'qref')}
STORED12 = ('eb', 'ti', 'ni', 'z', 'b', 'qeb', 'qti', 'qni', 'qz', 'qb', 'qref')


def d2(x):
    """1PD10.2-style token with Fortran's D exponent"""
    return ('%.2E' % x).replace('E', 'D')


def gen_12(ctx, rng, absent=False, trans=None):
    from cherab.core.atomic import hydrogen, deuterium, helium, carbon, neon, beryllium, boron
    nblocks = len(trans) if trans else rng.choice([1, 1, 2, 3, 5, 12, rng.randint(1, 12)])
    receiver, charge = rng.choice([(hydrogen, 1), (helium, 2), (carbon, 6), (neon, 10), (beryllium, 4), (boron, 5)])
    donor = rng.choice([hydrogen, deuterium])
    ups = rng.sample(range(2, 40), nblocks)
    toks = []
    blocks = []
    for b in range(nblocks):
        up = ups[b]
        lo = rng.randint(1, up - 1)
        if trans:
            up, lo = trans[b]
        sizes = [rng.choice([1, 5, 6, 7, 12, 13, 23, 24, rng.randint(1, 24)]), rng.choice([1, 6, 7, 11, 12, rng.randint(1, 12)]),
                 rng.choice([1, 6, 7, 18, 24, rng.randint(1, 24)]), rng.choice([1, 5, 6, 7, 12, rng.randint(1, 12)]),
                 rng.choice([1, 6, 7, 12, rng.randint(1, 12)])]
        qef = d2(rnd_pos(rng, -10, -7))
        refs = [d2(rnd_pos(rng, 4, 5)), d2(rnd_pos(rng, 2, 4)), d2(rnd_pos(rng, 12, 14)), d2(rng.uniform(1, 4)), d2(rng.uniform(1, 5))]
        secs = []
        for n, (lo_, hi_) in zip(sizes, [(3, 5.3), (1, 4.5), (11, 15), (0, 1), (0, 1)]):
            x = [d2(10 ** v) for v in increasing(rng, n, lo_, hi_)]
            q = [d2(rnd_pos(rng, -10, -7)) for _ in range(n)]
            secs += [x, q]
        toks += [str(up), str(lo), qef] + refs + [str(n) for n in sizes]
        for sec in secs:
            toks += sec
        names = ['eb', 'qeb', 'ti', 'qti', 'ni', 'qni', 'z', 'qz', 'b', 'qb']
        st = {nm: (TAGS12[nm], v) for nm, v in zip(names, secs)}
        for nm, v in zip(['ebref', 'tiref', 'niref', 'zref', 'bref'], refs):
            st[nm] = (TAGS12[nm], v)
        st['qref'] = (TAGS12['qref'], qef)
        blocks.append(((up, lo), st, tuple(sizes)))
    count = '-'
    if absent:
        count = str(nblocks + rng.randint(1, 3))
    line = ' '.join(['adf12', count, d2(0.0), str(nblocks)] + toks)
    return dict(fmt='12', kind='absent' if absent else 'std', line=line, blocks=blocks, donor=donor, receiver=receiver, charge=charge,
                meta=rng.choice([1, 2]), sizes=(nblocks,) + tuple(b[2] for b in blocks[:2]), absent=absent,
                desc=dict(format='adf12', blocks=nblocks, sizes=[b[2] for b in blocks], announced=count,
                          receiver=receiver.symbol, charge=charge))


def split_model_blocks(model):
    """'ok key;f:..;..!key;..' -> [(key, 'f:..;..')]"""
    body = model[3:]
    out = []
    if not body:
        return out
    for blk in body.split('!'):
        key, _, rest = blk.partition(';')
        out.append((key, rest))
    return out


def run_12(ctx, w, c, text, model, extra=None):
    from cherab.openadas import parse as P, install as I, repository as R
    rel, path = w.write(text)
    donor, receiver, charge, meta = c['donor'], c['receiver'], c['charge'], c['meta']
    st, r = call(P.parse_adf12, donor, meta, receiver, charge, path)
    res = dict(parse_status=st)
    if c['absent']:
        # the first line announces more blocks than the file holds: must be rejected, not silently accepted
        res['oracle'] = (st != 'ok', 'C08:adf12:announced-block-absent-accepted', 'parse_adf12 accepted a file announcing %s blocks with %d present'
                         % (c['desc']['announced'], len(c['blocks'])))
        if (st == 'ok') != model.startswith('ok') or (st != 'ok' and model != 'err ' + st):
            res['impl_vs_model'] = 'impl %s, model %s' % (st, model[:60])
        st2, e = quiet(I.install_adf12, donor, meta, receiver, charge, rel, repository_path=w.repo, adas_path=w.adas)
        res['install'] = (st2 != 'ok', 'C08:adf12:announced-block-absent-installed', 'install_adf12 accepted the truncated file')
        return res
    if st != 'ok':
        res['oracle'] = (False, 'C08:adf12:parse:raised-' + st, 'parse_adf12 raised %s: %s' % (st, r))
        res['impl_vs_model'] = 'impl raised %s, model %s' % (st, model[:40])
        return res
    got = r[donor][receiver][charge]
    want = {}
    for tr, stc, _ in c['blocks']:
        want[tr] = stc                                   # a repeated transition overwrites (ups are distinct here)
    d = None
    if set(got.keys()) != set(want.keys()):
        d = 'transitions %r want %r' % (sorted(got.keys()), sorted(want.keys()))
    else:
        for tr in want:
            if list(got[tr].keys()) != [meta]:
                d = 'metastable keys %r' % list(got[tr].keys())
                break
            dd = cmp_struct(got[tr][meta], want[tr])
            if dd:
                d = 'transition %r %s' % (tr, dd)
                break
    res['oracle'] = (d is None, 'C08:adf12:parse:' + sigcat(d), 'parse_adf12: %s' % d)
    if model.startswith('ok'):
        mb = split_model_blocks(model)
        md = {}
        for key, body in mb:
            a, b = key.split('-')
            md[(int(a), int(b))] = parse_model_struct(body, TAGS12)
        if set(md.keys()) != set(got.keys()):
            res['impl_vs_model'] = 'transition keys differ: model %r impl %r' % (sorted(md), sorted(got.keys()))
        else:
            for tr in md:
                dd = cmp_struct(got[tr][meta], md[tr])
                if dd:
                    res['impl_vs_model'] = 'transition %r %s' % (tr, dd)
                    break
        res['model_vs_tables'] = None if md == de(want) else 'model parse differs from the generated tables'
    else:
        res['impl_vs_model'] = 'model says %s, implementation parsed the file' % model
    st2, e = quiet(I.install_adf12, donor, meta, receiver, charge, rel, repository_path=w.repo, adas_path=w.adas)
    if st2 != 'ok':
        res['install'] = (False, 'C08:adf12:install:raised-' + st2, 'install_adf12 raised %s: %s' % (st2, e))
        return res
    d2_ = None
    for tr in want:
        st3, back = call(R.get_beam_cx_rates, donor, receiver, charge, tr, w.repo)
        if st3 != 'ok':
            d2_ = 'get_beam_cx_rates%r raised %s' % (tr, st3)
            break
        back = dict(back)
        if meta not in back:
            d2_ = 'metastable %d missing for %r' % (meta, tr)
            break
        dd = cmp_struct(back[meta], want[tr], fields=STORED12)
        if dd:
            d2_ = 'transition %r %s' % (tr, dd)
            break
    st4, _ = call(R.get_beam_cx_rates, donor, receiver, charge, (41, 40), w.repo)
    if d2_ is None and st4 != 'RuntimeError':
        d2_ = 'get of an absent transition gave %s' % st4
    res['install'] = (d2_ is None, 'C08:adf12:install:' + sigcat(d2_), 'install_adf12 -> get_beam_cx_rates: %s' % d2_)
    return res


# ------------------------------------------------------------------------------------------------ ADF11
CLS11 = {
    'scd': ('install_adf11scd', 'get_ionisation_rate', -1),
    'acd': ('install_adf11acd', 'get_recombination_rate', 0),
    'ccd': ('install_adf11ccd', 'get_thermal_cx_rate', 0),
    'plt': ('install_adf11plt', 'get_line_radiated_power_rate', -1),
    'prb': ('install_adf11prb', 'get_continuum_radiated_power_rate', 0),
    'prc': ('install_adf11prc', 'get_cx_radiated_power_rate', 0),
}
TAGS11P = {'ne': 'id', 'te': 'id', 'rates': 'id', '_matrix': ('rates',)}
TAGS11I = {'ne': 'p10pcm3', 'te': 'p10', 'rates': 'p10cm3', '_matrix': ('rates',)}
SIG11_PROBE = 'C08:adf11:unresolved-file-4th-line-negative-read-as-resolved'


def f5(x):
    return '%.5f' % x


def gen_11(ctx, rng, wrong=None, dup=False, fixed=None, force=None, z1_range=None):
    from cherab.core.atomic import hydrogen, deuterium, helium, carbon, neon, argon, krypton, xenon, nitrogen
    cls = rng.choice(sorted(CLS11))
    element = rng.choice([hydrogen, helium, carbon, nitrogen, neon, argon, krypton, xenon])
    if force:
        cls, element = force
    Z = element.atomic_number
    nblocks = min(Z, rng.choice([1, 1, 2, 3, 6, 10, 12, rng.randint(1, 12)]))
    if z1_range:
        nblocks = z1_range[1] - z1_range[0] + 1
    nNe, nTe = grid_size(rng, ctx), grid_size(rng, ctx)
    if rng.random() < 0.25:
        nNe = rng.randint(1, 8)                  # few densities: the 4th line of the file is a temperature line
    ne = [f5(x) for x in increasing(rng, nNe, 7.0, 16.0)]
    tlo = rng.choice([-0.69897, -1.0, 0.0, 0.30103, rng.uniform(-1, 1)])
    te = [f5(x) for x in increasing(rng, nTe, tlo, 4.5)]
    if rng.random() < 0.5:
        te[0] = f5(tlo)
        te.sort(key=float)
    resolved = rng.random() < 0.3
    if fixed:
        nNe, nTe, t0 = fixed
        nblocks = min(nblocks, 2)
        resolved = False
        ne = [f5(x) for x in increasing(rng, nNe, 7.0, 16.0)]
        te = [f5(t0 + 0.25 * i) for i in range(nTe)]
    z1s = list(range(1, nblocks + 1))
    if z1_range:
        z1s = list(range(z1_range[0], z1_range[1] + 1))
    metaline = []
    if resolved:
        metaline = ['1'] * (nblocks + 1)
        if dup and nblocks >= 2:
            # metastable-resolved: several blocks share a Z1 (the API has no metastable index: the last one wins)
            k = rng.randrange(nblocks - 1)
            z1s[k + 1] = z1s[k]
            metaline[k] = '2'
    altEnd = rng.random() < 0.15
    rates = [[[f5(rng.uniform(-40, -5)) for _ in range(nTe)] for _ in range(nNe)] for _ in range(nblocks)]   # [b][i_ne][i_te]
    hz, hname = Z, element.name
    req = element
    if wrong == 'element':
        req = rng.choice([e for e in (hydrogen, helium, carbon, neon, argon) if e.atomic_number != Z])
    elif wrong == 'isotope':
        hz, hname, req = 1, 'hydrogen', deuterium
        nblocks_keep = 1
        z1s, rates, metaline = z1s[:nblocks_keep], rates[:nblocks_keep], metaline[:nblocks_keep + 1] if resolved else []
        nblocks = nblocks_keep
    elif wrong == 'number':
        hz = Z + 1                               # corrupt header: name right, nuclear charge wrong
    return build_11(cls, element, req, hz, hname, ne, te, z1s, rates, metaline, altEnd, wrong, dup and resolved)


def build_11(cls, element, req, hz, hname, ne, te, z1s, rates, metaline, altEnd, wrong=None, dup=False):
    """case record + protocol line from explicit ADF11 tables (rates[b][i_ne][i_te])"""
    nNe, nTe, nblocks = len(ne), len(te), len(z1s)
    resolved = bool(metaline)
    flat = []
    for b in range(nblocks):
        for j in range(nTe):
            for i in range(nNe):
                flat.append(rates[b][i][j])
    line = ' '.join(['adf11', cls, str(req.atomic_number), req.name, str(hz), hname, '1', str(nblocks), str(nNe), str(nTe),
                     '1' if altEnd else '0', str(len(metaline))] + metaline + [str(nblocks)] + [str(z) for z in z1s] + ne + te + flat)
    probe_tok = ne[8] if nNe > 8 else te[0]
    return dict(fmt='11', kind=cls + ('r' if resolved else 'u') + (':wrong-' + wrong if wrong else '') + (':dup' if dup else ''),
                cls=cls, line=line, element=element, request=req, z1s=z1s, ne=ne, te=te, rates=rates, resolved=resolved, wrong=wrong,
                dup=resolved and len(set(z1s)) != len(z1s), probe_negative=(not resolved) and probe_tok.startswith('-'),
                sizes=(nNe, nTe, nblocks, resolved, altEnd), counts=(nNe, nTe),
                desc=dict(format='adf11', cls=cls, element=element.symbol, requested=req.symbol, n_ne=nNe, n_te=nTe, z1=z1s,
                          resolved=resolved, alt_end=altEnd, fourth_line_first_token=probe_tok if not resolved else None))


def corpus_cases():
    """minimised past failures (corpus/C08/*.json), run first"""
    from cherab.core import atomic
    from harness.vlib.util import VERIF
    d = os.path.join(VERIF, 'corpus', 'C08')
    out = []
    for fn in sorted(os.listdir(d)) if os.path.isdir(d) else []:
        if not fn.endswith('.json'):
            continue
        j = json.load(open(os.path.join(d, fn)))
        if j.get('format') == 'adf11':
            el = getattr(atomic, j['element'])
            c = build_11(j['cls'], el, el, el.atomic_number, el.name, j['ne'], j['te'], j['z1'], j['rates'], j.get('metaline', []),
                         bool(j.get('alt_end')))
            c['kind'] += ':corpus'
            c['desc']['corpus'] = fn
            out.append(c)
    return out


def run_11(ctx, w, c, text, model, extra=None):
    from cherab.openadas import parse as P, install as I, repository as R
    from cherab.core.atomic import hydrogen
    rel, path = w.write(text)
    el, req, cls = c['element'], c['request'], c['cls']
    st, r = call(P.parse_adf11, req, path)
    res = dict(parse_status=st)
    if c['wrong']:
        res['oracle'] = (st == 'ValueError', 'C08:adf11:wrong-element-header-accepted:' + c['wrong'],
                         'parse_adf11(%s) on a file headed %s gave %s' % (req.symbol, c['desc']['element'], st))
        if model != 'err ' + st:
            res['impl_vs_model'] = 'impl %s, model %s' % (st, model[:60])
        inst, getter, corr = CLS11[cls]
        args = (hydrogen, 0, req, rel) if cls == 'ccd' else (req, rel)
        st2, e = quiet(getattr(I, inst), *args, repository_path=w.repo, adas_path=w.adas)
        res['install'] = (st2 == 'ValueError', 'C08:adf11:wrong-element-header-installed:' + c['wrong'],
                          '%s(%s) on a file headed %s gave %s' % (inst, req.symbol, c['desc']['element'], st2))
        return res
    sig_root = 'C08:adf11'
    explained = False       # the failure is exactly what the resolved-file mis-detection predicts (two data lines skipped)
    # expected tables (a repeated Z1 of a metastable-resolved file: last block wins — not judged by the oracle)
    want = {}
    for z, tab in zip(c['z1s'], c['rates']):
        want[z] = {'ne': ('id', c['ne']), 'te': ('id', c['te']), 'rates': ('id', tab)}
    if st != 'ok':
        res['oracle'] = (False, sig_root + ':parse:raised-%s' % st, 'parse_adf11 raised %s: %s' % (st, r))
        if model != 'err ' + st:
            res['impl_vs_model'] = 'impl raised %s, model %s' % (st, model[:40])
        return res
    got = r[req]
    d = None
    if set(got.keys()) != set(want.keys()):
        d = 'charge keys %r want %r' % (sorted(got.keys()), sorted(want.keys()))
    else:
        for z in want:
            dd = cmp_struct(got[z], want[z])
            if dd:
                d = 'Z1=%d %s' % (z, dd)
                break
    if c['probe_negative'] and d and set(got.keys()) == set(want.keys()):
        chunks = lambda v: [v[i:i + 8] for i in range(0, len(v), 8)]
        vec = [t for ln in (chunks(c['ne']) + chunks(c['te']))[2:] for t in ln]
        n = len(c['ne'])
        explained = all(cmp_struct(got[z], {'ne': ('id', vec[:n]), 'te': ('id', vec[n:]), 'rates': want[z]['rates']}) is None for z in want)
    if not c['dup']:
        why = 'parse_adf11: %s' % d
        if explained:
            why += ' (unresolved file, 4th line starts with %s: taken for a resolved file, two data lines skipped)' % c['desc']['fourth_line_first_token']
        res['oracle'] = (d is None, SIG11_PROBE if explained else sig_root + ':parse:' + sigcat(d), why)
    if model.startswith('ok'):
        md = {}
        for key, body in split_model_blocks(model):
            md[int(key)] = parse_model_struct(body, TAGS11P)
        if set(md.keys()) != set(got.keys()):
            res['impl_vs_model'] = 'charge keys differ: model %r impl %r' % (sorted(md), sorted(got.keys()))
        else:
            for z in md:
                dd = cmp_struct(got[z], md[z])
                if dd:
                    res['impl_vs_model'] = 'Z1=%d %s' % (z, dd)
                    break
        if not c['probe_negative']:
            res['model_vs_tables'] = None if md == want else 'model parse differs from the generated tables'
    else:
        res['impl_vs_model'] = 'model says %s, implementation parsed the file' % model
    # ---- install + read back
    inst, getter, corr = CLS11[cls]
    args = (hydrogen, 0, el, rel) if cls == 'ccd' else (el, rel)
    st2, e = quiet(getattr(I, inst), *args, repository_path=w.repo, adas_path=w.adas)
    minst = extra[0] if extra else ''
    if st2 != 'ok':
        if not c['dup']:
            res['install'] = (False, SIG11_PROBE if explained else sig_root + ':%s:install:raised-%s' % (cls, st2), '%s raised %s: %s' % (inst, st2, e))
        if minst.startswith('ok') and not c['probe_negative']:
            res['impl_vs_model'] = res.get('impl_vs_model') or 'install raised %s, model installs' % st2
        return res
    d2_ = None

    def get(charge):
        if cls == 'ccd':
            return call(getattr(R, getter), hydrogen, 0, el, charge, w.repo)
        return call(getattr(R, getter), el, charge, w.repo)

    for z in want:
        st3, back = get(z + corr)
        if st3 != 'ok':
            d2_ = '%s(charge %d) raised %s' % (getter, z + corr, st3)
            break
        dd = cmp_struct(back, {'ne': ('p10pcm3', c['ne']), 'te': ('p10', c['te']), 'rate': ('p10cm3', want[z]['rates'][1])})
        if dd:
            d2_ = 'Z1=%d stored as charge %d: %s' % (z, z + corr, dd)
            break
    if d2_ is None:
        absent = max(want) + corr + 1
        st4, _ = get(absent)
        if st4 != 'RuntimeError':
            d2_ = 'get of absent charge %d gave %s' % (absent, st4)
        if corr == -1:
            st5, _ = get(max(want))
            if st5 != 'RuntimeError':
                d2_ = 'Z1=%d of a %s file is readable under the unshifted charge' % (max(want), cls)
    if not c['dup']:
        res['install'] = (d2_ is None, SIG11_PROBE if explained else sig_root + ':%s:install:%s' % (cls, sigcat(d2_)), '%s -> %s: %s' % (inst, getter, d2_))
    # the model's notation step against what the repository returns
    if minst.startswith('ok'):
        for key, body in split_model_blocks(minst):
            ms = parse_model_struct(body, TAGS11I)
            st3, back = get(int(key))
            if st3 != 'ok':
                res['impl_vs_model'] = res.get('impl_vs_model') or 'model stores charge %s, repository has none (%s)' % (key, st3)
                break
            dd = cmp_struct(back, {'ne': ms['ne'], 'te': ms['te'], 'rate': ms['rates']})
            if dd:
                res['impl_vs_model'] = res.get('impl_vs_model') or 'charge %s: %s' % (key, dd)
                break
    return res


# ------------------------------------------------------------------------------------------------ ADF15
TAGS15 = {'ne': 'pcm3', 'te': 'id', 'rate': 'cm3', 'wl': 'ang', '_matrix': ('rate',), '_scalar': ('wl',)}
L_LOOKUP = 'SPDFGHIKLMNOQR'
CLS15 = {'EXCIT': 'excitation', 'RECOM': 'recombination', 'CHEXC': 'thermalcx'}


def e2(x):
    """1PE9.2-style token"""
    return '%.2E' % x


def level_key(s):
    if s.startswith('n'):
        return int(s[1:])
    _, conf, spin, l, j = s.split('~')
    return conf.replace('_', ' ') + ' ' + spin + L_LOOKUP[int(l)] + j


def gen_15(ctx, rng, absent=False, modes=None, force_el=None, trans=None):
    from cherab.core.atomic import hydrogen, deuterium, helium, carbon, neon, nitrogen, beryllium
    mode = rng.choice(modes or ['hydrogen', 'hydrogen-like', 'full', 'full', 'full-nodot', 'hf-hydrogen', 'hf-hydrogen-like', 'bnd'])
    hf = None
    fname = None
    if mode == 'hydrogen':
        element, charge, dialect = hydrogen, 0, 'h'
    elif mode == 'hydrogen-like':
        element, charge = rng.choice([(helium, 1), (carbon, 5), (neon, 9), (beryllium, 3)])
        dialect = 'hl'
    elif mode in ('full', 'full-nodot'):
        element, charge = rng.choice([(carbon, 2), (carbon, 1), (nitrogen, 3), (neon, 6), (helium, 0), (beryllium, 1)])
        dialect = 'f1' if mode == 'full' else 'f0'
    elif mode == 'hf-hydrogen':
        element, charge = rng.choice([(carbon, 2), (helium, 1), (neon, 6)])
        dialect, hf = 'h', 'hydrogen'
    elif mode == 'hf-hydrogen-like':
        element, charge = rng.choice([(carbon, 2), (neon, 6), (helium, 0)])
        dialect, hf = 'hl', 'hydrogen-like'
    else:   # one-electron ion, "bnd" file with the hydrogen index format
        element, charge = rng.choice([(helium, 1), (carbon, 5)])
        dialect = 'h'
        fname = 'adf15/pec96#%s/pec96#%s_bnd#%s%d.dat' % (element.symbol.lower(), element.symbol.lower(), element.symbol.lower(), charge)
    if force_el:
        element, charge = force_el
    nblocks = len(trans) if trans else rng.choice([1, 2, 3, 4, 6, 12, rng.randint(1, 12)])
    full = dialect in ('f1', 'f0')
    cfgs = []
    if full:
        ncfg = rng.randint(6, 9)                 # 15+ level pairs: enough distinct transitions for 12 blocks of one type
        used = set()
        for k in range(1, ncfg + 1):
            while True:
                orbs = ['1s2'] + ['%d%s%d' % (rng.randint(2, 4), rng.choice('spdfg'), rng.randint(1, 6)) for _ in range(rng.randint(0, 2))]
                c = (' '.join(orbs), str(rng.choice([1, 2, 3, 4])), rng.randint(0, 4), rng.choice(['0.5', '1.0', '1.5', '2.0', '4.5']))
                if c not in used:
                    used.add(c)
                    break
            cfgs.append((k,) + c)
    blocks, idx = [], []
    seen = set()
    toks_b = []
    for b in range(nblocks):
        isel = b + 1
        typ = rng.choice(['EXCIT', 'EXCIT', 'RECOM', 'CHEXC'])
        while True:
            if full:
                up = rng.randint(2, len(cfgs))
                lo = rng.randint(1, up - 1)
            else:
                up = rng.randint(2, 20)
                lo = rng.randint(1, up - 1)
            if trans:
                typ, up, lo = trans[b]
            if (typ, up, lo) not in seen:
                seen.add((typ, up, lo))
                break
        nN, nT = grid_size(rng, ctx, 24), grid_size(rng, ctx, 30)
        if nblocks > 6:
            nN, nT = min(nN, 12), min(nT, 12)
        ne = [e2(10 ** v) for v in increasing(rng, nN, 7, 15)]
        te = [e2(10 ** v) for v in increasing(rng, nT, -0.7, 4)]
        rate = [[e2(rnd_pos(rng, -14, -7)) for _ in range(nT)] for _ in range(nN)]
        wl = rng.uniform(300, 9000)
        blocks.append(dict(isel=isel, typ=typ, up=up, lo=lo, ne=ne, te=te, rate=rate, wl_idx='%.2f' % wl, wl_hdr='%.1f' % wl))
    drop = rng.randrange(nblocks) if absent else None
    n_present = 0
    for i, b in enumerate(blocks):
        if i == drop:
            continue
        n_present += 1
        toks_b += [str(b['isel']), b['wl_hdr'], b['typ'], str(len(b['ne'])), str(len(b['te']))] + b['ne'] + b['te'] + [t for row in b['rate'] for t in row]
    toks_c = [str(len(cfgs))]
    for (k, conf, spin, l, j) in cfgs:
        toks_c += [str(k), conf.replace(' ', '_'), spin, str(l), j]
    toks_i = [str(len(blocks))]
    for b in blocks:
        toks_i += [str(b['isel']), b['wl_idx'], str(b['up']), str(b['lo']), b['typ']]
    isH = element == hydrogen
    line = ' '.join(['adf15', {None: '-', 'hydrogen': 'h', 'hydrogen-like': 'hl'}[hf], '1' if isH else '0',
                     '1' if element.atomic_number - charge == 1 else '0', '1' if fname else '0', dialect, str(n_present)]
                    + toks_b + toks_c + toks_i)

    def lev(k):
        if full:
            (_, conf, spin, l, j) = cfgs[k - 1]
            return conf + ' ' + spin + L_LOOKUP[l] + j
        return k
    want = {'excitation': {}, 'recombination': {}, 'thermalcx': {}, 'wavelength': {}}
    for b in blocks:
        tr = (lev(b['up']), lev(b['lo']))
        want[CLS15[b['typ']]][tr] = {'ne': ('pcm3', b['ne']), 'te': ('id', b['te']), 'rate': ('cm3', b['rate'])}
        want['wavelength'][tr] = {'wl': ('ang', b['wl_idx'])}
    return dict(fmt='15', kind=mode + (':absent' if absent else ''), line=line, element=element, charge=charge, hf=hf, fname=fname, want=want,
                first=(CLS15[blocks[0]['typ']], (lev(blocks[0]['up']), lev(blocks[0]['lo']))),
                absent=absent, sizes=(nblocks, tuple((len(b['ne']), len(b['te'])) for b in blocks[:3]), mode),
                counts=tuple(n_ for b in blocks for n_ in (len(b['ne']), len(b['te']))),
                desc=dict(format='adf15', mode=mode, element=element.symbol, charge=charge, header_format=hf, file_name=fname,
                          blocks=[(b['isel'], b['typ'], len(b['ne']), len(b['te'])) for b in blocks], dropped_block=(drop + 1) if absent else None))


def run_15(ctx, w, c, text, model, extra=None):
    from cherab.openadas import parse as P, install as I, repository as R
    from cherab.openadas.repository.utility import DEFAULT_REPOSITORY_PATH
    from cherab.core.atomic import hydrogen
    rel, path = w.write(text, c['fname'])
    el, ch, hf = c['element'], c['charge'], c['hf']
    st, r = call(P.parse_adf15, el, ch, path, header_format=hf)
    res = dict(parse_status=st)
    if c['absent']:
        res['oracle'] = (st == 'RuntimeError', 'C08:adf15:absent-block-not-rejected',
                         'parse_adf15 on a file whose index lists block %s without data gave %s' % (c['desc']['dropped_block'], st))
        if model != 'err ' + st:
            res['impl_vs_model'] = 'impl %s, model %s' % (st, model[:60])
        st2, e = quiet(I.install_adf15, el, ch, rel, repository_path=w.repo, adas_path=w.adas, header_format=hf)
        res['install'] = (st2 == 'RuntimeError', 'C08:adf15:absent-block-installed', 'install_adf15 gave %s' % st2)
        return res
    if st != 'ok':
        res['oracle'] = (False, 'C08:adf15:%s:parse:raised-%s' % (c['kind'], st), 'parse_adf15 raised %s: %s' % (st, r))
        if model != 'err ' + st:
            res['impl_vs_model'] = 'impl raised %s, model %s' % (st, model[:40])
        return res
    rates, wls = r
    want = c['want']

    def flat(rr):
        out = {'excitation': {}, 'recombination': {}, 'thermalcx': {}, 'wavelength': {}}
        for cls in ('excitation', 'recombination', 'thermalcx'):
            if cls in rates:
                for e_, chs in rates[cls].items():
                    for c_, trs in chs.items():
                        if e_ != el or c_ != ch:
                            out[cls][('?', str(e_), c_)] = {}
                        for tr, d in trs.items():
                            out[cls][tr] = d
        for e_, chs in wls.items():
            for c_, trs in chs.items():
                for tr, v in trs.items():
                    out['wavelength'][tr] = {'wl': v}
        return out
    got = flat(r)

    def diff(got, want):
        for cls in want:
            if set(got[cls].keys()) != set(want[cls].keys()):
                return '%s transitions %r want %r' % (cls, sorted(got[cls].keys(), key=str), sorted(want[cls].keys(), key=str))
            for tr in want[cls]:
                dd = cmp_struct(got[cls][tr], want[cls][tr])
                if dd:
                    return '%s %r %s' % (cls, tr, dd)
        return None
    d = diff(got, want)
    res['oracle'] = (d is None, 'C08:adf15:%s:parse:%s:%s' % (c['kind'].split(':')[0], (d or '').split(' ')[0], sigcat(d)), 'parse_adf15 (%s): %s' % (c['kind'], d))
    if model.startswith('ok'):
        md = {'excitation': {}, 'recombination': {}, 'thermalcx': {}, 'wavelength': {}}
        for key, body in split_model_blocks(model):
            up, _, rest = body.partition(';')
            lo, _, rest = rest.partition(';')
            md[key][(level_key(up), level_key(lo))] = parse_model_struct(rest, TAGS15)
        res['impl_vs_model'] = diff(got, md)
        res['model_vs_tables'] = None if md == want else 'model parse differs from the generated tables'
    else:
        res['impl_vs_model'] = 'model says %s, implementation parsed the file' % model
    # ---- install + read back
    st2, e = quiet(I.install_adf15, el, ch, rel, repository_path=w.repo, adas_path=w.adas, header_format=hf)
    if st2 != 'ok':
        res['install'] = (False, 'C08:adf15:install:raised-' + st2, 'install_adf15 raised %s: %s' % (st2, e))
        return res
    d2_ = None
    for cls, getter in (('excitation', R.get_pec_excitation_rate), ('recombination', R.get_pec_recombination_rate)):
        for tr, stc in want[cls].items():
            st3, back = call(getter, el, ch, tr, w.repo)
            if st3 != 'ok':
                d2_ = '%s %r: get raised %s' % (cls, tr, st3)
                break
            dd = cmp_struct(back, stc)
            if dd:
                d2_ = '%s %r %s' % (cls, tr, dd)
                break
    for tr, stc in want['thermalcx'].items():
        st3, back = call(R.get_pec_thermal_cx_rate, hydrogen, 0, el, ch + 1, tr, w.repo)
        if st3 != 'ok':
            # C06 finding (DESIGN §6 #5): install_adf15 drops repository_path for thermal-CX PECs; HOME is redirected, read it there
            st3, back = call(R.get_pec_thermal_cx_rate, hydrogen, 0, el, ch + 1, tr, DEFAULT_REPOSITORY_PATH)
            if st3 == 'ok':
                ctx.count('c06-finding:thermalcx-pec-written-to-default-repository')
        if st3 != 'ok':
            d2_ = d2_ or 'thermalcx %r: get raised %s (also under the default repository)' % (tr, st3)
            break
        rate3 = np.asarray(back['rate'], dtype=float)
        ok3 = rate3.ndim == 3 and rate3.shape[2] == 2 and list(np.asarray(back['td'], dtype=float)) == [0.01, 10000.0]
        dd = None
        if not ok3:
            dd = 'thermal CX PEC is not (ne, te, 2) on td=[0.01, 1e4]: shape %r' % (rate3.shape,)
        else:
            for k in (0, 1):
                dd = dd or cmp_struct({'ne': back['ne'], 'te': back['te'], 'rate': rate3[:, :, k]}, stc)
        if dd:
            d2_ = d2_ or 'thermalcx %r %s' % (tr, dd)
            break
    for tr, stc in want['wavelength'].items():
        st3, back = call(R.get_wavelength, el, ch, tr, w.repo)
        if st3 != 'ok':
            d2_ = d2_ or 'wavelength %r: get raised %s' % (tr, st3)
            break
        dd = cmp_struct({'wl': back}, stc)
        if dd:
            d2_ = d2_ or 'wavelength %r %s' % (tr, dd)
            break
    if d2_ is None:
        st4, _ = call(R.get_pec_excitation_rate, el, ch, (98, 97), w.repo)
        if st4 != 'RuntimeError':
            d2_ = 'get of an absent transition gave %s' % st4
    res['install'] = (d2_ is None, 'C08:adf15:install:%s:%s' % ((d2_ or '').split(' ')[0], sigcat(d2_)), 'install_adf15 -> get_*: %s' % d2_)
    shutil.rmtree(os.path.join(DEFAULT_REPOSITORY_PATH, 'pec'), ignore_errors=True)
    return res


GENS = {'2x': (gen_2x, run_2x), '12': (gen_12, run_12), '11': (gen_11, run_11), '15': (gen_15, run_15)}


# ------------------------------------------------------------------------------------------------ driver
def run(ctx):
    ctx.rule = ('generated ADF files: tables of random Fortran-formatted tokens, grid sizes 1..30 (residues mod 8 / mod 6 spread), '
                '1..12 blocks, ADF11 resolved/unresolved, ADF15 hydrogen / hydrogen-like / full dialects, EXCIT/RECOM/CHEXC; '
                'a case is distinct by (format, variant, grid sizes, block count); non-trivial = the real parser returned tables '
                'that were compared entry by entry')
    ctx.trusted += ['text layer of the model (column slices, regular-expression recognisers, Fortran layout) is transcribed, not proved; '
                    'tied by the correspondence run and by the generated literal table Gen/AdfLex.lean',
                    'numeric tokens are opaque in the model; Python float() and numpy parse the same token text',
                    'unit conversions are symbolic tags in the model; the arithmetic (x*1e6, x*1e-6, 10**x, x/10) is done by the harness',
                    'JSON float round trip of the repository (shortest repr, exact)']
    ctx.assumptions += ['"well-formed file" = produced by the writers render11/12/15/2x of Model/Adf.lean rendered by Model/AdfText.lean '
                        '(real ADAS files are not available offline)',
                        'tokens fit their Fortran fields (positive numbers in 9 columns for ADF12/21/22, log10 values > -100 for ADF11)']
    # K (translator): regenerate the literal table from /repo's current source; `lex_literals_pinned`, `charge_list_pinned`,
    # `norm_pinned` and the probe switch `probeAcceptsMinus` are re-checked against it by the build below
    from harness.translators import adf_lex
    lits, changed = adf_lex.run()
    ctx.extra['generated_literals'] = dict(regexes=len(lits['regexes']), slices=len(lits['slices']), readvalues=len(lits['readvalues']),
                                           probe_regex=lits['probe'], probe_accepts_minus=adf_lex.probe_accepts_minus(lits['probe']),
                                           rewritten=changed)
    ctx.lean_check(['Cherab.Props.C08'], 'Cherab/Audit/C08.lean')
    ctx.lean_check(['Cherab.Props.C08Cx'], 'Cherab/Audit/C08Cx.lean')
    os.environ['HOME'] = _HOME
    w = World()
    try:
        _streams(ctx, w)
    finally:
        w.close()
        shutil.rmtree(_HOME, ignore_errors=True)


# ------------------------------------------------------------------------------------------------ install_files (bulk entry point)
FAMILY11 = {cls: v[1] for cls, v in CLS11.items()}           # ADF11 class -> get_* of its repository family
INSTALLER_FAMILY = {'install_adf11' + cls: cls for cls in CLS11}


def gen_bundle(ctx, rng, bid):
    """one configuration dict with every supported key: element A gets all six ADF11 classes (different tables each, so a
    file landing in a neighbouring family is visible), element B exactly one class (its other five families must stay empty)"""
    from cherab.core.atomic import carbon, neon, argon, nitrogen, krypton
    elA, elB = rng.sample([carbon, neon, argon, nitrogen, krypton], 2)
    clsB = rng.choice(sorted(CLS11))
    cases = []
    for cls in sorted(CLS11):
        cases.append(('adf11' + cls, gen_11(ctx, rng, force=(cls, elA))))
    cases.append(('adf11' + clsB, gen_11(ctx, rng, force=(clsB, elB))))
    cases.append(('adf12', gen_12(ctx, rng)))
    cases.append(('adf15', gen_15(ctx, rng, modes=['hydrogen', 'hydrogen-like', 'full', 'full-nodot', 'bnd'])))
    cases.append(('adf21', gen_2x(ctx, rng, kind='adf21')))
    cases.append(('adf22bmp', gen_2x(ctx, rng, kind='bmp')))
    cases.append(('adf22bme', gen_2x(ctx, rng, kind='bme')))
    spell = rng.choice([str.lower, str.upper, lambda k: k[:3].upper() + k[3:]])      # install_files compares adf.lower()
    for key, c in cases:
        c['bundle'] = bid
        c['key'] = key
    return dict(id=bid, cases=cases, elA=elA, elB=elB, clsB=clsB, spell=spell,
                desc=dict(format='install_files', keys=[k for k, _ in cases], element_all_classes=elA.symbol,
                          element_one_class=elB.symbol, its_class=clsB))


def _get11(R, cls, el, charge, repo):
    from cherab.core.atomic import hydrogen
    g = getattr(R, FAMILY11[cls])
    return call(g, hydrogen, 0, el, charge, repo) if cls == 'ccd' else call(g, el, charge, repo)


def _readback11(R, c, cls, repo):
    """tables of ADF11 case c expected in the family of `cls` (charges shifted by that family's installer)"""
    corr = CLS11[cls][2]
    for z, tab in zip(c['z1s'], c['rates']):
        st, back = _get11(R, cls, c['element'], z + corr, repo)
        if st != 'ok':
            return 'get raised %s for charge %d' % (st, z + corr)
        dd = cmp_struct(back, {'ne': ('p10pcm3', c['ne']), 'te': ('p10', c['te']), 'rate': ('p10cm3', tab)})
        if dd:
            return 'charge %d %s' % (z + corr, dd)
    return None


def install_args(c, rel):
    """positional arguments of the installer of case c for the file `rel`"""
    from cherab.core.atomic import hydrogen
    if c['fmt'] == '11':
        return (hydrogen, 0, c['element'], rel) if c['cls'] == 'ccd' else (c['element'], rel)
    if c['fmt'] == '12':
        return (c['donor'], c['meta'], c['receiver'], c['charge'], rel)
    if c['fmt'] == '15':
        return (c['element'], c['charge'], rel)
    if c['kind'] == 'adf21':
        return (c['beam'], c['target'], c['zt'], rel)
    if c['kind'] == 'bmp':
        return (c['beam'], c['meta'], c['target'], c['zt'], rel)
    return (c['beam'], c['target'], c['zt'], c['transition'], rel)


def config_key(c):
    if c['fmt'] == '11':
        return 'adf11' + c['cls']
    if c['fmt'] == '2x':
        return {'adf21': 'adf21', 'bmp': 'adf22bmp', 'bme': 'adf22bme'}[c['kind']]
    return 'adf' + c['fmt']


def readback(R, c, repo):
    """every table of case c through the get_* of its own repository family; first difference or None"""
    from cherab.core.atomic import hydrogen
    d = None
    if c['fmt'] == '11':
        return _readback11(R, c, c['cls'], repo)
    if c['fmt'] == '12':
        for tr, stc, _ in c['blocks']:
            st3, back = call(R.get_beam_cx_rates, c['donor'], c['receiver'], c['charge'], tr, repo)
            back = dict(back) if st3 == 'ok' else {}
            d = d or ('get raised %s' % st3 if st3 != 'ok' else ('metastable missing' if c['meta'] not in back else
                      cmp_struct(back[c['meta']], stc, fields=STORED12)))
        return d
    if c['fmt'] == '15':
        el, ch, want = c['element'], c['charge'], c['want']
        for cls, getter in (('excitation', R.get_pec_excitation_rate), ('recombination', R.get_pec_recombination_rate)):
            for tr, stc in want[cls].items():
                st3, back = call(getter, el, ch, tr, repo)
                d = d or ('%s get raised %s' % (cls, st3) if st3 != 'ok' else cmp_struct(back, stc))
        for tr, stc in want['thermalcx'].items():
            st3, back = call(R.get_pec_thermal_cx_rate, hydrogen, 0, el, ch + 1, tr, repo)
            if st3 != 'ok':
                d = d or 'thermalcx get raised %s' % st3
            else:
                r3 = np.asarray(back['rate'], dtype=float)
                d = d or (cmp_struct({'ne': back['ne'], 'te': back['te'], 'rate': r3[:, :, 0]}, stc) if r3.ndim == 3 else 'thermalcx shape')
        for tr, stc in want['wavelength'].items():
            st3, back = call(R.get_wavelength, el, ch, tr, repo)
            d = d or ('wavelength get raised %s' % st3 if st3 != 'ok' else cmp_struct({'wl': back}, stc))
        return d
    kind = c['kind']
    if kind == 'adf21':
        st3, back = call(R.get_beam_stopping_rate, c['beam'], c['target'], c['zt'], repo)
    elif kind == 'bmp':
        st3, back = call(R.get_beam_population_rate, c['beam'], c['meta'], c['target'], c['zt'], repo)
    else:
        st3, back = call(R.get_beam_emission_rate, c['beam'], c['target'], c['zt'], c['transition'], repo)
    return 'get raised %s' % st3 if st3 != 'ok' else cmp_struct(back, c['struct'])


def run_bundle(ctx, w, b, texts, model_dispatch):
    """install_files(configuration) with all keys at once, then every family is read back through its own get_* and the
    families that received nothing must be empty.  Returns (oracle failures, model disagreements)."""
    from cherab.openadas import install as I, repository as R
    from cherab.openadas.repository.utility import DEFAULT_REPOSITORY_PATH
    from cherab.core.atomic import hydrogen
    w.fresh_repo()
    shutil.rmtree(DEFAULT_REPOSITORY_PATH, ignore_errors=True)
    config = {}
    for (key, c), text in zip(b['cases'], texts):
        rel, _ = w.write(text, c.get('fname'))
        c['rel'] = rel
        args = install_args(c, rel)
        config.setdefault(b['spell'](key), []).append(args)
    fails, disagree = [], []
    st, e = quiet(I.install_files, config, download=False, repository_path=w.repo, adas_path=w.adas)
    if st != 'ok':
        return [('C08:install_files:raised-' + st, 'install_files raised %s: %s' % (st, e))], []
    if os.path.isdir(DEFAULT_REPOSITORY_PATH) and os.listdir(DEFAULT_REPOSITORY_PATH):
        fails.append(('C08:install_files:wrote-to-default-repository', 'install_files(repository_path=tmp) also wrote %r under the default repository'
                      % sorted(os.listdir(DEFAULT_REPOSITORY_PATH))))
    for key, c in b['cases']:
        d = None
        if c['fmt'] == '11':
            cls = c['cls']
            d = _readback11(R, c, cls, w.repo)
            # K: the family that the model's dispatch table + installer table name for this key must hold the file's tables
            targets = model_dispatch.get(b['spell'](key), [])
            if len(targets) != 1 or targets[0] not in INSTALLER_FAMILY:
                disagree.append('model dispatches %s to %r' % (key, targets))
            else:
                dm = _readback11(R, c, INSTALLER_FAMILY[targets[0]], w.repo)
                if dm:
                    disagree.append('model: key %s runs %s, but that family does not hold the file: %s' % (key, targets[0], dm))
        else:
            d = readback(R, c, w.repo)
        if d:
            fails.append(('C08:install_files:%s:%s' % (key, sigcat(d)), 'install_files: key %s, file %s: %s' % (key, c['rel'], d)))
    # families that received nothing: element B has exactly one ADF11 class; every charge of the other five must be absent
    cB = [c for k, c in b['cases'] if c['fmt'] == '11' and c['element'] == b['elB']][0]
    for cls in sorted(CLS11):
        if cls == b['clsB']:
            continue
        for ch in range(-1, max(cB['z1s']) + 2):
            st4, _ = _get11(R, cls, b['elB'], ch, w.repo)
            if st4 != 'RuntimeError':
                fails.append(('C08:install_files:adf11%s:data-in-family-%s' % (b['clsB'], cls),
                              'install_files: only an %s file was installed for %s, yet %s(charge %d) gave %s'
                              % (b['clsB'], b['elB'].symbol, FAMILY11[cls], ch, st4)))
                break
    # the beam families hold exactly one species pair each: a second target must be absent
    from cherab.core.atomic import lithium
    for getter, args in ((R.get_beam_stopping_rate, (hydrogen, lithium, 3)), (R.get_beam_population_rate, (hydrogen, 1, lithium, 3)),
                         (R.get_beam_emission_rate, (hydrogen, lithium, 3, (3, 2))), (R.get_beam_cx_rates, (hydrogen, lithium, 3, (8, 7)))):
        st5, _ = call(getter, *args, w.repo)
        if st5 != 'RuntimeError':
            fails.append(('C08:install_files:stray-data:' + getter.__name__, '%s for a species never installed gave %s' % (getter.__name__, st5)))
    return fails, disagree


# ------------------------------------------------------------------------------------------------ which copy of the file is parsed
class NetworkReached(Exception):
    pass


class NetStub:
    """stands in for urllib.request.urlretrieve during the whole run: the check never touches the network"""

    def __init__(self):
        self.calls = []
        self.allow = False          # set only around a call whose documented outcome is a download
        self.unexpected = []

    def __call__(self, url, target=None, *a, **k):
        self.calls.append((url, target))
        if not self.allow:
            self.unexpected.append((url, target))
        raise NetworkReached('attempt to download %s' % url)


def designated(download, adas_given, in_adas, in_cache):
    """the documented lookup order (install_* docstrings: `adas_path` = where the ADAS files are; `download` = attempt to
    download the file *if not present*): the caller's tree first, then — only with download — the download cache, then the network"""
    if adas_given and in_adas:
        return 'adas'
    if download:
        return 'cache' if in_cache else 'network'
    return 'none'


def decoy(c):
    """a second well-formed file for the same call: one data token changed; returns the case that describes it"""
    b = copy.copy(c)
    t = c['line'].split(' ')
    if c['fmt'] == '2x':
        new = e3(tokf(t[10]) * 0.5)
        t[10] = new
        st = dict(c['struct'])
        st['e'] = (st['e'][0], [new] + list(st['e'][1][1:]))
        b['struct'] = st
    elif c['fmt'] == '12':
        new = d2(tokf(t[6]) * 0.5)
        t[6] = new
        tr, st, sz = c['blocks'][0]
        st = dict(st)
        st['qref'] = (st['qref'][0], new)
        b['blocks'] = [(tr, st, sz)] + list(c['blocks'][1:])
    elif c['fmt'] == '11':
        new = f5(tokf(t[-1]) - 1.0)
        t[-1] = new
        rates = copy.deepcopy(c['rates'])
        rates[-1][-1][-1] = new
        b['rates'] = rates
    else:
        new = e2(tokf(t[12]) * 0.5)
        t[12] = new
        want = copy.deepcopy(c['want'])
        cls, tr = c['first']
        tag, ne = want[cls][tr]['ne']
        want[cls][tr]['ne'] = (tag, [new] + list(ne[1:]))
        b['want'] = want
    b['line'] = ' '.join(t)
    return b


def installer_name(c):
    if c['fmt'] == '11':
        return CLS11[c['cls']][0]
    if c['fmt'] == '2x':
        return {'adf21': 'install_adf21', 'bmp': 'install_adf22bmp', 'bme': 'install_adf22bme'}[c['kind']]
    return 'install_adf' + c['fmt']


# (name, download, adas_path given, copy in the ADAS tree, copy in <repository>/_download_cache)     A = the file, B = the decoy
LOC_SCENARIOS = [
    ('local-file-vs-stale-cache:download', True, True, 'A', 'B'),
    ('local-file-vs-stale-cache:no-download', False, True, 'A', 'B'),
    ('cache-only:download', True, True, None, 'A'),
    ('cache-only:download:no-adas-path', True, False, 'B', 'A'),
    ('cache-only:no-download', False, True, None, 'A'),
    ('no-adas-path:no-download', False, False, 'A', 'A'),
    ('nowhere:download', True, True, None, None),
    ('nowhere:no-download', False, True, None, None),
]


def gen_locate_round(ctx, rng):
    """one case of every front-end"""
    from cherab.core.atomic import carbon, neon, argon
    cases = [gen_11(ctx, rng, force=(cls, rng.choice([carbon, neon, argon]))) for cls in sorted(CLS11)]
    cases += [gen_12(ctx, rng), gen_15(ctx, rng, modes=['hydrogen', 'hydrogen-like', 'full', 'full-nodot', 'bnd']),
              gen_2x(ctx, rng, kind='adf21'), gen_2x(ctx, rng, kind='bmp'), gen_2x(ctx, rng, kind='bme')]
    return [(c, decoy(c)) for c in cases]


def run_locate(ctx, w, stub, cA, textA, cB, textB):
    """every lookup scenario × {direct installer, install_files}: the repository must hold the tables of the copy that the
    documented order designates, a missing file must raise ValueError, and only 'nowhere + download' may reach the network"""
    from cherab.openadas import install as I, repository as R
    name = installer_name(cA)
    rel = cA.get('fname') or 'adf%s/located_%s.dat' % (cA['fmt'], name)
    content = {'A': (textA, cA), 'B': (textB, cB)}
    fails = []
    for via in ('direct', 'install_files'):
        for sname, download, adas_given, in_adas, in_cache in LOC_SCENARIOS:
            w.fresh_repo()
            adas = tempfile.mkdtemp(prefix='adas_', dir=w.root)
            for which, base in ((in_adas, adas), (in_cache, os.path.join(w.repo, '_download_cache'))):
                if which:
                    fp = os.path.join(base, rel)
                    os.makedirs(os.path.dirname(fp), exist_ok=True)
                    with open(fp, 'w') as f:
                        f.write(content[which][0])
            want = designated(download, adas_given, in_adas is not None, in_cache is not None)
            src = {'adas': in_adas, 'cache': in_cache}.get(want)
            n0 = len(stub.calls)
            kw = dict(download=download, repository_path=w.repo, adas_path=adas if adas_given else None)
            stub.allow = want == 'network'
            if via == 'direct':
                st, e = quiet(getattr(I, name), *install_args(cA, rel), **kw)
            else:
                st, e = quiet(I.install_files, {config_key(cA): [install_args(cA, rel)]}, **kw)
            stub.allow = False
            reached = len(stub.calls) - n0
            sig = 'C08:locate:%s:%s:%s' % (name if via == 'direct' else 'install_files[%s]' % config_key(cA), sname, '%s')
            desc = '%s via %s, scenario %s (download=%s, adas_path %s, ADAS tree holds %s, download cache holds %s): ' % (
                name, via, sname, download, 'given' if adas_given else 'omitted', in_adas, in_cache)
            ctx.count('locate:%s:%s' % (via, want))
            if want in ('adas', 'cache'):
                other = 'B' if src == 'A' else 'A'
                d = 'raised %s: %s' % (st, e) if st != 'ok' else readback(R, content[src][1], w.repo)
                if reached:
                    fails.append((sig % 'network-reached', desc + 'tried to download although the file is present'))
                elif d:
                    stale = st == 'ok' and readback(R, content[other][1], w.repo) is None
                    fails.append((sig % ('other-copy-installed' if stale else sigcat(d)),
                                  desc + ('the repository holds the tables of the %s copy, not of the designated %s copy' % (
                                      'cache' if want == 'adas' else 'ADAS-tree', want) if stale else 'read-back of the designated copy: %s' % d)))
            elif want == 'none':
                if st != 'ValueError':
                    fails.append((sig % ('missing-file-' + st), desc + 'a file that is nowhere to be found must raise ValueError, got %s' % st))
                elif reached:
                    fails.append((sig % 'network-reached', desc + 'download attempted with download=False'))
                elif readback(R, cA, w.repo) is None:
                    fails.append((sig % 'installed-anyway', desc + 'raised ValueError but the tables are in the repository'))
            else:
                if not reached or st == 'ok':
                    fails.append((sig % 'no-download-attempt', desc + 'expected a download attempt (stubbed, fails loudly); status %s, %d attempts' % (st, reached)))
            shutil.rmtree(adas, ignore_errors=True)
    return fails


def locate_table(ctx, w, stub):
    """K, exhaustive: _locate_adas_file on all 16 combinations of (download, adas_path given, file in ADAS tree, file in cache)
    against the Lean function locateAdasFile"""
    from cherab.openadas import install as I
    combos = [(d, a, ia, ic) for d in (0, 1) for a in (0, 1) for ia in (0, 1) for ic in (0, 1)]
    model = ctx.driver(['locate %d %d %d %d' % cmb for cmb in combos])
    rel = 'adf21/x#y/probe.dat'
    for (d, a, ia, ic), m in zip(combos, model):
        w.fresh_repo()
        adas = tempfile.mkdtemp(prefix='adas_', dir=w.root)
        pa, pc = os.path.join(adas, rel), os.path.join(w.repo, '_download_cache', rel)
        for flag, fp in ((ia, pa), (ic, pc)):
            if flag:
                os.makedirs(os.path.dirname(fp), exist_ok=True)
                open(fp, 'w').write('x')
        n0 = len(stub.calls)
        stub.allow = designated(bool(d), bool(a), bool(ia), bool(ic)) == 'network'
        st, out = quiet(I._locate_adas_file, rel, bool(d), adas if a else None, w.repo)
        stub.allow = False
        if len(stub.calls) > n0:
            got = 'network'
        elif st != 'ok':
            got = 'raised-' + st
        else:
            got = 'none' if out is None else ('adas' if out == pa else ('cache' if out == pc else 'other:' + str(out)))
        ctx.case(key=('locate', d, a, ia, ic))
        ctx.traces += 1
        want = designated(bool(d), bool(a), bool(ia), bool(ic))
        if got != m:
            ctx.disagreements += 1
            ctx.broke('correspondence', 'C08 _locate_adas_file table', dict(download=d, adas_given=a, in_adas=ia, in_cache=ic, model=m, implementation=got))
        if got != want:
            ctx.fail('C08:locate:_locate_adas_file:%s-instead-of-%s' % (got, want),
                     '_locate_adas_file(download=%s, adas_path %s; file in ADAS tree: %s, in download cache: %s) chose %s, documented order designates %s'
                     % (bool(d), 'given' if a else 'omitted', bool(ia), bool(ic), got, want), dict(download=d, adas_given=a, in_adas=ia, in_cache=ic))
        shutil.rmtree(adas, ignore_errors=True)
    ctx.extra['locate_table_exhaustive'] = True


# ------------------------------------------------------------------------------------------------ install sequences into one repository
def gen_sequences(ctx, rng):
    """several files of one kind that share repository keys partially, to be installed one after the other into ONE repository.
    Returns [(name, [case, ...])]; the oracle is a last-write-wins dictionary kept by the harness."""
    from cherab.core.atomic import hydrogen, deuterium, carbon, neon, argon, helium
    seqs = []
    # ADF12: same donor / receiver / charge; metastable 1, then 2 (shared transitions), then 1 again (partial overwrite)
    pool = rng.sample([(u, u - 1) for u in range(3, 20)] + [(u, u - 2) for u in range(4, 12)], 5)
    donor, (receiver, charge) = rng.choice([hydrogen, deuterium]), rng.choice([(carbon, 6), (neon, 10), (helium, 2)])
    steps = []
    for meta, tr in ((1, pool[0:3]), (2, pool[0:2] + pool[3:4]), (1, pool[1:2] + pool[4:5]), (3, pool[0:1])):
        c = gen_12(ctx, rng, trans=list(tr))
        c.update(donor=donor, receiver=receiver, charge=charge, meta=meta)
        steps.append(c)
    seqs.append(('adf12', steps))
    # ADF11: same class and element, overlapping charge ranges, different grids
    cls = rng.choice(sorted(CLS11))
    seqs.append(('adf11' + cls, [gen_11(ctx, rng, force=(cls, argon), z1_range=r) for r in ((1, 3), (3, 5), (2, 2), (7, 8))]))
    # ADF15: same element and charge, transitions / types shared partially
    el15 = rng.choice([(helium, 1), (carbon, 5)])
    seqs.append(('adf15', [gen_15(ctx, rng, modes=['hydrogen-like'], force_el=el15, trans=t) for t in (
        [('EXCIT', 3, 2), ('EXCIT', 4, 2), ('RECOM', 3, 2)], [('EXCIT', 4, 2), ('EXCIT', 5, 2), ('CHEXC', 3, 2)],
        [('RECOM', 3, 2), ('CHEXC', 4, 3)], [('CHEXC', 3, 2)])]))
    # ADF21 / ADF22: one rate per key; other keys of the same family must survive, a re-install replaces only its own key
    st = []
    for target, zt in ((carbon, 6), (neon, 10), (carbon, 6), (carbon, 5)):
        c = gen_2x(ctx, rng, kind='adf21'); c.update(beam=hydrogen, target=target, zt=zt); st.append(c)
    seqs.append(('adf21', st))
    st = []
    for meta in (1, 2, 1, 3):
        c = gen_2x(ctx, rng, kind='bmp'); c.update(beam=hydrogen, target=carbon, zt=6, meta=meta); st.append(c)
    seqs.append(('adf22bmp', st))
    st = []
    for tr in ((3, 2), (4, 2), (3, 2), (4, 3)):
        c = gen_2x(ctx, rng, kind='bme'); c.update(beam=deuterium, target=neon, zt=10, transition=tr); st.append(c)
    seqs.append(('adf22bme', st))
    return seqs


def _seq_keys(c):
    """the repository entries that installing case c writes: {key: single-entry case used for read-back}"""
    out = {}
    if c['fmt'] == '12':
        for blk in c['blocks']:
            one = dict(c); one['blocks'] = [blk]
            out[('12', c['donor'].symbol, c['receiver'].symbol, c['charge'], blk[0], c['meta'])] = one
    elif c['fmt'] == '11':
        for z, tab in zip(c['z1s'], c['rates']):
            one = dict(c); one['z1s'] = [z]; one['rates'] = [tab]
            out[('11', c['cls'], c['element'].symbol, z + CLS11[c['cls']][2])] = one
    elif c['fmt'] == '15':
        for cls in ('excitation', 'recombination', 'thermalcx', 'wavelength'):
            for tr, stc in c['want'][cls].items():
                one = dict(c); one['want'] = {k: ({tr: stc} if k == cls else {}) for k in c['want']}
                out[('15', cls, c['element'].symbol, c['charge'], tr)] = one
    else:
        extra = {'adf21': (), 'bmp': (c['meta'],), 'bme': (c['transition'],)}[c['kind']]
        out[('2x', c['kind'], c['beam'].symbol, c['target'].symbol, c['zt']) + extra] = c
    return out


def run_sequence(ctx, w, name, steps, texts):
    """install step by step into one repository; after EVERY install everything installed so far (last write per key wins)
    must read back exactly, and the metastable sets of ADF12 transitions must be exactly those written"""
    from cherab.openadas import install as I, repository as R
    w.fresh_repo()
    state = {}
    fails = []
    for k, (c, text) in enumerate(zip(steps, texts)):
        rel, _ = w.write(text, c.get('fname'))
        st, e = quiet(getattr(I, installer_name(c)), *install_args(c, rel), repository_path=w.repo, adas_path=w.adas)
        if st != 'ok':
            fails.append(('C08:sequence:%s:step%d:raised-%s' % (name, k + 1, st), 'install #%d of the sequence raised %s: %s' % (k + 1, st, e)))
            break
        for key, one in _seq_keys(c).items():
            state[key] = (k + 1, one)
        for key, (when, one) in state.items():
            d = readback(R, one, w.repo)
            if d:
                fails.append(('C08:sequence:%s:%s:%s' % (name, 'entry-of-earlier-install-lost-or-changed' if when <= k else 'entry-just-installed',
                                                         sigcat(d)),
                              'sequence %s, after install #%d: entry %r written by install #%d: %s' % (name, k + 1, key, when, d)))
                break
        if c['fmt'] == '12':
            metas = {}
            for key in state:
                metas.setdefault(key[4], set()).add(key[5])
            for tr, want in metas.items():
                st3, back = call(R.get_beam_cx_rates, c['donor'], c['receiver'], c['charge'], tr, w.repo)
                got = set(dict(back).keys()) if st3 == 'ok' else st3
                if got != want:
                    fails.append(('C08:sequence:adf12:metastable-set', 'after install #%d transition %r holds metastables %r, written so far %r'
                                  % (k + 1, tr, got, sorted(want))))
        if fails:
            break
    return fails


# ------------------------------------------------------------------------------------------------ equal-but-not-identical species objects
def clones_of(x):
    """copies of a species object that compare equal to it and are not it"""
    import pickle
    from cherab.core.atomic import Element, Isotope
    out = [('copy', copy.copy(x)), ('deepcopy', copy.deepcopy(x)), ('pickle', pickle.loads(pickle.dumps(x)))]
    if isinstance(x, Isotope):
        st, y = call(Isotope, x.name, x.symbol, x.element, x.mass_number, x.atomic_weight)
    else:
        st, y = call(Element, x.name, x.symbol, x.atomic_number, x.atomic_weight)
    if st == 'ok':
        out.append(('constructed', y))
    return [(k, y) for k, y in out if y == x and y is not x and hash(y) == hash(x)]


def same_tree(a, b):
    """structural equality of two parser results (nested dicts keyed by species / ints / tuples, arrays, floats)"""
    if isinstance(a, dict) and isinstance(b, dict):
        if len(a) != len(b):
            return 'dict sizes %d / %d' % (len(a), len(b))
        for k in a:
            if k not in b:
                return 'key %r missing' % (k,)
            d = same_tree(a[k], b[k])
            if d:
                return '[%r] %s' % (k, d)
        return None
    if isinstance(a, (tuple, list)) and isinstance(b, (tuple, list)):
        if len(a) != len(b):
            return 'lengths differ'
        for x, y in zip(a, b):
            d = same_tree(x, y)
            if d:
                return d
        return None
    try:
        return None if np.array_equal(np.asarray(a, dtype=float), np.asarray(b, dtype=float)) else 'values differ'
    except Exception:
        return None if a == b else 'values differ'


SPECIES_FIELDS = ('element', 'donor', 'receiver', 'beam', 'target')


def parse_call(P, c, path):
    if c['fmt'] == '11':
        return call(P.parse_adf11, c['element'], path)
    if c['fmt'] == '12':
        return call(P.parse_adf12, c['donor'], c['meta'], c['receiver'], c['charge'], path)
    if c['fmt'] == '15':
        return call(P.parse_adf15, c['element'], c['charge'], path, header_format=c['hf'])
    if c['kind'] == 'adf21':
        return call(P.parse_adf21, c['beam'], c['target'], c['zt'], path)
    if c['kind'] == 'bmp':
        return call(P.parse_adf22bmp, c['beam'], c['meta'], c['target'], c['zt'], path)
    return call(P.parse_adf22bme, c['beam'], c['target'], c['zt'], c['transition'], path)


def run_clones(ctx, w, c, text):
    """every parse / install entry point with equal-but-not-identical species objects: same result as with the library objects"""
    from cherab.openadas import parse as P, install as I, repository as R
    rel, path = w.write(text, c.get('fname'))
    fails = []
    st0, r0 = parse_call(P, c, path)
    name = installer_name(c)
    if st0 != 'ok':
        return [('C08:clone:%s:library-object-parse-raised-%s' % (name, st0), 'parse with the library species objects raised %s' % st0)]
    fields = [f for f in SPECIES_FIELDS if f in c]
    kinds = ['copy', 'deepcopy', 'pickle', 'constructed']
    for kind in kinds:
        cc = dict(c)
        ok = True
        for f in fields:
            cl = dict(clones_of(c[f]))
            if kind not in cl:
                ok = False
                break
            cc[f] = cl[kind]
        if not ok:
            ctx.count('clone:%s-not-available' % kind)
            continue
        ctx.count('clone:' + kind)
        st1, r1 = parse_call(P, cc, path)
        pname = 'parse_adf' + (c['fmt'] if c['fmt'] != '2x' else {'adf21': '21', 'bmp': '22bmp', 'bme': '22bme'}[c['kind']])
        if st1 != 'ok':
            fails.append(('C08:clone:%s:%s:raised-%s' % (pname, kind, st1), '%s with %s-ed species objects raised %s (%s); with the library objects it parses'
                          % (pname, kind, st1, str(r1)[:80])))
        else:
            d = same_tree(r0, r1) or same_tree(r1, r0)
            if d:
                fails.append(('C08:clone:%s:%s:result-differs' % (pname, kind), '%s with %s-ed species objects: %s' % (pname, kind, d)))
        for via in ('direct', 'install_files'):
            w.fresh_repo()
            if via == 'direct':
                st2, e = quiet(getattr(I, name), *install_args(cc, rel), repository_path=w.repo, adas_path=w.adas)
            else:
                st2, e = quiet(I.install_files, {config_key(cc): [install_args(cc, rel)]}, repository_path=w.repo, adas_path=w.adas)
            front = name if via == 'direct' else 'install_files[%s]' % config_key(c)
            if st2 != 'ok':
                fails.append(('C08:clone:%s:%s:raised-%s' % (front, kind, st2), '%s with %s-ed species objects raised %s: %s' % (front, kind, st2, str(e)[:80])))
                continue
            for who, case in (('library', c), ('clone', cc)):
                d = readback(R, case, w.repo)
                if d:
                    fails.append(('C08:clone:%s:%s:read-back-with-%s-objects:%s' % (front, kind, who, sigcat(d)),
                                  '%s with %s-ed species objects, read back with %s objects: %s' % (front, kind, who, d)))
    return fails


# ------------------------------------------------------------------------------------------------ thermal-CX 2D -> 3D converter
def cx3d_stream(ctx):
    """K + S: install.py::_thermalcx_adf15_2dto3d_converter against the Lean `cx2dto3d` (Model/AdfCx.lean) on generated nested
    dictionaries rates[element][charge][transition] = {ne, te, rate}: mostly tables whose shape matches their grids, about a
    third with a row / column count that does not (incl. the length-1 axes numpy broadcasts).  Malformed shapes keep >= 1 density
    and >= 1 row (a (0, c) array has no list representation in the model)."""
    from cherab.core.atomic import hydrogen, helium, carbon, neon, nitrogen, beryllium
    from cherab.openadas import install as I
    rng = ctx.rng
    pool = [helium, carbon, neon, nitrogen, beryllium, hydrogen]
    cases = []
    for n in range(ctx.n(60, 600)):
        els = rng.sample(pool, rng.choice([1, 1, 2, 3]))
        all_valid = rng.random() < 0.6
        rates, toks, bad, lone = {}, ['cx3d', str(len(els))], False, False
        sizes = []
        for ie, el in enumerate(els):
            charges = rng.sample(range(0, 12), rng.choice([1, 1, 2, 3]))
            toks += ['E%d' % ie, str(len(charges))]
            rates[el] = {}
            for q in charges:
                ntr = rng.choice([1, 1, 2, 4])
                toks += [str(q), str(ntr)]
                rates[el][q] = {}
                for it in range(ntr):
                    tr = (rng.randint(2, 12), rng.randint(1, 11)) if rng.random() < 0.5 else ('1s2 %dp1 2P%d.5' % (it + 2, it), '1s2 2s1 2S0.5')
                    while tr in rates[el][q]:
                        tr = (tr[0], str(tr[1]) + "'")
                    valid = all_valid or rng.random() < 0.5
                    nNe = rng.choice([0, 1, 1, 2, 3, 5, 8, 9]) if valid else rng.choice([1, 2, 3, 5])
                    nTe = rng.choice([0, 1, 1, 2, 3, 6, 7, 11]) if valid else rng.choice([1, 2, 4, 7])
                    rows, cols = nNe, nTe
                    if not valid:
                        which = rng.choice(['rows', 'cols', 'both'])
                        if which in ('rows', 'both'):
                            rows = rng.choice([1, nNe + 1, max(1, nNe - 1), 2 * nNe])
                        if which in ('cols', 'both'):
                            cols = rng.choice([0, 1, nTe + 1, max(0, nTe - 1), 2 * nTe])
                    ne = [float('%.6e' % (10 ** rng.uniform(13, 21))) for _ in range(nNe)]
                    te = [float('%.6e' % (10 ** rng.uniform(-1, 4))) for _ in range(nTe)]
                    rate = np.array([[float('%.6e' % (10 ** rng.uniform(-20, -12))) for _ in range(cols)] for _ in range(rows)],
                                    dtype=float).reshape(rows, cols)
                    rates[el][q][tr] = {'ne': np.array(ne), 'te': np.array(te), 'rate': rate}
                    toks += ['T%d' % it, str(nNe), str(nTe), str(rows), str(cols)] + [repr(x) for x in ne] + [repr(x) for x in te] \
                        + [repr(float(x)) for x in rate.ravel()]
                    bad = bad or (rows != nNe and rows != 1) or (cols != nTe and cols != 1)
                    lone = lone or (rows != nNe and rows == 1) or (cols != nTe and cols == 1)
                    sizes.append((nNe, nTe, rows, cols))
        cases.append(dict(rates=rates, els=els, line=' '.join(toks), bad=bad, lone=lone, sizes=tuple(sizes)))
    outs = ctx.driver([c['line'] for c in cases])
    seen = set()
    for c, m in zip(cases, outs):
        rates, els = c['rates'], c['els']
        snapshot = {el: {q: {tr: {k: np.array(v) for k, v in r.items()} for tr, r in trs.items()} for q, trs in chs.items()} for el, chs in rates.items()}
        st, got = call(I._thermalcx_adf15_2dto3d_converter, rates)
        cls = 'malformed' if c['bad'] else ('length-1-axis' if c['lone'] else 'well-shaped')
        ctx.count('cx3d:' + cls)
        ctx.case(key=('cx3d', cls, c['sizes'][:3]), sample=dict(line=c['line'][:300], model=m[:300]) if cls not in seen else None)
        seen.add(cls)
        ctx.traces += 1
        d = None
        if st != 'ok':
            real = 'err ' + st
            if m != real:
                d = 'implementation raised %s (%s), model: %s' % (st, got, m[:120])
        elif not m.startswith('ok hydrogen 0 '):
            d = 'implementation returned, model: %s' % m[:120]
        else:
            ents = [e.split(';') for e in m[len('ok hydrogen 0 '):].split('!')] if m[len('ok hydrogen 0 '):] else []
            flat = []
            if list(got.keys()) != [hydrogen] or list(got[hydrogen].keys()) != [0]:
                d = 'donor keys %r' % ([(k, list(v.keys())) for k, v in got.items()],)
            else:
                for el, chs in got[hydrogen][0].items():
                    for q, trs in chs.items():
                        for tr, r3 in trs.items():
                            flat.append((el, q, tr, r3))
                # the model's keys in the order of the input dictionary
                keys = [(el, q, tr) for el in els for q in rates[el] for tr in rates[el][q]]
                if len(flat) != len(ents) or len(keys) != len(ents):
                    d = 'entry count: implementation %d, model %d' % (len(flat), len(ents))
                for (el, q, tr, r3), e, (el0, q0, tr0) in zip(flat, ents, keys):
                    if d:
                        break
                    if el is not el0 or tr != tr0 or e[0] != 'E%d' % els.index(el0) or int(e[1]) != q or not e[2].startswith('T'):
                        d = 'keys: implementation (%s, %r, %r), model %s' % (el.name, q, tr, ';'.join(e[:3]))
                        break
                    f = dict(x.split(':', 1) for x in e[3:])
                    vecf = lambda t: [float(x) for x in t.split(',')] if t else []
                    mr = [[vecf(cell) for cell in row.split('/')] if row else [] for row in f['rate'].split('|')] if f['rate'] or len(vecf(f['ne'])) else []
                    if sorted(r3.keys()) != ['ne', 'rate', 'td', 'te']:
                        d = 'fields %r' % sorted(r3.keys())
                    elif list(r3['ne']) != vecf(f['ne']) or list(r3['te']) != vecf(f['te']) or list(r3['td']) != vecf(f['td']):
                        d = 'grids of %r differ: td %r / %s' % (tr, list(r3['td']), f['td'])
                    elif r3['rate'].shape != (len(vecf(f['ne'])), len(vecf(f['te'])), 2):
                        d = 'shape %r' % (r3['rate'].shape,)
                    elif r3['rate'].size and r3['rate'].tolist() != mr:
                        d = 'table of %r differs' % (tr,)
        if d:
            ctx.disagreements += 1
            ctx.broke('correspondence', 'C08 thermal-CX 2D->3D converter (%s)' % cls, dict(detail=d, line=c['line'][:2000]))
        # S: the property on the implementation alone, for tables whose shape matches their grids
        if cls == 'well-shaped':
            why = None
            if st != 'ok':
                why = 'raised %s on well-shaped tables: %s' % (st, got)
            else:
                for el in els:
                    for q, trs in snapshot[el].items():
                        for tr, r in trs.items():
                            try:
                                r3 = got
                                for kk in (hydrogen, 0, el, q + 1, tr):      # RecursiveDict would create a missing key
                                    if not isinstance(r3, dict) or kk not in r3:
                                        raise KeyError(kk)
                                    r3 = r3[kk]
                                a = np.asarray(r3['rate'])
                                ok = (a.shape == r['rate'].shape + (2,) and all(np.array_equal(a[:, :, k], r['rate']) for k in (0, 1))
                                      and np.array_equal(r3['ne'], r['ne']) and np.array_equal(r3['te'], r['te']))
                            except Exception as ex:  # noqa
                                ok, why = False, 'entry [hydrogen][0][%s][%d][%r] missing (%s)' % (el.name, q + 1, tr, type(ex).__name__)
                            if not ok:
                                why = why or 'entry [hydrogen][0][%s][%d][%r] is not the parsed table repeated along the donor temperature' % (el.name, q + 1, tr)
                n_in = sum(len(t) for el in els for t in snapshot[el].values())
                n_out = sum(len(t) for chs in got.get(hydrogen, {}).get(0, {}).values() for t in chs.values()) if not why else n_in
                if n_in != n_out:
                    why = 'converted dictionary holds %d entries for %d parsed transitions' % (n_out, n_in)
            if why:
                cat = ('raised-' + st if st != 'ok' else 'entry-missing-under-charge-plus-one' if 'missing' in why else
                       'entry-count' if 'holds' in why else 'table-not-repeated-unchanged')
                ctx.fail('C08:thermalcx-2dto3d-converter:' + cat, why, dict(line=c['line'][:4000]))


def check_tags(ctx):
    """the model's conversion / charge tables against the tables this module uses for its own oracle"""
    out = ctx.driver(['tags'])[0]
    mine = {'adf21': TAGS2X['adf21'], 'bmp': TAGS2X['bmp'], 'bme': TAGS2X['bme'], 'adf12': TAGS12, 'adf11parsed': TAGS11P,
            'adf11installed': TAGS11I, 'adf15': TAGS15, 'charge': {k: str(v[2]) for k, v in CLS11.items()}}
    for part in out.split('|'):
        name, *kv = part.split(' ')
        model = dict(x.split('=') for x in kv)
        ref = {k: v for k, v in mine[name].items() if not k.startswith('_')}
        ctx.case(key=('tags', name))
        if model != ref:
            ctx.disagreements += 1
            ctx.broke('correspondence', 'C08 conversion tags ' + name, dict(model=model, harness=ref))


def edge_11(ctx, rng):
    """systematic small ADF11 files around the 8-per-line boundary, first temperature below / at / above 1 eV"""
    sizes = [1, 7, 8, 9, 16, 17] if ctx.tier == 'quick' else list(range(1, 19))
    out = []
    for nNe in sizes:
        for nTe in sizes:
            for t0 in (-0.69897, 0.0):
                if ctx.tier == 'quick' and (nNe * 7 + nTe * 3 + (t0 < 0)) % 3:
                    continue
                out.append(gen_11(ctx, rng, fixed=(nNe, nTe, t0)))
    return out


def _streams(ctx, w):
    rng = ctx.rng
    check_tags(ctx)
    cases = corpus_cases()
    for _ in range(ctx.n(60, 900)):
        cases.append(gen_2x(ctx, rng))
    for i in range(ctx.n(60, 900)):
        cases.append(gen_12(ctx, rng, absent=(i % 10 == 9)))
    for i in range(ctx.n(120, 1800)):
        wrong = [None] * 7 + ['element', 'isotope', 'number']
        cases.append(gen_11(ctx, rng, wrong=wrong[i % 10], dup=(i % 10 == 3)))
    edge = edge_11(ctx, rng)
    for c in edge:
        c['kind'] += ':edge'
    cases += edge
    for i in range(ctx.n(120, 1800)):
        cases.append(gen_15(ctx, rng, absent=(i % 10 == 9)))
    bundles = [gen_bundle(ctx, rng, i) for i in range(ctx.n(8, 120))]
    bcases = [c for b in bundles for _, c in b['cases']]
    lpairs = [p for _ in range(ctx.n(1, 12)) for p in gen_locate_round(ctx, rng)]
    lcases = [c for p in lpairs for c in p]
    seqs = [sq for _ in range(ctx.n(2, 25)) for sq in gen_sequences(ctx, rng)]
    scases = [c for _, steps in seqs for c in steps]
    ccases = []
    for _ in range(ctx.n(1, 10)):
        ccases += [p[0] for p in gen_locate_round(ctx, rng)] + [gen_15(ctx, rng, modes=['hydrogen']), gen_15(ctx, rng, modes=['hydrogen-like'])]
    w.fresh_repo()
    groups = [cases, bcases, lcases, scases, ccases]
    outs_all = ctx.driver([c['line'] for g in groups for c in g])
    cut, pos = [], 0
    for g in groups:
        cut.append(outs_all[pos:pos + len(g)])
        pos += len(g)
    outs, bouts, louts, souts, couts = cut
    text_of = lambda o: o.split('#')[0].replace('|', '\n') + '\n'
    ctx.traces = 0
    import urllib.request
    stub, real = NetStub(), urllib.request.urlretrieve
    urllib.request.urlretrieve = stub
    try:
        locate_table(ctx, w, stub)
        for k, (cA, cB) in enumerate(lpairs):
            tA, tB = (o.split('#')[0].replace('|', '\n') + '\n' for o in louts[2 * k:2 * k + 2])
            fails = run_locate(ctx, w, stub, cA, tA, cB, tB)
            ctx.case(key=('locate-stream', installer_name(cA), cA['sizes']),
                     sample=dict(case=cA['desc'], scenarios=[x[0] for x in LOC_SCENARIOS]) if k == 0 else None)
            ctx.traces += 1
            for sig, why in fails:
                ctx.fail(sig, why, dict(case=cA['desc'], file=tA, decoy=tB))
        pos = 0
        for name, steps in seqs:
            texts = [text_of(o) for o in souts[pos:pos + len(steps)]]
            pos += len(steps)
            fails = run_sequence(ctx, w, name, steps, texts)
            ctx.count('sequence:' + name.rstrip('abcdefghijklmnopqrstuvwxyz') if name.startswith('adf11') else 'sequence:' + name)
            ctx.case(key=('sequence', name, tuple(c['sizes'] for c in steps[:2])),
                     sample=dict(sequence=name, steps=[c['desc'] for c in steps]) if pos == len(steps) else None)
            ctx.traces += 1
            for sig, why in fails:
                ctx.fail(sig, why, dict(sequence=name, steps=[c['desc'] for c in steps], files=texts))
        for c, o in zip(ccases, couts):
            fails = run_clones(ctx, w, c, text_of(o))
            ctx.case(key=('clones', installer_name(c), c['sizes']))
            ctx.traces += 1
            for sig, why in fails:
                ctx.fail(sig, why, dict(case=c['desc'], file=text_of(o)))
        _bundles(ctx, w, bundles, bouts)
        _cases(ctx, w, cases, outs)
        cx3d_stream(ctx)
    finally:
        urllib.request.urlretrieve = real
    if stub.unexpected:
        ctx.fail('C08:network-reached', 'the code under test tried to download although the file was present or download was off: %r'
                 % (stub.unexpected[:2],), dict(calls=stub.unexpected[:5]))
    ctx.count('network-attempts-stubbed', len(stub.calls))


def _cases(ctx, w, cases, outs):
    rng = ctx.rng
    seen_fmt = set()
    for c, o in zip(cases, outs):
        parts = o.split('#')
        if len(parts) < 3:
            ctx.broke('correspondence', 'C08 driver protocol', dict(case=c['desc'], answer=o[:200]))
            continue
        text = parts[0].replace('|', '\n') + '\n'
        model, agree = parts[1], parts[2]
        gen, runner = GENS[c['fmt']]
        w.fresh_repo()
        res = runner(ctx, w, c, text, model, parts[3:])
        key = (c['fmt'], c.get('kind'), c['sizes'])
        ctx.count('%s:%s' % (c['fmt'], c.get('kind')))
        for n_ in c.get('counts', ()):
            ctx.count('values-mod8=%d' % (n_ % 8))
        ctx.case(key=key if res.get('parse_status') == 'ok' else None,
                 sample=dict(case=c['desc'], file_head=text.split('\n')[:6]) if (c['fmt'] not in seen_fmt or rng.random() < 0.01) else None)
        seen_fmt.add(c['fmt'])
        ctx.traces += 1
        if agree != '1':
            ctx.disagreements += 1
            ctx.broke('correspondence', 'C08 text views vs canonical views (%s)' % c['fmt'], dict(case=c['desc'], model=model[:300]))
        for k in ('impl_vs_model', 'model_vs_tables'):
            if res.get(k):
                ctx.disagreements += 1
                ctx.count('disagreement:' + c['fmt'])
                ctx.broke('correspondence', 'C08 stream %s %s' % (c['fmt'], k), dict(case=c['desc'], detail=res[k], file=text[:1500]))
        for k in ('oracle', 'install'):
            if k in res:
                ok, sig, why = res[k]
                if not ok:
                    ctx.fail(sig, why, dict(case=c['desc'], file=text, line=c['line']))


def _bundles(ctx, w, bundles, bouts):
    """install_files stream: K = the model's dispatch + installer tables name the family that holds each file;
    S = every family is read back through its own get_*, untouched families are empty"""
    keys = sorted({b['spell'](k) for b in bundles for k, _ in b['cases']})
    ans = ctx.driver(['dispatch ' + ' '.join(keys)])[0] if keys else ''
    model_dispatch = {}
    for part in ans.split(' '):
        if '=' in part:
            k, _, v = part.partition('=')
            model_dispatch[k] = [x for x in v.split(',') if x]
    pos = 0
    for b in bundles:
        n = len(b['cases'])
        texts = [o.split('#')[0].replace('|', '\n') + '\n' for o in bouts[pos:pos + n]]
        pos += n
        fails, disagree = run_bundle(ctx, w, b, texts, model_dispatch)
        ctx.count('install_files:bundle')
        ctx.count('install_files:keys', n)
        ctx.case(key=('install_files', b['elA'].symbol, b['elB'].symbol, b['clsB'], tuple(c['sizes'] for _, c in b['cases'][:3])),
                 sample=dict(case=b['desc']) if b['id'] == 0 else None)
        ctx.traces += 1
        for d in disagree:
            ctx.disagreements += 1
            ctx.broke('correspondence', 'C08 stream install_files', dict(case=b['desc'], detail=d))
        for sig, why in fails:
            ctx.fail(sig, why, dict(case=b['desc'], files={c['rel']: t for (_, c), t in zip(b['cases'], texts)}))
    w.fresh_repo()


def replay(ctx, path):
    """re-execute a stored failing input against the real code, then re-run the stream it came from (same seed / tier)"""
    import random
    r = json.load(open(path))
    rp = r.get('replay') or {}
    print('signature:', r.get('signature'))
    print('description:', r.get('description'))
    print('case:', json.dumps(rp.get('case'), default=str))
    if rp.get('file') and (rp.get('case') or {}).get('format') == 'adf11':
        from cherab.core import atomic
        from cherab.openadas.parse import parse_adf11
        case = rp['case']
        el = [e for e in vars(atomic).values() if isinstance(e, atomic.Element) and not isinstance(e, atomic.Isotope)
              and e.symbol == case['requested']][0]
        d = tempfile.mkdtemp(prefix='c08replay_')
        fp = os.path.join(d, 'replay.dat')
        open(fp, 'w').write(rp['file'])
        st, out = call(parse_adf11, el, fp)
        if st == 'ok':
            for z, blk in out[el].items():
                print('parse_adf11 -> Z1=%s: ne shape %s (file has %d), te shape %s (file has %d), rates shape %s'
                      % (z, np.shape(blk['ne']), case['n_ne'], np.shape(blk['te']), case['n_te'], np.shape(blk['rates'])))
        else:
            print('parse_adf11 raised', st, out)
        shutil.rmtree(d, ignore_errors=True)
    ctx.tier = r.get('tier', ctx.tier)
    ctx.seed = r.get('seed', ctx.seed)
    ctx.rng = random.Random('%s/%s/%d' % (ctx.prop, ctx.tier, ctx.seed))
    run(ctx)
    return ctx.finish()
